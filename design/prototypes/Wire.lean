/- Design sketch (not framework code): little-endian u32 round trips with omega. -/
namespace W
def b (n : Nat) : UInt8 := UInt8.ofNat n
def le32 (x : Nat) : List UInt8 := [b x, b (x / 256), b (x / 65536), b (x / 16777216)]
def rd32 (b0 b1 b2 b3 : UInt8) : Nat := b0.toNat + 256 * b1.toNat + 65536 * b2.toNat + 16777216 * b3.toNat
theorem rt (x : Nat) (h : x < 2^32) : rd32 (b x) (b (x/256)) (b (x/65536)) (b (x/16777216)) = x := by
  simp only [rd32, b, UInt8.toNat_ofNat']
  omega
theorem rd32_lt (a c d e : UInt8) : rd32 a c d e < 2^32 := by
  have := a.toNat_lt; have := c.toNat_lt; have := d.toNat_lt; have := e.toNat_lt
  simp only [rd32]; omega
theorem rt2 (a c d e : UInt8) : le32 (rd32 a c d e) = [a, c, d, e] := by
  have := a.toNat_lt; have := c.toNat_lt; have := d.toNat_lt; have := e.toNat_lt
  simp only [le32, rd32, b]
  congr 1
  · apply UInt8.toNat_inj.mp; simp only [UInt8.toNat_ofNat']; omega
  congr 1
  · apply UInt8.toNat_inj.mp; simp only [UInt8.toNat_ofNat']; omega
  congr 1
  · apply UInt8.toNat_inj.mp; simp only [UInt8.toNat_ofNat']; omega
  congr 1
  · apply UInt8.toNat_inj.mp; simp only [UInt8.toNat_ofNat']; omega
end W
