namespace D
inductive Out (α : Type) where
  | ok : α → Out α
  | err : Out α
  | panic : Out α
deriving Repr, DecidableEq

instance : Monad Out where
  pure := .ok
  bind x f := match x with | .ok a => f a | .err => .err | .panic => .panic

@[simp] theorem bind_ok {α β} (a : α) (f : α → Out β) : (Out.ok a >>= f) = f a := rfl
@[simp] theorem bind_err {α β} (f : α → Out β) : ((Out.err : Out α) >>= f) = .err := rfl
@[simp] theorem bind_panic {α β} (f : α → Out β) : ((Out.panic : Out α) >>= f) = .panic := rfl
@[simp] theorem pure_eq {α} (a : α) : (pure a : Out α) = .ok a := rfl

abbrev Bytes := List UInt8

/-- Rust `&b[a..e]` -/
def sliceP (b : Bytes) (a e : Nat) : Out Bytes :=
  if a ≤ e ∧ e ≤ b.length then .ok ((b.drop a).take (e - a)) else .panic

def rd16 (b : Bytes) : Nat := (b.getD 0 0).toNat + 256 * (b.getD 1 0).toNat
def rd32 (b : Bytes) : Nat := (b.getD 0 0).toNat + 256 * (b.getD 1 0).toNat + 65536 * (b.getD 2 0).toNat + 16777216 * (b.getD 3 0).toNat

structure Raw where
  typ : Nat
  len : Nat
  sid : Nat
  bytes : Bytes
deriving Repr, DecidableEq

/-- serialize/mod.rs `deserialize` (after fix F3: type kept 16 bit) -/
def deserialize (buf : Bytes) : Out Raw :=
  if buf.length < 8 then .err else do   -- read_exact fails
  let typ := rd16 buf
  let len := rd16 (buf.drop 2)
  let sid := rd32 (buf.drop 4)
  if len < 8 then .err else
  if len > buf.length then .err else do
  let bytes ← sliceP buf 8 len
  pure ⟨typ, len, sid, bytes⟩

/-- ready::from_raw_msg with the F2 length check -/
def readyFromRaw (m : Raw) : Out Nat :=
  if m.bytes.length < 4 then .err else do
  let u ← sliceP m.bytes 0 4
  pure (rd32 u)

inductive Msg | rdy (id : Nat) | other (r : Raw)
deriving Repr, DecidableEq

def fromRaw (m : Raw) : Out Msg :=
  if m.typ = 5 then do let i ← readyFromRaw m; pure (.rdy i) else pure (.other m)

def fromBuf (buf : Bytes) : Out (Msg × Nat) :=
  match deserialize buf with
  | .panic => .panic
  | .err => do let m ← fromRaw ⟨255, 0, 0, buf⟩; pure (m, buf.length)
  | .ok r => do let m ← fromRaw r; pure (m, r.len)

theorem sliceP_ok (b : Bytes) (a e : Nat) (h : a ≤ e ∧ e ≤ b.length) :
    sliceP b a e = .ok ((b.drop a).take (e - a)) := by simp [sliceP, h]

theorem deserialize_no_panic (buf : Bytes) : deserialize buf ≠ .panic := by
  unfold deserialize
  split
  · simp
  · dsimp only
    split
    · simp
    · split
      · simp
      · rename_i h1 h2 h3
        have : (8:Nat) ≤ rd16 (buf.drop 2) ∧ rd16 (buf.drop 2) ≤ buf.length := by omega
        simp [sliceP_ok _ _ _ this]

theorem deserialize_ok (buf : Bytes) (r : Raw) (h : deserialize buf = .ok r) :
    8 ≤ r.len ∧ r.len ≤ buf.length ∧ r.bytes.length = r.len - 8 := by
  unfold deserialize at h
  split at h
  · simp at h
  · dsimp only at h
    split at h
    · simp at h
    · split at h
      · simp at h
      · rename_i h1 h2 h3
        have hh : (8:Nat) ≤ rd16 (buf.drop 2) ∧ rd16 (buf.drop 2) ≤ buf.length := by omega
        simp [sliceP_ok _ _ _ hh] at h
        subst h
        simp
        omega

theorem fromRaw_no_panic (m : Raw) : fromRaw m ≠ .panic := by
  unfold fromRaw readyFromRaw
  split
  · split
    · simp
    · rename_i h
      have : (0:Nat) ≤ 4 ∧ 4 ≤ m.bytes.length := by omega
      simp [sliceP_ok _ _ _ this]
  · simp

theorem fromBuf_no_panic (buf : Bytes) : fromBuf buf ≠ .panic := by
  unfold fromBuf
  split
  · rename_i h; exact absurd h (deserialize_no_panic buf)
  · have := fromRaw_no_panic ⟨255, 0, 0, buf⟩
    cases h : fromRaw ⟨255, 0, 0, buf⟩ <;> simp_all
  · rename_i r _
    have := fromRaw_no_panic r
    cases h : fromRaw r <;> simp_all

theorem fromBuf_progress (buf : Bytes) (m : Msg) (n : Nat) (h : fromBuf buf = .ok (m, n)) :
    n ≤ buf.length ∧ (n = 0 ↔ buf = []) := by
  unfold fromBuf at h
  split at h
  · simp at h
  · cases hf : fromRaw ⟨255, 0, 0, buf⟩ <;> simp [hf] at h
    obtain ⟨_, rfl⟩ := h
    simp
  · rename_i r hd
    have := deserialize_ok buf r hd
    cases hf : fromRaw r <;> simp [hf] at h
    obtain ⟨_, rfl⟩ := h
    constructor
    · omega
    · constructor
      · intro h0; omega
      · intro hb; subst hb; simp at this; omega
end D
