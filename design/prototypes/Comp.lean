/-
Design sketch (not framework code): correctness of a counter-allocating expression lowering,
parametric in the ALU, against an eager source evaluator. Mirrors the shape of
portus' compile_expr (fresh Tmp per operator node, left operand first) and libccp's
process_instruction (read left, read right, fault or write result).
-/
namespace C
abbrev Val := UInt64
inductive Reg | imm (n : Val) | var (i : Nat) | tmp (i : Nat)
deriving Repr, DecidableEq
inductive Expr | atom (r : Reg) | bin (op : Nat) (l r : Expr)
structure Instr where
  op : Nat
  res : Reg
  l : Reg
  r : Reg
structure St where
  vars : Nat → Val
  tmps : Nat → Val
structure Cres where
  is : List Instr
  reg : Reg
  k : Nat

variable (alu : Nat → Val → Val → Option Val)

def St.read (s : St) : Reg → Val
  | .imm n => n
  | .var i => s.vars i
  | .tmp i => s.tmps i
def St.write (s : St) (r : Reg) (v : Val) : St :=
  match r with
  | .imm _ => s
  | .var i => { s with vars := fun j => if j = i then v else s.vars j }
  | .tmp i => { s with tmps := fun j => if j = i then v else s.tmps j }

def step (s : St) (i : Instr) : Option St :=
  match alu i.op (s.read i.l) (s.read i.r) with
  | none => none
  | some v => some (s.write i.res v)

def run (s : St) : List Instr → Option St
  | [] => some s
  | i :: is => match step alu s i with
    | none => none
    | some s' => run s' is

theorem run_append (s : St) (a b : List Instr) :
    run alu s (a ++ b) = match run alu s a with | none => none | some s' => run alu s' b := by
  induction a generalizing s with
  | nil => simp [run]
  | cons i is ih =>
    simp only [List.cons_append, run]
    cases step alu s i with
    | none => simp
    | some s' => simp [ih]

def comp : Expr → Nat → Cres
  | .atom r, k => ⟨[], r, k⟩
  | .bin op l r, k =>
    let cl := comp l k
    let cr := comp r cl.k
    ⟨cl.is ++ cr.is ++ [⟨op, .tmp cr.k, cl.reg, cr.reg⟩], .tmp cr.k, cr.k + 1⟩

def Expr.src : Expr → Prop
  | .atom (.tmp _) => False
  | .atom _ => True
  | .bin _ l r => l.src ∧ r.src

def eval (vars : Nat → Val) : Expr → Option Val
  | .atom (.imm n) => some n
  | .atom (.var i) => some (vars i)
  | .atom (.tmp _) => none
  | .bin op l r =>
    match eval vars l with
    | none => none
    | some a => match eval vars r with
      | none => none
      | some b => alu op a b

theorem comp_mono (e : Expr) (k : Nat) : k ≤ (comp e k).k := by
  induction e generalizing k with
  | atom r => simp [comp]
  | bin op l r ihl ihr =>
    simp only [comp]
    have := ihl k
    have := ihr (comp l k).k
    omega

theorem comp_correct (e : Expr) (hs : e.src) (k : Nat) (s : St) :
    match eval alu s.vars e with
    | none => run alu s (comp e k).is = none
    | some v => ∃ s', run alu s (comp e k).is = some s' ∧ s'.vars = s.vars ∧
        s'.read (comp e k).reg = v ∧ (∀ j, j < k → s'.tmps j = s.tmps j) ∧
        (match (comp e k).reg with | .tmp j => k ≤ j ∧ j < (comp e k).k | _ => True) := by
  induction e generalizing k s with
  | atom r =>
    cases r with
    | imm n => simp [eval, comp, run, St.read]
    | var i => simp [eval, comp, run, St.read]
    | tmp i => simp [Expr.src] at hs
  | bin op l r ihl ihr =>
    obtain ⟨hl, hr⟩ := hs
    simp only [eval, comp]
    have hL := ihl hl k s
    cases el : eval alu s.vars l with
    | none =>
      simp only [el] at hL
      simp [run_append, hL]
    | some a =>
      simp only [el] at hL
      obtain ⟨s1, h1, hv1, hr1, hf1, hb1⟩ := hL
      have hR := ihr hr (comp l k).k s1
      rw [hv1] at hR
      cases er : eval alu s.vars r with
      | none =>
        simp only [er] at hR
        simp [run_append, h1, hR]
      | some b =>
        simp only [er] at hR
        obtain ⟨s2, h2, hv2, hr2, hf2, hb2⟩ := hR
        have hm1 := comp_mono l k
        have hm2 := comp_mono r (comp l k).k
        have hleft : s2.read (comp l k).reg = a := by
          rw [← hr1]
          cases hreg : (comp l k).reg with
          | imm n => simp [St.read]
          | var i => simp [St.read, hv2, hv1]
          | tmp j =>
            simp only [hreg] at hb1
            simp only [St.read]
            exact hf2 j hb1.2
        simp only [run_append, h1, h2, run, step, hleft, hr2]
        cases hal : alu op a b with
        | none => simp
        | some v =>
          refine ⟨_, rfl, ?_, ?_, ?_, ?_⟩
          · simp [St.write, hv2]
          · simp [St.read, St.write]
          · intro j hj
            simp only [St.write]
            have : j ≠ (comp r (comp l k).k).k := by omega
            simp [this]
            rw [hf2 j (by omega), hf1 j hj]
          · simp; omega
end C
