#!/bin/sh
# Build everything the checks need, offline, from files on disk only.
set -e
cd "$(dirname "$0")"
export CARGO_NET_OFFLINE=true
unset CARGO_TARGET_DIR CARGO_BUILD_TARGET_DIR
mkdir -p .build evidence replays
[ -f harness/Cargo.lock ] || cp /repo/Cargo.lock harness/Cargo.lock
(cd harness && cargo build --offline --quiet) || { cp /repo/Cargo.lock harness/Cargo.lock; (cd harness && cargo build --offline --quiet); }
(cd lean && lake build PortusModel pmodel)
bash harness/cvm/build.sh >/dev/null
echo setup-ok
