#!/bin/sh
# Build the libccp line-protocol driver (drv.c + the real libccp C sources) to /verif/.build/cvm/drv.
# Offline, idempotent. Prints the libccp source directory used. Non-zero exit on failure.
set -eu

HERE=$(cd "$(dirname "$0")" && pwd)
OUT_DIR=${CVM_OUT_DIR:-/verif/.build/cvm}
OUT=$OUT_DIR/drv
LOCK=${CVM_CARGO_LOCK:-/repo/Cargo.lock}
REG=${CARGO_HOME:-$HOME/.cargo}/registry/src

# 1. version pinned in /repo/Cargo.lock ([[package]] name = "libccp" -> next version line)
VER=
if [ -f "$LOCK" ]; then
    VER=$(awk '/^\[\[package\]\]/{p=0} /^name = "libccp"$/{p=1} p && /^version = /{gsub(/"/,"",$3); print $3; exit}' "$LOCK")
fi

L=
if [ -n "$VER" ]; then
    for d in "$REG"/*/libccp-"$VER"/libccp; do
        [ -f "$d/ccp.c" ] && L=$d && break
    done
fi
# 2. fall back to the newest libccp-* directory in the registry (version sort)
if [ -z "$L" ]; then
    L=$(for d in "$REG"/*/libccp-*/libccp; do
            [ -f "$d/ccp.c" ] || continue
            v=$(basename "$(dirname "$d")"); echo "${v#libccp-} $d"
        done | sort -V -k1,1 | tail -n 1 | cut -d' ' -f2-)
fi
if [ -z "$L" ]; then
    echo "build.sh: no libccp sources found under $REG (wanted version: ${VER:-any})" >&2
    exit 1
fi
echo "libccp dir: $L (Cargo.lock pin: ${VER:-none})"

# idempotence: skip if drv is newer than drv.c, build.sh and the libccp sources
if [ -x "$OUT" ] && [ "$OUT" -nt "$HERE/drv.c" ] && [ "$OUT" -nt "$HERE/build.sh" ] && [ "$OUT" -nt "$L/ccp.c" ]; then
    echo "up to date: $OUT"
    exit 0
fi

mkdir -p "$OUT_DIR"
# Flags: libccp's own Makefile uses -std=gnu99 -fgnu89-inline -O2 -D__LOG_INFO__ (info is also the header default).
# -fsigned-char pins check_update_fields_msg's `(u32)*buf` to the x86-64 behaviour (see README).
# -fno-strict-aliasing: libccp casts message bytes to packed structs.
${CC:-cc} -O1 -g -std=gnu99 -fgnu89-inline -fsigned-char -fno-strict-aliasing -Wall -Wextra \
    -Wno-unused-parameter -Wno-sign-compare -Wno-address-of-packed-member \
    -I"$L" "$HERE/drv.c" "$L/ccp.c" "$L/machine.c" "$L/serialize.c" "$L/ccp_priv.c" \
    -o "$OUT.tmp.$$" -lpthread
mv -f "$OUT.tmp.$$" "$OUT"
echo "built: $OUT"
