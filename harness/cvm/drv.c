/* drv.c -- line-protocol driver around the real libccp C sources, with a scripted clock.
 * Protocol and libccp behaviour notes: see README.md next to this file.
 *   in : VM <id> <op> ; <op> ; ...
 *   out: <id> INIT <rc> <sent> | <res> | <res> ...
 * Every case runs against a completely fresh struct ccp_datapath (libccp has no global state).
 */
#include <errno.h>
#include <signal.h>
#include <stdarg.h>
#include <stdio.h>
#include <stdlib.h>
#include <string.h>
#include <sys/types.h>
#include <sys/wait.h>
#include <unistd.h>
#include "ccp.h"

#define MAX_CONNS 4
#define MAX_PROGS 10
#define FTO_US    1000000000000000ULL /* 10^15 us; never reached because send_msg never fails */
#define DP_ID     1
#define MSG_PAD   16384 /* zero bytes appended after every M buffer (libccp over-reads, see README) */
#define HANG_SECS 5

/* ---------- output: own buffer + write(2), so the fatal-signal handler can flush safely ---------- */
static char obuf[1 << 16];
static size_t olen;
static void wr_all(const char *s, size_t n) {
    while (n) {
        ssize_t k = write(1, s, n);
        if (k < 0) { if (errno == EINTR) continue; _exit(5); }
        s += k; n -= (size_t)k;
    }
}
static void oflush(void) { wr_all(obuf, olen); olen = 0; }
static void oput(const char *s, size_t n) {
    if (n > sizeof obuf - olen) oflush();
    if (n > sizeof obuf) { wr_all(s, n); return; }
    memcpy(obuf + olen, s, n); olen += n;
}

/* ---------- growable string ---------- */
struct sb { char *p; size_t n, cap; };
static void sb_put(struct sb *b, const char *s, size_t n) {
    if (b->n + n + 1 > b->cap) {
        size_t c = b->cap ? b->cap : 1024;
        while (c < b->n + n + 1) c *= 2;
        b->p = realloc(b->p, c);
        if (!b->p) _exit(5);
        b->cap = c;
    }
    memcpy(b->p + b->n, s, n); b->n += n;
}
static void sb_fmt(struct sb *b, const char *fmt, ...) {
    char t[160]; va_list ap; int k;
    va_start(ap, fmt); k = vsnprintf(t, sizeof t, fmt, ap); va_end(ap);
    if (k > 0) sb_put(b, t, (size_t)k < sizeof t ? (size_t)k : sizeof t - 1);
}
static void sb_hex(struct sb *b, const unsigned char *d, size_t n) {
    static const char hx[] = "0123456789abcdef";
    char t[512]; size_t i, k = 0;
    for (i = 0; i < n; i++) {
        t[k++] = hx[d[i] >> 4]; t[k++] = hx[d[i] & 15];
        if (k == sizeof t) { sb_put(b, t, k); k = 0; }
    }
    sb_put(b, t, k);
}

/* ---------- per-case state ---------- */
static struct sb line;  /* result line of the current case (copied to obuf only when complete) */
static struct sb sent;  /* messages passed to send_msg during the current op */
static u64 clk;
static int cwnd_set, rate_set;
static u32 cwnd_val, rate_val;
static struct ccp_datapath dp;
static volatile sig_atomic_t in_case;
static const char *cur_id = "?";
static int want_log;

static void sb_sent(struct sb *b) { if (sent.n) sb_put(b, sent.p, sent.n); else sb_put(b, "-", 1); sent.n = 0; }

/* ---------- datapath callbacks ---------- */
static void cb_set_cwnd(struct ccp_connection *c, u32 v) { (void)c; cwnd_set = 1; cwnd_val = v; }
static void cb_set_rate(struct ccp_connection *c, u32 v) { (void)c; rate_set = 1; rate_val = v; }
static int cb_send(struct ccp_datapath *d, char *msg, int n) {
    (void)d;
    if (sent.n) sb_put(&sent, ",", 1);
    if (n <= 0 || n > 65536) sb_fmt(&sent, "!%d", n); /* libccp passed an error code as the size */
    else sb_hex(&sent, (unsigned char *)msg, (size_t)n);
    return 0;
}
static void cb_log(struct ccp_datapath *d, enum ccp_log_level lvl, const char *msg, int n) {
    (void)d;
    if (want_log) fprintf(stderr, "[libccp %d] %.*s%s", (int)lvl, n, msg, (n > 0 && msg[n - 1] == '\n') ? "" : "\n");
}
static u64 cb_now(void) { return clk; }
static u64 cb_since(u64 then) { return clk - then; }
static u64 cb_after(u64 us) { return clk + us; }

/* ---------- parsing helpers (strict: malformed => BAD) ---------- */
static int split(char *s, char sep, char **t, int max) { /* returns #tokens, or max+1 if more */
    int n = 0;
    for (;;) {
        if (n == max) return max + 1;
        t[n++] = s;
        s = strchr(s, sep);
        if (!s) return n;
        *s++ = 0;
    }
}
static int p_u64(const char *s, u64 *out) { /* decimal, digits only, must fit in u64 */
    u64 v = 0;
    if (!*s) return 0;
    for (; *s; s++) {
        unsigned d = (unsigned)(*s - '0');
        if (d > 9 || v > (UINT64_MAX - d) / 10) return 0;
        v = v * 10 + d;
    }
    *out = v; return 1;
}
static int hv(char c) { return (c >= '0' && c <= '9') ? c - '0' : (c >= 'a' && c <= 'f') ? c - 'a' + 10 : -1; }
static int p_hex(const char *s, unsigned char *out, size_t max, size_t *len) { /* lowercase hex or "-" */
    size_t n = 0;
    if (s[0] == '-' && !s[1]) { *len = 0; return 1; }
    if (!*s) return 0;
    for (; *s; s += 2) {
        int a = hv(s[0]), b = a < 0 ? -1 : hv(s[1]);
        if (b < 0 || n >= max) return 0;
        out[n++] = (unsigned char)(a << 4 | b);
    }
    *len = n; return 1;
}

/* ---------- ops ---------- */
static void do_op(char *op) {
    static unsigned char *mbuf; static size_t mcap;
    char *t[9], *pt[15];
    u64 v[8], pv[15];
    int i, nt = split(op, ' ', t, 8);
    sent.n = 0;
    if (nt == 2 && !strcmp(t[0], "T") && p_u64(t[1], &v[0])) {
        clk = v[0];
        sb_put(&line, "T", 1);
    } else if (nt == 2 && !strcmp(t[0], "M")) {
        size_t hl = strlen(t[1]), len;
        if (hl / 2 + MSG_PAD > mcap) { mcap = hl / 2 + MSG_PAD; mbuf = realloc(mbuf, mcap); if (!mbuf) _exit(5); }
        if (!p_hex(t[1], mbuf, mcap - MSG_PAD, &len)) goto bad;
        memset(mbuf + len, 0, MSG_PAD);
        sb_fmt(&line, "M %d ", ccp_read_msg(&dp, (char *)mbuf, (int)len));
        sb_sent(&line);
    } else if (nt == 8 && !strcmp(t[0], "S")) {
        struct ccp_datapath_info info;
        struct ccp_connection *c;
        size_t nl;
        memset(&info, 0, sizeof info);
        for (i = 0; i < 6; i++) if (!p_u64(t[1 + i], &v[i])) goto bad;
        if (!p_hex(t[7], (unsigned char *)info.congAlg, MAX_CONG_ALG_SIZE, &nl)) goto bad;
        info.init_cwnd = (u32)v[0]; info.mss = (u32)v[1];
        info.src_ip = (u32)v[2]; info.src_port = (u32)v[3];
        info.dst_ip = (u32)v[4]; info.dst_port = (u32)v[5];
        c = ccp_connection_start(&dp, NULL, &info);
        if (c) sb_fmt(&line, "S %u ", (unsigned)c->index); else sb_put(&line, "S NULL ", 7);
        sb_sent(&line);
    } else if (nt == 5 && !strcmp(t[0], "I")) {
        struct ccp_connection *c;
        struct ccp_primitives *p;
        int rc;
        for (i = 0; i < 3; i++) if (!p_u64(t[1 + i], &v[i])) goto bad;
        if (v[0] > 65535 || split(t[4], ',', pt, 15) != 15) goto bad;
        for (i = 0; i < 15; i++) if (!p_u64(pt[i], &pv[i])) goto bad;
        c = ccp_connection_lookup(&dp, (u16)v[0]);
        if (!c) { sb_put(&line, "I NOCONN", 8); return; }
        p = &c->prims;
        memset(p, 0, sizeof *p);
        p->snd_cwnd = (u32)v[1];            p->snd_rate = v[2];
        p->bytes_acked = (u32)pv[0];        /*  0 ACK_BYTES_ACKED        */
        p->bytes_misordered = (u32)pv[1];   /*  1 ACK_BYTES_MISORDERED   */
        p->ecn_bytes = (u32)pv[2];          /*  2 ACK_ECN_BYTES          */
        p->ecn_packets = (u32)pv[3];        /*  3 ACK_ECN_PACKETS        */
        p->lost_pkts_sample = (u32)pv[4];   /*  4 ACK_LOST_PKTS_SAMPLE   */
        /* 5 ACK_NOW has no struct field: libccp computes since_usecs(time_zero); value ignored */
        p->packets_acked = (u32)pv[6];      /*  6 ACK_PACKETS_ACKED      */
        p->packets_misordered = (u32)pv[7]; /*  7 ACK_PACKETS_MISORDERED */
        p->bytes_in_flight = (u32)pv[8];    /*  8 FLOW_BYTES_IN_FLIGHT   */
        p->bytes_pending = (u32)pv[9];      /*  9 FLOW_BYTES_PENDING     */
        p->packets_in_flight = (u32)pv[10]; /* 10 FLOW_PACKETS_IN_FLIGHT */
        p->rate_incoming = pv[11];          /* 11 FLOW_RATE_INCOMING     */
        p->rate_outgoing = pv[12];          /* 12 FLOW_RATE_OUTGOING     */
        p->rtt_sample_us = pv[13];          /* 13 FLOW_RTT_SAMPLE_US     */
        p->was_timeout = pv[14] != 0;       /* 14 FLOW_WAS_TIMEOUT       */
        cwnd_set = rate_set = 0;
        rc = ccp_invoke(c);
        sb_fmt(&line, "I %d c=", rc);
        if (cwnd_set) sb_fmt(&line, "%u", (unsigned)cwnd_val); else sb_put(&line, "-", 1);
        sb_put(&line, " r=", 3);
        if (rate_set) sb_fmt(&line, "%u", (unsigned)rate_val); else sb_put(&line, "-", 1);
        sb_put(&line, " ", 1);
        sb_sent(&line);
    } else if (nt == 2 && !strcmp(t[0], "F") && p_u64(t[1], &v[0]) && v[0] <= 65535) {
        ccp_connection_free(&dp, (u16)v[0]);
        sb_put(&line, "F ", 2);
        sb_sent(&line);
    } else {
bad:
        sb_put(&line, "BAD", 3);
    }
}

static void run_case(const char *id, char *ops) {
    struct ccp_connection *conns = calloc(MAX_CONNS, sizeof *conns);
    size_t i;
    int rc;
    if (!conns) _exit(5);
    line.n = sent.n = 0; clk = 0; cwnd_set = rate_set = 0;
    memset(&dp, 0, sizeof dp);
    dp.set_cwnd = cb_set_cwnd; dp.set_rate_abs = cb_set_rate; dp.send_msg = cb_send; dp.log = cb_log;
    dp.now = cb_now; dp.since_usecs = cb_since; dp.after_usecs = cb_after;
    dp.max_connections = MAX_CONNS; dp.ccp_active_connections = conns;
    dp.max_programs = MAX_PROGS; dp.fto_us = FTO_US;
    cur_id = id; in_case = 1; alarm(HANG_SECS);
    sb_put(&line, id, strlen(id));
    rc = ccp_init(&dp, DP_ID);
    sb_fmt(&line, " INIT %d ", rc);
    sb_sent(&line);
    while (ops) {
        char *e = strstr(ops, " ; ");
        if (e) *e = 0;
        sb_put(&line, " | ", 3);
        do_op(ops);
        ops = e ? e + 3 : NULL;
    }
    in_case = 0; alarm(0);
    /* teardown: per-connection private state of still-open connections, program table, connection array */
    for (i = 0; i < MAX_CONNS; i++) if (conns[i].index != 0) free(conns[i].state);
    if (dp.programs) ccp_free(&dp);
    free(conns);
    sb_put(&line, "\n", 1);
    oput(line.p, line.n);
}

/* SIGSEGV/SIGABRT/SIGBUS/SIGFPE/SIGILL inside libccp => "<id> CRASH", exit 3; SIGALRM => "<id> HANG", exit 4 */
static void on_fatal(int sig) {
    if (sig == SIGALRM && !in_case) return;
    if (!in_case) cur_id = "?";
    oput(cur_id, strlen(cur_id));
    if (sig == SIGALRM) oput(" HANG\n", 6); else oput(" CRASH\n", 7);
    oflush();
    _exit(sig == SIGALRM ? 4 : 3);
}

int main(int argc, char **argv) {
    static char altstack[1 << 16];
    static const int sigs[] = { SIGSEGV, SIGABRT, SIGBUS, SIGFPE, SIGILL, SIGALRM };
    int isolate = argc > 1 && !strcmp(argv[1], "--isolate"); /* fork per case; keep going after CRASH/HANG */
    stack_t ss; struct sigaction sa;
    char *ln = NULL; size_t cap = 0, i; ssize_t n;
    want_log = getenv("CVM_LOG") != NULL;
    memset(&ss, 0, sizeof ss); ss.ss_sp = altstack; ss.ss_size = sizeof altstack;
    sigaltstack(&ss, NULL);
    memset(&sa, 0, sizeof sa); sa.sa_handler = on_fatal; sa.sa_flags = SA_ONSTACK | SA_RESTART;
    sigemptyset(&sa.sa_mask);
    for (i = 0; i < sizeof sigs / sizeof *sigs; i++) sigaction(sigs[i], &sa, NULL);

    while ((n = getline(&ln, &cap, stdin)) >= 0) {
        char *id, *sp;
        if (n && ln[n - 1] == '\n') ln[--n] = 0;
        if (strncmp(ln, "VM ", 3) != 0 || ln[3] == 0 || ln[3] == ' ') { oput("? BADLINE\n", 10); continue; }
        id = ln + 3;
        sp = strchr(id, ' ');
        if (sp) *sp++ = 0;
        if (!isolate) { run_case(id, sp); continue; }
        oflush();
        {
            int st = 0; pid_t pid = fork();
            if (pid < 0) _exit(5);
            if (pid == 0) { run_case(id, sp); oflush(); _exit(0); }
            while (waitpid(pid, &st, 0) < 0 && errno == EINTR) {}
            if (WIFSIGNALED(st)) { oput(id, strlen(id)); oput(" CRASH\n", 7); }
        }
    }
    oflush();
    return 0;
}
