//! RUN: the real portus runtime (`RunBuilder::run`) driven inline by a scripted transport.
//! The line format, the script items and the trace are specified in RUN_PROTOCOL.md (normative).
use crate::hex;
use portus::ipc::{BackendBuilder, Ipc};
use portus::lang::Scope;
use portus::{CongAlg, Datapath, DatapathInfo, DatapathTrait, Flow, Report, RunBuilder};
use std::collections::{BTreeSet, HashMap, HashSet, VecDeque};
use std::panic::{catch_unwind, AssertUnwindSafe};
use std::sync::atomic::{AtomicBool, AtomicUsize, Ordering};
use std::sync::{Arc, Mutex, MutexGuard};

// ---------------------------------------------------------------------------------------------
// strict token parsing (nothing here may panic on malformed input)

/// decimal: non-empty, ASCII digits only (no sign), must fit the target type
fn dec<T: std::str::FromStr>(s: &str) -> Option<T> {
    if s.is_empty() || !s.bytes().all(|b| b.is_ascii_digit()) {
        return None;
    }
    s.parse().ok()
}

/// hex: `-` = empty, otherwise a non-empty even number of hex digits
fn xhex(s: &str) -> Option<Vec<u8>> {
    if s == "-" {
        return Some(vec![]);
    }
    if s.is_empty() || s.len() % 2 != 0 || !s.bytes().all(|b| b.is_ascii_hexdigit()) {
        return None;
    }
    crate::unhex(s)
}

fn xstr(s: &str) -> Option<String> {
    String::from_utf8(xhex(s)?).ok()
}

fn is_pname(s: &str) -> bool {
    !s.is_empty() && s.bytes().all(|b| b.is_ascii_alphanumeric() || b == b'_')
}

/// `&'static str`s are needed for algorithm and program names; leak each distinct string once
fn intern(s: &str) -> &'static str {
    static T: Mutex<BTreeSet<&'static str>> = Mutex::new(BTreeSet::new());
    let mut t = T.lock().unwrap_or_else(|e| e.into_inner());
    if let Some(x) = t.get(s) {
        return x;
    }
    let l: &'static str = Box::leak(s.to_string().into_boxed_str());
    t.insert(l);
    l
}

type Upd = Vec<(String, u32)>;

enum Cmd {
    Sp(&'static str, Option<Upd>),
    Uf(Upd),
    /// clear the runtime's stop flag from inside the callback
    St,
    Gf(String, String),          // field hex (as given), field
    Gfp(String, String, String), // pname, field hex (as given), field
    Cu(String, Upd),             // the flow compiles the program text itself (lang::compile with overrides); scope kept as <pname>_c
}

struct AlgCfg {
    name: &'static str,
    inst: bool,
    /// how often the runtime asked this algorithm for its programs: the documentation promises ONCE ("called once, when Portus
    /// initializes"); an algorithm may hand a prepared table over, so every later call answers with an empty table
    dp_calls: AtomicUsize,
    progs: Vec<(&'static str, String)>,
    nf: Vec<Cmd>,
    or: Vec<Cmd>,
}

enum Uid {
    Lit(u32),
    Prog(String),
}

enum M {
    Bytes(Vec<u8>),
    Ms(u32, Uid, Vec<u64>, Option<u32>), // the last: an explicit count word (`MC`), else the number of values
}

enum Item {
    Dgram(u32, Vec<M>),
    RecvErr,
    Stop,
    Fail(usize),
}

fn parse_upd(s: &str) -> Option<Upd> {
    s.split(';')
        .map(|t| {
            let (f, v) = t.split_once('=')?;
            Some((xstr(f)?, dec(v)?))
        })
        .collect()
}

fn parse_cmd(s: &str) -> Option<Cmd> {
    let p: Vec<&str> = s.split(':').collect();
    match p[..] {
        ["sp", n, u] if is_pname(n) => Some(Cmd::Sp(intern(n), if u == "-" { None } else { Some(parse_upd(u)?) })),
        ["uf", u] => Some(Cmd::Uf(if u == "-" { vec![] } else { parse_upd(u)? })),
        ["st"] => Some(Cmd::St),
        ["gf", f] => Some(Cmd::Gf(f.to_string(), xstr(f)?)),
        ["gfp", n, f] if is_pname(n) => Some(Cmd::Gfp(n.to_string(), f.to_string(), xstr(f)?)),
        ["cu", n, u] if is_pname(n) => Some(Cmd::Cu(n.to_string(), if u == "-" { vec![] } else { parse_upd(u)? })),
        _ => None,
    }
}

fn parse_cmds(s: &str) -> Option<Vec<Cmd>> {
    if s == "-" {
        return Some(vec![]);
    }
    s.split(',').map(parse_cmd).collect()
}

fn parse_progs(s: &str) -> Option<Vec<(&'static str, String)>> {
    if s == "-" {
        return Some(vec![]);
    }
    s.split(',')
        .map(|t| {
            let (n, h) = t.split_once('=')?;
            if !is_pname(n) {
                return None;
            }
            Some((intern(n), xstr(h)?))
        })
        .collect()
}

fn header(typ: u16, len: usize, sid: u32) -> Vec<u8> {
    let mut b = typ.to_le_bytes().to_vec();
    b.extend((len as u16).to_le_bytes());
    b.extend(sid.to_le_bytes());
    b
}

fn ms_bytes(sid: u32, uid: u32, vals: &[u64], count: Option<u32>) -> Vec<u8> {
    let mut b = header(1, 16 + 8 * vals.len(), sid);
    b.extend(uid.to_le_bytes());
    b.extend(count.unwrap_or(vals.len() as u32).to_le_bytes());
    for v in vals {
        b.extend(v.to_le_bytes());
    }
    b
}

fn parse_msg(s: &str) -> Option<M> {
    let p: Vec<&str> = s.split('.').collect();
    match p[..] {
        ["CR", sid, a, b, c, d, e, f, alg] => {
            let name = xhex(alg)?;
            if name.len() > 64 {
                return None;
            }
            let mut m = header(0, 96, dec(sid)?);
            for x in [a, b, c, d, e, f] {
                m.extend(dec::<u32>(x)?.to_le_bytes());
            }
            m.extend(&name);
            m.resize(96, 0);
            Some(M::Bytes(m))
        }
        ["MS", sid, uid, vals] => {
            let uid = match uid.strip_prefix("u:") {
                Some(n) if is_pname(n) => Uid::Prog(n.to_string()),
                Some(_) => return None,
                None => Uid::Lit(dec(uid)?),
            };
            let vals: Vec<u64> = if vals == "-" { vec![] } else { vals.split(';').map(dec).collect::<Option<_>>()? };
            if 16 + 8 * vals.len() > 0xffff {
                return None;
            }
            Some(M::Ms(dec(sid)?, uid, vals, None))
        }
        // a well-framed measurement whose count word does not match the values it carries
        ["MC", sid, uid, count, vals] => {
            let uid = match uid.strip_prefix("u:") {
                Some(n) if is_pname(n) => Uid::Prog(n.to_string()),
                Some(_) => return None,
                None => Uid::Lit(dec(uid)?),
            };
            let vals: Vec<u64> = if vals == "-" { vec![] } else { vals.split(';').map(dec).collect::<Option<_>>()? };
            if 16 + 8 * vals.len() > 0xffff {
                return None;
            }
            Some(M::Ms(dec(sid)?, uid, vals, Some(dec(count)?)))
        }
        ["RD", id] => {
            let mut m = header(5, 12, 0);
            m.extend(dec::<u32>(id)?.to_le_bytes());
            Some(M::Bytes(m))
        }
        ["RAW", h] => Some(M::Bytes(xhex(h)?)),
        _ => None,
    }
}

fn parse_item(t: &str) -> Option<Item> {
    match t {
        "E" => return Some(Item::RecvErr),
        "X" => return Some(Item::Stop),
        _ => {}
    }
    if let Some(k) = t.strip_prefix("SF") {
        return Some(Item::Fail(dec(k)?));
    }
    let (a, ms) = t.split_once(':')?;
    Some(Item::Dgram(dec(a)?, ms.split('+').map(parse_msg).collect::<Option<_>>()?))
}

fn parse(args: &[&str]) -> Option<(Vec<AlgCfg>, VecDeque<Item>)> {
    let mut algs = vec![];
    let mut i = 0;
    while args.get(i) == Some(&"ALG") {
        let a = args.get(i + 1..i + 9)?;
        if a[2] != "PROGS" || a[4] != "NF" || a[6] != "OR" {
            return None;
        }
        algs.push(AlgCfg {
            name: intern(&xstr(a[0])?),
            inst: match a[1] {
                "1" => true,
                "0" => false,
                _ => return None,
            },
            dp_calls: AtomicUsize::new(0),
            progs: parse_progs(a[3])?,
            nf: parse_cmds(a[5])?,
            or: parse_cmds(a[7])?,
        });
        i += 9;
    }
    if algs.is_empty() || algs.len() > 5 || !algs[0].inst || args.get(i) != Some(&"SCRIPT") {
        return None;
    }
    Some((algs, args[i + 1..].iter().map(|t| parse_item(t)).collect::<Option<_>>()?))
}

// ---------------------------------------------------------------------------------------------
// shared observation state

enum Ev {
    In(u32, String), // install sent to addr; rendered uid
    Dr(usize),
    S(String),
}

#[derive(Default)]
struct St {
    log: Vec<Ev>,
    uid2p: HashMap<u32, String>,
    p2uid: HashMap<String, u32>,
    cands: HashMap<u32, Vec<String>>,
    flows: usize,
    closes: usize,
    /// when the case asks for it: a COPY of the first flow's handle kept outside the runtime (a handle that outlives its owner)
    park: bool,
    /// the runtime's stop flag, for the policy command `st` (a flow that requests the stop from inside a callback); weak, so that
    /// the strong count the trace reports is not disturbed
    flag: Option<std::sync::Weak<AtomicBool>>,
}

thread_local! {
    /// the parked handle (a `Datapath` is not `Send`; the runtime runs inline on the thread of the case)
    static PARKED: std::cell::RefCell<Option<Datapath<Sock>>> = std::cell::RefCell::new(None);
}

type Sh = Arc<Mutex<St>>;

fn lk(s: &Sh) -> MutexGuard<'_, St> {
    s.lock().unwrap_or_else(|e| e.into_inner())
}

fn say(s: &Sh, line: String) {
    lk(s).log.push(Ev::S(line));
}

/// uids are shown by the NAME of the program they belong to; the name is filled in when the run is rendered (`name_uids`), because
/// for programs with byte-identical text the install message alone does not say which name a uid belongs to - `set_program` does
fn show_uid(_st: &St, uid: u32) -> String {
    format!("u#{}", uid)
}

/// replace every `u#<uid>` token by `u:<program name>` (or `?<uid>`): names known for sure (unique image, or told by set_program /
/// the flow's own compilation) first; the uids of identical images that no flow ever selected get the remaining names in order
fn name_uids(st: &St, lines: Vec<String>) -> Vec<String> {
    let mut map: HashMap<u32, String> = st.uid2p.clone();
    let mut used: HashSet<String> = map.values().cloned().collect();
    let mut open: Vec<(&u32, &Vec<String>)> = st.cands.iter().filter(|(u, _)| !map.contains_key(u)).collect();
    open.sort();
    for (u, names) in open {
        let mut names = names.clone();
        names.sort();
        if let Some(n) = names.into_iter().find(|n| !used.contains(n)) {
            used.insert(n.clone());
            map.insert(*u, n);
        }
    }
    lines
        .into_iter()
        .map(|l| {
            l.split(' ')
                .map(|t| match t.strip_prefix("u#").and_then(|n| n.parse::<u32>().ok()) {
                    Some(u) => match map.get(&u) {
                        Some(p) => format!("u:{}", p),
                        None => format!("?{}", u),
                    },
                    None => t.to_string(),
                })
                .collect::<Vec<_>>()
                .join(" ")
        })
        .collect()
}

// ---------------------------------------------------------------------------------------------
// the scripted transport

/// The address type of the scripted transport. Its `Debug` output is deliberately the same for every address (the trait
/// only promises `Eq + Hash` for identity; code that keys anything on the Debug rendering is wrong) - `Display` is the number.
#[derive(Clone, Copy, Default, PartialEq, Eq, Hash)]
pub struct A(pub u32);
impl std::fmt::Debug for A {
    fn fmt(&self, f: &mut std::fmt::Formatter<'_>) -> std::fmt::Result {
        write!(f, "addr")
    }
}
impl std::fmt::Display for A {
    fn fmt(&self, f: &mut std::fmt::Formatter<'_>) -> std::fmt::Result {
        write!(f, "{}", self.0)
    }
}

/// cloneable (so that `Datapath<Sock>: Clone` and flows can issue commands through a COPY of their handle)
#[derive(Clone)]
struct Sock(Arc<SockInner>);

struct SockInner {
    script: Mutex<VecDeque<Item>>,
    fail: AtomicUsize,
    flag: Arc<AtomicBool>,
    images: Vec<(String, Vec<u8>)>,
    sh: Sh,
}

impl Ipc for Sock {
    type Addr = A;
    fn name() -> String {
        "scripted".into()
    }

    fn send(&self, msg: &[u8], to: &A) -> portus::Result<()> {
        let mut st = lk(&self.0.sh);
        let typ = if msg.len() >= 2 { u16::from_le_bytes([msg[0], msg[1]]) } else { 0xffff };
        let at = |o: usize| u32::from_le_bytes([msg[o], msg[o + 1], msg[o + 2], msg[o + 3]]);
        let ev = if typ == 2 && msg.len() >= 20 {
            let uid = at(8);
            let mut names: Vec<String> = self.0.images.iter().filter(|(_, im)| im[..] == msg[20..]).map(|(p, _)| p.clone()).collect();
            names.sort();
            names.dedup(); // (a program registered by several algorithms is listed once per algorithm)
            if names.len() == 1 {
                st.uid2p.insert(uid, names[0].clone());
                st.p2uid.insert(names[0].clone(), uid);
            } else if names.len() > 1 {
                st.cands.insert(uid, names); // identical program texts: which name this uid belongs to is told by set_program
            }
            Ev::In(to.0, show_uid(&st, uid))
        } else if typ == 4 && msg.len() >= 16 {
            Ev::S(format!("TX {} CP {} {} {}", to, at(4), show_uid(&st, at(8)), hex(&msg[16..])))
        } else if typ == 3 && msg.len() >= 12 {
            Ev::S(format!("TX {} UF {} {}", to, at(4), hex(&msg[12..])))
        } else {
            Ev::S(format!("TX {} OT {}", to, hex(msg)))
        };
        if RAW.load(Ordering::SeqCst) {
            st.log.push(Ev::S(format!("RAW {}", hex(msg))));
        }
        let f = self.0.fail.load(Ordering::SeqCst);
        if f > 0 {
            self.0.fail.store(f - 1, Ordering::SeqCst);
            st.log.push(Ev::S(format!("TXFAIL {}", to)));
            return Err(portus::Error("scripted send failure".into()));
        }
        st.log.push(ev);
        Ok(())
    }

    fn recv(&self, buf: &mut [u8]) -> portus::Result<(usize, A)> {
        let mut sc = self.0.script.lock().unwrap_or_else(|e| e.into_inner());
        loop {
            match sc.pop_front() {
                Some(Item::Fail(k)) => self.0.fail.store(k, Ordering::SeqCst),
                None | Some(Item::Stop) => {
                    self.0.flag.store(false, Ordering::SeqCst);
                    return Err(portus::Error("stop".into()));
                }
                Some(Item::RecvErr) => return Err(portus::Error("recv error".into())),
                Some(Item::Dgram(a, ms)) => {
                    let mut d = vec![];
                    for m in ms {
                        match m {
                            M::Bytes(b) => d.extend(b),
                            M::Ms(sid, uid, vals, count) => {
                                let uid = match uid {
                                    Uid::Lit(u) => u,
                                    Uid::Prog(p) => lk(&self.0.sh).p2uid.get(&p).copied().unwrap_or(0),
                                };
                                d.extend(ms_bytes(sid, uid, &vals, count));
                            }
                        }
                    }
                    let n = d.len().min(1024).min(buf.len());
                    buf[..n].copy_from_slice(&d[..n]);
                    lk(&self.0.sh).log.push(Ev::S(format!("RX {} {}", a, n)));
                    return Ok((n, A(a)));
                }
            }
        }
    }

    fn close(&mut self) -> portus::Result<()> {
        lk(&self.0.sh).closes += 1;
        Ok(())
    }
}

// ---------------------------------------------------------------------------------------------
// algorithms and flows

/// `CongAlg::name()` has no `self`: one type per configured algorithm, names looked up by index
static NAMES: Mutex<[&'static str; 5]> = Mutex::new([""; 5]);

struct Alg<const N: usize> {
    cfg: Arc<AlgCfg>,
    sh: Sh,
}

struct Fl {
    id: usize,
    dp: Datapath<Sock>,
    cfg: Arc<AlgCfg>,
    cur: Option<Scope>,
    scopes: HashMap<String, Scope>,
    sh: Sh,
}

impl<const N: usize> CongAlg<Sock> for Alg<N> {
    type Flow = Fl;

    fn name() -> &'static str {
        NAMES.lock().unwrap_or_else(|e| e.into_inner())[N]
    }

    fn datapath_programs(&self) -> HashMap<&'static str, String> {
        if self.cfg.dp_calls.fetch_add(1, Ordering::SeqCst) > 0 {
            return HashMap::new();
        }
        self.cfg.progs.iter().cloned().collect()
    }

    fn new_flow(&self, control: Datapath<Sock>, i: DatapathInfo) -> Fl {
        let id = {
            let mut st = lk(&self.sh);
            st.flows += 1;
            st.flows
        };
        say(
            &self.sh,
            format!(
                "NF {} {} - {} {} {} {} {} {} {} h={}",
                id,
                hex(<Self as CongAlg<Sock>>::name().as_bytes()),
                i.sock_id,
                i.init_cwnd,
                i.mss,
                i.src_ip,
                i.src_port,
                i.dst_ip,
                i.dst_port,
                control.get_sock_id()
            ),
        );
        if lk(&self.sh).park {
            PARKED.with(|p| {
                let mut p = p.borrow_mut();
                if p.is_none() {
                    *p = Some(control.clone());
                }
            });
        }
        let mut f = Fl { id, dp: control, cfg: self.cfg.clone(), cur: None, scopes: HashMap::new(), sh: self.sh.clone() };
        f.exec(false, None);
        f
    }
}

fn err_kind(e: &str) -> &'static str {
    if e.contains("this report does not match the current scope") {
        "stale"
    } else if e.contains("is not a report variable") {
        "invalidtype"
    } else if e.contains("in scope but was not found in the report") {
        "invalidreport"
    } else if e.contains("was not found in this scope") {
        "notfound"
    } else {
        "other"
    }
}

fn gf_res(rep: Option<&Report>, sc: Option<&Scope>, field: &str) -> String {
    match (rep, sc) {
        (None, _) => "NOREPORT".into(),
        (_, None) => "NOSCOPE".into(),
        (Some(r), Some(sc)) => match r.get_field(field, sc) {
            Ok(v) => format!("OK {}", v),
            Err(e) => format!("ERR {}", err_kind(&e.0)),
        },
    }
}

fn as_refs(u: &Upd) -> Vec<(&str, u32)> {
    u.iter().map(|(f, v)| (f.as_str(), *v)).collect()
}

impl Fl {
    /// run the policy commands of `new_flow` (`rep` = None) or `on_report`
    fn exec(&mut self, in_or: bool, rep: Option<&Report>) {
        let cfg = self.cfg.clone();
        for (k, c) in (if in_or { &cfg.or } else { &cfg.nf }).iter().enumerate() {
            // every other command is issued through a fresh COPY of the flow's handle (`Datapath: Clone`): a copy must behave
            // exactly like the handle it was copied from
            let mut copy = self.dp.clone();
            let via_copy = (k + self.id as usize) % 2 == 1;
            let line = match c {
                Cmd::Sp(p, upd) => {
                    let v = upd.as_ref().map(as_refs);
                    match (if via_copy { &mut copy } else { &mut self.dp }).set_program(p, v.as_deref()) {
                        Ok(sc) => {
                            {
                                let mut st = lk(&self.sh);
                                if st.cands.contains_key(&sc.program_uid) && !st.uid2p.contains_key(&sc.program_uid) {
                                    st.uid2p.insert(sc.program_uid, p.to_string());
                                    st.p2uid.insert(p.to_string(), sc.program_uid);
                                }
                            }
                            let l = format!("SP {} OK {}", p, show_uid(&lk(&self.sh), sc.program_uid));
                            self.scopes.insert(p.to_string(), sc.clone());
                            self.cur = Some(sc);
                            l
                        }
                        Err(_) => format!("SP {} ERR", p),
                    }
                }
                Cmd::Uf(u) => match &self.cur {
                    None => "UF NOSCOPE".to_string(),
                    Some(sc) => match (if via_copy { &copy } else { &self.dp }).update_field(sc, &as_refs(u)) {
                        Ok(()) => "UF OK".to_string(),
                        Err(_) => "UF ERR".to_string(),
                    },
                },
                Cmd::St => {
                    let f = lk(&self.sh).flag.as_ref().and_then(|w| w.upgrade());
                    if let Some(f) = f {
                        f.store(false, Ordering::SeqCst);
                    }
                    "ST".to_string()
                }
                Cmd::Gf(h, f) => format!("GF {} {}", h, gf_res(rep, self.cur.as_ref(), f)),
                Cmd::Gfp(p, h, f) => format!("GFP {} {} {}", p, h, gf_res(rep, self.scopes.get(p), f)),
                Cmd::Cu(p, upd) => {
                    // (the program text as registered by this flow's own algorithm)
                    let src = cfg.progs.iter().rev().find(|(n, _)| *n == p.as_str()).map(|(_, s)| s.clone());
                    let r = src.and_then(|src| {
                        catch_unwind(std::panic::AssertUnwindSafe(|| portus::lang::compile(src.as_bytes(), &as_refs(upd)))).ok().and_then(|r| r.ok())
                    });
                    match r {
                        Some((_, sc)) => {
                            let key = format!("{}_c", p);
                            {
                                let mut st = lk(&self.sh);
                                st.uid2p.insert(sc.program_uid, key.clone());
                                st.p2uid.insert(key.clone(), sc.program_uid);
                            }
                            self.scopes.insert(key, sc);
                            format!("CU {} OK", p)
                        }
                        None => format!("CU {} ERR", p),
                    }
                }
            };
            say(&self.sh, line);
        }
    }
}

impl Flow for Fl {
    fn on_report(&mut self, sock_id: u32, m: Report) {
        if PAIR_MODE.load(Ordering::Relaxed) {
            std::thread::sleep(std::time::Duration::from_micros(30));
        }
        let l = format!("RP {} {} {}", self.id, sock_id, show_uid(&lk(&self.sh), m.program_uid));
        say(&self.sh, l);
        self.exec(true, Some(&m));
    }

    fn close(&mut self) {
        say(&self.sh, format!("CL {}", self.id));
    }
}

impl Drop for Fl {
    fn drop(&mut self) {
        lk(&self.sh).log.push(Ev::Dr(self.id));
    }
}

// ---------------------------------------------------------------------------------------------

/// canonical order: install batches (`nprogs` consecutive installs to one address) sorted by their
/// rendering, maximal runs of `DR` sorted by flow number
fn render(log: &[Ev], nprogs: usize) -> Vec<String> {
    let mut out = vec![];
    let mut i = 0;
    while i < log.len() {
        match &log[i] {
            Ev::S(s) => {
                out.push(s.clone());
                i += 1;
            }
            Ev::Dr(_) => {
                let mut ids = vec![];
                while let Some(Ev::Dr(d)) = log.get(i) {
                    ids.push(*d);
                    i += 1;
                }
                ids.sort();
                out.extend(ids.iter().map(|d| format!("DR {}", d)));
            }
            Ev::In(a, _) => {
                let mut batch = vec![];
                while batch.len() < nprogs.max(1) {
                    match log.get(i) {
                        Some(Ev::In(a2, r)) if a2 == a => {
                            batch.push(r.clone());
                            i += 1;
                        }
                        _ => break,
                    }
                }
                batch.sort();
                out.extend(batch.iter().map(|r| format!("TX {} IN {}", a, r)));
            }
        }
    }
    out
}

/// set while RUNRAW runs: every transmitted message is also logged in full
pub static RAW: AtomicBool = AtomicBool::new(false);

/// set while RUNPAIR runs: flow callbacks then pause briefly, so that the two runtimes really overlap in time
static PAIR_MODE: AtomicBool = AtomicBool::new(false);

/// `RUNPAIR <RUN args> || <RUN args>`: two runtimes alive in the same process at the same time, each on its own thread with
/// its own transport; each must behave exactly as it does alone (`<trace A> || <trace B>`)
pub fn runpair(args: &[&str]) -> String {
    let k = match args.iter().position(|t| *t == "||") {
        Some(k) => k,
        None => return "BADARG".into(),
    };
    let a: Vec<String> = args[..k].iter().map(|s| s.to_string()).collect();
    let b: Vec<String> = args[k + 1..].iter().map(|s| s.to_string()).collect();
    // the harness keeps algorithm names in process-global slots (CongAlg::name() is a static fn): both halves must register
    // the same algorithms - the scripts differ
    let cfg = |v: &Vec<String>| v.iter().take_while(|t| *t != "SCRIPT").cloned().collect::<Vec<_>>();
    if cfg(&a) != cfg(&b) {
        return "BADARG".into();
    }
    PAIR_MODE.store(true, Ordering::SeqCst);
    let go = Arc::new(std::sync::Barrier::new(2));
    let spawn = |v: Vec<String>, go: Arc<std::sync::Barrier>| {
        std::thread::spawn(move || {
            let r: Vec<&str> = v.iter().map(|s| s.as_str()).collect();
            go.wait();
            catch_unwind(|| run(&r)).unwrap_or_else(|_| "PANIC".to_string())
        })
    };
    let (ha, hb) = (spawn(a, go.clone()), spawn(b, go));
    let (ra, rb) = (ha.join().unwrap_or_else(|_| "PANIC".into()), hb.join().unwrap_or_else(|_| "PANIC".into()));
    PAIR_MODE.store(false, Ordering::SeqCst);
    format!("{} || {}", ra, rb)
}

pub fn run(args: &[&str]) -> String {
    let (algs, items) = match parse(args) {
        Some(x) => x,
        None => return "BADARG".into(),
    };
    // image -> pname (only algorithms with an instance contribute programs); a program that does
    // not compile (or makes the compiler panic) has no image: `run()` will fail on it by itself
    let mut images = vec![];
    let mut pnames = HashSet::new();
    for a in algs.iter().filter(|a| a.inst) {
        for (p, src) in &a.progs {
            pnames.insert(*p);
            // RUNRAW: the runtime's own compilations must be the first ones of the process (the raw messages are what is wanted)
            if RAW.load(Ordering::SeqCst) {
                continue;
            }
            if let Ok(Ok((img, _))) = catch_unwind(|| portus::lang::compile_and_serialize(src.as_bytes(), &[])) {
                images.push((p.to_string(), img));
            }
        }
    }
    let flag = Arc::new(AtomicBool::new(true));
    let sh: Sh = Arc::new(Mutex::new(St::default()));
    // two variations chosen by the length of the script (so that the model can follow): every third case parks a copy of the
    // first flow's handle outside the runtime; every other case registers the algorithms BY REFERENCE (`&'static A: CongAlg`)
    let n_items = items.len();
    lk(&sh).park = n_items % 3 == 0;
    lk(&sh).flag = Some(Arc::downgrade(&flag));
    PARKED.with(|p| *p.borrow_mut() = None);
    let by_ref = n_items % 2 == 1;
    let sock = Sock(Arc::new(SockInner { script: Mutex::new(items), fail: AtomicUsize::new(0), flag: flag.clone(), images, sh: sh.clone() }));
    {
        let mut n = NAMES.lock().unwrap_or_else(|e| e.into_inner());
        *n = [""; 5];
        for (i, a) in algs.iter().enumerate() {
            n[i] = a.name;
        }
    }
    let algs: Vec<Arc<AlgCfg>> = algs.into_iter().map(Arc::new).collect();
    fn mk<const N: usize>(algs: &[Arc<AlgCfg>], sh: &Sh) -> Option<Alg<N>> {
        let c = algs.get(N)?;
        if c.inst {
            Some(Alg { cfg: c.clone(), sh: sh.clone() })
        } else {
            None
        }
    }
    let default = match mk::<0>(&algs, &sh) {
        Some(a) => a,
        None => return "BADARG".into(),
    };
    let h = flag.clone();
    let res = catch_unwind(AssertUnwindSafe(|| {
        macro_rules! add {
            ($rb:expr, $n:literal) => {
                $rb.additional_alg::<Alg<$n>, Option<Alg<$n>>>(mk::<$n>(&algs, &sh))
            };
        }
        macro_rules! addr {
            ($rb:expr, $n:literal) => {
                $rb.additional_alg::<&'static Alg<$n>, Option<&'static Alg<$n>>>(
                    mk::<$n>(&algs, &sh).map(|a| -> &'static Alg<$n> { Box::leak(Box::new(a)) }),
                )
            };
        }
        if by_ref {
            let d: &'static Alg<0> = Box::leak(Box::new(default));
            let rb = RunBuilder::new(BackendBuilder { sock }).default_alg(d);
            match algs.len() {
                1 => rb.with_stop_handle(h).run(),
                2 => addr!(rb, 1).with_stop_handle(h).run(),
                3 => addr!(addr!(rb, 1), 2).with_stop_handle(h).run(),
                4 => addr!(addr!(addr!(rb, 1), 2), 3).with_stop_handle(h).run(),
                _ => addr!(addr!(addr!(addr!(rb, 1), 2), 3), 4).with_stop_handle(h).run(),
            }
        } else {
            let rb = RunBuilder::new(BackendBuilder { sock }).default_alg(default);
            match algs.len() {
                1 => rb.with_stop_handle(h).run(),
                2 => add!(rb, 1).with_stop_handle(h).run(),
                3 => add!(add!(rb, 1), 2).with_stop_handle(h).run(),
                4 => add!(add!(add!(rb, 1), 2), 3).with_stop_handle(h).run(),
                _ => add!(add!(add!(add!(rb, 1), 2), 3), 4).with_stop_handle(h).run(),
            }
        }
    }));
    // a handle that outlived the runtime: using it now must give an error (nothing can be sent any more), never a panic
    let parked = PARKED.with(|p| p.borrow_mut().take());
    let late = match parked {
        None => "NONE",
        Some(dp) => {
            let sc = portus::lang::Scope::new();
            match catch_unwind(AssertUnwindSafe(|| dp.update_field(&sc, &[("Cwnd", 1)]))) {
                Ok(Ok(())) => "OK",
                Ok(Err(_)) => "ERR",
                Err(_) => "PANIC",
            }
        }
    };
    let r = match res {
        Ok(Ok(())) => "OK",
        Ok(Err(_)) => "ERR",
        Err(_) => "PANIC",
    };
    let strong = Arc::strong_count(&flag);
    let st = lk(&sh);
    let named: Vec<Ev> = st
        .log
        .iter()
        .map(|e| match e {
            Ev::In(a, r) => Ev::In(*a, name_uids(&st, vec![r.clone()]).remove(0)),
            Ev::S(l) => Ev::S(name_uids(&st, vec![l.clone()]).remove(0)),
            Ev::Dr(d) => Ev::Dr(*d),
        })
        .collect();
    let mut out = render(&named, pnames.len());
    out.push(format!("RES {} closes={} strong={} late={}", r, st.closes, strong, late));
    out.join(" | ")
}

pub fn getf(_args: &[&str]) -> String {
    "TODO".into()
}
