pub fn run(_args: &[&str]) -> String { "TODO".into() }
pub fn getf(_args: &[&str]) -> String { "TODO".into() }
