//! STOP: stop requests against a transport with real blocking receives (C18).
//! `STOP <run> <handle> <point> <k>`: run = inline|spawn; handle = caller|internal (internal = CCPHandle::kill, spawn only);
//! point = pre | mid | blocked | flood | badmsg | quiet (k = datagrams delivered before the clear for `mid`; for `quiet`: the stop
//! comes after k ms in which every receive failed after 2 ms).
//! Answer: `RES HANG` (no return within 8 s) or `RES <OK|ERR|PANIC> closes=<n> recv_after_clear_le1=<0|1> late_cb=<n> latency_ok=<0|1> strong=<k>`
use portus::ipc::{BackendBuilder, Ipc};
use portus::{CongAlg, Datapath, DatapathInfo, Flow, Report};
use std::collections::HashMap;
use std::sync::atomic::{AtomicBool, AtomicUsize, Ordering};
use std::sync::{Arc, Mutex};
use std::time::{Duration, Instant};

const BLOCK_MS: u64 = 100;

struct Shared {
    cleared: AtomicBool,
    cleared_at: Mutex<Option<Instant>>,
    recv_after_clear: AtomicUsize,
    closes: AtomicUsize,
    last_cb: Mutex<Option<Instant>>,
    delivered: AtomicUsize,
}

struct Sock {
    sh: Arc<Shared>,
    handle: Option<Arc<AtomicBool>>, // for `mid`: the socket clears the flag itself between two datagrams
    clear_after: usize,
    flood: bool,
    quiet: bool, // a receive with nothing to deliver fails after 2 ms (a nonblocking / short-timeout transport on an idle link)
    script: Mutex<Vec<Vec<u8>>>,
}

/// the flag is cleared FIRST and only then the harness starts counting receives "after the clear": a receive that
/// starts between the two stores is not counted (the count may undercount, never overcount)
fn do_clear(sh: &Shared, h: &AtomicBool) {
    *sh.cleared_at.lock().unwrap() = Some(Instant::now());
    h.store(false, Ordering::SeqCst);
    sh.cleared.store(true, Ordering::SeqCst);
}

impl Ipc for Sock {
    type Addr = u32;
    fn name() -> String {
        "timed".into()
    }
    fn send(&self, _m: &[u8], _to: &u32) -> portus::Result<()> {
        Ok(())
    }
    fn recv(&self, buf: &mut [u8]) -> portus::Result<(usize, u32)> {
        if self.sh.cleared.load(Ordering::SeqCst) {
            self.sh.recv_after_clear.fetch_add(1, Ordering::SeqCst);
        }
        if let Some(h) = &self.handle {
            if self.sh.delivered.load(Ordering::SeqCst) == self.clear_after && !self.sh.cleared.load(Ordering::SeqCst) {
                do_clear(&self.sh, h);
            }
        }
        let next = {
            let mut s = self.script.lock().unwrap();
            if s.is_empty() {
                None
            } else {
                Some(s.remove(0))
            }
        };
        let d = match next {
            Some(d) => d,
            None if self.flood => measure(1, 0, &[1, 2]),
            None if self.quiet => {
                std::thread::sleep(Duration::from_millis(2));
                return Err(portus::Error("timeout".into()));
            }
            None => {
                std::thread::sleep(Duration::from_millis(BLOCK_MS));
                return Err(portus::Error("timeout".into()));
            }
        };
        self.sh.delivered.fetch_add(1, Ordering::SeqCst);
        buf[..d.len()].copy_from_slice(&d);
        Ok((d.len(), 5))
    }
    fn close(&mut self) -> portus::Result<()> {
        self.sh.closes.fetch_add(1, Ordering::SeqCst);
        Ok(())
    }
}

fn hdr(t: u16, l: u16, sid: u32) -> Vec<u8> {
    let mut v = vec![];
    v.extend(t.to_le_bytes());
    v.extend(l.to_le_bytes());
    v.extend(sid.to_le_bytes());
    v
}
fn measure(sid: u32, uid: u32, f: &[u64]) -> Vec<u8> {
    let mut v = hdr(1, 16 + 8 * f.len() as u16, sid);
    v.extend(uid.to_le_bytes());
    v.extend((f.len() as u32).to_le_bytes());
    for x in f {
        v.extend(x.to_le_bytes());
    }
    v
}
fn create(sid: u32) -> Vec<u8> {
    let mut v = hdr(0, 96, sid);
    v.extend([0u8; 24]);
    v.extend([0u8; 64]);
    v
}

struct Alg(Arc<Shared>);
struct Fl(Arc<Shared>);
impl Flow for Fl {
    fn on_report(&mut self, _s: u32, _m: Report) {
        *self.0.last_cb.lock().unwrap() = Some(Instant::now());
    }
    fn close(&mut self) {
        *self.0.last_cb.lock().unwrap() = Some(Instant::now());
    }
}
impl CongAlg<Sock> for Alg {
    type Flow = Fl;
    fn name() -> &'static str {
        "stop"
    }
    fn datapath_programs(&self) -> HashMap<&'static str, String> {
        let mut m = HashMap::new();
        m.insert("p", "(def (Report (x 0))) (when true (:= Report.x 1) (report))".to_string());
        m
    }
    fn new_flow(&self, _c: Datapath<Sock>, _i: DatapathInfo) -> Fl {
        *self.0.last_cb.lock().unwrap() = Some(Instant::now());
        Fl(self.0.clone())
    }
}

/// the run is bounded by a watchdog: a stop request that does not end the run within 8 s is answered `RES HANG`
/// (the stuck thread is abandoned; it dies with the process)
/// two more registrations, so that the builder chain has every kind of step
struct Alg2(Arc<Shared>);
impl CongAlg<Sock> for Alg2 {
    type Flow = Fl;
    fn name() -> &'static str {
        "stop2"
    }
    fn datapath_programs(&self) -> HashMap<&'static str, String> {
        HashMap::new()
    }
    fn new_flow(&self, _c: Datapath<Sock>, _i: DatapathInfo) -> Fl {
        Fl(self.0.clone())
    }
}
struct Alg3(Arc<Shared>);
impl CongAlg<Sock> for Alg3 {
    type Flow = Fl;
    fn name() -> &'static str {
        "stop3"
    }
    fn datapath_programs(&self) -> HashMap<&'static str, String> {
        HashMap::new()
    }
    fn new_flow(&self, _c: Datapath<Sock>, _i: DatapathInfo) -> Fl {
        Fl(self.0.clone())
    }
}

pub fn stop(args: &[&str]) -> String {
    let owned: Vec<String> = args.iter().map(|s| s.to_string()).collect();
    let (tx, rx) = std::sync::mpsc::channel();
    std::thread::spawn(move || {
        let a: Vec<&str> = owned.iter().map(|s| s.as_str()).collect();
        let _ = tx.send(stop_inner(&a));
    });
    match rx.recv_timeout(Duration::from_secs(8)) {
        Ok(r) => r,
        Err(_) => "RES HANG".into(),
    }
}

fn stop_inner(args: &[&str]) -> String {
    if args.len() != 4 {
        return "BADARG".into();
    }
    let (run, handle, point) = (args[0], args[1], args[2]);
    let k: usize = args[3].parse().unwrap_or(0);
    if handle == "internal" && run.trim_end_matches("-early").trim_end_matches("-raw") != "spawn" {
        return "BADARG".into();
    }
    let sh = Arc::new(Shared {
        cleared: AtomicBool::new(false),
        cleared_at: Mutex::new(None),
        recv_after_clear: AtomicUsize::new(0),
        closes: AtomicUsize::new(0),
        last_cb: Mutex::new(None),
        delivered: AtomicUsize::new(0),
    });
    let stop_arc = Arc::new(AtomicBool::new(true));
    let mut script = vec![create(1)];
    for i in 0..6u64 {
        script.push(measure(1, 0, &[i, i + 1]));
    }
    if point == "badmsg" {
        script.insert(3, hdr(1, 12, 1).into_iter().chain([1, 2, 3, 4]).collect());
    }
    let sock = Sock {
        sh: sh.clone(),
        handle: if point == "mid" && handle == "caller" { Some(stop_arc.clone()) } else { None },
        clear_after: k,
        flood: point == "flood",
        quiet: point == "quiet",
        script: Mutex::new(script),
    };
    if point == "pre" && handle == "caller" {
        do_clear(&sh, &stop_arc);
    }
    // the stop handle may be supplied at either end of the builder chain; every later builder step must carry it along
    // (`<run>-early`: handle first, then default_alg / additional_alg / try_additional_alg / spawn_thread)
    // `-raw`: the handle is supplied through `with_raw_stop_handle(Arc::into_raw(..))` (first in the chain), the other public way
    let raw = run.ends_with("-raw");
    let early = run.ends_with("-early") || raw;
    let run = run.trim_end_matches("-early").trim_end_matches("-raw");
    let b0 = portus::RunBuilder::new(BackendBuilder { sock });
    let b0 = if handle == "caller" && raw {
        unsafe { b0.with_raw_stop_handle(Arc::into_raw(stop_arc.clone())) }
    } else if handle == "caller" && early {
        b0.with_stop_handle(stop_arc.clone())
    } else {
        b0
    };
    let mut b = b0
        .default_alg(Alg(sh.clone()))
        .additional_alg(Alg2(sh.clone()))
        .try_additional_alg::<Alg3>(None);
    if handle == "caller" && !early {
        b = b.with_stop_handle(stop_arc.clone());
    }
    let clear_later = |sh: Arc<Shared>, h: Arc<AtomicBool>, ms: u64| {
        std::thread::spawn(move || {
            std::thread::sleep(Duration::from_millis(ms));
            if !sh.cleared.load(Ordering::SeqCst) {
                do_clear(&sh, &h);
            }
        })
    };
    let res: Result<portus::Result<()>, ()>;
    let returned_at;
    if run == "inline" {
        let helper = if point == "blocked" || point == "flood" {
            Some(clear_later(sh.clone(), stop_arc.clone(), 150))
        } else if point == "quiet" {
            Some(clear_later(sh.clone(), stop_arc.clone(), k as u64)) // after k ms of nothing but failed receives
        } else {
            None
        };
        res = std::panic::catch_unwind(std::panic::AssertUnwindSafe(|| b.run())).map_err(|_| ());
        returned_at = Instant::now();
        if let Some(h) = helper {
            let _ = h.join();
        }
    } else {
        let h = match b.spawn_thread().run() {
            Ok(h) => h,
            Err(_) => return "RES SPAWNERR".into(),
        };
        match point {
            "pre" if handle == "internal" => {
                *sh.cleared_at.lock().unwrap() = Some(Instant::now());
                h.kill();
                sh.cleared.store(true, Ordering::SeqCst);
            }
            "mid" | "blocked" | "flood" | "quiet" => {
                std::thread::sleep(Duration::from_millis(if point == "mid" { 5 + k as u64 } else if point == "quiet" { k as u64 } else { 150 }));
                if !sh.cleared.load(Ordering::SeqCst) {
                    *sh.cleared_at.lock().unwrap() = Some(Instant::now());
                    if handle == "internal" {
                        h.kill();
                    } else {
                        stop_arc.store(false, Ordering::SeqCst);
                    }
                    sh.cleared.store(true, Ordering::SeqCst);
                }
            }
            _ => {}
        }
        let r = h.wait();
        returned_at = Instant::now();
        res = match r {
            Err(portus::Error(ref s)) if s.contains("panicked") => Err(()),
            other => Ok(other),
        };
    }
    std::thread::sleep(Duration::from_millis(30)); // a late callback would show up now
    let late = match *sh.last_cb.lock().unwrap() {
        Some(t) if t > returned_at => 1,
        _ => 0,
    };
    let latency_ok = match *sh.cleared_at.lock().unwrap() {
        // `quiet`: the receive timeout is 2 ms, so is "about one receive timeout" (400 ms of slack for a loaded machine)
        Some(c) => returned_at.saturating_duration_since(c) <= Duration::from_millis(if point == "quiet" { 400 } else { BLOCK_MS + 1000 }),
        None => true,
    };
    let r = match res {
        Ok(Ok(())) => "OK",
        Ok(Err(_)) => "ERR",
        Err(()) => "PANIC",
    };
    // the runtime only ever READS the caller's flag: after a stop it is still cleared (another holder of the same handle - a
    // second runtime, a supervisor - must still see the request)
    let flag_kept = if handle == "caller" && point != "badmsg" { !stop_arc.load(Ordering::SeqCst) } else { true };
    format!(
        "RES {} closes={} recv_after_clear_le1={} late_cb={} latency_ok={} strong={}{}",
        r,
        sh.closes.load(Ordering::SeqCst),
        (sh.recv_after_clear.load(Ordering::SeqCst) <= 1) as u8,
        late,
        latency_ok as u8,
        Arc::strong_count(&stop_arc),
        if flag_kept { "" } else { " FLAG-RESET" }
    )
}


// ---------------------------------------------------------------------------------------------
// STOPX: the same over the BUNDLED transports (their receive timeout is what bounds the stop latency)

struct AlgX;
struct FlX;
impl Flow for FlX {
    fn on_report(&mut self, _s: u32, _m: Report) {}
}
impl<I: Ipc> CongAlg<I> for AlgX {
    type Flow = FlX;
    fn name() -> &'static str {
        "stopx"
    }
    fn datapath_programs(&self) -> HashMap<&'static str, String> {
        let mut m = HashMap::new();
        m.insert("p", "(def (Report (x 0))) (when true (:= Report.x 1) (report))".to_string());
        m
    }
    fn new_flow(&self, _c: Datapath<I>, _i: DatapathInfo) -> FlX {
        FlX
    }
}

/// `STOPX unix <new|skbuf|skbufsz>` / `STOPX chan b`: a spawned runtime on a real blocking transport, some traffic, then silence;
/// `kill()` during the silence; `wait()` must yield Ok within the transport's 1 s receive timeout (+1.5 s slack):
/// `RESX <OK|ERR|HANG> latency_ok=<0|1>`
pub fn stopx(args: &[&str]) -> String {
    if args.len() != 2 {
        return "BADARG".into();
    }
    let tag = format!("vpx{}-{}", std::process::id(), std::time::SystemTime::now().duration_since(std::time::UNIX_EPOCH).map(|d| d.subsec_nanos()).unwrap_or(0));
    let (tx, rx) = std::sync::mpsc::channel();
    let a: Vec<String> = args.iter().map(|s| s.to_string()).collect();
    std::thread::spawn(move || {
        let r = std::panic::catch_unwind(|| stopx_inner(&a[0], &a[1], &tag)).unwrap_or_else(|_| "RESX PANIC".to_string());
        let _ = tx.send(r);
    });
    match rx.recv_timeout(Duration::from_secs(8)) {
        Ok(r) => r,
        Err(_) => "RESX HANG latency_ok=0".into(),
    }
}

fn stopx_inner(kind: &str, ctor: &str, tag: &str) -> String {
    use portus::ipc::Blocking;
    let finish = |h: portus::CCPHandle, quiet_ms: u64| {
        std::thread::sleep(Duration::from_millis(quiet_ms));
        let t = Instant::now();
        h.kill();
        let r = h.wait();
        let lat = t.elapsed();
        format!("RESX {} latency_ok={}", if r.is_ok() { "OK" } else { "ERR" }, (lat <= Duration::from_millis(2500)) as u8)
    };
    match kind {
        "unix" => {
            let rname = format!("{}-r", tag);
            let sock = match ctor {
                "new" => portus::ipc::unix::Socket::<Blocking>::new(&rname),
                "skbuf" => portus::ipc::unix::Socket::<Blocking>::new_with_skbuf(&rname, None, None),
                "skbufsz" => portus::ipc::unix::Socket::<Blocking>::new_with_skbuf(&rname, Some(65536), Some(65536)),
                _ => return "BADARG".into(),
            };
            let sock = match sock {
                Ok(s) => s,
                Err(_) => return "RESX SOCKERR".into(),
            };
            let peer = match portus::ipc::unix::Socket::<Blocking>::new(&format!("{}-p", tag)) {
                Ok(s) => s,
                Err(_) => return "RESX SOCKERR".into(),
            };
            let h = match portus::RunBuilder::new(BackendBuilder { sock }).default_alg(AlgX).spawn_thread().run() {
                Ok(h) => h,
                Err(_) => return "RESX SPAWNERR".into(),
            };
            let to = std::path::PathBuf::from(format!("/tmp/ccp/{}", rname));
            let _ = peer.send(&create(1), &to);
            for i in 0..3u64 {
                let _ = peer.send(&measure(1, 0, &[i, i + 1]), &to);
            }
            let out = finish(h, 150);
            let _ = std::fs::remove_file(format!("/tmp/ccp/{}", rname));
            let _ = std::fs::remove_file(format!("/tmp/ccp/{}-p", tag));
            out
        }
        // datagrams from a peer WITHOUT a pathname (an unbound socket) are not attributable to any datapath: the receive call reports
        // them as a failed read and the loop goes round again - polling the stop flag (round 6: they were retried inside recv, by a
        // loop that never looks at the flag / by recursion that grows the stack with every such datagram). `burst`: thousands back to
        // back, then a named peer's create + report must still be served; `steady`: one every 20 ms across the stop request.
        "unixnoise" => {
            let rname = format!("{}-r", tag);
            let sock = match portus::ipc::unix::Socket::<Blocking>::new(&rname) {
                Ok(s) => s,
                Err(_) => return "RESX SOCKERR".into(),
            };
            let peer = match portus::ipc::unix::Socket::<Blocking>::new(&format!("{}-p", tag)) {
                Ok(s) => s,
                Err(_) => return "RESX SOCKERR".into(),
            };
            let anon = match std::os::unix::net::UnixDatagram::unbound() {
                Ok(s) => s,
                Err(_) => return "RESX SOCKERR".into(),
            };
            let h = match portus::RunBuilder::new(BackendBuilder { sock }).default_alg(AlgX).spawn_thread().run() {
                Ok(h) => h,
                Err(_) => return "RESX SPAWNERR".into(),
            };
            let to = std::path::PathBuf::from(format!("/tmp/ccp/{}", rname));
            let _ = peer.send(&create(1), &to);
            let stop_noise = Arc::new(AtomicBool::new(false));
            let noise = {
                let (to, stop_noise, burst) = (to.clone(), stop_noise.clone(), ctor == "burst");
                std::thread::spawn(move || {
                    let pkt = [7u8; 8];
                    if burst {
                        let mut sent = 0;
                        while sent < 6000 && !stop_noise.load(Ordering::SeqCst) {
                            match anon.send_to(&pkt, &to) {
                                Ok(_) => sent += 1,
                                Err(_) => std::thread::sleep(Duration::from_micros(200)), // receiver queue full: let it drain
                            }
                        }
                    } else {
                        while !stop_noise.load(Ordering::SeqCst) {
                            let _ = anon.send_to(&pkt, &to);
                            std::thread::sleep(Duration::from_millis(20));
                        }
                    }
                })
            };
            let mut noise = Some(noise);
            if ctor == "burst" {
                if let Some(n) = noise.take() {
                    let _ = n.join();
                }
            }
            let _ = peer.send(&measure(1, 0, &[1, 2]), &to);
            let out = finish(h, 400);
            stop_noise.store(true, Ordering::SeqCst);
            if let Some(n) = noise.take() {
                let _ = n.join();
            }
            let _ = std::fs::remove_file(format!("/tmp/ccp/{}", rname));
            let _ = std::fs::remove_file(format!("/tmp/ccp/{}-p", tag));
            out
        }
        "chan" => {
            let (to_ccp, from_dp) = crossbeam::channel::unbounded::<Vec<u8>>();
            let (to_dp, _from_ccp) = crossbeam::channel::unbounded::<Vec<u8>>();
            let sock = portus::ipc::chan::Socket::<Blocking>::new(to_dp, from_dp);
            let h = match portus::RunBuilder::new(BackendBuilder { sock }).default_alg(AlgX).spawn_thread().run() {
                Ok(h) => h,
                Err(_) => return "RESX SPAWNERR".into(),
            };
            let _ = to_ccp.send(create(1));
            for i in 0..3u64 {
                let _ = to_ccp.send(measure(1, 0, &[i, i + 1]));
            }
            let out = finish(h, 150);
            drop(to_ccp);
            out
        }
        _ => "BADARG".into(),
    }
}
