//! DEC / DECS / ENC : `portus::serialize`
use crate::{hex, unhex};
use portus::serialize::{self, create, measure, ready, Msg};

/// the private `bytes` field of a `RawMsg`, read off its derived `Debug` rendering
/// (`get_bytes()` strips a prefix for some type codes, so it is not the field itself)
fn raw_bytes_hex(r: &serialize::RawMsg) -> String {
    let d = format!("{:?}", r);
    let start = match d.find("bytes: [") {
        Some(i) => i + 8,
        None => return "NODEBUG".into(),
    };
    let end = match d[start..].find(']') {
        Some(i) => start + i,
        None => return "NODEBUG".into(),
    };
    let body = d[start..end].trim();
    if body.is_empty() {
        return "-".into();
    }
    let v: Option<Vec<u8>> = body.split(',').map(|t| t.trim().parse().ok()).collect();
    match v {
        Some(v) => hex(&v),
        None => "NODEBUG".into(),
    }
}

pub fn show_msg(m: &Msg, n: usize) -> String {
    match m {
        Msg::Cr(c) => format!(
            "OK CR {} {} {} {} {} {} {} {} {}",
            c.sid,
            c.init_cwnd,
            c.mss,
            c.src_ip,
            c.src_port,
            c.dst_ip,
            c.dst_port,
            match &c.cong_alg {
                None => "-".to_string(),
                Some(s) => format!("s:{}", hex(s.as_bytes())),
            },
            n
        ),
        Msg::Ms(m) => format!(
            "OK MS {} {} {} {} {}",
            m.sid,
            m.program_uid,
            m.num_fields,
            if m.fields.is_empty() {
                "-".to_string()
            } else {
                m.fields.iter().map(|f| f.to_string()).collect::<Vec<_>>().join(",")
            },
            n
        ),
        Msg::Rdy(r) => format!("OK RD {} {}", r.id, n),
        Msg::Ins(_) => format!("OK INS {}", n),
        Msg::Other(r) => format!(
            "OK OT {} {} {} {} {}",
            r.typ,
            r.len,
            r.sid,
            raw_bytes_hex(r),
            n
        ),
    }
}

/// a per-thread mapping `[PROT_NONE page][DATA_PAGES read/write pages][PROT_NONE page]`: a buffer placed flush against either
/// guard page turns any read outside the slice (C04: "stays inside the buffer") into a fault - the process dies and the
/// runner reports the case in progress (`ABORT`) - instead of a silently ignored read of neighbouring heap bytes
const DATA_PAGES: usize = 64;
thread_local! {
    static GUARDED: std::cell::OnceCell<(usize, usize)> = const { std::cell::OnceCell::new() };
}

fn guarded_region() -> Option<(usize, usize)> {
    GUARDED.with(|g| {
        *g.get_or_init(|| unsafe {
            let page = libc::sysconf(libc::_SC_PAGESIZE) as usize;
            let total = (DATA_PAGES + 2) * page;
            let base = libc::mmap(std::ptr::null_mut(), total, libc::PROT_READ | libc::PROT_WRITE,
                                  libc::MAP_PRIVATE | libc::MAP_ANONYMOUS, -1, 0);
            if base == libc::MAP_FAILED {
                return (0, 0);
            }
            let base = base as usize;
            if libc::mprotect(base as *mut libc::c_void, page, libc::PROT_NONE) != 0
                || libc::mprotect((base + (DATA_PAGES + 1) * page) as *mut libc::c_void, page, libc::PROT_NONE) != 0
            {
                return (0, 0);
            }
            (base + page, DATA_PAGES * page)
        })
    })
    .into()
}

/// the same bytes placed at every residue mod 8 of the address space, and flush against an inaccessible page on either side:
/// decoding must depend on the bytes only and must not touch anything outside them
fn at_every_placement(buf: &[u8], f: impl Fn(&[u8]) -> String + Sync) -> String {
    let mut backing = vec![0u8; buf.len() + 16];
    let pad = (8 - (backing.as_ptr() as usize) % 8) % 8;
    let mut first: Option<String> = None;
    for off in 0..8 {
        let lo = pad + off;
        backing[lo..lo + buf.len()].copy_from_slice(buf);
        let r = f(&backing[lo..lo + buf.len()]);
        match &first {
            None => first = Some(r),
            Some(r0) if *r0 != r => return format!("PLACEMENT-DEPENDENT at address residue {}: {} // residue 0: {}", off, r, r0),
            _ => {}
        }
    }
    // ... and on a thread with a SMALL stack (64 KiB), at an odd address: decoding needs no more stack than a few frames, wherever
    // the bytes lie (round 6: misaligned payloads were copied into a 64 KiB scratch array on the stack - an abort on small stacks)
    {
        let lo = pad + 1;
        backing[lo..lo + buf.len()].copy_from_slice(buf);
        let view = &backing[lo..lo + buf.len()];
        let fr = &f;
        let r = std::thread::scope(|s| {
            std::thread::Builder::new()
                .stack_size(64 << 10)
                .spawn_scoped(s, move || fr(view))
                .ok()
                .and_then(|h| h.join().ok())
        });
        match r {
            Some(r) if Some(&r) != first.as_ref() => {
                return format!("PLACEMENT-DEPENDENT on a 64 KiB stack: {} // on the main thread: {}", r, first.unwrap_or_default())
            }
            None => return "PLACEMENT-DEPENDENT on a 64 KiB stack: the decoding thread died".to_string(),
            _ => {}
        }
    }
    if let Some((start, len)) = guarded_region() {
        if len >= buf.len() && len > 0 {
            for (what, at) in [("end flush against an inaccessible page", start + len - buf.len()), ("start flush against an inaccessible page", start)] {
                let s = unsafe {
                    std::ptr::copy_nonoverlapping(buf.as_ptr(), at as *mut u8, buf.len());
                    std::slice::from_raw_parts(at as *const u8, buf.len())
                };
                let r = f(s);
                if Some(&r) != first.as_ref() {
                    return format!("PLACEMENT-DEPENDENT with the {}: {} // on the heap: {}", what, r, first.unwrap_or_default());
                }
            }
        }
    }
    first.unwrap()
}

pub fn dec(args: &[&str]) -> String {
    let buf = match args.get(0).and_then(|h| unhex(h)) {
        Some(b) => b,
        None => return "BADARG".into(),
    };
    at_every_placement(&buf, |b| match Msg::from_buf(b) {
        Ok((m, n)) => show_msg(&m, n),
        Err(_) => "ERR".into(),
    })
}

/// iterate `from_buf` over the buffer as `Backend::next` does over one datagram
pub fn decs(args: &[&str]) -> String {
    let buf = match args.get(0).and_then(|h| unhex(h)) {
        Some(b) => b,
        None => return "BADARG".into(),
    };
    at_every_placement(&buf, decs_at)
}

fn decs_at(buf: &[u8]) -> String {
    let mut out = vec![];
    let mut pos = 0usize;
    while pos < buf.len() {
        match Msg::from_buf(&buf[pos..]) {
            Ok((m, n)) => {
                out.push(show_msg(&m, n));
                if n == 0 {
                    out.push("STUCK".into());
                    break;
                }
                pos += n;
            }
            Err(_) => {
                out.push("ERR".into());
                break;
            }
        }
    }
    if out.is_empty() {
        "EMPTY".into()
    } else {
        out.join(" | ")
    }
}

fn p32(s: &str) -> Option<u32> {
    s.parse().ok()
}

/// a writer that takes at most `cap` bytes per `write` call (a pipe or socket with little room): `AsRawMsg::get_*` are
/// writer-generic public methods, so a message streamed through them must come out byte for byte as `serialize()` builds it
struct Trickle {
    cap: usize,
    got: Vec<u8>,
}
impl std::io::Write for Trickle {
    fn write(&mut self, b: &[u8]) -> std::io::Result<usize> {
        let n = b.len().min(self.cap);
        self.got.extend_from_slice(&b[..n]);
        Ok(n)
    }
    fn flush(&mut self) -> std::io::Result<()> {
        Ok(())
    }
}

pub static STREAM_DIFF: std::sync::atomic::AtomicBool = std::sync::atomic::AtomicBool::new(false);

/// `serialize::serialize`, cross-checked against the same message streamed through the trait methods into trickling writers
pub fn ser<T: portus::serialize::AsRawMsg>(m: &T) -> portus::Result<Vec<u8>> {
    let full = serialize::serialize(m);
    for cap in [1usize, 5, 33, 4096] {
        let mut w = Trickle { cap, got: vec![] };
        let r = m.get_u32s(&mut w).and_then(|_| m.get_u64s(&mut w)).and_then(|_| m.get_bytes(&mut w));
        match (&full, r) {
            (Ok(f), Ok(())) if f.len() >= 8 && f[8..] == w.got[..] => {}
            (Ok(_), _) => STREAM_DIFF.store(true, std::sync::atomic::Ordering::SeqCst),
            (Err(_), _) => {} // serialize() refuses the message as a whole (too long): nothing to compare
        }
    }
    full
}

pub static REPR_DIFF: std::sync::atomic::AtomicBool = std::sync::atomic::AtomicBool::new(false);

/// an equal vector with a lot of spare capacity (a reused scratch list, a truncated list)
pub fn roomy<T: Clone>(v: &[T]) -> Vec<T> {
    let mut r = Vec::with_capacity(v.len() * 2 + 700);
    r.extend_from_slice(v);
    r
}

/// `ser` of two EQUAL messages held differently in memory (exact-capacity vs roomy collections): the bytes are a function of the
/// message's value, so both must give the same outcome
pub fn ser2<T: portus::serialize::AsRawMsg>(a: &T, b: &T) -> portus::Result<Vec<u8>> {
    let ra = ser(a);
    let rb = serialize::serialize(b);
    let same = match (&ra, &rb) {
        (Ok(x), Ok(y)) => x == y,
        (Err(_), Err(_)) => true,
        _ => false,
    };
    if !same {
        REPR_DIFF.store(true, std::sync::atomic::Ordering::SeqCst);
    }
    ra
}

pub fn enc(args: &[&str]) -> String {
    STREAM_DIFF.store(false, std::sync::atomic::Ordering::SeqCst);
    REPR_DIFF.store(false, std::sync::atomic::Ordering::SeqCst);
    let r = enc_inner(args);
    if STREAM_DIFF.load(std::sync::atomic::Ordering::SeqCst) {
        return format!("STREAMDIFF {}", r);
    }
    if REPR_DIFF.load(std::sync::atomic::Ordering::SeqCst) {
        return format!("REPRDIFF {}", r);
    }
    r
}

fn enc_inner(args: &[&str]) -> String {
    let r = match args.get(0).copied() {
        Some("CR") if args.len() == 9 => {
            let v: Option<Vec<u32>> = args[1..8].iter().map(|s| p32(s)).collect();
            let v = match v {
                Some(v) => v,
                None => return "BADARG".into(),
            };
            let alg = if args[8] == "-" {
                None
            } else if let Some(h) = args[8].strip_prefix("s:") {
                match unhex(if h.is_empty() { "-" } else { h }).and_then(|b| String::from_utf8(b).ok()) {
                    Some(s) => Some(s),
                    None => return "SKIP".into(),
                }
            } else {
                return "BADARG".into();
            };
            let mk = |alg: Option<String>| create::Msg {
                sid: v[0],
                init_cwnd: v[1],
                mss: v[2],
                src_ip: v[3],
                src_port: v[4],
                dst_ip: v[5],
                dst_port: v[6],
                cong_alg: alg,
            };
            let roomy_alg = alg.as_ref().map(|a| {
                let mut r = String::with_capacity(a.len() * 2 + 300);
                r.push_str(a);
                r
            });
            ser2(&mk(alg), &mk(roomy_alg))
        }
        Some("MS") if args.len() == 5 => {
            let sid = p32(args[1]);
            let uid = p32(args[2]);
            let nf: Option<u8> = args[3].parse().ok();
            let fields: Option<Vec<u64>> = if args[4] == "-" {
                Some(vec![])
            } else {
                args[4].split(',').map(|s| s.parse().ok()).collect()
            };
            match (sid, uid, nf, fields) {
                (Some(sid), Some(uid), Some(nf), Some(fields)) => {
                    let mk = |fields: Vec<u64>| measure::Msg {
                        sid,
                        program_uid: uid,
                        num_fields: nf,
                        fields,
                    };
                    let r = roomy(&fields);
                    ser2(&mk(fields), &mk(r))
                }
                _ => return "BADARG".into(),
            }
        }
        Some("RD") if args.len() == 2 => match p32(args[1]) {
            Some(id) => ser(&ready::Msg { id }),
            None => return "BADARG".into(),
        },
        Some("CP") | Some("UF") | Some("IN") => return crate::lang::enc_ctl(args),
        _ => return "BADARG".into(),
    };
    match r {
        Ok(b) => format!("OK {}", hex(&b)),
        Err(_) => "ERR".into(),
    }
}

/// RT: encode each `;`-separated message with the real encoder, concatenate, decode iteratively
pub fn rt(args: &[&str]) -> String {
    let mut bytes = vec![];
    for m in args.split(|t| *t == ";") {
        let r = enc(m);
        match r.strip_prefix("OK ") {
            Some(h) => bytes.extend(unhex(h).unwrap()),
            None => return format!("{} =>", r),
        }
    }
    let h = hex(&bytes);
    format!("OK {} => {}", h, decs(&[&h]))
}


/// DECPAR <hex> <hex> ...: every buffer decoded alone (the answers), then all of them decoded 3000 times each on their own threads
/// at the same time: a decoder has no business sharing state between threads (`STABLE` | `UNSTABLE thread=<i> <got>`)
pub fn decpar(args: &[&str]) -> String {
    let bufs: Option<Vec<Vec<u8>>> = args.iter().map(|h| unhex(h)).collect();
    let bufs = match bufs {
        Some(b) if b.len() >= 2 && b.len() <= 16 => b,
        _ => return "BADARG".into(),
    };
    let one = |b: &[u8]| match Msg::from_buf(b) {
        Ok((m, n)) => show_msg(&m, n),
        Err(_) => "ERR".to_string(),
    };
    let alone: Vec<String> = bufs.iter().map(|b| one(b)).collect();
    let go = std::sync::Arc::new(std::sync::Barrier::new(bufs.len()));
    let hs: Vec<_> = bufs
        .into_iter()
        .zip(alone.clone())
        .enumerate()
        .map(|(i, (b, want))| {
            let go = go.clone();
            std::thread::spawn(move || {
                go.wait();
                for _ in 0..3000 {
                    let got = match Msg::from_buf(&b) {
                        Ok((m, n)) => show_msg(&m, n),
                        Err(_) => "ERR".to_string(),
                    };
                    if got != want {
                        return Some(format!("UNSTABLE thread={} {}", i, got));
                    }
                }
                None
            })
        })
        .collect();
    let mut verdict = "STABLE".to_string();
    for h in hs {
        match h.join() {
            Ok(Some(v)) => verdict = v,
            Ok(None) => {}
            Err(_) => verdict = "UNSTABLE PANIC".to_string(),
        }
    }
    format!("{} || {}", alone.join(" || "), verdict)
}
