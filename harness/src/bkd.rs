//! BKD: `Backend::next` over a scripted transport.
//! args: `F:<fillbyte hex>` then script items `<addr>:<hex>` (datagram), `E` (recv error), `X` (stop flag cleared)
//! output: `<addr> <decoded>` per yielded message joined by ` | `, then `END calls=<recv calls>`
use crate::unhex;
use portus::ipc::{Backend, Ipc};
use std::collections::VecDeque;
use std::sync::atomic::{AtomicBool, AtomicUsize, Ordering};
use std::sync::{Arc, Mutex};

pub enum Item {
    Dgram(u32, Vec<u8>),
    RecvErr,
    Stop,
}

pub struct Scripted {
    pub script: Arc<Mutex<VecDeque<Item>>>,
    pub flag: Arc<AtomicBool>,
    pub recvs: Arc<AtomicUsize>,
}

impl Ipc for Scripted {
    type Addr = u32;
    fn name() -> String {
        "scripted".into()
    }
    fn send(&self, _msg: &[u8], _to: &u32) -> portus::Result<()> {
        Ok(())
    }
    fn recv(&self, msg: &mut [u8]) -> portus::Result<(usize, u32)> {
        self.recvs.fetch_add(1, Ordering::SeqCst);
        match self.script.lock().unwrap().pop_front() {
            None | Some(Item::Stop) => {
                self.flag.store(false, Ordering::SeqCst);
                Err(portus::Error("stop".into()))
            }
            Some(Item::RecvErr) => Err(portus::Error("recv error".into())),
            Some(Item::Dgram(a, d)) => {
                let n = d.len().min(msg.len());
                msg[..n].copy_from_slice(&d[..n]);
                Ok((n, a))
            }
        }
    }
    fn close(&mut self) -> portus::Result<()> {
        Ok(())
    }
}

/// view of the remaining script for the resume loop
pub struct ScriptLeft(pub Arc<Mutex<VecDeque<Item>>>);
impl ScriptLeft {
    fn lock(&self) -> std::sync::LockResult<std::sync::MutexGuard<'_, VecDeque<Item>>> {
        self.0.lock()
    }
}
trait EmptyScript {
    fn is_empty_script(&self) -> bool;
}
impl EmptyScript for VecDeque<Item> {
    fn is_empty_script(&self) -> bool {
        self.is_empty()
    }
}

pub fn parse_item(t: &str) -> Option<Item> {
    match t {
        "E" => Some(Item::RecvErr),
        "X" => Some(Item::Stop),
        _ => {
            let (a, h) = t.split_once(':')?;
            Some(Item::Dgram(a.parse().ok()?, unhex(h)?))
        }
    }
}

pub fn bkd(args: &[&str]) -> String {
    bkd_impl(args, false)
}

/// `BKDR`: as `BKD`, but after a `None` caused by a cleared stop flag the caller sets the flag again and keeps calling
/// `next()` on the same backend (`NONE` marks each pause); a `None` caused by an undecodable message ends the run (`FAILED`).
pub fn bkdr(args: &[&str]) -> String {
    bkd_impl(args, true)
}

fn bkd_impl(args: &[&str], resume: bool) -> String {
    if args.is_empty() {
        return "BADARG".into();
    }
    let fill = match args[0].strip_prefix("F:").and_then(|h| u8::from_str_radix(h, 16).ok()) {
        Some(f) => f,
        None => return "BADARG".into(),
    };
    let items: Option<VecDeque<Item>> = args[1..].iter().map(|t| parse_item(t)).collect();
    let items = match items {
        Some(i) => i,
        None => return "BADARG".into(),
    };
    let flag = Arc::new(AtomicBool::new(true));
    let recvs = Arc::new(AtomicUsize::new(0));
    let script_left = ScriptLeft(Arc::new(Mutex::new(items)));
    let sock = Scripted {
        script: script_left.0.clone(),
        flag: flag.clone(),
        recvs: recvs.clone(),
    };
    let mut buf = [fill; 1024];
    let mut out = vec![];
    {
        let mut b = Backend::new(sock, flag.clone(), &mut buf[..]);
        let mut guard = 0usize;
        loop {
            match b.next() {
                Some((m, a)) => out.push(format!("{} {}", a, crate::wire::show_msg(&m, 0))),
                None => {
                    // `next()` gave up because the stop flag was cleared (script item X, or the script ran out). While
                    // script items remain the caller resumes: flag set again, `next()` called again on the SAME backend.
                    if !resume {
                        break;
                    }
                    if flag.load(Ordering::SeqCst) {
                        out.push("FAILED".into()); // not a stop: the bytes at the cursor do not decode
                        break;
                    }
                    if script_left.lock().unwrap().is_empty_script() {
                        break;
                    }
                    out.push("NONE".into());
                    flag.store(true, Ordering::SeqCst);
                }
            }
            guard += 1;
            if guard > 3_000 {
                // a receive loop that never ends: answer with the start of the run only
                out.truncate(8);
                out.push("RUNAWAY".into());
                break;
            }
        }
    }
    out.push("END".to_string());
    out.join(" | ")
}


// ---------------------------------------------------------------------------------------------
// BKDC: the same loop over the REAL in-process channel transport (`ipc::chan`): its own receive (fit check, copy) is in the path

struct ChanW {
    inner: portus::ipc::chan::Socket<portus::ipc::Nonblocking>,
    left: AtomicUsize,
    flag: Arc<AtomicBool>,
}

impl Ipc for ChanW {
    type Addr = u32;
    fn name() -> String {
        "chanw".into()
    }
    fn send(&self, _msg: &[u8], _to: &u32) -> portus::Result<()> {
        Ok(())
    }
    fn recv(&self, msg: &mut [u8]) -> portus::Result<(usize, u32)> {
        if self.left.load(Ordering::SeqCst) == 0 {
            self.flag.store(false, Ordering::SeqCst);
            return Err(portus::Error("stop".into()));
        }
        self.left.fetch_sub(1, Ordering::SeqCst);
        self.inner.recv(msg).map(|(n, ())| (n, 0))
    }
    fn close(&mut self) -> portus::Result<()> {
        Ok(())
    }
}

/// `BKDC F:<fill> 0:<hex> 0:<hex> ...` (datagram items only, address 0): every datagram is queued on a crossbeam channel and
/// received through `chan::Socket<Nonblocking>::recv` into the backend's 1024-byte buffer
pub fn bkdc(args: &[&str]) -> String {
    if args.is_empty() {
        return "BADARG".into();
    }
    let fill = match args[0].strip_prefix("F:").and_then(|h| u8::from_str_radix(h, 16).ok()) {
        Some(f) => f,
        None => return "BADARG".into(),
    };
    let items: Option<Vec<Item>> = args[1..].iter().map(|t| parse_item(t)).collect();
    let items = match items {
        Some(i) => i,
        None => return "BADARG".into(),
    };
    let (tx, rx) = crossbeam::channel::unbounded::<Vec<u8>>();
    let (dummy_tx, _dummy_rx) = crossbeam::channel::unbounded::<Vec<u8>>();
    let mut n = 0;
    for it in items {
        match it {
            Item::Dgram(0, d) => {
                let _ = tx.send(d);
                n += 1;
            }
            _ => return "BADARG".into(),
        }
    }
    let flag = Arc::new(AtomicBool::new(true));
    let sock = ChanW { inner: portus::ipc::chan::Socket::new(dummy_tx, rx), left: AtomicUsize::new(n), flag: flag.clone() };
    let mut buf = [fill; 1024];
    let mut out = vec![];
    {
        let mut b = Backend::new(sock, flag, &mut buf[..]);
        let mut guard = 0usize;
        while let Some((m, a)) = b.next() {
            out.push(format!("{} {}", a, crate::wire::show_msg(&m, 0)));
            guard += 1;
            if guard > 3_000 {
                out.truncate(8);
                out.push("RUNAWAY".into());
                break;
            }
        }
    }
    drop(tx);
    out.push("END".to_string());
    out.join(" | ")
}


// ---------------------------------------------------------------------------------------------
// BKDN: the same loop over the REAL netlink transport (`ipc::netlink`, NETLINK_USERSOCK): its own receive (recvmsg, the 16-byte
// netlink header) is in the path. A second raw netlink socket of this process unicasts the datagrams; the `nlmsg_len` field of
// every other datagram CLAIMS more payload than is sent (the kernel does not check it on user-to-user unicast): what is framed
// must be a function of the bytes that arrived (round 6: the receive took the length from the header).

struct NetW {
    inner: portus::ipc::netlink::Socket<portus::ipc::Blocking>,
    left: AtomicUsize,
    flag: Arc<AtomicBool>,
}

impl Ipc for NetW {
    type Addr = u32;
    fn name() -> String {
        "netw".into()
    }
    fn send(&self, _msg: &[u8], _to: &u32) -> portus::Result<()> {
        Ok(())
    }
    fn recv(&self, msg: &mut [u8]) -> portus::Result<(usize, u32)> {
        if self.left.load(Ordering::SeqCst) == 0 {
            self.flag.store(false, Ordering::SeqCst);
            return Err(portus::Error("stop".into()));
        }
        self.left.fetch_sub(1, Ordering::SeqCst);
        self.inner.recv(msg).map(|(n, ())| (n, 0))
    }
    fn close(&mut self) -> portus::Result<()> {
        // (the netlink socket is bound to the process id: it has to be closed before the next case can bind one)
        self.inner.close()
    }
}

fn nl_send(fd: libc::c_int, claimed_len: u32, payload: &[u8]) -> bool {
    let mut dgram = Vec::with_capacity(16 + payload.len());
    dgram.extend_from_slice(&claimed_len.to_le_bytes());
    dgram.extend_from_slice(&[0u8; 12]);
    dgram.extend_from_slice(payload);
    unsafe {
        let mut sa: libc::sockaddr_nl = std::mem::zeroed();
        sa.nl_family = libc::AF_NETLINK as u16;
        sa.nl_pid = libc::getpid() as u32; // the portus netlink socket binds to the process id
        let r = libc::sendto(fd, dgram.as_ptr() as *const libc::c_void, dgram.len(), 0,
                             &sa as *const libc::sockaddr_nl as *const libc::sockaddr, std::mem::size_of::<libc::sockaddr_nl>() as u32);
        r as usize == dgram.len()
    }
}

/// `BKDN F:<fill> 0:<hex> 0:<hex> ...` (non-empty datagrams of at most 900 bytes, address 0)
pub fn bkdn(args: &[&str]) -> String {
    if args.is_empty() {
        return "BADARG".into();
    }
    let fill = match args[0].strip_prefix("F:").and_then(|h| u8::from_str_radix(h, 16).ok()) {
        Some(f) => f,
        None => return "BADARG".into(),
    };
    let items: Option<Vec<Item>> = args[1..].iter().map(|t| parse_item(t)).collect();
    let items = match items {
        Some(i) => i,
        None => return "BADARG".into(),
    };
    let inner = match portus::ipc::netlink::Socket::<portus::ipc::Blocking>::new() {
        Ok(s) => s,
        Err(_) => return "NETLINK-UNAVAILABLE".into(),
    };
    let fd = unsafe { libc::socket(libc::AF_NETLINK, libc::SOCK_RAW, 2 /* NETLINK_USERSOCK */) };
    if fd < 0 {
        return "NETLINK-UNAVAILABLE".into();
    }
    unsafe {
        let mut sa: libc::sockaddr_nl = std::mem::zeroed();
        sa.nl_family = libc::AF_NETLINK as u16;
        sa.nl_pid = 0;
        if libc::bind(fd, &sa as *const libc::sockaddr_nl as *const libc::sockaddr, std::mem::size_of::<libc::sockaddr_nl>() as u32) != 0 {
            libc::close(fd);
            return "NETLINK-UNAVAILABLE".into();
        }
    }
    let mut n = 0;
    for (k, it) in items.into_iter().enumerate() {
        match it {
            Item::Dgram(0, d) if !d.is_empty() && d.len() <= 900 => {
                let extra = [0u32, 40, 8, 1000, 0, 16][k % 6];
                if !nl_send(fd, 16 + d.len() as u32 + extra, &d) {
                    unsafe { libc::close(fd) };
                    return "NETLINK-UNAVAILABLE".into();
                }
                n += 1;
            }
            _ => {
                unsafe { libc::close(fd) };
                return "BADARG".into();
            }
        }
    }
    let flag = Arc::new(AtomicBool::new(true));
    let sock = NetW { inner, left: AtomicUsize::new(n), flag: flag.clone() };
    let mut buf = [fill; 1024];
    let mut out = vec![];
    {
        let mut b = Backend::new(sock, flag, &mut buf[..]);
        let mut guard = 0usize;
        while let Some((m, a)) = b.next() {
            out.push(format!("{} {}", a, crate::wire::show_msg(&m, 0)));
            guard += 1;
            if guard > 3_000 {
                out.truncate(8);
                out.push("RUNAWAY".into());
                break;
            }
        }
    }
    unsafe { libc::close(fd) };
    out.push("END".to_string());
    out.join(" | ")
}
