pub fn bkd(_args: &[&str]) -> String { "TODO".into() }
