//! UID: uid allocation (C17). `UID seq <n>`: n sequential compilations, uids relative to the first;
//! `UID stress <threads> <per>`: concurrent compilations, report duplicates; `UID flow`: the uid of the scope is the
//! uid in the install message, in set_program's scope, and survives clone.
use portus::lang::Scope;
use std::collections::HashSet;

const SRC: &str = "(def (Report (x 0))) (when true (:= Report.x 1) (report))";

pub fn uid(args: &[&str]) -> String {
    match args {
        ["search"] => "NA".into(),
        ["seq", n] => {
            let n: usize = match n.parse() {
                Ok(n) => n,
                Err(_) => return "BADARG".into(),
            };
            let mut v = vec![];
            for i in 0..n {
                // alternate the two public ways of getting a fresh scope
                // alternate the three public ways of getting a fresh scope
                let u = if i % 3 == 0 {
                    match portus::lang::compile(SRC.as_bytes(), &[]) {
                        Ok((_, sc)) => sc.program_uid,
                        Err(_) => return "ERR".into(),
                    }
                } else if i % 3 == 1 {
                    Scope::new().program_uid
                } else {
                    Scope::default().program_uid
                };
                v.push(u);
            }
            if v.is_empty() {
                return "SEQ -".into();
            }
            let first = v[0];
            format!("SEQ {}", v.iter().map(|u| u.wrapping_sub(first).to_string()).collect::<Vec<_>>().join(","))
        }
        ["stress", t, per] => {
            let (t, per): (usize, usize) = match (t.parse(), per.parse()) {
                (Ok(a), Ok(b)) => (a, b),
                _ => return "BADARG".into(),
            };
            // all threads start allocating at the same moment (in a FRESH process - PHARNESS_UID_BUMP=0 - these are the first
            // compilations of the process: a lazily initialised allocator must not hand out its first values twice)
            let gate = std::sync::Arc::new(std::sync::Barrier::new(t.max(1)));
            let hs: Vec<_> = (0..t)
                .map(|k| {
                    let gate = gate.clone();
                    std::thread::spawn(move || {
                        let mut v = Vec::with_capacity(per);
                        gate.wait();
                        // a program that parses but is rejected late, in code generation (the uid it consumed is lost:
                        // fine - but it must never be handed out again)
                        let failing: String = format!(
                            "(def (Report (x 0))) {} (when 5 (report))",
                            "(when true (:= Report.x (+ Report.x 1)) (report))".repeat(150)
                        );
                        for i in 0..per {
                            if (i + 3 * k) % 4096 == 7 {
                                let _ = portus::lang::compile(failing.as_bytes(), &[]);
                                continue;
                            }
                            let u = if (i + k) % 8 == 0 {
                                portus::lang::compile(SRC.as_bytes(), &[]).map(|(_, sc)| sc.program_uid).unwrap_or(0)
                            } else {
                                Scope::new().program_uid
                            };
                            v.push(u);
                        }
                        v
                    })
                })
                .collect();
            let mut all = HashSet::new();
            let mut total = 0usize;
            let mut dup = None;
            for h in hs {
                for u in h.join().unwrap_or_default() {
                    total += 1;
                    if !all.insert(u) && dup.is_none() {
                        dup = Some(u);
                    }
                }
            }
            match dup {
                Some(u) => format!("DUP uid={} total={} distinct={}", u, total, all.len()),
                None => format!("UNIQUE total={} distinct={}", total, all.len()),
            }
        }
        ["flow"] => {
            let (bin, sc) = match portus::lang::compile(SRC.as_bytes(), &[]) {
                Ok(x) => x,
                Err(_) => return "ERR".into(),
            };
            let cl = sc.clone();
            let msg = portus::serialize::install::Msg {
                sid: 0,
                program_uid: sc.program_uid,
                num_events: bin.events.len() as u32,
                num_instrs: bin.instrs.len() as u32,
                instrs: bin,
            };
            let b = match portus::serialize::serialize(&msg) {
                Ok(b) => b,
                Err(_) => return "ERR".into(),
            };
            let wire = u32::from_le_bytes([b[8], b[9], b[10], b[11]]);
            // every way of copying a scope keeps its uid: clone, clone_from, and the clone_from of containers
            let mut d = Scope::new();
            d.clone_from(&sc);
            let mut od: Option<Scope> = Some(Scope::new());
            od.clone_from(&Some(sc.clone()));
            let mut vd: Vec<Scope> = vec![Scope::new(), Scope::new()];
            vd.clone_from(&vec![sc.clone(), sc.clone()]);
            let copies_ok = cl.program_uid == sc.program_uid
                && d.program_uid == sc.program_uid
                && od.map(|x| x.program_uid) == Some(sc.program_uid)
                && vd.iter().all(|x| x.program_uid == sc.program_uid);
            format!("FLOW install_eq={} clone_eq={}", wire == sc.program_uid, copies_ok)
        }
        _ => "BADARG".into(),
    }
}
