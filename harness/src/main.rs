//! Line-protocol harness around the real portus (DESIGN Appendix D).
//! One case per input line `<CMD> <id> <args…>`; one answer line `<id> <canonical result>`.
//! Every case runs under `catch_unwind`; a panic is the observable `PANIC`.

use std::io::{BufRead, Write};
use std::panic;

mod wire;
mod lang;
mod rt;
mod bkd;
mod uid;
mod stop;
mod xpt;

pub fn hex(b: &[u8]) -> String {
    if b.is_empty() {
        return "-".to_string();
    }
    let mut s = String::with_capacity(b.len() * 2);
    for x in b {
        s.push_str(&format!("{:02x}", x));
    }
    s
}

pub fn unhex(s: &str) -> Option<Vec<u8>> {
    if s == "-" {
        return Some(vec![]);
    }
    if s.len() % 2 != 0 {
        return None;
    }
    (0..s.len() / 2)
        .map(|i| u8::from_str_radix(&s[2 * i..2 * i + 2], 16).ok())
        .collect()
}

fn dispatch(cmd: &str, args: &[&str]) -> String {
    match cmd {
        "DEC" => wire::dec(args),
        "DECS" => wire::decs(args),
        "DECPAR" => wire::decpar(args),
        "ENC" => wire::enc(args),
        "RT" => wire::rt(args),
        "CMP" => lang::cmp(args),
        "CMPX" => lang::cmpx(args),
        "CMPPAR" => lang::cmppar(args),
        "AST" => lang::ast(args),
        "BKD" => bkd::bkd(args),
        "BKDR" => bkd::bkdr(args),
        "BKDC" => bkd::bkdc(args),
        "BKDN" => bkd::bkdn(args),
        "RUN" => rt::run(args),
        // `RUNBIG <n>`: readies from the addresses 1..n, then creates / reports / a restart / a close on the addresses 1 and n with
        // the SAME flow id; the answer is the callback part of the trace
        "RUNBIG" => {
            let n: u32 = match args.first().and_then(|s| s.parse().ok()) {
                Some(n) if n >= 2 && n <= 200_000 => n,
                _ => return "BADARG".into(),
            };
            let mut toks: Vec<String> = "ALG - 1 PROGS - NF - OR - SCRIPT".split(' ').map(String::from).collect();
            for a in 1..=n {
                toks.push(format!("{}:RD.1", a));
            }
            for t in ["1:CR.1.10.1460.1.2.3.4.-".to_string(), format!("{}:CR.1.10.1460.1.2.3.4.-", n), "1:MS.1.5.7;8".to_string(),
                      format!("{}:MS.1.5.9;10", n), format!("{}:RD.1", n), "1:MS.1.5.11".to_string(), format!("{}:MS.1.5.12", n), "1:MS.1.5.-".to_string()] {
                toks.push(t);
            }
            let refs: Vec<&str> = toks.iter().map(|s| s.as_str()).collect();
            let r = rt::run(&refs);
            r.split(" | ")
                .filter_map(|p| match p.split(' ').next() {
                    Some("NF") | Some("RP") | Some("CL") | Some("DR") => Some(p.to_string()),
                    Some("RES") => Some(p.split(' ').take(2).collect::<Vec<_>>().join(" ")),
                    _ => None,
                })
                .collect::<Vec<_>>()
                .join(" | ")
        }
        "RUNPAIR" => rt::runpair(args),
        "RUNRAW" => {
            // like RUN, with every transmitted message also shown in full (in send order)
            rt::RAW.store(true, std::sync::atomic::Ordering::SeqCst);
            let r = rt::run(args);
            rt::RAW.store(false, std::sync::atomic::Ordering::SeqCst);
            r
        }
        "GETF" => rt::getf(args),
        "UID" => uid::uid(args),
        "STOP" => stop::stop(args),
        "STOPX" => stop::stopx(args),
        "XPT" => xpt::xpt(args),
        _ => "BADCMD".to_string(),
    }
}

/// A subscriber that enables every callsite at every level and discards everything: portus' `trace!`/`debug!`/`info!`
/// field expressions are only evaluated when a subscriber is interested, so without it a panic inside a logging
/// expression (slicing untrusted bytes for a debug field, say) would be invisible to the checks.
struct EverythingEnabled;
impl tracing::Subscriber for EverythingEnabled {
    fn enabled(&self, _m: &tracing::Metadata<'_>) -> bool {
        true
    }
    fn new_span(&self, _a: &tracing::span::Attributes<'_>) -> tracing::span::Id {
        tracing::span::Id::from_u64(1)
    }
    fn record(&self, _s: &tracing::span::Id, _v: &tracing::span::Record<'_>) {}
    fn record_follows_from(&self, _s: &tracing::span::Id, _f: &tracing::span::Id) {}
    fn event(&self, e: &tracing::Event<'_>) {
        // format every field, as a real subscriber would (Debug/Display impls run here)
        struct V(usize);
        impl tracing::field::Visit for V {
            fn record_debug(&mut self, _f: &tracing::field::Field, v: &dyn std::fmt::Debug) {
                self.0 += format!("{:?}", v).len();
            }
        }
        let mut v = V(0);
        e.record(&mut v);
    }
    fn enter(&self, _s: &tracing::span::Id) {}
    fn exit(&self, _s: &tracing::span::Id) {}
}

fn main() {
    panic::set_hook(Box::new(|_| {}));
    // PHARNESS_TRACING=off: no subscriber at all (every callsite disabled) - behaviour must not depend on whether anybody listens
    if std::env::var("PHARNESS_TRACING").map(|v| v != "off").unwrap_or(true) {
        let _ = tracing::subscriber::set_global_default(EverythingEnabled);
    }
    // start with the process-global program-uid counter beyond 16 bits: uids are 32-bit everywhere
    // (PHARNESS_UID_BUMP=0: a fresh process, as a user's CCP is - the first compiled program then gets the first uid)
    let bump: u32 = std::env::var("PHARNESS_UID_BUMP").ok().and_then(|v| v.parse().ok()).unwrap_or(66_000);
    for _ in 0..bump {
        let _ = portus::lang::Scope::new();
    }
    let stdin = std::io::stdin();
    // portus prints diagnostics with println! (lang::compile on a failed override): keep them out of
    // the answer stream by answering on a private duplicate of fd 1 and pointing fd 1 at /dev/null.
    let out_file = unsafe {
        use std::os::unix::io::FromRawFd;
        let fd = libc::dup(1);
        let null = libc::open(b"/dev/null\0".as_ptr() as *const libc::c_char, libc::O_WRONLY);
        if null >= 0 {
            libc::dup2(null, 1);
            libc::close(null);
        }
        std::fs::File::from_raw_fd(fd)
    };
    let mut out = std::io::BufWriter::new(out_file);
    for line in stdin.lock().lines() {
        let line = match line {
            Ok(l) => l,
            Err(_) => break,
        };
        let toks: Vec<&str> = line.split(' ').filter(|t| !t.is_empty()).collect();
        if toks.len() < 2 {
            continue;
        }
        let (cmd, id, args) = (toks[0], toks[1], &toks[2..]);
        let res = panic::catch_unwind(|| dispatch(cmd, args)).unwrap_or_else(|_| "PANIC".to_string());
        writeln!(out, "{} {}", id, res).unwrap();
        out.flush().unwrap(); // a case that never returns must not swallow the answers before it
    }
    out.flush().unwrap();
}
