//! XPT: the bundled transports under real threads (C19).
//! (mode `bs`/`nbs`: the unix receiver is made with `new_with_skbuf` instead of `new`)
//! `XPT <chan|unix> <b|nb|bs|nbs> <nsenders> <count> <seed> <cap>`: `nsenders` threads each send `count` datagrams (sizes and
//! contents a fixed function of seed/sender/sequence number, see `size_of`/`payload`) through their own
//! `portus::ipc::{chan,unix}::Socket` to one receiver socket (blocking or non-blocking flavour) that receives into a
//! `cap`-byte buffer until everything arrived or nothing arrives for 5 s.
//! Answer: `SENT 0=<n>;1=<n> | RECV <s>:<q>:<len>:<bytes_ok>:<addr_ok>,... | EMPTY <ERR|OK|-> <fast|slow|-> | RETRIES <n>`
//! (`EMPTY`: for the non-blocking flavour, what one more `recv` on the drained socket returned and whether it
//! returned within 500 ms).
//! `XPT over <chan|unix> <b|nb>`: datagrams of 65, 100 and 10 bytes received into a 64-byte buffer: `OVER <r> <r> <r>` with
//! r = `OK:<len>:<prefix_ok>` | `ERR` | `PANIC` (C16: a datagram larger than the buffer must not crash the receiver).
//! `XPT dead <chan|unix>`: `BackendSender::send_msg` after its `Backend` was dropped: `DEAD <ERR|OK|PANIC>`.
use portus::ipc::{Backend, Blocking, Ipc, Nonblocking};
use std::path::PathBuf;
use std::sync::atomic::{AtomicBool, AtomicUsize, Ordering};
use std::sync::{Arc, Barrier};
use std::time::{Duration, Instant};

pub fn size_of(seed: u64, n: u64, s: u64, q: u64, cap: u64) -> usize {
    let min = if n == 1 { 1 } else { 8 };
    let span = cap - min + 1;
    (if q % 17 == 3 {
        cap
    } else if q % 17 == 5 {
        min
    } else {
        min + ((seed * 31 + s * 7919 + q * 104729) % span)
    }) as usize
}

pub fn payload(seed: u64, n: u64, s: u64, q: u64, cap: u64) -> Vec<u8> {
    let len = size_of(seed, n, s, q, cap);
    let mut v: Vec<u8> = (0..len as u64).map(|k| ((seed + s * 131 + q * 31 + k * 7) % 251) as u8).collect();
    if n > 1 {
        v[0..2].copy_from_slice(&(s as u16).to_le_bytes());
        v[2..6].copy_from_slice(&(q as u32).to_le_bytes());
        v[6..8].copy_from_slice(&(len as u16).to_le_bytes());
    }
    v
}

static UNIQ: AtomicUsize = AtomicUsize::new(0);

enum AnySock {
    CB(portus::ipc::chan::Socket<Blocking>),
    CN(portus::ipc::chan::Socket<Nonblocking>),
    UB(portus::ipc::unix::Socket<Blocking>),
    UN(portus::ipc::unix::Socket<Nonblocking>),
}

impl AnySock {
    fn send_unix(&self, msg: &[u8], to: &PathBuf) -> bool {
        match self {
            AnySock::UB(s) => s.send(msg, to).is_ok(),
            AnySock::UN(s) => s.send(msg, to).is_ok(),
            _ => true,
        }
    }
    /// (length, address as a string)
    fn recv(&self, buf: &mut [u8]) -> Result<(usize, String), ()> {
        match self {
            AnySock::CB(s) => s.recv(buf).map(|(l, _)| (l, String::new())).map_err(|_| ()),
            AnySock::CN(s) => s.recv(buf).map(|(l, _)| (l, String::new())).map_err(|_| ()),
            AnySock::UB(s) => s.recv(buf).map(|(l, a)| (l, a.to_string_lossy().into_owned())).map_err(|_| ()),
            AnySock::UN(s) => s.recv(buf).map(|(l, a)| (l, a.to_string_lossy().into_owned())).map_err(|_| ()),
        }
    }
}

pub fn xpt(args: &[&str]) -> String {
    if args.len() == 2 && args[0] == "dead" {
        return dead(args[1]);
    }
    if args.len() == 3 && args[0] == "over" {
        return over(args[1], args[2]);
    }
    if args.len() == 2 && args[0] == "rawaddr" {
        return rawaddr(args[1]);
    }
    if args.len() == 2 && args[0] == "rebind" {
        return rebind(args[1]);
    }
    if args.len() == 2 && args[0] == "late" {
        return late(args[1]);
    }
    if args.len() != 6 {
        return "BADARG".into();
    }
    let (kind, mode) = (args[0], args[1]);
    let nums: Vec<u64> = match args[2..].iter().map(|a| a.parse::<u64>()).collect() {
        Ok(v) => v,
        Err(_) => return "BADARG".into(),
    };
    let (n, count, seed, cap) = (nums[0], nums[1], nums[2], nums[3]);
    // mode: b | nb (constructor `new`), bs | nbs (constructor `new_with_skbuf`, unix only); a trailing `d` (unix only): traffic is
    // bidirectional - before the burst the receiver itself SENDS one datagram to sender 0 (a datagram socket that has sent to one
    // peer must still accept datagrams from every other peer)
    let bidir = mode.ends_with('d');
    let mode = mode.trim_end_matches('d');
    let skbuf = mode.ends_with('s');
    let mode = mode.trim_end_matches('s');
    if !(1..=8).contains(&n) || cap < 8 || cap > 60000 || count > 100000 || !(mode == "b" || mode == "nb") || ((skbuf || bidir) && kind != "unix") {
        return "BADARG".into();
    }
    let tag = format!("vp{}-{}", std::process::id(), UNIQ.fetch_add(1, Ordering::SeqCst));
    let rpath = format!("{}-r", tag);
    let barrier = Arc::new(Barrier::new(n as usize + 1));
    let retries = Arc::new(AtomicUsize::new(0));
    let failed = Arc::new(AtomicBool::new(false));
    let mut handles = vec![];
    let receiver: AnySock;
    let mut sender_paths: Vec<String> = vec![];
    match kind {
        "chan" => {
            let (tx, rx) = crossbeam::channel::unbounded::<Vec<u8>>();
            let (dummy_tx, _dummy_rx) = crossbeam::channel::unbounded::<Vec<u8>>();
            receiver = if mode == "b" {
                AnySock::CB(portus::ipc::chan::Socket::<Blocking>::new(dummy_tx, rx))
            } else {
                AnySock::CN(portus::ipc::chan::Socket::<Nonblocking>::new(dummy_tx, rx))
            };
            for s in 0..n {
                let (_utx, urx) = crossbeam::channel::unbounded::<Vec<u8>>();
                let sock = portus::ipc::chan::Socket::<Blocking>::new(tx.clone(), urx);
                let (b, r, f) = (barrier.clone(), retries.clone(), failed.clone());
                handles.push(std::thread::spawn(move || {
                    b.wait();
                    for q in 0..count {
                        let p = payload(seed, n, s, q, cap);
                        let mut tries = 0;
                        while sock.send(&p, &()).is_err() {
                            tries += 1;
                            r.fetch_add(1, Ordering::Relaxed);
                            if tries > 100000 {
                                f.store(true, Ordering::SeqCst);
                                return;
                            }
                            std::thread::yield_now();
                        }
                    }
                }));
            }
            drop(tx);
        }
        "unix" => {
            // new_with_skbuf(name, sndbuf, rcvbuf): both given / neither / only a small receive buffer
            let (sbuf, bufs) = match n % 3 {
                0 => (Some(262144), Some(262144)),
                1 => (None, None),
                _ => (None, Some(4096)),
            };
            receiver = if mode == "b" {
                let r = if skbuf {
                    portus::ipc::unix::Socket::<Blocking>::new_with_skbuf(&rpath, sbuf, bufs)
                } else {
                    portus::ipc::unix::Socket::<Blocking>::new(&rpath)
                };
                match r {
                    Ok(s) => AnySock::UB(s),
                    Err(_) => return "SOCKERR".into(),
                }
            } else {
                let r = if skbuf {
                    portus::ipc::unix::Socket::<Nonblocking>::new_with_skbuf(&rpath, sbuf, bufs)
                } else {
                    portus::ipc::unix::Socket::<Nonblocking>::new(&rpath)
                };
                match r {
                    Ok(s) => AnySock::UN(s),
                    Err(_) => return "SOCKERR".into(),
                }
            };
            let to = PathBuf::from(format!("/tmp/ccp/{}", rpath));
            for s in 0..n {
                let name = format!("{}-s{}", tag, s);
                sender_paths.push(format!("/tmp/ccp/{}", name));
                // in skbuf mode the senders are built with the same constructor and sizes (a small RECEIVE buffer must not limit
                // what an endpoint can SEND)
                let made = if skbuf {
                    let (sb, rb) = match n % 3 {
                        0 => (Some(262144), Some(262144)),
                        1 => (None, None),
                        _ => (None, Some(4096)),
                    };
                    portus::ipc::unix::Socket::<Blocking>::new_with_skbuf(&name, sb, rb)
                } else {
                    portus::ipc::unix::Socket::<Blocking>::new(&name)
                };
                let sock = match made {
                    Ok(s) => s,
                    Err(_) => return "SOCKERR".into(),
                };
                let (b, r, f, to) = (barrier.clone(), retries.clone(), failed.clone(), to.clone());
                handles.push(std::thread::spawn(move || {
                    b.wait();
                    for q in 0..count {
                        let p = payload(seed, n, s, q, cap);
                        let mut tries = 0;
                        while sock.send(&p, &to).is_err() {
                            tries += 1;
                            r.fetch_add(1, Ordering::Relaxed);
                            if tries > 100000 {
                                f.store(true, Ordering::SeqCst);
                                return;
                            }
                            std::thread::sleep(Duration::from_micros(50));
                        }
                    }
                }));
            }
        }
        _ => return "BADARG".into(),
    }
    if bidir {
        let ok = receiver.send_unix(b"hello from the receiver", &PathBuf::from(&sender_paths[0]));
        if !ok {
            failed.store(true, Ordering::SeqCst);
        }
    }
    // the receiver
    let total = (n * count) as usize;
    let mut buf = vec![0u8; cap as usize];
    let mut recs: Vec<String> = Vec::with_capacity(total);
    let mut per_sender_pos = vec![0u64; n as usize];
    barrier.wait();
    let mut last_progress = Instant::now();
    while recs.len() < total {
        match receiver.recv(&mut buf) {
            Ok((len, addr)) => {
                last_progress = Instant::now();
                let (s, q) = if n > 1 && len >= 8 {
                    (u16::from_le_bytes([buf[0], buf[1]]) as u64, u32::from_le_bytes([buf[2], buf[3], buf[4], buf[5]]) as u64)
                } else {
                    (0, per_sender_pos[0])
                };
                if n == 1 {
                    per_sender_pos[0] += 1;
                }
                let bytes_ok = s < n && q < count && payload(seed, n, s, q, cap)[..] == buf[..len];
                let addr_ok = kind == "chan" || (s < n && sender_paths[s as usize] == addr);
                recs.push(format!("{}:{}:{}:{}:{}", s, q, len, bytes_ok as u8, addr_ok as u8));
            }
            Err(()) => {
                if last_progress.elapsed() > Duration::from_secs(5) {
                    break;
                }
                if mode == "nb" {
                    std::thread::yield_now();
                }
            }
        }
    }
    for h in handles {
        let _ = h.join();
    }
    // one more receive on the drained socket (non-blocking flavour only)
    let empty = if mode == "nb" && recs.len() == total {
        let t = Instant::now();
        let r = receiver.recv(&mut buf);
        let fast = t.elapsed() < Duration::from_millis(500);
        format!("EMPTY {} {}", if r.is_err() { "ERR" } else { "OK" }, if fast { "fast" } else { "slow" })
    } else {
        "EMPTY - -".into()
    };
    for p in sender_paths.iter().chain(std::iter::once(&format!("/tmp/ccp/{}", rpath))) {
        let _ = std::fs::remove_file(p);
    }
    let sent: Vec<String> = (0..n).map(|s| format!("{}={}", s, count)).collect();
    format!(
        "SENT {} | RECV {} | {} | RETRIES {}{}",
        sent.join(";"),
        if recs.is_empty() { "-".to_string() } else { recs.join(",") },
        empty,
        retries.load(Ordering::Relaxed),
        if failed.load(Ordering::SeqCst) { " SENDFAILED" } else { "" }
    )
}

fn dead(kind: &str) -> String {
    let r = std::panic::catch_unwind(|| {
        let flag = Arc::new(AtomicBool::new(true));
        let mut buf = vec![0u8; 64];
        match kind {
            "chan" => {
                let (tx, _rx0) = crossbeam::channel::unbounded::<Vec<u8>>();
                let (_tx1, rx) = crossbeam::channel::unbounded::<Vec<u8>>();
                let b = Backend::new(portus::ipc::chan::Socket::<Blocking>::new(tx, rx), flag, &mut buf[..]);
                let h = b.sender(());
                let live = h.send_msg(&[1, 2, 3]).is_ok();
                drop(b);
                (live, h.send_msg(&[1, 2, 3]).is_err())
            }
            _ => {
                let tag = format!("vp{}-{}", std::process::id(), UNIQ.fetch_add(1, Ordering::SeqCst));
                let peer = portus::ipc::unix::Socket::<Blocking>::new(&format!("{}-p", tag)).unwrap();
                let sock = portus::ipc::unix::Socket::<Blocking>::new(&format!("{}-d", tag)).unwrap();
                let b = Backend::new(sock, flag, &mut buf[..]);
                let h = b.sender(PathBuf::from(format!("/tmp/ccp/{}-p", tag)));
                let live = h.send_msg(&[1, 2, 3]).is_ok();
                drop(b);
                let r = h.send_msg(&[1, 2, 3]).is_err();
                drop(peer);
                let _ = std::fs::remove_file(format!("/tmp/ccp/{}-p", tag));
                let _ = std::fs::remove_file(format!("/tmp/ccp/{}-d", tag));
                (live, r)
            }
        }
    });
    match r {
        Ok((live, dead_err)) => format!("DEAD live={} after={}", if live { "OK" } else { "ERR" }, if dead_err { "ERR" } else { "OK" }),
        Err(_) => "DEAD PANIC".into(),
    }
}

fn over(kind: &str, mode: &str) -> String {
    let tag = format!("vp{}-{}", std::process::id(), UNIQ.fetch_add(1, Ordering::SeqCst));
    let sizes = [65usize, 100, 10];
    let msgs: Vec<Vec<u8>> = sizes.iter().map(|&n| (0..n).map(|k| (k * 3 + n) as u8).collect()).collect();
    let receiver: AnySock = match (kind, mode) {
        ("chan", _) => {
            let (tx, rx) = crossbeam::channel::unbounded::<Vec<u8>>();
            let (dummy_tx, _d) = crossbeam::channel::unbounded::<Vec<u8>>();
            for m in &msgs {
                let _ = tx.send(m.clone());
            }
            std::mem::forget(tx); // keep the channel connected
            if mode == "b" {
                AnySock::CB(portus::ipc::chan::Socket::<Blocking>::new(dummy_tx, rx))
            } else {
                AnySock::CN(portus::ipc::chan::Socket::<Nonblocking>::new(dummy_tx, rx))
            }
        }
        ("unix", _) => {
            let rname = format!("{}-r", tag);
            let r = if mode == "b" {
                portus::ipc::unix::Socket::<Blocking>::new(&rname).map(AnySock::UB)
            } else {
                portus::ipc::unix::Socket::<Nonblocking>::new(&rname).map(AnySock::UN)
            };
            let r = match r {
                Ok(r) => r,
                Err(_) => return "SOCKERR".into(),
            };
            let s = match portus::ipc::unix::Socket::<Blocking>::new(&format!("{}-s", tag)) {
                Ok(s) => s,
                Err(_) => return "SOCKERR".into(),
            };
            let to = PathBuf::from(format!("/tmp/ccp/{}", rname));
            for m in &msgs {
                let _ = s.send(m, &to);
            }
            let _ = std::fs::remove_file(format!("/tmp/ccp/{}-s", tag));
            r
        }
        _ => return "BADARG".into(),
    };
    let mut out = vec![];
    for m in &msgs {
        let mut buf = vec![0u8; 64];
        let r = std::panic::catch_unwind(std::panic::AssertUnwindSafe(|| receiver.recv(&mut buf)));
        out.push(match r {
            Err(_) => "PANIC".to_string(),
            Ok(Err(())) => "ERR".to_string(),
            Ok(Ok((len, _))) => format!("OK:{}:{}", len, (len <= 64 && buf[..len] == m[..len]) as u8),
        });
    }
    let _ = std::fs::remove_file(format!("/tmp/ccp/{}-r", tag));
    format!("OVER {}", out.join(" "))
}


/// `XPT rawaddr <b|nb>`: the sender is a foreign Unix datagram socket (std) bound at a path that is NOT valid UTF-8 (a C
/// datapath can bind anywhere): the address `recv` returns must be that path byte for byte, and a reply sent to it must arrive.
fn rawaddr(mode: &str) -> String {
    use std::os::unix::ffi::OsStrExt;
    let tag = format!("vp{}-{}", std::process::id(), UNIQ.fetch_add(1, Ordering::SeqCst));
    let rname = format!("{}-r", tag);
    let mut raw: Vec<u8> = format!("/tmp/ccp/{}-s", tag).into_bytes();
    raw.extend_from_slice(&[0xE9, 0xFF, b'x']);
    let spath = PathBuf::from(std::ffi::OsStr::from_bytes(&raw));
    let recv_once = |r: &dyn Fn(&mut [u8]) -> portus::Result<(usize, PathBuf)>| {
        let mut buf = [0u8; 64];
        let t = Instant::now();
        loop {
            match r(&mut buf) {
                Ok((n, a)) => return Some((buf[..n].to_vec(), a)),
                Err(_) if t.elapsed() < Duration::from_secs(3) => std::thread::yield_now(),
                Err(_) => return None,
            }
        }
    };
    let res = std::panic::catch_unwind(|| {
        let _ = std::fs::create_dir_all("/tmp/ccp");
        let _ = std::fs::remove_file(&spath);
        let (got, reply_ok);
        let peer;
        if mode == "b" {
            let r = portus::ipc::unix::Socket::<Blocking>::new(&rname).ok()?;
            peer = std::os::unix::net::UnixDatagram::bind(&spath).ok()?;
            peer.send_to(b"ping", format!("/tmp/ccp/{}", rname)).ok()?;
            got = recv_once(&|b| r.recv(b))?;
            reply_ok = r.send(b"pong", &got.1).is_ok();
        } else {
            let r = portus::ipc::unix::Socket::<Nonblocking>::new(&rname).ok()?;
            peer = std::os::unix::net::UnixDatagram::bind(&spath).ok()?;
            peer.send_to(b"ping", format!("/tmp/ccp/{}", rname)).ok()?;
            got = recv_once(&|b| r.recv(b))?;
            reply_ok = r.send(b"pong", &got.1).is_ok();
        }
        let _ = peer.set_read_timeout(Some(Duration::from_secs(2)));
        let mut b2 = [0u8; 16];
        let arrived = matches!(peer.recv(&mut b2), Ok(4)) && &b2[..4] == b"pong";
        Some((got.0 == b"ping", got.1.as_os_str().as_bytes() == &raw[..], reply_ok && arrived))
    });
    let _ = std::fs::remove_file(&spath);
    let _ = std::fs::remove_file(format!("/tmp/ccp/{}", rname));
    match res {
        Ok(Some((d, a, r))) => format!("RAWADDR data_ok={} addr_ok={} reply_ok={}", d as u8, a as u8, r as u8),
        Ok(None) => "RAWADDR SOCKERR".into(),
        Err(_) => "RAWADDR PANIC".into(),
    }
}


/// `XPT rebind <b|nb>`: a socket is created under a name while an EARLIER socket of the same name is still open (a CCP restarted
/// over its predecessor). What the newer one sends must arrive with the address it is bound at - the name - so that a reply to
/// the learned address reaches it; datagrams to the name reach the newer socket.
fn rebind(mode: &str) -> String {
    let tag = format!("vp{}-{}", std::process::id(), UNIQ.fetch_add(1, Ordering::SeqCst));
    let rname = format!("{}-r", tag);
    let sname = format!("{}-s", tag);
    let res = std::panic::catch_unwind(|| {
        let want = PathBuf::from(format!("/tmp/ccp/{}", sname));
        let to_r = PathBuf::from(format!("/tmp/ccp/{}", rname));
        let try_recv = |r: &dyn Fn(&mut [u8]) -> portus::Result<(usize, PathBuf)>| {
            let mut buf = [0u8; 64];
            let t = Instant::now();
            loop {
                match r(&mut buf) {
                    Ok((n, a)) => return Some((buf[..n].to_vec(), a)),
                    Err(_) if t.elapsed() < Duration::from_secs(3) => std::thread::yield_now(),
                    Err(_) => return None,
                }
            }
        };
        if mode == "b" {
            let r = portus::ipc::unix::Socket::<Blocking>::new(&rname).ok()?;
            let mut old = portus::ipc::unix::Socket::<Blocking>::new(&sname).ok()?;
            let new = portus::ipc::unix::Socket::<Blocking>::new(&sname).ok()?;
            // the predecessor is closed (as `Backend::drop` does) AFTER its successor was bound: the name now belongs to the successor
            // (round 6: close unlinked the bound path by name - the file of the newer socket)
            let _ = portus::ipc::Ipc::close(&mut old);
            new.send(b"hello", &to_r).ok()?;
            let got = try_recv(&|b| r.recv(b))?;
            let reply_sent = r.send(b"reply", &got.1).is_ok();
            let back = if reply_sent { try_recv(&|b| new.recv(b)) } else { None };
            Some((got.0 == b"hello", got.1 == want, matches!(back, Some((ref d, ref a)) if d == b"reply" && *a == to_r)))
        } else {
            let r = portus::ipc::unix::Socket::<Nonblocking>::new(&rname).ok()?;
            let mut old = portus::ipc::unix::Socket::<Nonblocking>::new(&sname).ok()?;
            let new = portus::ipc::unix::Socket::<Nonblocking>::new(&sname).ok()?;
            // the predecessor is closed (as `Backend::drop` does) AFTER its successor was bound: the name now belongs to the successor
            // (round 6: close unlinked the bound path by name - the file of the newer socket)
            let _ = portus::ipc::Ipc::close(&mut old);
            new.send(b"hello", &to_r).ok()?;
            let got = try_recv(&|b| r.recv(b))?;
            let reply_sent = r.send(b"reply", &got.1).is_ok();
            let back = if reply_sent { try_recv(&|b| new.recv(b)) } else { None };
            Some((got.0 == b"hello", got.1 == want, matches!(back, Some((ref d, ref a)) if d == b"reply" && *a == to_r)))
        }
    });
    let _ = std::fs::remove_file(format!("/tmp/ccp/{}", sname));
    let _ = std::fs::remove_file(format!("/tmp/ccp/{}", rname));
    match res {
        Ok(Some((d, a, r))) => format!("REBIND data_ok={} addr_ok={} reply_ok={}", d as u8, a as u8, r as u8),
        Ok(None) => "REBIND SOCKERR".into(),
        Err(_) => "REBIND PANIC".into(),
    }
}

/// `XPT late <nb|nbs>`: a NONBLOCKING unix sender bursts 64 datagrams at a receiver that is not receiving yet (its kernel queue
/// fills up after a handful); every send answers Ok or Err. Then the receiver drains. Exactly the datagrams whose send answered
/// Ok must arrive, once each and in order - a send that could not queue its datagram has to say so.
fn late(mode: &str) -> String {
    let tag = format!("vp{}-{}", std::process::id(), UNIQ.fetch_add(1, Ordering::SeqCst));
    let rname = format!("{}-r", tag);
    let res = std::panic::catch_unwind(|| {
        let r = portus::ipc::unix::Socket::<Nonblocking>::new(&rname).ok()?;
        let sname = format!("{}-s", tag);
        let s = if mode == "nbs" {
            portus::ipc::unix::Socket::<Nonblocking>::new_with_skbuf(&sname, Some(212_992), Some(212_992)).ok()?
        } else {
            portus::ipc::unix::Socket::<Nonblocking>::new(&sname).ok()?
        };
        let to = PathBuf::from(format!("/tmp/ccp/{}", rname));
        let mut acked = vec![];
        for q in 0u32..64 {
            let mut m = vec![0u8; 16];
            m[..4].copy_from_slice(&q.to_le_bytes());
            m[4..].iter_mut().enumerate().for_each(|(i, b)| *b = (q as usize * 7 + i) as u8);
            if s.send(&m, &to).is_ok() {
                acked.push(m);
            }
        }
        let mut got = vec![];
        let mut buf = [0u8; 64];
        let t = Instant::now();
        while t.elapsed() < Duration::from_millis(300) && got.len() < 70 {
            match r.recv(&mut buf) {
                Ok((n, _)) => got.push(buf[..n].to_vec()),
                Err(_) if got.len() >= acked.len() => break,
                Err(_) => std::thread::yield_now(),
            }
        }
        let _ = std::fs::remove_file(format!("/tmp/ccp/{}", sname));
        let _ = std::fs::remove_file(format!("/tmp/ccp/{}", rname));
        Some((acked.len(), got.len(), acked == got))
    });
    match res {
        Ok(Some((_a, _g, true))) => "LATE match=1".into(),
        Ok(Some((a, g, false))) => format!("LATE match=0 acked={} received={}", a, g),
        Ok(None) => "SOCKERR".into(),
        Err(_) => "LATE PANIC".into(),
    }
}
