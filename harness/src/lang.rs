//! CMP / AST (the compiler) and ENC CP|UF|IN (control messages)
use crate::{hex, unhex};
use portus::lang::{Bin, Reg, Type};
use portus::serialize::{self, changeprog, install, update_field};

pub fn parse_reg(s: &str) -> Option<Reg> {
    let (k, rest) = s.split_at(1);
    let vol = rest.ends_with('v');
    let num = rest.trim_end_matches(|c| c == 'v' || c == 'n');
    match k {
        "C" => Some(Reg::Control(num.parse().ok()?, Type::None, vol)),
        "R" => Some(Reg::Report(num.parse().ok()?, Type::None, vol)),
        "I" => Some(Reg::Implicit(rest.parse().ok()?, Type::None)),
        "L" => Some(Reg::Local(rest.parse().ok()?, Type::None)),
        "P" => Some(Reg::Primitive(rest.parse().ok()?, Type::None)),
        "T" => Some(Reg::Tmp(rest.parse().ok()?, Type::None)),
        "N" => Some(Reg::ImmNum(rest.parse().ok()?)),
        "B" => Some(Reg::ImmBool(rest == "1")),
        "X" => Some(Reg::None),
        _ => None,
    }
}

fn parse_updates(s: &str) -> Option<Vec<(Reg, u64)>> {
    if s == "-" {
        return Some(vec![]);
    }
    s.split(',')
        .map(|t| {
            let (r, v) = t.split_once('=')?;
            Some((parse_reg(r)?, v.parse().ok()?))
        })
        .collect()
}

const PALETTE: &str = "(def (Report (x 0)) (c 0))
(when (> (+ 1 2) (- 4 3))
  (:= Report.x (/ (* 1 2) (max 1 (min 2 (wrapped_max 3 4)))))
  (:= Report.x (ewma 2 3))
  (:= c (if (< 1 2) 5))
  (:= c (!if (== 1 2) 6)))";

/// a `Bin` built from a spec: ops are looked up by their `Debug` name in a compiled palette program
fn build_bin(events: &str, instrs: &str) -> Option<Bin> {
    let (pal, _) = portus::lang::compile(PALETTE.as_bytes(), &[]).ok()?;
    let mut bin = pal.clone();
    bin.events.clear();
    bin.instrs.clear();
    if events != "-" {
        for e in events.split(',') {
            let f: Vec<u32> = e.split('.').map(|x| x.parse().ok()).collect::<Option<_>>()?;
            if f.len() != 4 {
                return None;
            }
            let mut ev = pal.events[0].clone();
            ev.flag_idx = f[0];
            ev.num_flag_instrs = f[1];
            ev.body_idx = f[2];
            ev.num_body_instrs = f[3];
            bin.events.push(ev);
        }
    }
    if instrs != "-" {
        for i in instrs.split(',') {
            let p: Vec<&str> = i.split(':').collect();
            if p.len() != 4 {
                return None;
            }
            let mut ins = pal.instrs.iter().find(|x| format!("{:?}", x.op) == p[0])?.clone();
            ins.res = parse_reg(p[1])?;
            ins.left = parse_reg(p[2])?;
            ins.right = parse_reg(p[3])?;
            bin.instrs.push(ins);
        }
    }
    Some(bin)
}

pub fn enc_ctl(args: &[&str]) -> String {
    let r = match args.get(0).copied() {
        Some("CP") if args.len() == 5 => {
            let (sid, uid, nf) = (args[1].parse().ok(), args[2].parse().ok(), args[3].parse().ok());
            match (sid, uid, nf, parse_updates(args[4])) {
                (Some(sid), Some(uid), Some(nf), Some(fields)) => serialize::serialize(&changeprog::Msg {
                    sid,
                    program_uid: uid,
                    num_fields: nf,
                    fields,
                }),
                _ => return "BADARG".into(),
            }
        }
        Some("UF") if args.len() == 4 => {
            let (sid, nf) = (args[1].parse().ok(), args[2].parse::<u8>().ok());
            match (sid, nf, parse_updates(args[3])) {
                (Some(sid), Some(nf), Some(fields)) => serialize::serialize(&update_field::Msg {
                    sid,
                    num_fields: nf,
                    fields,
                }),
                _ => return "BADARG".into(),
            }
        }
        Some("IN") if args.len() == 7 => {
            let v: Option<Vec<u32>> = args[1..5].iter().map(|s| s.parse().ok()).collect();
            match (v, build_bin(args[5], args[6])) {
                (Some(v), Some(bin)) => serialize::serialize(&install::Msg {
                    sid: v[0],
                    program_uid: v[1],
                    num_events: v[2],
                    num_instrs: v[3],
                    instrs: bin,
                }),
                _ => return "BADARG".into(),
            }
        }
        _ => return "BADARG".into(),
    };
    match r {
        Ok(b) => format!("OK {}", hex(&b)),
        Err(_) => "ERR".into(),
    }
}

pub fn cmp(_args: &[&str]) -> String {
    let _ = unhex;
    "TODO".into()
}
pub fn ast(_args: &[&str]) -> String {
    "TODO".into()
}
