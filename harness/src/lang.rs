pub fn cmp(_args: &[&str]) -> String { "TODO".into() }
pub fn ast(_args: &[&str]) -> String { "TODO".into() }
pub fn enc_ctl(_args: &[&str]) -> String { "TODO".into() }
