//! CMP / AST (the compiler) and ENC CP|UF|IN (control messages)
use crate::{hex, unhex};
use portus::lang::{Bin, Reg, Type};
use portus::serialize::{self, changeprog, install, update_field};

pub fn parse_reg(s: &str) -> Option<Reg> {
    let (k, rest) = s.split_at(1);
    let vol = rest.ends_with('v');
    let num = rest.trim_end_matches(|c| c == 'v' || c == 'n');
    match k {
        "C" => Some(Reg::Control(num.parse().ok()?, Type::None, vol)),
        "R" => Some(Reg::Report(num.parse().ok()?, Type::None, vol)),
        "I" => Some(Reg::Implicit(rest.parse().ok()?, Type::None)),
        "L" => Some(Reg::Local(rest.parse().ok()?, Type::None)),
        "P" => Some(Reg::Primitive(rest.parse().ok()?, Type::None)),
        "T" => Some(Reg::Tmp(rest.parse().ok()?, Type::None)),
        "N" => Some(Reg::ImmNum(rest.parse().ok()?)),
        "B" => Some(Reg::ImmBool(rest == "1")),
        "X" => Some(Reg::None),
        _ => None,
    }
}

fn parse_updates(s: &str) -> Option<Vec<(Reg, u64)>> {
    if s == "-" {
        return Some(vec![]);
    }
    s.split(',')
        .map(|t| {
            let (r, v) = t.split_once('=')?;
            Some((parse_reg(r)?, v.parse().ok()?))
        })
        .collect()
}

const PALETTE: &str = "(def (Report (x 0)) (c 0))
(when (> (+ 1 2) (- 4 3))
  (:= Report.x (/ (* 1 2) (max 1 (min 2 (wrapped_max 3 4)))))
  (:= Report.x (ewma 2 3))
  (:= c (if (< 1 2) 5))
  (:= c (!if (== 1 2) 6)))";

/// a `Bin` built from a spec: ops are looked up by their `Debug` name in a compiled palette program
fn build_bin(events: &str, instrs: &str) -> Option<Bin> {
    let (pal, _) = portus::lang::compile(PALETTE.as_bytes(), &[]).ok()?;
    let mut bin = pal.clone();
    bin.events.clear();
    bin.instrs.clear();
    if events != "-" {
        for e in events.split(',') {
            let f: Vec<u32> = e.split('.').map(|x| x.parse().ok()).collect::<Option<_>>()?;
            if f.len() != 4 {
                return None;
            }
            let mut ev = pal.events[0].clone();
            ev.flag_idx = f[0];
            ev.num_flag_instrs = f[1];
            ev.body_idx = f[2];
            ev.num_body_instrs = f[3];
            bin.events.push(ev);
        }
    }
    if instrs != "-" {
        for i in instrs.split(',') {
            let p: Vec<&str> = i.split(':').collect();
            if p.len() != 4 {
                return None;
            }
            let mut ins = pal.instrs.iter().find(|x| format!("{:?}", x.op) == p[0])?.clone();
            ins.res = parse_reg(p[1])?;
            ins.left = parse_reg(p[2])?;
            ins.right = parse_reg(p[3])?;
            bin.instrs.push(ins);
        }
    }
    Some(bin)
}

pub fn enc_ctl(args: &[&str]) -> String {
    let r = match args.get(0).copied() {
        Some("CP") if args.len() == 5 => {
            let (sid, uid, nf) = (args[1].parse().ok(), args[2].parse().ok(), args[3].parse().ok());
            match (sid, uid, nf, parse_updates(args[4])) {
                (Some(sid), Some(uid), Some(nf), Some(fields)) => {
                    let mk = |fields: Vec<(Reg, u64)>| changeprog::Msg {
                        sid,
                        program_uid: uid,
                        num_fields: nf,
                        fields,
                    };
                    let r = crate::wire::roomy(&fields);
                    crate::wire::ser2(&mk(fields), &mk(r))
                }
                _ => return "BADARG".into(),
            }
        }
        Some("UF") if args.len() == 4 => {
            let (sid, nf) = (args[1].parse().ok(), args[2].parse::<u8>().ok());
            match (sid, nf, parse_updates(args[3])) {
                (Some(sid), Some(nf), Some(fields)) => {
                    let mk = |fields: Vec<(Reg, u64)>| update_field::Msg {
                        sid,
                        num_fields: nf,
                        fields,
                    };
                    let r = crate::wire::roomy(&fields);
                    crate::wire::ser2(&mk(fields), &mk(r))
                }
                _ => return "BADARG".into(),
            }
        }
        Some("IN") if args.len() == 7 => {
            let v: Option<Vec<u32>> = args[1..5].iter().map(|s| s.parse().ok()).collect();
            match (v, build_bin(args[5], args[6])) {
                (Some(v), Some(bin)) => {
                    let mk = |bin: Bin| install::Msg {
                        sid: v[0],
                        program_uid: v[1],
                        num_events: v[2],
                        num_instrs: v[3],
                        instrs: bin,
                    };
                    let mut r = bin.clone();
                    r.events = crate::wire::roomy(&bin.events);
                    r.instrs = crate::wire::roomy(&bin.instrs);
                    crate::wire::ser2(&mk(bin), &mk(r))
                }
                _ => return "BADARG".into(),
            }
        }
        _ => return "BADARG".into(),
    };
    match r {
        Ok(b) => format!("OK {}", hex(&b)),
        Err(_) => "ERR".into(),
    }
}

fn show_ty(t: &Type) -> String {
    match t {
        Type::Bool(None) => "bool?".into(),
        Type::Bool(Some(b)) => format!("bool{}", *b as u8),
        Type::Num(None) => "num?".into(),
        Type::Num(Some(n)) => format!("num{}", n),
        Type::Name(s) => format!("name{}", hex(s.as_bytes())),
        Type::None => "none".into(),
    }
}

pub fn show_reg(r: &Reg) -> String {
    match r {
        Reg::Control(i, t, v) => format!("C{}{}:{}", i, if *v { "v" } else { "n" }, show_ty(t)),
        Reg::Report(i, t, v) => format!("R{}{}:{}", i, if *v { "v" } else { "n" }, show_ty(t)),
        Reg::Implicit(i, t) => format!("I{}:{}", i, show_ty(t)),
        Reg::Local(i, t) => format!("L{}:{}", i, show_ty(t)),
        Reg::Primitive(i, t) => format!("P{}:{}", i, show_ty(t)),
        Reg::Tmp(i, t) => format!("T{}:{}", i, show_ty(t)),
        Reg::ImmNum(n) => format!("N{}", n),
        Reg::ImmBool(b) => format!("B{}", *b as u8),
        Reg::None => "X".into(),
    }
}

/// `namehex=val;namehex=val` -> owned pairs (names must be valid UTF-8)
pub fn parse_named_updates(s: &str) -> Option<Vec<(String, u32)>> {
    if s == "-" {
        return Some(vec![]);
    }
    s.split(';')
        .map(|t| {
            let (n, v) = t.split_once('=')?;
            Some((String::from_utf8(unhex(n)?).ok()?, v.parse().ok()?))
        })
        .collect()
}

/// CMP <srchex> <updates|-> <names|->  ->  OK <imagehex> <reg>;<reg>…  | ERR | PANIC
pub fn cmp(args: &[&str]) -> String {
    // an optional 4th argument is ignored (lets a test compile the identical source more than once)
    if args.len() != 3 && args.len() != 4 {
        return "BADARG".into();
    }
    let src = match unhex(args[0]) {
        Some(s) => s,
        None => return "BADARG".into(),
    };
    let upd = match parse_named_updates(args[1]) {
        Some(u) => u,
        None => return "BADARG".into(),
    };
    let upd_ref: Vec<(&str, u32)> = upd.iter().map(|(n, v)| (n.as_str(), *v)).collect();
    let names: Vec<String> = if args[2] == "-" {
        vec![]
    } else {
        match args[2].split(';').map(|h| unhex(h).and_then(|b| String::from_utf8(b).ok())).collect() {
            Some(n) => n,
            None => return "BADARG".into(),
        }
    };
    let res = portus::lang::compile_and_serialize(&src, &upd_ref);
    // the same program through the route the runtime takes: lang::compile, then the INSTALL message around the Bin.
    // Its body must be exactly the image, and it must be refused exactly when the image is refused.
    let via_install: Option<Vec<u8>> = portus::lang::compile(&src, &upd_ref).ok().and_then(|(bin, sc)| {
        let m = portus::serialize::install::Msg {
            sid: 0,
            program_uid: sc.program_uid,
            num_events: bin.events.len() as u32,
            num_instrs: bin.instrs.len() as u32,
            instrs: bin,
        };
        portus::serialize::serialize(&m).ok()
    });
    let consistent = match (&res, &via_install) {
        (Ok((img, _)), Some(m)) => m.len() >= 20 && m[20..] == img[..],
        (Ok((img, _)), None) => img.len() + 20 > 65535, // the message (not the image) is too long for its 16-bit length field
        (Err(_), Some(_)) => false,
        (Err(_), None) => true,
    };
    let tail = if consistent { "" } else { " INSTALL-MISMATCH" };
    match res {
        Ok((img, sc)) => {
            let regs: Vec<String> = names
                .iter()
                .map(|n| sc.get(n).map(show_reg).unwrap_or_else(|| "?".into()))
                .collect();
            format!("OK {} {}{}", hex(&img), if regs.is_empty() { "-".to_string() } else { regs.join(";") }, tail)
        }
        Err(_) => format!("ERR{}", tail),
    }
}

/// CMPPAR <srchex> <srchex> ...: each source compiled alone (`OK <imagehex>` | `ERR`), then all of them compiled 300 times each on
/// their own threads at the same time: compilation shares nothing between threads but the uid counter (`STABLE` | `UNSTABLE ..`)
/// compiles a program while its thread EXITS (a thread-local destructor): a compilation is an ordinary function call and must
/// answer Ok or Err there too (round 6: built-in registers cached in a thread_local - `LocalKey::with` panics once that key's
/// destructor has run, and the panic of a destructor aborts the process)
struct CompileOnExit(std::cell::RefCell<Option<(Vec<u8>, std::sync::mpsc::Sender<String>)>>);
impl Drop for CompileOnExit {
    fn drop(&mut self) {
        if let Some((src, tx)) = self.0.borrow_mut().take() {
            let r = std::panic::catch_unwind(|| match portus::lang::compile_and_serialize(&src, &[]) {
                Ok((img, _)) => format!("OK {}", if img.is_empty() { "-".to_string() } else { hex(&img) }),
                Err(_) => "ERR".to_string(),
            })
            .unwrap_or_else(|_| "PANIC".to_string());
            let _ = tx.send(r);
        }
    }
}
thread_local! {
    static ON_EXIT: CompileOnExit = const { CompileOnExit(std::cell::RefCell::new(None)) };
}

pub fn cmppar(args: &[&str]) -> String {
    let srcs: Option<Vec<Vec<u8>>> = args.iter().map(|h| unhex(h)).collect();
    let srcs = match srcs {
        Some(s) if s.len() >= 2 && s.len() <= 32 => s,
        _ => return "BADARG".into(),
    };
    fn one(s: &[u8]) -> String {
        match portus::lang::compile_and_serialize(s, &[]) {
            Ok((img, _)) => format!("OK {}", if img.is_empty() { "-".to_string() } else { hex(&img) }),
            Err(_) => "ERR".to_string(),
        }
    }
    let alone: Vec<String> = srcs.iter().map(|s| one(s)).collect();
    let go = std::sync::Arc::new(std::sync::Barrier::new(srcs.len()));
    let (late_tx, late_rx) = std::sync::mpsc::channel::<String>();
    let nthreads = srcs.len();
    let hs: Vec<_> = srcs
        .into_iter()
        .zip(alone.clone())
        .enumerate()
        .map(|(i, (s, want))| {
            let go = go.clone();
            let late = late_tx.clone();
            std::thread::spawn(move || {
                // registered BEFORE this thread's first compilation: destroyed after whatever thread-locals the compiler creates
                ON_EXIT.with(|e| *e.0.borrow_mut() = Some((s.clone(), late)));
                go.wait();
                for _ in 0..300 {
                    let got = one(&s);
                    if got != want {
                        return Some(format!("UNSTABLE thread={} {}", i, got));
                    }
                }
                None
            })
        })
        .collect();
    let mut verdict = "STABLE".to_string();
    for h in hs {
        match h.join() {
            Ok(Some(v)) => verdict = v,
            Ok(None) => {}
            Err(_) => verdict = "UNSTABLE PANIC".to_string(),
        }
    }
    drop(late_tx);
    let late: Vec<String> = late_rx.iter().collect();
    if verdict == "STABLE" {
        let mut want = alone.clone();
        let mut got = late.clone();
        want.sort();
        got.sort();
        if got.len() != nthreads || got != want {
            verdict = format!("UNSTABLE at-thread-exit {}", late.iter().find(|r| !alone.contains(r)).cloned().unwrap_or_else(|| format!("answers={}", late.len())));
        }
    }
    format!("{} || {}", alone.join(" || "), verdict)
}

/// replace every Rust `Debug` string literal by `"<hex of its UTF-8>"`
fn canon_debug(d: &str) -> String {
    let mut out = String::new();
    let cs: Vec<char> = d.chars().collect();
    let mut i = 0;
    while i < cs.len() {
        if cs[i] == '"' {
            let mut s = String::new();
            i += 1;
            while i < cs.len() && cs[i] != '"' {
                if cs[i] == '\\' && i + 1 < cs.len() {
                    i += 1;
                    match cs[i] {
                        'n' => s.push('\n'),
                        't' => s.push('\t'),
                        'r' => s.push('\r'),
                        '0' => s.push('\0'),
                        'u' => {
                            // \u{XXXX}
                            let mut j = i + 2;
                            let mut v = 0u32;
                            while j < cs.len() && cs[j] != '}' {
                                v = v * 16 + cs[j].to_digit(16).unwrap_or(0);
                                j += 1;
                            }
                            s.push(char::from_u32(v).unwrap_or('?'));
                            i = j;
                        }
                        c => s.push(c),
                    }
                } else {
                    s.push(cs[i]);
                }
                i += 1;
            }
            out.push('"');
            out.push_str(&hex(s.as_bytes()));
            out.push('"');
            i += 1;
        } else {
            out.push(cs[i]);
            i += 1;
        }
    }
    out.replace(' ', "")
}

/// AST <srchex> -> OK <canonical Debug of Prog, spaces removed> | ERR | PANIC
pub fn ast(args: &[&str]) -> String {
    if args.len() != 1 {
        return "BADARG".into();
    }
    let src = match unhex(args[0]).and_then(|b| String::from_utf8(b).ok()) {
        Some(s) => s,
        None => return "SKIP".into(),
    };
    match portus::lang::Prog::new_with_scope(&src) {
        Ok((p, _)) => format!("OK {}", canon_debug(&format!("{:?}", p))),
        Err(_) => "ERR".into(),
    }
}


/// CMPX <srchex>: the other public routes into the compiler (the two-step API that `lang::compile` itself uses):
/// R1 `Prog::new_with_scope` + `Bin::compile_prog` with the returned scope + `Bin::serialize`;
/// R2 the same `Prog` compiled a SECOND time against the scope the first compilation left behind;
/// R3 the same `Prog` compiled against `Scope::default()` (no declarations);
/// each answers `OK <imagehex>` or `ERR`; a panic anywhere gives `PANIC` for the whole case.
pub const CMPX_SECOND: &str = "(def (Report (zzq 0))) (when true (:= zzfresh (+ Cwnd 1)) (:= zzother zzfresh) (:= Rate (+ zzother zzfresh)))";

pub fn cmpx(args: &[&str]) -> String {
    if args.len() != 1 {
        return "BADARG".into();
    }
    let src = match unhex(args[0]).and_then(|b| String::from_utf8(b).ok()) {
        Some(s) => s,
        None => return "NOTUTF8".into(),
    };
    fn show<E>(r: Result<Vec<u8>, E>) -> String {
        match r {
            Ok(b) => format!("OK {}", if b.is_empty() { "-".to_string() } else { hex(&b) }),
            Err(_) => "ERR".to_string(),
        }
    }
    match portus::lang::Prog::new_with_scope(&src) {
        Err(_) => "R1 ERR | R2 ERR | R3 ERR | R4 ERR".to_string(),
        Ok((prog, mut scope)) => {
            let c1 = portus::lang::Bin::compile_prog(&prog, &mut scope);
            let first_ok = c1.is_ok();
            let r1 = c1.and_then(|b| b.serialize());
            // (after a failed compilation the scope is left half-updated: nothing is promised about it)
            let r2 = if first_ok {
                show(portus::lang::Bin::compile_prog(&prog, &mut scope).and_then(|b| b.serialize()))
            } else {
                "-".to_string()
            };
            let mut dflt = portus::lang::Scope::default();
            let r3 = portus::lang::Bin::compile_prog(&prog, &mut dflt).and_then(|b| b.serialize());
            // R4: ANOTHER program (it introduces a new local) compiled against the scope the first compilation left behind
            let r4 = if first_ok {
                match portus::lang::Prog::new_with_scope(CMPX_SECOND) {
                    Ok((p2, _)) => show(portus::lang::Bin::compile_prog(&p2, &mut scope).and_then(|b| b.serialize())),
                    Err(_) => "ERR".to_string(),
                }
            } else {
                "-".to_string()
            };
            format!("R1 {} | R2 {} | R3 {} | R4 {}", show(r1), r2, show(r3), r4)
        }
    }
}
