"""C12 — report fields are looked up by name correctly or refused with the right error."""
from core import Case
from . import rtgen as R

ID = "C12"
# theorems of Props/Tables.lean over the decision logic TRANSLATED from /repo/src/lib.rs on every run (DESIGN 11.7)
TABLE_THEOREMS = ['src_getFieldTable_eq', 'src_getField_eq']
THEOREMS = ['Portus.C12.get_field_spec', 'Portus.C12.get_field_no_panic', 'Portus.C12.getField_eq', 'Portus.C12.stale_scope', 'Portus.C12.value_is_own_slot', 'Portus.C12.declared_report_variable_reads_its_slot', 'Portus.C12.check_model']
SPEC_IS_ORACLE = True
KEEP = {"RP", "GF", "GFP", "SP", "CU"}
RELATION = 'result of every Report::get_field(name, scope) call made inside on_report (value | stale | invalidtype | invalidreport | notfound)'
RULE = "inside on_report of the scripted runtime: names of every class (declared report incl. legacy Report.x, control, local, primitives, implicit, reserved, undeclared, near-miss spellings) against the current scope and against scopes of other programs (gfp), reports of 1..5 values for programs with 1..4 report variables (so slots beyond the report occur), reports carrying the right uid, another program's uid (stale), a literal unknown uid, and uid 0. non-trivial = at least one OK value and one refusal; distinct by case line"
EXPLANATION = 'theorems: get_field is total (the slice index is guarded) and equals the decision table stale > not-found > invalid-type > invalid-report > value-at-own-slot, for all reports, names and scopes; a successful lookup returns fields[idx] for the report register the name is bound to, and with C13 the k-th declared report variable reads slot k. Oracle = the closed form'
ASSUMPTIONS = ["user callbacks do not panic, issue commands only through their handle, and use field lists shorter than 2^24",
               "HashMap iteration order is canonicalised (install batches and drop batches are sorted)"]
LEVEL_TEXT = "Machine-checked proof (Lean 4) of the complete decision table of Report::get_field for every report, name and scope (stale scope first, then not-found / invalid-type / invalid-report, else the value in exactly that variable's slot), totality (no panic), and - with the C13 slot theorem - that the k-th declared report variable of an accepted program reads slot k. Tied to the code by differential runs inside on_report."
LEVEL_NOTE = 'Trusts: Lean kernel; correspondence sampling; error kinds observed through the error text (the only public carrier).'
TECHNIQUE = 'Lean 4 closed-form specification theorem (+ composition with C13) + differential correspondence on get_field results'



# vertical composition (Props/Vertical): C01 + C07 + C12/C13 - the value get_field returns under a name is the value the source semantics gives that variable
THEOREMS = THEOREMS + ['Portus.Vertical.reported_values_reach_the_decoder', 'Portus.Vertical.flow_reads_value_by_name']
AUDIT_IMPORTS = list(globals().get('AUDIT_IMPORTS', [])) + ['PortusModel.Props.Vertical']

def project(c, r):
    if c.cmd == "UID":
        return r
    return R.project(r, KEEP)


def gen(ctx):
    rng = ctx.rng
    # "a scope from a different compilation yields the stale-program error" rests on two compilations of one process never sharing a
    # uid, however many lie between them (round 5: uid = pid << 16 | counter as u16 repeats after 65536 scope creations)
    yield Case("UID", "seq 70000", tags=("uids-over-a-long-history",))
    # the short name of a Report variable is NOT a name of the scope ("acked" vs "Report.acked"): not-found, never the report slot
    for f in ("acked", "rtt", "Report.acked", "cwndcap", "Report.cwndcap"):
        yield Case("RUN", "ALG - 1 PROGS p1=%s NF sp:p1:- OR gf:%s SCRIPT 5:RD.1 5:CR.1.10.1460.1.2.3.4.- 5:MS.1.u:p1.7;9 5:MS.1.u:p1.-" % (R.hx(R.P1), R.hx(f)), tags=("short-name",))
    _pq = "(def (Report (Report.x 0) (y 1))) (when true (:= Report.Report.x (+ Report.y 9)) (report))"
    for f in ("Report.Report.x", "Report.x", "Report.y", "x", "y"):
        yield Case("RUN", "ALG - 1 PROGS q=%s NF sp:q:- OR gf:%s SCRIPT 5:RD.1 5:CR.1.10.1460.1.2.3.4.- 5:MS.1.u:q.10;1 5:MS.1.u:q.-" % (R.hx(_pq), R.hx(f)), tags=("qualified-block-member",))
    for a in R.own_scope_cases(rng, 120 if ctx.thorough else 36):
        yield Case("RUN", a, tags=("own-scope",))
    for _ in range(40000 if ctx.thorough else 3000):
        # (a quarter of the histories contain hand-written measurements: count word over- or under-announcing the values carried,
        # declared length longer than what arrived - a too-short report must stay too short)
        yield Case("RUN", R.gen_case(rng, n=rng.randrange(3, 21), adversarial=rng.choice([0.0, 0.0, 0.0, 0.3]), faults=0.0, stop=0.0), tags=("getfield",))


def classify(c, r):
    if c.cmd == "UID":
        return ["uid-seq:" + r.split(" ")[0]]
    parts = r.split(" | ")
    return ["events:%d" % min(len(parts) // 10 * 10, 80), "end:" + parts[-1].split(" ")[1]]


def nontrivial(c, r):
    return " OK " in r and " ERR " in r and "GF" in r


def oracle(c, impl_res):
    return None
