"""C19 — the bundled transports deliver datagrams intact, once, and in order (partial)."""
from core import Case

ID = "C19"
THEOREMS = ["Portus.C19.fifo_invariant", "Portus.C19.per_sender_prefix", "Portus.C19.drained_all_once", "Portus.C19.empty_recv_is_error",
            "Portus.C19.recv_returns_head", "Portus.C19.fits_recv_whole", "Portus.C19.dead_handle_is_err", "Portus.C19.recv_never_panics", "Portus.C19.sentOf_opsOf_filter",
            "Portus.C19.model_accepted"]
SPEC_IS_ORACLE = True
RELATION = ("per sender, the sequence (sequence number, length, bytes intact, sender address right) of the datagrams the receiver got "
            "from real portus::ipc::chan / ipc::unix sockets under real sender threads, vs what a drained FIFO delivers; plus the "
            "result and promptness of a non-blocking receive on the drained socket, and BackendSender::send_msg after Backend drop")
RULE = ("transport {chan, unix} x receiver flavour {Blocking, Nonblocking} x 1-4 concurrent sender threads (released together by a "
        "barrier) x bursts of 1..3000 (thorough: ..20000) datagrams each; sizes sweep 1..cap for single-sender runs and 8..cap with 2-4 "
        "senders (cap in {8, 64, 1024, 8192, 32768}), with cap itself and the minimum at fixed residues; contents a fixed function of "
        "(seed, sender, sequence number, offset). non-trivial = >= 2 senders or >= 100 datagrams; distinct by parameter tuple")
EXPLANATION = ("theorems over the transport model for every schedule: received ++ queued = sent in order (FIFO, exactly once, intact), "
               "per-sender prefix, drained = all; empty receive is an error and changes nothing; a fitting datagram is returned whole; a "
               "dead handle gives Err. The acceptor C19.check (proved to accept every model run) is evaluated on what the real "
               "transports delivered under real thread interleavings")
ASSUMPTIONS = ["PARTIAL: that crossbeam's unbounded channel and the kernel's SOCK_DGRAM Unix queue behave as the FIFO of the model under "
               "every real interleaving is sampled (threads, bursts), not proved",
               "datagrams fit the receive buffer (larger ones: chan panics in copy_from_slice, unix truncates - outside the property)"]
LEVEL_TEXT = ("PARTIAL. Machine-checked proof (Lean 4) over the transport model, for every schedule of senders and receiver: FIFO / exactly-once "
              "/ intact / per-sender order / attribution (fifo_invariant, per_sender_prefix, drained_all_once), empty receive = error, "
              "fitting datagram returned whole, dead handle = Err never panic, and that the acceptor accepts every model run. The real "
              "transports (crossbeam channel, Unix datagram socket, threads) are outside the model: they are exercised with 1-4 concurrent "
              "senders and bursts of thousands of datagrams of all sizes, and the Lean acceptor decides each observed history.")
LEVEL_NOTE = "Trusts: Lean kernel for the model theorems; the OS and crossbeam behave as a FIFO (sampled); the harness's payload function."
TECHNIQUE = "Lean 4 theorems over a FIFO transport model (all schedules) + Lean acceptor evaluated on histories of the real transports under concurrent sender threads"



# round 5 additions
THEOREMS = THEOREMS + ['Portus.C18.dead_handle_cannot_send']
AUDIT_IMPORTS = list(globals().get('AUDIT_IMPORTS', [])) + ['PortusModel.Props.C18Own']

def gen(ctx):
    rng = ctx.rng
    for kind in ("chan", "unix"):
        for mode in ("b", "nb"):
            yield Case("XPT", "over %s %s" % (kind, mode), tags=("oversize",))
    yield Case("XPT", "rawaddr b", tags=("rawaddr",))
    yield Case("XPT", "rawaddr nb", tags=("rawaddr",))
    # a socket created under a name whose earlier socket is still open (round 5: an "atomic takeover" that binds at a temporary
    # path and renames it - the kernel keeps the bind-time path as the sender address)
    yield Case("XPT", "rebind b", tags=("rebind",))
    yield Case("XPT", "rebind nb", tags=("rebind",))
    # a nonblocking sender bursting at a receiver that only drains later (full kernel queue): received = exactly the acked sends
    yield Case("XPT", "late nb", tags=("late-receiver",))
    yield Case("XPT", "late nbs", tags=("late-receiver",))
    yield Case("XPT", "dead chan", tags=("dead",))
    yield Case("XPT", "dead unix", tags=("dead",))
    big = 20000 if ctx.thorough else 3000
    for kind in ("chan", "unix"):
        for mode in ("b", "nb"):
            # every size 1..cap once, single sender
            yield Case("XPT", "%s %s 1 %d %d 64" % (kind, mode, 200, rng.randrange(1000)), tags=("sizes",))
            yield Case("XPT", "%s %s 1 %d %d 8" % (kind, mode, 50, rng.randrange(1000)), tags=("sizes",))
            for n in (1, 2, 3, 4):
                for count, cap in ((1, 64), (17, 8), (big // 4, 1024), (big, 64), (300, 8192), (64, 32768)):
                    if kind == "unix" and cap == 32768 and mode == "nb":
                        count = 32
                    yield Case("XPT", "%s %s %d %d %d %d" % (kind, mode, n, count, rng.randrange(1000), cap), tags=("burst",))
    # the second constructor of the unix transport (socket buffer sizes given or not)
    for mode in ("bs", "nbs"):
        for n in (1, 2, 3, 4):
            yield Case("XPT", "unix %s %d %d %d 1024" % (mode, n, big // 4, rng.randrange(1000)), tags=("skbuf",))
            yield Case("XPT", "unix %s %d 17 %d 64" % (mode, n, rng.randrange(1000)), tags=("skbuf",))
        # only a small receive buffer requested (n = 2: new_with_skbuf(None, Some(4096))), datagrams up to 32 KiB
        yield Case("XPT", "unix %s 2 40 %d 32768" % (mode, rng.randrange(1000)), tags=("skbuf",))
    # bidirectional traffic: the receiver has itself sent to one peer before other peers send to it
    for mode in ("bd", "nbd", "bsd"):
        for n in (2, 3, 4):
            yield Case("XPT", "unix %s %d %d %d 256" % (mode, n, 200, rng.randrange(1000)), tags=("bidir",))
    for _ in range(60 if ctx.thorough else 6):
        kind, mode = rng.choice(["chan", "unix"]), rng.choice(["b", "nb"])
        yield Case("XPT", "%s %s %d %d %d %d" % (kind, mode, rng.randrange(1, 5), rng.randrange(1, big), rng.randrange(1000),
                                                   rng.choice([8, 9, 64, 100, 1024, 4096])), tags=("random",))


def project(c, r):
    """the receiver's global order across senders is schedule-dependent: compare per sender"""
    if not r.startswith("SENT "):
        return r
    parts = r.split(" | ")
    recs = [] if parts[1] == "RECV -" else parts[1][5:].split(",")
    n = len(parts[0][5:].split(";"))
    per = {s: [] for s in range(n)}
    for x in recs:
        s, rest = x.split(":", 1)
        per.setdefault(int(s), []).append(rest)
    out = "BYSENDER " + ";".join("%d=%s" % (s, ",".join(per[s])) for s in sorted(per)) + " | " + parts[2]
    return out + (" SENDFAILED" if r.endswith("SENDFAILED") else "")


def classify(c, r):
    a = c.args.split(" ")
    if a[0] in ("dead", "over", "rawaddr", "late", "rebind"):
        return [a[0] + ":" + r]
    inter = 0
    if r.startswith("SENT "):
        recs = r.split(" | ")[1][5:].split(",")
        last = None
        for x in recs:
            s = x.split(":", 1)[0]
            inter += (last is not None and s != last)
            last = s
    return ["%s-%s:senders=%s" % (a[0], a[1], a[2]), "sender-switches>=100" if inter >= 100 else "sender-switches<100",
            "retries>0" if " RETRIES 0" not in r else "retries=0"]


def nontrivial(c, r):
    a = c.args.split(" ")
    return a[0] not in ("dead", "over", "rawaddr", "late", "rebind") and (int(a[2]) >= 2 or int(a[3]) >= 100)


def oracle(c, impl_res):
    a = c.args.split(" ")
    if a[0] in ("dead", "over", "rawaddr", "late", "rebind"):
        return ("ORC", "C19 %s @@ %s" % (a[0], impl_res))
    return ("ORC", "C19 %s %s %s %s %s @@ %s" % (a[2], a[3], a[4], a[5], a[1], impl_res))
