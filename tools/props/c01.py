"""C01 — compiled bytecode computes what the datapath program source says."""
import struct
from core import Case
import core
from . import proggen as G

ID = "C01"
NEEDS_CVM = True
ORACLE_ON_MODEL = False  # the model side of a VM case runs the *real* image: it is not Model(x) of the theorem
AUDIT_IMPORTS = ["PortusModel.Props.C03", "PortusModel.Props.C10", "PortusModel.Props.C13", "PortusModel.Props.C14",
                 "PortusModel.Props.C01Sim", "PortusModel.Props.C01Decode"]
# theorems of Props/Tables.lean over the tables TRANSLATED from /repo/src and libccp's headers on every run (DESIGN 11.7)
TABLE_THEOREMS = ['src_opTable_eq', 'src_opcodes_eq', 'src_regEnc_eq', 'opcodes_shared_with_libccp', 'regclasses_shared_with_libccp', 'indices_fit_libccp', 'primitives_shared_with_libccp', 'implicits_shared_with_libccp', 'libccp_model_constants']
THEOREMS = ["Portus.C01.run_correct_from_bytes", "Portus.C01.run_decoded", "Portus.C01.compiled_install_decodes", "Portus.C01.install_decodes",
            "Portus.C01.exSrc_decodes", "Portus.C01.cexSrc2_inTheorem", "Portus.C01.cexSrc2_not_defBeforeUse",
            "Portus.C01.nestedSrc_inTheorem", "Portus.C01.nestedSrc_not_stratified", "Portus.C01.nestedSrc_run", "Portus.C01.hazard_discrepancy", "Portus.C01.compiled_run_correct", "Portus.C01.check_accepts_compiled", "Portus.C01.exSrc_inTheorem",
            "Portus.Lang.Frag.compile_refines_lower", "Portus.Lang.Frag.rhoOk_of_compile", "Portus.Lang.Frag.defsFor_of_compile",
            "Portus.Lang.Frag.lowerE_correct", "Portus.Lang.Frag.lowerStmt_correct", "Portus.Lang.Frag.lowerEvents_correct",
            "Portus.Lang.Frag.invoke_correct", "Portus.Lang.Frag.lower_run_correct", "Portus.Lang.Frag.switch_sim",
            "Portus.C03.bin_wf", "Portus.C13.compile_scope_slots", "Portus.C13.instrs_use_scope", "Portus.C14.literal_read_back",
            "Portus.C10.compile_and_serialize_no_panic"]
RELATION = ("(a) image bytes of compile_and_serialize; (b) per-invocation observations (return code, set_cwnd, set_rate, report "
            "message) of the REAL libccp running the REAL image on scripted measurement/clock sequences, vs the Lean libccp model")
RULE = ("type-directed programs (stratified, and with plain binds nested as values in 25% of the statements; all 16 operators in both spellings, tree shapes using 1..8 temporaries, locals across "
        "events, conditional/!if/ewma binds, several events with report/fallthrough combinations, volatile and non-volatile variables, "
        "legacy Report.x, +infinity and boundary literals) compiled by the real compiler; each run on 1..8 (thorough: ..20) "
        "invocations with primitives from {0, 1, 2^31, 2^32-1, 2^63, 2^64-1, small, random} and non-decreasing clocks with steps "
        "{0, 1, 999, 10^6}. non-trivial = a run with at least one report and 3 invocations; distinct by (source, script)")
EXPLANATION = ("translation validation as oracle: the Lean source semantics (Lang/Sem: names, eager left-to-right evaluation, in-place "
               "conditionals/ewma, first-true-event rule, volatile reset) must equal what the real libccp observed on the real image "
               "(which invocations fault and with which code, settings, which invocations report and every reported value); the Lean VM "
               "model is validated against real libccp on the same scripts")
ASSUMPTIONS = ["fragment hypotheses (decidable, checked per case): Stratified, LiteralInits, NoLegacyInf (no initial value 0x3fffffff), BoolExact "
               "(&&/|| only on truth values), distinct non-built-in declared names, at most 255 instructions",
               "one clock reading per invocation; fallback timer disabled; a single program per connection",
               "ALU is a shared parameter (libccp's arithmetic and fault rules, incl. its incomplete multiplication-overflow test)"]
LEVEL_TEXT = ("PARTIAL. Machine-checked proof (Lean 4), C01.run_correct_from_bytes: for every program of the fragment InOracle - pure "
              "conditions; statements that bind an expression, a conditional (if / !if) or an ewma to a name, or are a BARE operator expression "
              "(evaluated for its faults and nested binds, value discarded), where expressions may contain "
              "plain AND guarded (if / !if / ewma) binds NESTED as values as long as no operator reads, as its left operand, a variable "
              "its right operand assigns (noHazard) - with literals that fit (LitsOk), targets that are not primitives nor __eventFlag (WritesOk), literal initial "
              "values, <= 6 locals, >= 1 event, <= 256 events/instructions, that the compiler and the encoder accept: the libccp datapath "
              "model fed the BYTES of the install message and of a change-program message decodes exactly the compiled program "
              "(install_decodes) and then, for EVERY sequence of measurement vectors and clock readings, shows exactly the observations "
              "the source semantics denotes (faults and their codes, settings, which invocations report and every reported value), as long "
              "as &&/|| meet truth values. It composes compile = reference lowering under the final scope (compile_refines_lower), "
              "lowering ~ source semantics (lower_run_correct, switch_sim) and the decode theorem. The theorem's fragment is exactly the "
              "fragment the oracle C01.check decides (check_accepts_compiled needs no extra stratification hypothesis); hazard_discrepancy "
              "is the kernel-checked reason for noHazard: (:= x (+ (:= x 1) (:= x 2))) reports 4 on the datapath where the eager "
              "left-to-right reading says 3 (DESIGN 6.3). Not proved: programs outside the fragment (hazardous nestings, non-literal "
              "initial values, &&/|| on non-truth values), staged field updates (C06 cross-check), and the fidelity of the Lean libccp "
              "model to libccp's C code (validated against the real libccp on every generated script).")
LEVEL_NOTE = "Trusts: Lean kernel for the proved lemmas; the oracle's source semantics (Lang/Sem.lean, ~200 lines, written from the documentation); sampling of programs and inputs."
TECHNIQUE = "Lean 4 simulation proof from install-message bytes (decode; compile = reference lowering; lowering ~ source semantics on the libccp machine model, incl. nested binds) + translation validation of real compiler and real libccp against the Lean source semantics"

BOUND = [0, 1, 2**31, 2**32 - 1, 2**63, 2**64 - 1]


def prim_vec(rng, wild):
    def v():
        r = rng.random()
        if r < (0.35 if wild else 0.04):
            return rng.choice(BOUND)
        if r < 0.75:
            return rng.randrange(0, 100)
        if r < (0.85 if wild else 0.97):
            return rng.randrange(0, 2**20)
        return rng.getrandbits(64)
    return ",".join(str(v()) for _ in range(15))


def script_for(rng, img_hex, ne, ninv):
    img = bytes.fromhex(img_hex) if img_hex != "-" else b""
    ni = (len(img) - 16 * ne) // 16
    inst = struct.pack("<HHIIII", 2, 20 + len(img), 0, 7, ne, ni) + img
    ops = ["M " + inst.hex(), "S 10 1460 1 2 3 4 -", "M " + (struct.pack("<HHIII", 4, 16, 1, 7, 0)).hex()]
    now = rng.choice([0, 0, 5, 10**6])
    wild = rng.random() < 0.3
    for _ in range(ninv):
        now += rng.choice([0, 1, 999, 1001, 10**6])
        ops.append("T %d" % now)
        ops.append("I 1 %d %d %s" % (rng.choice([0, 1, 10, 14600, 2**32 - 1]), rng.choice([0, 1, 1000, 2**32 - 1, 2**40]), prim_vec(rng, wild)))
    return " ; ".join(ops), ni, len(inst)


def gen(ctx):
    rng = ctx.rng
    nprog = 30000 if ctx.thorough else 1500
    progs = []
    for i in range(nprog):
        p = G.gen_program(rng, ensure_report=0.8)
        L = G.Layout(rng, ws=False, comments=False, spelling=rng.choice(["sym", "word", "mix"]))
        progs.append((p, G.render(p, L)))
    # fixed programs from the repository's docs/tests
    for s in FIXED + G.semantic_corner_programs():
        progs.append((None, s))
    core.build_harness()
    # compile-time overrides: every tenth generated program is compiled with an override list naming declared variables (the
    # override is the variable's initial value: what a volatile variable returns to after each report)
    upds = {}
    for i, (p, src) in enumerate(progs):
        if p is not None and i % 10 == 3:
            names = G.declared_names(p)
            if names:
                upds[i] = ";".join("%s=%d" % (G.hx(rng.choice(names)), rng.choice([0, 1, 7, 1000, 2**31 - 1])) for _ in range(rng.randrange(1, 3)))
    lines = ["CMP %d %s %s -" % (i, G.hx(src), upds.get(i, "-")) for i, (_, src) in enumerate(progs)]
    res = core.run_impl(lines)
    for i, (p, src) in enumerate(progs):
        r = res.get(str(i), "")
        yield Case("CMP", "%s %s -" % (G.hx(src), upds.get(i, "-")), tags=("compile",))
        if not r.startswith("OK "):
            continue
        img = r.split(" ")[1]
        ne = len(p["events"]) if p is not None else src.count("(when")
        for k in range(6 if ctx.thorough else 3):
            script, ni, ln = script_for(rng, img, ne, rng.randrange(1, 21 if ctx.thorough else 9))
            if ni > 255 or ln > 32678:
                continue
            yield Case("VM", script, tags=("run",), meta=(G.hx(src), upds.get(i, "-")))


FIXED = [
    # F11 (fixed 1b648fc): the second bind of x wrote the register of y
    "(def (Report (acked 0)) (c 0)) (when true (:= x y) (:= x 3) (:= Report.acked x) (report))",
    "(def (Report (acked 0) (volatile z 2))) (when true (:= x y) (:= x (+ Ack.bytes_acked 1)) (:= y 7) (:= Report.acked (+ x y)) (fallthrough)) (when (> Report.acked 8) (:= Report.z x) (report))",
    "(def (Report (volatile acked 0) (volatile sacked 0) (volatile loss 0) (volatile timeout false) (volatile rtt 0) (volatile inflight 0))) "
    "(when true (:= Report.inflight Flow.packets_in_flight) (:= Report.rtt Flow.rtt_sample_us) (:= Report.acked (+ Report.acked Ack.bytes_acked)) "
    "(:= Report.sacked (+ Report.sacked Ack.packets_misordered)) (:= Report.loss Ack.lost_pkts_sample) (:= Report.timeout Flow.was_timeout) (fallthrough)) "
    "(when (|| Report.timeout (> Report.loss 0)) (report) (:= Micros 0)) (when (> Micros Flow.rtt_sample_us) (report) (:= Micros 0))",
    "(def (Report (volatile foo 0))) (when true (:= Report.foo (+ Report.foo 1)) (report))",
    "(def (Report (minrtt +infinity)) (x 5)) (when true (:= Report.minrtt (min Report.minrtt Flow.rtt_sample_us)) (:= x (ewma 2 Flow.rate_outgoing)) (fallthrough)) (when (> Micros 3000) (:= Cwnd (* x 2)) (:= Rate x) (report) (:= Micros 0))",
    "(def (Report (a 0) (volatile b 1))) (when (< Ack.bytes_acked 10) (:= Report.a (- Report.a 1)) (report)) (when true (:= Report.b (/ 100 Ack.bytes_acked)) (report))",
]


def classify(c, r):
    if c.cmd == "CMP":
        return ["compile:" + r.split(" ")[0]]
    parts = [p for p in r.split(" | ") if p.startswith("I ")]
    tags = ["run:invocations=%d" % min(len(parts), 20)]
    if any(p.split(" ")[1].startswith("-9") for p in parts):
        tags.append("run:fault")
    if any(not p.endswith(" -") for p in parts):
        tags.append("run:report")
    if any("c=-" not in p for p in parts):
        tags.append("run:setcwnd")
    return tags


def nontrivial(c, r):
    return c.cmd == "VM" and r.count(" | I ") >= 3 and any(not p.endswith(" -") for p in r.split(" | ") if p.startswith("I "))


def oracle(c, impl_res):
    if c.cmd != "VM" or c.meta is None:
        return None
    return ("ORC", "C01 %s %s @@ %s @@ %s" % (c.meta[0], c.meta[1], c.args, impl_res))
