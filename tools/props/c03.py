"""C03 — the emitted program image satisfies the datapath's structural contract."""
from core import Case
from . import proggen as G

ID = "C03"
# theorems of Props/Tables.lean over the tables TRANSLATED from /repo/src and libccp's headers on every run (DESIGN 11.7)
TABLE_THEOREMS = ['src_opcodes_eq', 'src_regEnc_eq', 'src_reg_layout', 'opcodes_shared_with_libccp', 'regclasses_shared_with_libccp', 'indices_fit_libccp']
THEOREMS = [
    "Portus.C03.bin_wf", "Portus.C03.bin_blocks", "Portus.C03.compile_wf", "Portus.C03.decode_of_serialize",
    "Portus.C03.wfRecs_of_wf", "Portus.C03.check_model", "Portus.C03.check_model_cas",
]
RELATION = "compile_and_serialize(source, overrides) image bytes | ERR | PANIC"
RULE = ("type-directed programs (all 16 operators, every tree shape, locals, conditionals, ewma, several events, legacy Report.x, "
        "overrides) in random layouts, plus programs at and just beyond each limit: 8/9 temporaries in left-, right- and balanced "
        "nests, 6/7 locals, 16/17 report and control variables, 2^31 boundary immediates; ill-typed mutants. "
        "non-trivial = accepted program with >= 6 instructions; distinct by (source, overrides)")
EXPLANATION = ("theorem bin_wf: for every accepted source the IR has the DEF preamble of the declared/overridden scope first and no DEF "
               "later, the event table tiles the rest contiguously, every flag block is non-empty and ends in a write of implicit 0, every "
               "result register is writable, no Reg::None, primitives < 15, and each top-level expression's block reads a temporary only "
               "after writing it; decode_of_serialize + wfRecs_of_wf carry this to the bytes as libccp reads them (check_model). The Lean "
               "oracle C03.check decodes the real image with libccp's record readers and checks every clause")
ASSUMPTIONS = ["byte-level theorem needs < 2^32 instructions (u32 event-table fields)",
               "the byte-level temporary check is per event block (statement boundaries are not in the image); the IR theorem is per statement"]
LEVEL_TEXT = ("Machine-checked proof (Lean 4) that whenever the model of compile_and_serialize succeeds the image is 16 bytes per event "
              "plus 16 per instruction, starts with exactly the DEF preamble of the declared (and overridden) variables, the event table "
              "tiles the remaining instructions contiguously in source order, each condition block is non-empty and ends by writing the "
              "event flag, every opcode is defined, every result register writable, all indices inside libccp's register files, and a "
              "temporary is read only after an earlier instruction of the same expression wrote it. Tied to the code by differential runs "
              "incl. programs at/over each register limit.")
LEVEL_NOTE = "Trusts: Lean kernel; correspondence sampling (limits enumerated); libccp's record layout as modelled (C06)."
TECHNIQUE = "Lean 4 invariant proofs over the compiler (structural induction) + byte-level link via libccp record readers + differential correspondence + Lean oracle on the real image"


def nest(shape, n, leaf="1"):
    if n == 0:
        return leaf
    if shape == "l":
        return "(+ %s %s)" % (nest("l", n - 1, leaf), leaf)
    if shape == "r":
        return "(+ %s %s)" % (leaf, nest("r", n - 1, leaf))
    a = (n - 1) // 2
    return "(+ %s %s)" % (nest("b", a, leaf), nest("b", n - 1 - a, leaf))


def gen(ctx):
    rng = ctx.rng
    # the other public routes into the compiler (two-step API; a scope that has been compiled against before; Scope::default())
    for _i in range(3000 if ctx.thorough else 300):
        _p = G.gen_program(rng)
        if _i % 4 == 0:
            _p, _ = G.mutate_ast(rng, _p)
        yield Case("CMPX", G.hx(G.render(_p, G.Layout(rng, spelling=rng.choice(["sym", "word"])))), tags=("other-routes",))
    for _src in G.semantic_corner_programs():
        yield Case("CMPX", G.hx(_src), tags=("other-routes",))
    for _src in G.corner_programs():
        yield Case("CMP", "%s - -" % G.hx(_src), tags=("corner-grid",))
    for _src in G.short_name_programs():
        yield Case("CMP", "%s - -" % G.hx(_src), tags=("short-name-of-a-report-variable",))
    n = 30000 if ctx.thorough else 1500
    for i in range(n):
        p = G.gen_program(rng)
        L = G.Layout(rng, ws=rng.random() < 0.3, comments=rng.random() < 0.2, spelling=rng.choice(["sym", "word", "mix"]))
        src = G.render(p, L)
        upd = "-"
        if rng.random() < 0.2:
            cands = G.all_names(p) + ["Cwnd", "nosuch", "zzzzzz", "~~", "A", "0", "{", "Report.", "\u00e9"]
            upd = ";".join("%s=%d" % (G.hx(rng.choice(cands)), rng.choice([0, 1, 7, 2**31 - 1, 2**31, 2**32 - 1])) for _ in range(rng.randrange(1, 3)))
        yield Case("CMP", "%s %s -" % (G.hx(src), upd), tags=("generated",))
        if i % 5 == 0:
            q, kind = G.mutate_ast(rng, p)
            yield Case("CMP", "%s - -" % G.hx(G.render(q)), tags=("mutant",))
    # declarations whose initial value is not a literal get no DEF instruction: the DEF preamble is then shorter than the
    # declaration list, and the event table must still tile the instructions right after it
    for decls in ("(Report (minrtt unset))", "(Report (a 0) (minrtt unset) (b 1))", "(Report (a 0)) (c foo)", "(c foo) (Report (a 0)) (d 2)",
                  "(Report (volatile m unset) (a 0)) (c1 x) (c2 3)", "(Report.legacy unset) (Report (a 0))", "(c Cwnd)"):
        for evs in ("(when true (report))", "(when true (:= Cwnd 1) (fallthrough)) (when (> Micros 10) (report))",
                    "(when (< 1 2) (:= Rate (+ 1 2))) (when true (:= Cwnd 3) (report)) (when false (report))"):
            yield Case("CMP", "%s - -" % G.hx("(def %s) %s" % (decls, evs)), tags=("nonliteral-init",))
            yield Case("CMP", "%s %s -" % (G.hx("(def %s) %s" % (decls, evs)), "%s=5" % G.hx("c")), tags=("nonliteral-init",))
    for shape in "lrb":
        for k in range(0, 20 if ctx.thorough else 12):
            yield Case("CMP", "%s - -" % G.hx("(def (Report (x 0))) (when true (:= Report.x %s))" % nest(shape, k)), tags=("limit-tmp",))
            yield Case("CMP", "%s - -" % G.hx("(def (Report (x 0))) (when (< %s 5) (report))" % nest(shape, k)), tags=("limit-tmp",))
            yield Case("CMP", "%s - -" % G.hx("(def (Report (x 0))) (when true (:= Report.x (if (< %s 5) %s)))" % (nest(shape, k // 2), nest(shape, k - k // 2))), tags=("limit-tmp",))
    for k in range(0, 10):
        yield Case("CMP", "%s - -" % G.hx("(def (Report (x 0))) (when true %s (:= Report.x (+ l0 1)))" % " ".join("(:= l%d %d)" % (j, j) for j in range(max(k, 1)))), tags=("limit-local",))
    for k in range(0, 20):
        yield Case("CMP", "%s - -" % G.hx("(def (Report %s)) (when true (report))" % " ".join("(r%d %d)" % (j, j) for j in range(max(k, 1)))), tags=("limit-report",))
        yield Case("CMP", "%s - -" % G.hx("(def %s) (when true (report))" % " ".join("(c%d %d)" % (j, j) for j in range(k))), tags=("limit-control",))
        yield Case("CMP", "%s - -" % G.hx("(def %s (Report (a 1)) %s) (when true (report))" % (" ".join("(volatile Report.r%d %d)" % (j, j) for j in range(k // 2)), " ".join("(volatile c%d true)" % j for j in range(k // 2)))), tags=("limit-mixed",))
    for v in [2**31 - 1, 2**31, 2**32 - 1, 2**64 - 1]:
        yield Case("CMP", "%s - -" % G.hx("(def (Report (x %d)) (c %d)) (when (> Report.x %d) (:= Report.x %d) (report))" % (v, v, v, v)), tags=("limit-imm",))


def classify(c, r):
    return [c.tags[0] + ":" + r.split(" ")[0]]


def nontrivial(c, r):
    return r.startswith("OK ") and len(r.split(" ")[1]) >= 2 * (16 + 16 * 6)


def oracle(c, impl_res):
    parts = c.args.split(" ")
    if c.cmd == "CMPX":
        # the image contract must also hold for the image of a SECOND compilation against the same scope (R2)
        r2 = [p for p in impl_res.split(" | ") if p.startswith("R2 ")]
        if not r2 or not r2[0].startswith("R2 OK "):
            return None
        return ("ORC", "C03 %s - @@ OK %s -" % (parts[0], r2[0].split(" ")[2]))
    return ("ORC", "C03 %s %s @@ %s" % (parts[0], parts[1], impl_res))
