"""C09 — datapaths are isolated from each other and replies go to their origin."""
from core import Case
from . import rtgen as R

ID = "C09"
THEOREMS = ['Portus.C09.other_datapaths_untouched', 'Portus.C09.commands_go_home', 'Portus.C02.ready_drops_only_that_address', 'Portus.Rt.step_ok']
SPEC_IS_ORACLE = True  # the compared trace is what the property speaks about and is determined by the history
KEEP = {"RX", "TX IN", "TX CP", "TX UF", "TX OT", "TXFAIL", "NF", "RP", "CL", "DR", "RES"}
RELATION = 'full event trace (RX markers, sends with destination and flow id, callbacks) of RunBuilder::run'
RULE = 'histories over 2..3 addresses forced to overlapping flow ids (1..4), commands issued from new_flow and from later on_report callbacks, restarts of one address while others have live flows. non-trivial = two addresses with a live flow of the same id at some point; distinct by case line'
EXPLANATION = "theorems: a message from one address leaves the flat map of every other address unchanged (every message kind); every transmission of a step goes to the address of the message being handled, and a command carries that message's flow id (commands_go_home, via runUser_spec for arbitrary interactive user code). Oracle checkC09 on the real trace"
ASSUMPTIONS = ["user callbacks do not panic, issue commands only through their handle, and use field lists shorter than 2^24",
               "HashMap iteration order is canonicalised (install batches and drop batches are sorted)"]
LEVEL_TEXT = "Machine-checked proof (Lean 4) that for every message kind, state, configuration and bounded policy the dispatch step changes only the sender's own flows (isolation even when flow ids coincide; a restart discards only that address) and that everything transmitted while handling a message from an address - install batch and every command issued through a flow handle at creation or later - is addressed to that address and carries that flow's id. Tied to the code by differential runs. Lifted to EVERY history through the flat-map refinement (C02.history_refines_flat_map): spec_other_addresses_untouched, spec_callbacks_own_flows, spec_ready_discards_only_own are facts about the specification alone."
LEVEL_NOTE = 'Trusts: Lean kernel; correspondence sampling; policy discipline.'
TECHNIQUE = 'Lean 4 theorems (frame property of the dispatch step; destination/flow-id of all sends) + differential correspondence + Lean trace oracle'



# history-level refinement (Props/C02History, Props/C09History): the per-step theorems lifted to EVERY history against the flat-map specification
THEOREMS = THEOREMS + ['Portus.C02.history_refines_flat_map', 'Portus.C09.spec_other_addresses_untouched', 'Portus.C09.spec_callbacks_own_flows', 'Portus.C09.spec_ready_discards_only_own']
AUDIT_IMPORTS = ['PortusModel.Props.C09History']

def project(c, r):
    return R.project(r, KEEP)


def gen(ctx):
    # more distinct datapath addresses in one runtime than a 16-bit number holds, then coinciding flow ids on the first and the last
    yield Case("RUNBIG", "65537", tags=("many-addresses",))
    yield Case("RUNBIG", "65600", tags=("many-addresses",))
    rng = ctx.rng
    for _ in range(40000 if ctx.thorough else 2000):
        yield Case("RUN", R.gen_case(rng, n=rng.randrange(2, 61 if ctx.thorough else 31), addrs=rng.choice([(5, 6), (5, 6, 7), (5, 0), (0, 9, 5), (0, 4294967295)]), adversarial=0.02, faults=0.02, stop=0.01), tags=("history",))


def classify(c, r):
    if c.cmd == "RUNBIG":
        return ["many-addresses:" + r.split(" | ")[-1]]
    parts = r.split(" | ")
    return ["events:%d" % min(len(parts) // 10 * 10, 80), "end:" + parts[-1].split(" ")[1]]


def nontrivial(c, r):
    return c.cmd == "RUNBIG" or r.count("NF ") >= 2 and len(set(p.split(" ")[1] for p in r.split(" | ") if p.startswith("RX "))) >= 2


def oracle(c, impl_res):
    if c.cmd == "RUNBIG":
        return None  # decided against the model: the specification's callbacks for that history (DESIGN 11.8)
    return ("ORC", "C09 %s" % impl_res)
