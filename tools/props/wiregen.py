"""Generators for wire-format cases shared by C04, C07, C08, C16."""
import struct

B32 = [0, 1, 2, 255, 256, 65535, 65536, 2**31 - 1, 2**31, 2**32 - 2, 2**32 - 1]
B64 = [0, 1, 255, 2**31, 2**32 - 1, 2**32, 2**63 - 1, 2**63, 2**64 - 2, 2**64 - 1]


def hx(b):
    return b.hex() if b else "-"


def hdr(typ, ln, sid):
    return struct.pack("<HHI", typ & 0xFFFF, ln & 0xFFFF, sid & 0xFFFFFFFF)


def r32(rng):
    return rng.choice(B32) if rng.random() < 0.5 else rng.getrandbits(32)


def r64(rng):
    return rng.choice(B64) if rng.random() < 0.5 else rng.getrandbits(64)


def rname(rng, n=None):
    """a valid UTF-8 name of n bytes without NUL"""
    if n is None:
        n = rng.choice([1, 2, 4, 7, 31, 62, 63])
    alphabet = "abcdefghijklmnopqrstuvwxyz_-0123456789"
    s = ""
    while len(s.encode()) < n:
        left = n - len(s.encode())
        c = rng.choice(alphabet)
        if left >= 2 and rng.random() < 0.1:
            c = rng.choice("éßλж")
        if left >= 3 and rng.random() < 0.05:
            c = rng.choice("€你")
        if left >= 4 and rng.random() < 0.03:
            c = "😀"
        s += c
    return s.encode()


def enc_create(sid, cwnd, mss, sip, sport, dip, dport, name):
    nb = (name or b"") + b"\0" * (64 - len(name or b""))
    return hdr(0, 96, sid) + struct.pack("<6I", cwnd, mss, sip, sport, dip, dport) + nb


def enc_measure(sid, uid, fields, nf=None):
    nf = len(fields) if nf is None else nf
    return hdr(1, 16 + 8 * nf, sid) + struct.pack("<II", uid, nf) + b"".join(struct.pack("<Q", f) for f in fields)


def enc_ready(i):
    return hdr(5, 12, 0) + struct.pack("<I", i)


def rand_valid(rng):
    """one well-formed datapath->CCP message: (kind, bytes, description tuple)"""
    k = rng.random()
    if k < 0.35:
        name = None if rng.random() < 0.3 else rname(rng)
        a = [r32(rng) for _ in range(7)]
        return "cr", enc_create(*a, name), ("CR", a, name)
    if k < 0.8:
        n = rng.choice([0, 1, 2, 3, 5, 16, 17, 100]) if rng.random() < 0.9 else rng.randrange(0, 120)
        f = [r64(rng) for _ in range(n)]
        sid, uid = r32(rng), r32(rng)
        return "ms", enc_measure(sid, uid, f), ("MS", sid, uid, f)
    i = r32(rng)
    return "rd", enc_ready(i), ("RD", i)
