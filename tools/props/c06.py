"""C06 — control-plane messages are byte-exact for libccp and honest about length."""
from core import Case
from . import wiregen as W

ID = "C06"
SPEC_IS_ORACLE = lambda c: c.cmd == "RUN"  # handle-level cases: the model is the closed form of the property
AUDIT_IMPORTS = ["PortusModel.Props.C06Acts", "PortusModel.Props.C06Uid"]
# theorems of Props/Tables.lean over the tables TRANSLATED from /repo/src and libccp's headers on every run (DESIGN 11.7)
TABLE_THEOREMS = ['src_regEnc_eq', 'src_reg_layout', 'src_msgTypes_eq', 'src_lengths_eq', 'regclasses_shared_with_libccp', 'msgtypes_shared_with_libccp', 'libccp_model_constants']
THEOREMS = [
    "Portus.C06.updatefield_staged", "Portus.C06.updatefield_acts", "Portus.C06.changeprog_staged", "Portus.C06.changeprog_acts",
    "Portus.C06.changeprog_unknown_uid", "Portus.C06.pending_applied", "Portus.C06.pending_applied_switch", "Portus.C06.update_takes_effect",
    "Portus.C06.update_control_takes_effect", "Portus.C06.changeprog_takes_effect", "Portus.C06.updatefield_over_127_refused", "Portus.C06.stageUpdates_spec",
    "Portus.C06.changeprog_read_by_libccp", "Portus.C06.updatefield_read_by_libccp",
    "Portus.C06.install_read_by_libccp", "Portus.C06.header_len_honest_cp", "Portus.C06.header_len_honest_in",
    "Portus.C06.unrepresentable_fails_cp", "Portus.C06.unrepresentable_fails_uf", "Portus.C06.unrepresentable_fails_in",
    "Portus.C06.updsMatchB_iff", "Portus.C06.instrsMatchB_iff",
    "Portus.C06.first_uid_is_marker", "Portus.C06.later_uid_not_marker", "Portus.C06.install_nonmarker_keeps",
    "Portus.C06.install_marker_forgets", "Portus.C06.fresh_history_keeps", "Portus.C06.installProgram_keeps",
]
RELATION = "serialize(&changeprog|update_field|install::Msg) as bytes | ERR | PANIC"
RULE = ("exhaustive: every register class x index 0..255 x volatility as an update target; update lists of every length "
        "0..300 for change-prog and 0..255 for update-field (count field = list length, plus mismatching counts); install "
        "messages with synthetic instruction lists over all 15 opcodes and all register classes incl. out-of-range indices, "
        "immediates at the 2^31 boundary, and sizes around the 65535-byte boundary (4090..4100 instructions). "
        "non-trivial = encoder returned bytes for a message with at least one record; distinct by message")
EXPLANATION = ("theorems: libccp's packed-struct reader applied to the model encoders returns exactly the uid/sid/records a "
               "message was built from (change-prog <=222, update-field <=127, install <=32678 bytes), header length is the true "
               "length, unrepresentable lengths are refused. Correspondence on the real encoders; oracle C06.check runs the Lean "
               "libccp reader on the real bytes")
ASSUMPTIONS = ["libccp 1.2.0 reader modelled from serialize.c/ccp.c (signed-char count in update-fields, limits 222/32678); its agreement with the C code is checked by the VM correspondence (C01/C03 checks) once built",
               "u32 overflow of the install length computation (2^28 records) is outside the model"]
LEVEL_TEXT = ("Machine-checked proof (Lean 4) that libccp's reader (packed little-endian structs, ccp_read_msg) applied to the "
              "model of portus' change-program, update-fields and install encoders returns exactly the program uid, flow id and "
              "the (class, index, value) / event / instruction records the message was built from, in order, for every message "
              "within libccp's limits; that the 16-bit header length equals the true byte length and count fields the record "
              "counts; and that lengths the header cannot hold are refused. 'libccp accepts it and behaves accordingly' is proved over the "
              "libccp model too (Props/C06Acts): reading portus' update-fields / change-program bytes stages exactly the message's "
              "(register, value) pairs in order, later entries winning (updatefield_staged, changeprog_staged; unknown uid refused), the "
              "next invocation applies them before the program runs (pending_applied, update_takes_effect), for up to 127 updates - "
              "128..255 pairs, which portus can encode, are refused by libccp as a whole (updatefield_over_127_refused: libccp reads the "
              "count from a signed byte). libccp's unwritten convention - an INSTALL with program uid 1 means 'a new CCP started' and empties "
              "the program table - is covered by Props/C06Uid over the uid allocation translated from /repo on every run: the first "
              "compilation of a process gets uid 1 (first_uid_is_marker), no later one does (later_uid_not_marker), a non-marker install "
              "keeps every installed program selectable (install_nonmarker_keeps) and a marker install forgets them "
              "(install_marker_forgets). Encoders tied to the code by differential runs; the libccp model by the cross-check that "
              "feeds portus-built messages - and, from a fresh process, the runtime's own installs and change-program in send order - "
              "to the real libccp.")
LEVEL_NOTE = ("Trusts: Lean kernel; correspondence (register table exhaustive, lists of all lengths 0..300); the libccp reader model. "
              "'libccp behaves accordingly' is proved over the libccp MODEL; the model's fidelity to the C code is validated against the real libccp, not proved.")
TECHNIQUE = "Lean 4 theorems (independent libccp reader ∘ encoder = identity on records) + differential correspondence + Lean oracle"

CLASSES = ["C%dn", "C%dv", "R%dn", "R%dv", "I%d", "L%d", "P%d", "T%d"]
OPS = ["Add", "Bind", "Def", "Div", "Equiv", "Ewma", "Gt", "If", "Lt", "Max", "MaxWrap", "Min", "Mul", "NotIf", "Sub"]


def rreg(rng, ok_only=False):
    r = rng.random()
    if r < 0.1:
        n = rng.choice([0, 1, 2**31 - 1, 2**31, 2**32 - 1, 2**32, 2**63, 2**64 - 2, 2**64 - 1, rng.getrandbits(31), rng.getrandbits(64)])
        if ok_only and not (n < 2**31 or n == 2**64 - 1):
            n = 5
        return "N%d" % n
    if r < 0.15:
        return "B%d" % rng.randrange(2)
    c = rng.choice(CLASSES)
    lim = {"C": 16, "R": 16, "I": 6, "L": 6, "P": 16, "T": 8}[c[0]]
    i = rng.randrange(lim) if (ok_only or rng.random() < 0.85) else rng.choice([lim, lim + 1, 100, 255])
    return c % i


def upd_list(rng, n, ok_only=True):
    return ",".join("%s=%d" % (rreg(rng, ok_only), W.r64(rng)) for _ in range(n)) if n else "-"


def gen(ctx):
    rng = ctx.rng
    from . import rtgen as R
    for a in R.big_program_cases():
        yield Case("RUN", a, tags=("big-program",))
    from . import rtgen as R
    for a in R.boundary_update_cases():
        yield Case("RUN", a, tags=("handle-limits",))
    for a in R.declared_kind_value_cases():
        yield Case("RUN", a, tags=("declared-kind-x-value",))
    for a in R.shadowing_control_cases():
        yield Case("RUN", a, tags=("control-shadowing-a-built-in",))
    # the messages as the Datapath handle really builds them (register class incl. the volatile flag, index, value, order):
    # flows that call set_program with presets and update_field on every kind of variable
    for _ in range(4000 if ctx.thorough else 400):
        yield Case("RUN", R.gen_case(rng, n=rng.randrange(2, 10), adversarial=0.0, faults=0.0, stop=0.0), tags=("handle-messages",))
    # ... and the same with the transport REFUSING some sends (round 5: a per-flow scratch buffer that a failed send left
    # dirty made the next datagram of that flow [refused message][new message]): what reaches Ipc::send after a refusal must be
    # exactly one honest message again
    for _ in range(4000 if ctx.thorough else 400):
        yield Case("RUN", R.gen_case(rng, n=rng.randrange(4, 16), adversarial=0.0, faults=rng.choice([0.15, 0.3]), stop=0.0), tags=("handle-messages-after-refused-sends",))
    for k in (1, 2, 3):
        yield Case("RUN", "ALG - 1 PROGS p1=%s NF sp:p1:- OR uf:%s=5,sp:p1:%s=7,uf:%s=9 SCRIPT 5:RD.1 5:CR.1.10.1460.1.2.3.4.- SF%d 5:MS.1.u:p1.7;9 5:MS.1.u:p1.7;9 SF1 6:CR.1.10.1460.1.2.3.4.- 6:MS.1.u:p1.1;2 5:MS.1.u:p1.3;4"
                   % (R.hx(R.P1), R.hx("cwndcap"), R.hx("cwndcap"), R.hx("Cwnd"), k), tags=("handle-messages-after-refused-sends",))
    # exhaustive register table as single updates
    for c in CLASSES:
        for i in range(256):
            yield Case("ENC", "CP %d %d 1 %s=%d" % (W.r32(rng), W.r32(rng), c % i, W.r64(rng)), tags=("regtable",))
            if ctx.thorough or i < 24 or i % 16 == 15:
                yield Case("ENC", "UF %d 1 %s=%d" % (W.r32(rng), c % i, W.r64(rng)), tags=("regtable",))
    for n in [0, 1, 2**31 - 1, 2**31, 2**32 - 1, 2**32, 2**64 - 2, 2**64 - 1]:
        yield Case("ENC", "CP 1 1 1 N%d=1" % n, tags=("regtable",))
    yield Case("ENC", "CP 1 1 1 B1=1", tags=("regtable",))
    # every list length
    for n in range(0, 301):
        yield Case("ENC", "CP %d %d %d %s" % (W.r32(rng), W.r32(rng), n, upd_list(rng, n)), tags=("cp-len",))
    for n in range(0, 256):
        yield Case("ENC", "UF %d %d %s" % (W.r32(rng), n, upd_list(rng, n)), tags=("uf-len",))
    for _ in range(300 if ctx.thorough else 40):
        n = rng.randrange(0, 40)
        yield Case("ENC", "CP 1 2 %d %s" % (rng.choice([0, n + 1, max(n - 1, 0), 5041, 2**32 - 1]), upd_list(rng, n)), tags=("count-mismatch",))
        yield Case("ENC", "UF 1 %d %s" % (rng.choice([0, n + 1, max(n - 1, 0), 255]), upd_list(rng, n)), tags=("count-mismatch",))
    for _ in range(3000 if ctx.thorough else 200):
        n = rng.randrange(1, 12)
        yield Case("ENC", "CP %d %d %d %s" % (W.r32(rng), W.r32(rng), n, upd_list(rng, n, ok_only=False)), tags=("cp-anyreg",))
    # install messages
    def instr(ok):
        return "%s:%s:%s:%s" % (rng.choice(OPS), rreg(rng, ok), rreg(rng, ok), rreg(rng, ok))
    for _ in range(6000 if ctx.thorough else 400):
        ni = rng.randrange(0, 30)
        ne = rng.randrange(0, 5)
        ok = rng.random() < 0.8
        evs = ",".join("%d.%d.%d.%d" % tuple(rng.choice([0, 1, 2, 255, 2**32 - 1, rng.getrandbits(32)]) for _ in range(4)) for _ in range(ne)) or "-"
        ins = ",".join(instr(ok) for _ in range(ni)) or "-"
        yield Case("ENC", "IN %d %d %d %d %s %s" % (rng.choice([0, W.r32(rng)]), W.r32(rng), ne, ni, evs, ins), tags=("install",))
    for ni in ([2030, 2040, 2041, 2042, 4090, 4093, 4094, 4095, 4096, 4100] if ctx.thorough else [2041, 2042, 4094, 4095, 4100]):
        ins = ",".join("Bind:R0n:R0n:N%d" % (k % 1000) for k in range(ni))
        yield Case("ENC", "IN 0 7 1 %d 0.1.1.%d %s" % (ni, ni - 1, ins), tags=("install-big",))


def classify(c, r):
    return [c.tags[0] + ":" + r.split(" ")[0]]


def nontrivial(c, r):
    return r.startswith("OK ") and "-" not in c.args.split(" ")[-1:]


def oracle(c, impl_res):
    if c.cmd != "ENC":
        return None  # handle-level cases (RUN) are decided by the correspondence with the model's closed form
    return ("ORC", "C06 %s @@ %s" % (c.args, impl_res))


# ------------------------------------------------------------------ "libccp itself accepts it and behaves accordingly"
NEEDS_CVM = True
CTL_SRC = ("(def (Report (a 0) (b 0)) (c1 5) (volatile c2 6) (c3 7)) (when true (:= Report.a (+ c1 c3)) (:= Report.b c2) "
           "(:= c2 (+ c2 1)) (report))")


def fresh_process_check():
    """a FRESH process (program-uid counter untouched, as in a user's CCP): the install and change-program messages the runtime
    really sends, in the order it sends them, fed to the real libccp - which treats program uid 1 as "a new CCP started" and
    drops every program it holds. Whichever registered program a flow selects, libccp must know it and report under its uid."""
    import struct
    import core
    fails = []
    fresh = {"checked": 0}
    pa = "(def (Report (x 0))) (when true (:= Report.x 7) (report))"
    pb = "(def (Report (y 0))) (when true (:= Report.y 9) (report))"
    pc = "(def (Report (z 0))) (when true (:= Report.z 11) (report))"
    hxs = lambda t: t.encode().hex()
    for nprog, sel, want_val in ((2, "pa", 7), (2, "pb", 9), (3, "pa", 7), (3, "pb", 9), (3, "pc", 11), (1, "pa", 7)):
        progs = ",".join("%s=%s" % (n, hxs(t)) for n, t in (("pa", pa), ("pb", pb), ("pc", pc))[:nprog])
        line = ("RUNRAW 0 ALG %s 1 PROGS %s NF sp:%s:- OR - SCRIPT 5:RD.1 5:CR.1.10.1460.1.2.3.4.%s X"
                % (hxs("reno"), progs, sel, hxs("reno")))
        ans = core.run_impl([line], extra_env={"PHARNESS_UID_BUMP": "0"}).get("0", "")
        raws = [t[4:] for t in ans.split(" | ") if t.startswith("RAW ")]
        kinds = [int.from_bytes(bytes.fromhex(h)[:2], "little") for h in raws]
        if kinds != [2] * nprog + [4]:
            fails.append({"property": ID, "kind": "no-failing-input-found", "case": line, "answer": ans[:1500],
                          "relation": "fresh process: the runtime sends one INSTALL per registered program on ready, then the flow's change-program"})
            continue
        cp_uid = struct.unpack_from("<I", bytes.fromhex(raws[-1]), 8)[0]
        ops = ["M " + h for h in raws[:-1]] + ["S 10 1460 1 2 3 4 -", "M " + raws[-1], "T 10", "I 1 10 10 " + ",".join(["0"] * 15)]
        script = "VM 0 " + " ; ".join(ops)
        rr = core.run_cvm([script]).get("0", "")
        mm = core.run_model([script]).get("0", "")
        parts = rr.split(" | ")
        try:
            rcs = [parts[k + 1].split(" ")[1] for k in list(range(nprog)) + [nprog + 1]]
            rep = parts[-1].split(" ")[-1]
            b = bytes.fromhex(rep) if rep not in ("-", "") else b""
            got = (struct.unpack_from("<I", b, 8)[0], list(struct.unpack_from("<%dQ" % struct.unpack_from("<I", b, 12)[0], b, 16))) if b else None
        except (IndexError, ValueError, struct.error):
            rcs, got = ["?"], None
        install_uids = [struct.unpack_from("<I", bytes.fromhex(h), 8)[0] for h in raws[:-1]]
        if rcs != ["0"] * (nprog + 1) or got != (cp_uid, [want_val]):
            fails.append({"property": ID, "kind": "failing-input", "case": script[:4000], "harness_case": line,
                          "relation": "fresh process: libccp accepts the runtime's installs and the flow's change-program, and the flow then runs the selected program",
                          "install_uids_in_send_order": install_uids, "selected_uid": cp_uid, "libccp_return_codes": rcs,
                          "report(uid, fields)": got, "expected_report": [cp_uid, [want_val]]})
        elif rr != mm:
            fails.append({"property": ID, "kind": "no-failing-input-found", "case": script[:4000], "real": rr[:800], "model": mm[:800],
                          "relation": "Lean libccp model = real libccp on the messages a fresh runtime sends"})
        else:
            fresh["checked"] += 1
            fresh.setdefault("install_uids_seen", []).append(install_uids)
    return fails, fresh


def pre(ctx):
    # Props/C06Uid.lean states facts about the uid allocation translated from /repo (shared with C17)
    import os, subprocess, sys
    import core
    p = subprocess.run([sys.executable, os.path.join(core.VERIF, "tools", "extract_uid.py")], capture_output=True, text=True)
    if p.returncode != 0:
        raise core.Fail("extract_uid.py failed: " + p.stderr[-2000:])


def on_build_fail(ctx, err):
    """the obligations about the uid libccp treats as a marker no longer check: look for a failing history on the real code"""
    import os
    import core
    if "C06Uid" not in err:
        return None
    core.build_harness()
    core.build_cvm()
    core.build_lean(["pmodel"])
    ff, fresh = fresh_process_check()
    thm = ("Portus.C06.first_uid_is_marker / later_uid_not_marker (Props/C06Uid.lean): the first program compiled in a process must carry "
           "uid 1 - libccp's new-CCP marker - and no later one may")
    gen = open(os.path.join(core.LEAN, "PortusModel", "Generated", "UidOp.lean")).read()
    hard = [f for f in ff if f.get("kind") == "failing-input"]
    if hard:
        rp = dict(hard[0])
        rp["theorem"] = thm
        rp["generated"] = gen
        return ("failing-input", rp)
    return ("proof", {"property": ID, "kind": "no-failing-input-found", "theorem": thm, "generated": gen, "build_error": err[-1500:],
                      "searched": fresh})


def extra(ctx):
    """install, change-program (with field updates) and update-fields messages built by the REAL portus encoders are fed to the
    REAL libccp (C driver around its unmodified sources): libccp must accept each (return code 0) and the next report must show
    exactly the updated values; the Lean libccp model must give the same answers"""
    import struct
    import core
    rng = ctx.rng
    fails = []
    r = core.run_impl(["CMP 0 %s - -" % CTL_SRC.encode().hex()]).get("0", "")
    if not r.startswith("OK "):
        return ([{"property": ID, "kind": "no-failing-input-found", "relation": "control program for the libccp cross-check compiles", "detail": r}], {})
    img = bytes.fromhex(r.split(" ")[1])
    ni = (len(img) - 16) // 16
    inst = core.run_impl(["ENC 0 IN 0 7 1 %d - -" % ni]).get("0", "")  # header only probe (not used further)
    install = struct.pack("<HHIIII", 2, 20 + len(img), 0, 7, 1, ni) + img
    V = [0, 1, 5, 2**31, 2**32 - 1, 2**32, 2**40, 2**63, 2**64 - 1]
    n = 300 if ctx.thorough else 40
    plans, enc_lines = [], []
    for i in range(n):
        c1, c2, c3 = rng.choice(V + [rng.getrandbits(20)]), rng.choice(V + [rng.getrandbits(20)]), rng.choice(V + [rng.getrandbits(20)])
        cw = rng.choice([1, 10, 2**31, 2**32 - 1])
        u2 = rng.choice(V + [rng.getrandbits(20)])
        order = rng.random() < 0.5
        cp_fields = ("C0n=%d,C2n=%d" % (c1, c3)) if order else ("C2n=%d,C0n=%d" % (c3, c1))
        enc_lines += ["ENC %d.cp CP 1 7 2 %s" % (i, cp_fields), "ENC %d.uf1 UF 1 1 C1v=%d" % (i, c2),
                      "ENC %d.uf2 UF 1 2 I4=%d,C1v=%d" % (i, cw, u2), "ENC %d.uf0 UF 1 0 -" % i]
        plans.append((c1, c2, c3, cw, u2))
    enc = core.run_impl(enc_lines)
    scripts = []
    for i, (c1, c2, c3, cw, u2) in enumerate(plans):
        ms = [enc.get("%d.%s" % (i, k), "") for k in ("cp", "uf1", "uf2", "uf0")]
        if not all(m.startswith("OK ") for m in ms):
            fails.append({"property": ID, "kind": "failing-input", "case": enc_lines[4 * i], "relation": "the encoders accept representable messages", "detail": ms})
            continue
        cp, uf1, uf2, uf0 = (m.split(" ")[1] for m in ms)
        zero = ",".join(["0"] * 15)
        ops = ["M " + install.hex(), "S 10 1460 1 2 3 4 -", "M " + cp, "T 10", "I 1 10 10 " + zero, "M " + uf1, "T 20", "I 1 10 10 " + zero,
               "M " + uf2, "T 30", "I 1 10 10 " + zero, "M " + uf0, "T 40", "I 1 10 10 " + zero]
        scripts.append("VM %d %s" % (i, " ; ".join(ops)))
    real = core.run_cvm(scripts)
    model = core.run_model(scripts)

    def fields(part):   # "I rc c=.. r=.. <hex>"
        t = part.split(" ")
        if t[-1] in ("-", ""):
            return t[1], t[2], None
        b = bytes.fromhex(t[-1])
        k = struct.unpack_from("<I", b, 12)[0]
        return t[1], t[2], list(struct.unpack_from("<%dQ" % k, b, 16))
    M64 = 2**64
    checked = 0
    for i, (c1, c2, c3, cw, u2) in enumerate(plans):
        rr = real.get(str(i), "")
        parts = rr.split(" | ")
        if rr != model.get(str(i)):
            fails.append({"property": ID, "kind": "no-failing-input-found", "relation": "Lean libccp model = real libccp on messages built by portus",
                          "case": scripts[i][:2000], "real": rr[:800], "model": (model.get(str(i)) or "")[:800]})
            continue
        try:
            accept = [parts[k].split(" ")[1] for k in (1, 3, 6, 9, 12)]  # rc of M install, M cp, M uf1, M uf2, M uf0
            i1, i2, i3, i4 = fields(parts[5]), fields(parts[8]), fields(parts[11]), fields(parts[14])
        except (IndexError, struct.error):
            fails.append({"property": ID, "kind": "failing-input", "case": scripts[i][:2000], "relation": "libccp answered every step", "real": rr[:800]})
            continue
        a = c1 + c3

        def rep(c2v):   # (+ c1 c3) or (+ c2 1) overflowing is an arithmetic fault: the invocation aborts, nothing is reported
            return None if a >= M64 or c2v + 1 >= M64 else [a, c2v]
        want = {
            "all messages accepted (rc 0)": (accept, ["0"] * 5),
            "report after change-program": (i1[2], rep(6)),
            "report after update c2": (i2[2], rep(c2)),
            "report after update Cwnd+c2": (i3[2], rep(u2)),
            "set_cwnd after update": (i3[1], "c=%d" % (cw % 2**32)),
            "empty update changes nothing (volatile c2 back to 6 after a report, else kept)": (i4[2], rep(6) if rep(u2) is not None else rep(u2)),
        }
        for what, (got, exp) in want.items():
            if got != exp:
                fails.append({"property": ID, "kind": "failing-input", "case": scripts[i][:3000],
                              "relation": "libccp accepts portus' message and behaves accordingly: " + what,
                              "expected": exp, "observed_on_real_libccp": got, "plan(c1,c2,c3,cwnd,c2')": [c1, c2, c3, cw, u2]})
                break
        checked += 1
    ff, fresh = fresh_process_check()
    fails += ff
    # ---- the limits of libccp 1.2.0 itself: what portus can encode but the datapath refuses or cannot hold
    lim = {}
    one = "(def (Report (a 0)) (c1 5)) (when true (:= Report.a c1) (report))"
    r1 = core.run_impl(["CMP 0 %s - -" % one.encode().hex()]).get("0", "")
    if r1.startswith("OK "):
        im1 = bytes.fromhex(r1.split(" ")[1])
        inst1 = struct.pack("<HHIIII", 2, 20 + len(im1), 0, 7, 1, (len(im1) - 16) // 16) + im1
        zero = ",".join(["0"] * 15)
        cp0 = struct.pack("<HHIII", 4, 16, 1, 7, 0).hex()
        probes = []   # (kind, n, script, value the next report must show)
        for n in (126, 127, 128, 200, 255):
            m = core.run_impl(["ENC 0 UF 1 %d %s" % (n, ",".join("C0n=%d" % (100 + i) for i in range(n)))]).get("0", "")
            if m.startswith("OK "):
                probes.append(("UF", n, ["M " + inst1.hex(), "S 10 1460 1 2 3 4 -", "M " + cp0, "T 10", "I 1 10 10 " + zero,
                                         "M " + m.split(" ")[1], "T 20", "I 1 10 10 " + zero], 100 + n - 1, 5))
        for n in (221, 222, 223, 300):
            m = core.run_impl(["ENC 0 CP 1 7 %d %s" % (n, ",".join("C0n=%d" % (100 + i) for i in range(n)))]).get("0", "")
            if m.startswith("OK "):
                probes.append(("CP", n, ["M " + inst1.hex(), "S 10 1460 1 2 3 4 -", "M " + m.split(" ")[1], "T 10", "I 1 10 10 " + zero], 100 + n - 1, 2))
        res = core.run_cvm(["VM %d %s" % (i, " ; ".join(p[2])) for i, p in enumerate(probes)])
        for i, (kind, n, script, want, mi) in enumerate(probes):
            parts = res.get(str(i), "").split(" | ")
            try:
                rc = parts[mi + 1].split(" ")[1]
                rep = parts[-1].split(" ")[-1]
                val = struct.unpack_from("<Q", bytes.fromhex(rep), 16)[0] if rep not in ("-", "") else None
            except (IndexError, ValueError, struct.error):
                rc, val = "?", None
            ok = rc == "0" and val == want
            lim["%s n=%d" % (kind, n)] = "accepted and applied" if ok else "libccp rc=%s, report shows %s instead of %d" % (rc, val, want)
            if not ok:
                fid = ("C06-libccp-refuses-128..255-updates" if kind == "UF" and 128 <= n <= 255 else
                       "C06-libccp-refuses-223+-changeprog-fields" if kind == "CP" and n >= 223 else None)
                fails.append({"property": ID, "kind": "failing-input", "finding_id": fid, "case": "VM x " + " ; ".join(script)[:4000],
                              "relation": "libccp accepts the %s message with %d updates that portus built and applies it" % (kind, n),
                              "libccp_rc": rc, "next_report_shows": val, "expected": want})
        # an INSTALL with more instructions than libccp's 256-entry arrays (its own count check never fires)
        for k in (62, 65):   # 1 DEF + 4 instructions per event: 249 and 261 instructions
            big = "(def (Report (a 0))) " + " ".join("(when true (:= Report.a (+ Report.a 1)) (fallthrough))" for _ in range(k - 1)) + " (when true (:= Report.a (+ Report.a 1)) (report))"
            rb = core.run_impl(["CMP 0 %s - -" % big.encode().hex()]).get("0", "")
            if not rb.startswith("OK "):
                continue
            imb = bytes.fromhex(rb.split(" ")[1])
            ni_b = (len(imb) - 16 * k) // 16
            instb = struct.pack("<HHIIII", 2, 20 + len(imb), 0, 7, k, ni_b) + imb
            out = core.run_cvm(["VM 0 " + " ; ".join(["M " + instb.hex(), "S 10 1460 1 2 3 4 -", "M " + cp0, "T 10", "I 1 10 10 " + zero])]).get("0", "")
            rep = out.split(" | ")[-1].split(" ")[-1] if " | " in out else ""
            try:
                val = struct.unpack_from("<Q", bytes.fromhex(rep), 16)[0]
            except (ValueError, struct.error):
                val = None
            ok = val == k
            lim["IN %d instructions" % ni_b] = "accepted, runs, reports %s" % val if ok else "libccp: %s" % (out[:80] or "no answer")
            if not ok:
                fails.append({"property": ID, "kind": "failing-input", "finding_id": "C06-libccp-install-over-255-instructions" if ni_b > 255 else None,
                              "case": "VM x M %s ; S 10 1460 1 2 3 4 - ; M %s ; T 10 ; I 1 10 10 %s" % (instb.hex(), cp0, zero),
                              "relation": "libccp accepts the INSTALL message of a compiled program with %d events / %d instructions and runs it" % (k, ni_b),
                              "libccp_answer": out[:300], "expected_report": k})
    return fails[:12], {"libccp_behaves_accordingly": {"scripts": len(plans), "agree_with_expectation_and_model": checked,
                                                       "messages": "install, change-program(2 fields), update-fields(0/1/2 fields incl. Cwnd)"},
                        "libccp_limits": lim, "fresh_process_runtime_to_libccp": fresh}
