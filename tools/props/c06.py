"""C06 — control-plane messages are byte-exact for libccp and honest about length."""
from core import Case
from . import wiregen as W

ID = "C06"
SPEC_IS_ORACLE = lambda c: c.cmd == "RUN"  # handle-level cases: the model is the closed form of the property
THEOREMS = [
    "Portus.C06.changeprog_read_by_libccp", "Portus.C06.updatefield_read_by_libccp",
    "Portus.C06.install_read_by_libccp", "Portus.C06.header_len_honest_cp", "Portus.C06.header_len_honest_in",
    "Portus.C06.unrepresentable_fails_cp", "Portus.C06.unrepresentable_fails_uf", "Portus.C06.unrepresentable_fails_in",
    "Portus.C06.updsMatchB_iff", "Portus.C06.instrsMatchB_iff",
]
RELATION = "serialize(&changeprog|update_field|install::Msg) as bytes | ERR | PANIC"
RULE = ("exhaustive: every register class x index 0..255 x volatility as an update target; update lists of every length "
        "0..300 for change-prog and 0..255 for update-field (count field = list length, plus mismatching counts); install "
        "messages with synthetic instruction lists over all 15 opcodes and all register classes incl. out-of-range indices, "
        "immediates at the 2^31 boundary, and sizes around the 65535-byte boundary (4090..4100 instructions). "
        "non-trivial = encoder returned bytes for a message with at least one record; distinct by message")
EXPLANATION = ("theorems: libccp's packed-struct reader applied to the model encoders returns exactly the uid/sid/records a "
               "message was built from (change-prog <=222, update-field <=127, install <=32678 bytes), header length is the true "
               "length, unrepresentable lengths are refused. Correspondence on the real encoders; oracle C06.check runs the Lean "
               "libccp reader on the real bytes")
ASSUMPTIONS = ["libccp 1.2.0 reader modelled from serialize.c/ccp.c (signed-char count in update-fields, limits 222/32678); its agreement with the C code is checked by the VM correspondence (C01/C03 checks) once built",
               "u32 overflow of the install length computation (2^28 records) is outside the model"]
LEVEL_TEXT = ("Machine-checked proof (Lean 4) that libccp's reader (packed little-endian structs, ccp_read_msg) applied to the "
              "model of portus' change-program, update-fields and install encoders returns exactly the program uid, flow id and "
              "the (class, index, value) / event / instruction records the message was built from, in order, for every message "
              "within libccp's limits; that the 16-bit header length equals the true byte length and count fields the record "
              "counts; and that lengths the header cannot hold are refused. Encoders tied to the code by differential runs.")
LEVEL_NOTE = ("Trusts: Lean kernel; correspondence (register table exhaustive, lists of all lengths 0..300); the libccp reader model. "
              "'libccp behaves accordingly' (staging/applying the updates) is covered by the VM model correspondence, not by a theorem yet.")
TECHNIQUE = "Lean 4 theorems (independent libccp reader ∘ encoder = identity on records) + differential correspondence + Lean oracle"

CLASSES = ["C%dn", "C%dv", "R%dn", "R%dv", "I%d", "L%d", "P%d", "T%d"]
OPS = ["Add", "Bind", "Def", "Div", "Equiv", "Ewma", "Gt", "If", "Lt", "Max", "MaxWrap", "Min", "Mul", "NotIf", "Sub"]


def rreg(rng, ok_only=False):
    r = rng.random()
    if r < 0.1:
        n = rng.choice([0, 1, 2**31 - 1, 2**31, 2**32 - 1, 2**32, 2**63, 2**64 - 2, 2**64 - 1, rng.getrandbits(31), rng.getrandbits(64)])
        if ok_only and not (n < 2**31 or n == 2**64 - 1):
            n = 5
        return "N%d" % n
    if r < 0.15:
        return "B%d" % rng.randrange(2)
    c = rng.choice(CLASSES)
    lim = {"C": 16, "R": 16, "I": 6, "L": 6, "P": 16, "T": 8}[c[0]]
    i = rng.randrange(lim) if (ok_only or rng.random() < 0.85) else rng.choice([lim, lim + 1, 100, 255])
    return c % i


def upd_list(rng, n, ok_only=True):
    return ",".join("%s=%d" % (rreg(rng, ok_only), W.r64(rng)) for _ in range(n)) if n else "-"


def gen(ctx):
    rng = ctx.rng
    from . import rtgen as R
    for a in R.boundary_update_cases():
        yield Case("RUN", a, tags=("handle-limits",))
    # exhaustive register table as single updates
    for c in CLASSES:
        for i in range(256):
            yield Case("ENC", "CP %d %d 1 %s=%d" % (W.r32(rng), W.r32(rng), c % i, W.r64(rng)), tags=("regtable",))
            if ctx.thorough or i < 24 or i % 16 == 15:
                yield Case("ENC", "UF %d 1 %s=%d" % (W.r32(rng), c % i, W.r64(rng)), tags=("regtable",))
    for n in [0, 1, 2**31 - 1, 2**31, 2**32 - 1, 2**32, 2**64 - 2, 2**64 - 1]:
        yield Case("ENC", "CP 1 1 1 N%d=1" % n, tags=("regtable",))
    yield Case("ENC", "CP 1 1 1 B1=1", tags=("regtable",))
    # every list length
    for n in range(0, 301):
        yield Case("ENC", "CP %d %d %d %s" % (W.r32(rng), W.r32(rng), n, upd_list(rng, n)), tags=("cp-len",))
    for n in range(0, 256):
        yield Case("ENC", "UF %d %d %s" % (W.r32(rng), n, upd_list(rng, n)), tags=("uf-len",))
    for _ in range(300 if ctx.thorough else 40):
        n = rng.randrange(0, 40)
        yield Case("ENC", "CP 1 2 %d %s" % (rng.choice([0, n + 1, max(n - 1, 0), 5041, 2**32 - 1]), upd_list(rng, n)), tags=("count-mismatch",))
        yield Case("ENC", "UF 1 %d %s" % (rng.choice([0, n + 1, max(n - 1, 0), 255]), upd_list(rng, n)), tags=("count-mismatch",))
    for _ in range(3000 if ctx.thorough else 200):
        n = rng.randrange(1, 12)
        yield Case("ENC", "CP %d %d %d %s" % (W.r32(rng), W.r32(rng), n, upd_list(rng, n, ok_only=False)), tags=("cp-anyreg",))
    # install messages
    def instr(ok):
        return "%s:%s:%s:%s" % (rng.choice(OPS), rreg(rng, ok), rreg(rng, ok), rreg(rng, ok))
    for _ in range(6000 if ctx.thorough else 400):
        ni = rng.randrange(0, 30)
        ne = rng.randrange(0, 5)
        ok = rng.random() < 0.8
        evs = ",".join("%d.%d.%d.%d" % tuple(rng.choice([0, 1, 2, 255, 2**32 - 1, rng.getrandbits(32)]) for _ in range(4)) for _ in range(ne)) or "-"
        ins = ",".join(instr(ok) for _ in range(ni)) or "-"
        yield Case("ENC", "IN %d %d %d %d %s %s" % (rng.choice([0, W.r32(rng)]), W.r32(rng), ne, ni, evs, ins), tags=("install",))
    for ni in ([2030, 2040, 2041, 2042, 4090, 4093, 4094, 4095, 4096, 4100] if ctx.thorough else [2041, 2042, 4094, 4095, 4100]):
        ins = ",".join("Bind:R0n:R0n:N%d" % (k % 1000) for k in range(ni))
        yield Case("ENC", "IN 0 7 1 %d 0.1.1.%d %s" % (ni, ni - 1, ins), tags=("install-big",))


def classify(c, r):
    return [c.tags[0] + ":" + r.split(" ")[0]]


def nontrivial(c, r):
    return r.startswith("OK ") and "-" not in c.args.split(" ")[-1:]


def oracle(c, impl_res):
    if c.cmd != "ENC":
        return None  # handle-level cases (RUN) are decided by the correspondence with the model's closed form
    return ("ORC", "C06 %s @@ %s" % (c.args, impl_res))
