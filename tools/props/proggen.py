"""Type-directed generator of datapath programs (DESIGN Appendix F), shared by C01/C03/C10/C13/C14/C20.

A program is a Python structure:
  {"block": [(vol, name, init)], "legacy": [(vol, "Report.x", init)], "controls": [(vol, name, init)],
   "order": [...], "events": [(cond, [stmt])]}
expressions are tuples: ("num", n) ("inf",) ("bool", b) ("var", name) ("op", opname, l, r) ("cmd", "report"|"fallthrough")
rendering is separate (spellings, whitespace, comments) so that C20 can render one AST in many layouts.
"""

PRIMS_NUM = ["Ack.bytes_acked", "Ack.bytes_misordered", "Ack.ecn_bytes", "Ack.ecn_packets", "Ack.lost_pkts_sample",
             "Ack.now", "Ack.packets_acked", "Ack.packets_misordered", "Flow.bytes_in_flight", "Flow.bytes_pending",
             "Flow.packets_in_flight", "Flow.rate_incoming", "Flow.rate_outgoing", "Flow.rtt_sample_us"]
PRIM_BOOL = "Flow.was_timeout"
IMPLICIT_NUM = ["Micros", "Cwnd", "Rate"]
BUILTINS = PRIMS_NUM + [PRIM_BOOL] + IMPLICIT_NUM + ["__eventFlag", "__shouldContinue", "__shouldReport"]

SPELL = {"add": ["+", "add"], "and": ["&&", "and"], "bind": [":=", "bind"], "div": ["/", "div"], "eq": ["==", "eq"],
         "gt": [">", "gt"], "lt": ["<", "lt"], "mul": ["*", "mul"], "or": ["||", "or"], "sub": ["-", "sub"],
         "if": ["if"], "notif": ["!if"], "ewma": ["ewma"], "max": ["max"], "min": ["min"], "wmax": ["wrapped_max"]}
ARITH = ["add", "div", "max", "wmax", "min", "mul", "sub"]
CMPS = ["eq", "gt", "lt"]
NUM_LITS = [0, 1, 2, 7, 10, 100, 1000, 2**31 - 1]
WORDS = ["acked", "rtt", "loss", "minrtt", "rate", "cwndcap", "sacked", "timeout", "ecn", "inflight", "now", "delta",
         "alpha", "beta", "gain", "x", "y", "z", "foo", "bar", "baz", "qux", "a1", "b_2", "c.d", "Val", "MAXV", "n0",
         # names that merely resemble keywords / qualifiers (ordinary variables: the qualifier is "Report." with the dot)
         "Reports", "ReportInterval", "Reporter", "report_n", "def1", "when2", "Flowx", "Ackx", "Micros2", "Cwnd_", "Ratex", "iff", "ewma2",
         # punctuation inside identifiers (only a LEADING double underscore is reserved)
         "min__rtt", "ab__", "a___b", "x_", "a.b.c", "loss__cnt", "_u", "k_9"]


def fresh_names(rng, k, taken):
    out = []
    while len(out) < k:
        w = rng.choice(WORDS)
        if rng.random() < 0.5:
            w = w + str(rng.randrange(100))
        # avoid the parser's known prefix quirks (documented exclusions, DESIGN 6.3)
        if w in taken or w.startswith(("true", "false", "volatile", "Report.", "__")) or w[0].isdigit():
            continue
        taken.add(w)
        out.append(w)
    return out


def gen_decls(rng, nrep=None, nctl=None, bools=True):
    nrep = rng.choice([0, 1, 1, 2, 3, 4, 8, 15, 16]) if nrep is None else nrep
    nctl = rng.choice([0, 0, 1, 2, 3, 8, 16]) if nctl is None else nctl
    taken = set(BUILTINS)
    rn = fresh_names(rng, nrep, taken)
    cn = fresh_names(rng, nctl, taken)

    def init():
        r = rng.random()
        if bools and r < 0.12:
            return ("bool", rng.random() < 0.5)
        if r < 0.2:
            return ("inf",)
        return ("num", rng.choice(NUM_LITS + [0, 0, 0]))
    nblock = rng.randrange(0, nrep + 1) if rng.random() < 0.5 else (nrep if rng.random() < 0.7 else 0)
    block = [(rng.random() < 0.5, n, init()) for n in rn[:nblock]]
    legacy = [(rng.random() < 0.5, "Report." + n, init()) for n in rn[nblock:]]
    controls = [(rng.random() < 0.3, n, init()) for n in cn]
    outside = legacy + controls
    if rng.random() < 0.1 and nrep <= 12 and nctl <= 12:
        # declared with a NAME as initial value (accepted: the variable stays untyped, gets no DEF instruction and is never
        # read by the generated events) - the count of DEFs then differs from the count of declarations
        for nm in fresh_names(rng, rng.choice([1, 1, 2]), taken):
            d = (rng.random() < 0.5, nm if rng.random() < 0.5 else "Report." + nm, ("raw", rng.choice(["unset", "foo", "Cwnd"])))
            if rng.random() < 0.4 and not d[1].startswith("Report."):
                block.append((d[0], d[1], d[2]))
            else:
                outside.append(d)
    rng.shuffle(outside)
    k = rng.randrange(0, len(outside) + 1)
    return {"block": block, "before": outside[:k], "after": outside[k:]}


class Env:
    def __init__(self, decls):
        self.declared = set()   # every declared name, usable by the generator or not
        self.num_rc = []   # assignable numeric report/control (full names)
        self.bool_rc = []
        self.reports = []
        for vol, n, i in decls["block"]:
            self._add("Report." + n, i, True)
        for vol, n, i in decls["before"] + decls["after"]:
            self._add(n, i, n.startswith("Report."))
        self.locals_num = []
        self.locals_bool = []
        self.extra = 0

    def _add(self, name, init, is_rep):
        self.declared.add(name)
        if init[0] == "raw":
            return  # untyped: declared but not usable by the generator
        if is_rep:
            self.reports.append(name)
        (self.bool_rc if init[0] == "bool" else self.num_rc).append(name)


def gen_num(rng, env, budget, shape=None):
    """numeric expression using at most `budget` operator nodes; returns (expr, used)"""
    if getattr(env, "nest", 0) and env.num_rc and rng.random() < env.nest:
        if budget >= 1 and rng.random() < 0.4:
            # a GUARDED bind used as a value: (:= v (if c e)) / (!if ..) / (ewma a e) updates v in place and is v's value
            # (the compiler accepts a guarded bind only on a declared Report/control variable)
            tgt = rng.choice(env.num_rc)
            kind = rng.choice(["if", "notif", "ewma"])
            if kind == "ewma":
                c, uc = ("num", rng.randrange(0, 11)), 0
            else:
                c, uc = gen_cond(rng, env, min(budget, rng.randrange(1, 3)))
            v, uv = gen_num(rng, env, max(0, budget - uc), shape)
            return ("op", "bind", ("var", tgt), ("op", kind, c, v)), uc + uv
        # a plain bind used as a value (its value is the value bound); the target is an ordinary numeric variable
        tgt = rng.choice(env.num_rc + env.locals_num)
        v, u = gen_num(rng, env, budget, shape)
        return ("op", "bind", ("var", tgt), v), u
    if budget <= 0 or rng.random() < 0.3:
        r = rng.random()
        if r < 0.3:
            return ("num", rng.choice(NUM_LITS)), 0
        if r < 0.35:
            return ("inf",), 0
        if r < 0.6 and env.num_rc:
            return ("var", rng.choice(env.num_rc)), 0
        if r < 0.7 and env.locals_num:
            return ("var", rng.choice(env.locals_num)), 0
        if r < 0.8:
            return ("var", rng.choice(IMPLICIT_NUM)), 0
        return ("var", rng.choice(PRIMS_NUM)), 0
    op = rng.choice(ARITH)
    shape = shape or rng.choice(["left", "right", "bal", "rand"])
    rest = budget - 1
    if shape == "left":
        lb = rest
    elif shape == "right":
        lb = 0
    elif shape == "bal":
        lb = rest // 2
    else:
        lb = rng.randrange(0, rest + 1)
    l, ul = gen_num(rng, env, lb, shape)
    r, ur = gen_num(rng, env, rest - ul if shape != "bal" else rest - lb, shape)
    return ("op", op, l, r), ul + ur + 1


def gen_cond(rng, env, budget):
    r = rng.random()
    if budget <= 0 or r < 0.15:
        q = rng.random()
        if q < 0.5 or budget <= 0:
            return ("bool", rng.random() < 0.7), 0
        # a bare boolean variable is not accepted as a condition: wrap it (documented idiom: (|| v cond))
        if q < 0.7 and env.bool_rc:
            v = ("var", rng.choice(env.bool_rc))
        elif q < 0.8 and env.locals_bool:
            v = ("var", rng.choice(env.locals_bool))
        else:
            v = ("var", PRIM_BOOL)
        return (("op", "and", v, ("bool", True)) if rng.random() < 0.7 else ("op", "or", v, ("bool", False))), 1
    if r < 0.75 or budget < 3:
        l, ul = gen_num(rng, env, min(budget - 1, rng.randrange(0, 3)))
        rr, ur = gen_num(rng, env, min(budget - 1 - ul, rng.randrange(0, 3)))
        return ("op", rng.choice(CMPS), l, rr), ul + ur + 1
    l, ul = gen_cond(rng, env, (budget - 1) // 2)
    rr, ur = gen_cond(rng, env, budget - 1 - ul)
    return ("op", rng.choice(["and", "and", "or"]), l, rr), ul + ur + 1


def gen_stmt(rng, env, max_tmps=8, allow_new_local=True):
    env.nest = 0.12 if rng.random() < 0.18 else 0
    try:
        return _gen_stmt(rng, env, max_tmps, allow_new_local)
    finally:
        env.nest = 0


def _gen_stmt(rng, env, max_tmps=8, allow_new_local=True):
    if rng.random() < 0.04:
        # a bare operator expression as a statement: compiled, evaluated for its faults and nested binds, value discarded
        # (round 6: an "unobservable statement" pruning dropped them although && / || / arithmetic can fault)
        e, _ = (gen_cond if rng.random() < 0.5 else gen_num)(rng, env, rng.randrange(1, 5))
        if e[0] == "op" and e[1] not in ("bind", "if", "notif", "ewma"):
            return e
    r = rng.random()
    if r < 0.08:
        return ("cmd", "report")
    if r < 0.13:
        return ("cmd", "fallthrough")
    if r < 0.2 and (env.bool_rc or True):
        c, _ = gen_cond(rng, env, rng.randrange(1, 5))
        if c[0] != "op":
            c = ("op", "lt", ("num", 1), ("num", 2))
        if env.bool_rc and rng.random() < 0.6:
            return ("op", "bind", ("var", rng.choice(env.bool_rc)), c)
        if allow_new_local and len(env.locals_num) + len(env.locals_bool) + env.extra < 6:
            n = fresh_names(rng, 1, set(BUILTINS) | env.declared | set(env.num_rc) | set(env.bool_rc) | set(env.locals_num) | set(env.locals_bool))[0]
            env.locals_bool.append(n)
            return ("op", "bind", ("var", n), c)
        if env.locals_bool:
            return ("op", "bind", ("var", rng.choice(env.locals_bool)), c)
        return ("cmd", "report")
    if r < 0.4 and env.num_rc:
        tgt = rng.choice(env.num_rc)
        k = rng.random()
        if k < 0.4:
            c, uc = gen_cond(rng, env, rng.randrange(0, 4))
            v, _ = gen_num(rng, env, min(max_tmps - uc, rng.randrange(0, 4)))
            return ("op", "bind", ("var", tgt), ("op", "if", c, v))
        if k < 0.7:
            c, uc = gen_cond(rng, env, rng.randrange(0, 4))
            v, _ = gen_num(rng, env, min(max_tmps - uc, rng.randrange(0, 4)))
            return ("op", "bind", ("var", tgt), ("op", "notif", c, v))
        v, _ = gen_num(rng, env, rng.randrange(0, 5))
        return ("op", "bind", ("var", tgt), ("op", "ewma", ("num", rng.randrange(0, 11)), v))
    # plain numeric bind
    budget = rng.choice([0, 1, 2, 3, 4, 6, 7, 8]) if rng.random() < 0.8 else max_tmps
    v, _ = gen_num(rng, env, min(budget, max_tmps))
    q = rng.random()
    if q < 0.5 and env.num_rc:
        tgt = rng.choice(env.num_rc)
    elif q < 0.65:
        tgt = rng.choice(IMPLICIT_NUM)
    elif q < 0.8 and env.locals_num:
        tgt = rng.choice(env.locals_num)
    elif allow_new_local and len(env.locals_num) + len(env.locals_bool) + env.extra < 6:
        tgt = fresh_names(rng, 1, set(BUILTINS) | env.declared | set(env.num_rc) | set(env.bool_rc) | set(env.locals_num) | set(env.locals_bool))[0]
        env.locals_num.append(tgt)
    elif env.num_rc:
        tgt = rng.choice(env.num_rc)
    else:
        tgt = rng.choice(IMPLICIT_NUM)
    return ("op", "bind", ("var", tgt), v)


def gen_program(rng, nrep=None, nctl=None, nev=None, bools=True, ensure_report=0.0):
    d = gen_decls(rng, nrep, nctl, bools)
    env = Env(d)
    evs = []
    for _ in range(nev or rng.choice([1, 1, 2, 3, 5])):
        c, _ = gen_cond(rng, env, rng.choice([0, 1, 2, 4, 8]))
        body = [gen_stmt(rng, env) for _ in range(rng.randrange(1, 7))]
        if rng.random() < 0.08 and len(env.locals_num) + len(env.locals_bool) + env.extra <= 4:
            # a read of a name that was never assigned (an untyped local, reads 0), copied into a fresh local which
            # is then given a number (regression shape of F11: the second bind used to write the *other* register)
            used = set(BUILTINS) | env.declared | set(env.num_rc) | set(env.bool_rc) | set(env.locals_num) | set(env.locals_bool)
            t, u = fresh_names(rng, 2, used)
            i = rng.randrange(len(body) + 1)
            body.insert(i, ("op", "bind", ("var", t), ("var", u)))
            j = rng.randrange(i + 1, len(body) + 1)
            saved, env.locals_num = env.locals_num, []   # position j may precede the first assignment of a local
            v, _ = gen_num(rng, env, rng.randrange(0, 3))
            env.locals_num = saved
            body.insert(j, ("op", "bind", ("var", t), v))
            env.locals_num.append(t)
            if rng.random() < 0.5:
                body.insert(rng.randrange(j + 1, len(body) + 1), ("op", "bind", ("var", u), ("num", rng.randrange(0, 100))))
                env.locals_num.append(u)
            else:
                env.extra += 1  # stays untyped: never read again, but it occupies a local register
        evs.append((c, body))
    if rng.random() < ensure_report:
        c, body = rng.choice(evs)
        body.insert(rng.randrange(len(body) + 1), ("cmd", "report"))
        if rng.random() < 0.5:
            evs[0][1].append(("cmd", "fallthrough"))
    return {"decls": d, "events": evs, "env": env}


# ------------------------------------------------------------------ rendering

class Layout:
    """how to render: spellings, whitespace, comments. `plain` = single spaces, symbolic spellings"""

    def __init__(self, rng=None, ws=False, comments=False, spelling="sym"):
        self.rng, self.ws, self.comments, self.spelling = rng, ws, comments, spelling

    def sp(self, required=True):
        if not self.ws or self.rng is None:
            return " " if required else ""
        n = self.rng.randrange(1 if required else 0, 4)
        return "".join(self.rng.choice(" \t\r\n") for _ in range(n))

    def opname(self, o):
        s = SPELL[o]
        if self.spelling == "sym":
            return s[0]
        if self.spelling == "word":
            return s[-1]
        return self.rng.choice(s)

    def comment(self):
        if self.comments and self.rng is not None and self.rng.random() < 0.5:
            # a comment runs to its LINE FEED: carriage returns, tabs, parentheses and program text inside it are comment text
            return "#" + self.rng.choice(["", " a comment", " (when true (report))", "# := + 1", " é", " old\r(:= Cwnd 0)", "\r(when true (report))",
                                          " a\rb c", "\r", " x\r", "\t(\r)", " crlf\r", " \r\r#(fallthrough)"]) + "\n"
        return ""


def r_atom(e):
    if e[0] == "num":
        return str(e[1])
    if e[0] == "inf":
        return "+infinity"
    if e[0] == "bool":
        return "true" if e[1] else "false"
    if e[0] == "var":
        return e[1]
    if e[0] == "raw":
        return e[1]
    raise ValueError(e)


def r_expr(e, L):
    if e[0] == "cmd":
        return "(" + L.sp(False) + e[1] + L.sp(False) + ")"
    if e[0] == "op":
        return "(" + L.sp(False) + L.opname(e[1]) + L.sp() + r_expr(e[2], L) + L.sp() + r_expr(e[3], L) + L.sp(False) + ")"
    return r_atom(e)


def r_decl(d, L):
    vol, n, i = d
    return "(" + L.sp(False) + ("volatile" + L.sp() if vol else "") + n + L.sp() + r_atom(i) + L.sp(False) + ")"


def render(p, L=None):
    L = L or Layout()
    d = p["decls"]
    s = L.sp(False) + "(def"
    for x in d["before"]:
        s += L.sp(False) + r_decl(x, L)
    if d["block"]:
        s += L.sp(False) + "(" + L.sp(False) + "Report" + "".join(L.sp(False) + r_decl(x, L) for x in d["block"]) + L.sp(False) + ")"
    for x in d["after"]:
        s += L.sp(False) + r_decl(x, L)
    s += ")" + L.sp(False)
    for c, body in p["events"]:
        s += L.comment()
        s += L.sp(False) + "(" + L.sp(False) + "when" + L.sp() + r_expr(c, L)
        for st in body:
            s += L.sp()
            cm = L.comment()
            while cm:
                s += cm + L.sp(False)
                cm = L.comment() if L.rng.random() < 0.3 else ""
            s += r_expr(st, L)
        s += L.sp(False) + ")" + L.sp(False)
    return s


def declared_names(p):
    d = p["decls"]
    return ["Report." + n for _, n, _ in d["block"]] + [n for _, n, _ in d["before"] + d["after"]]


def all_names(p):
    env = p["env"]
    return declared_names(p) + env.locals_num + env.locals_bool


def hx(s):
    b = s.encode() if isinstance(s, str) else s
    return b.hex() if b else "-"


# ------------------------------------------------------------------ ill-typed / ill-placed mutants (C10, C03)

def mutate_ast(rng, p):
    """return a copy of program p with one ill-typed or ill-placed construct"""
    import copy
    q = copy.deepcopy(p)
    ev = rng.choice(q["events"])
    kind = rng.choice(["cond-cmd", "cond-num", "cond-report-var", "stmt-if", "nested-if", "if-local", "if-implicit",
                       "bool-arith", "num-and", "bind-prim", "bind-lit", "ewma-if", "stmt-atom", "unbound-local",
                       "deep", "cmd-operand", "if-in-cond", "bind-in-cond", "many-locals", "big-lit"])
    c, body = ev
    i = q["events"].index(ev)
    one = ("num", 1)
    tgt = ("var", rng.choice(q["env"].num_rc)) if q["env"].num_rc else ("var", "Cwnd")
    if kind == "cond-cmd":
        q["events"][i] = (("cmd", rng.choice(["report", "fallthrough"])), body)
    elif kind == "cond-num":
        q["events"][i] = (rng.choice([one, ("op", "add", one, one), ("var", "Cwnd")]), body)
    elif kind == "cond-report-var":
        q["events"][i] = (tgt, body)
    elif kind == "stmt-if":
        body.insert(rng.randrange(len(body) + 1), ("op", rng.choice(["if", "notif", "ewma"]), ("bool", True), one))
    elif kind == "nested-if":
        body.append(("op", "bind", tgt, ("op", "if", ("bool", True), ("op", "if", ("bool", True), one))))
    elif kind == "if-local":
        body.append(("op", "bind", ("var", "zz9"), ("op", "if", ("bool", True), one)))
    elif kind == "if-implicit":
        body.append(("op", "bind", ("var", rng.choice(IMPLICIT_NUM)), ("op", rng.choice(["if", "ewma"]), ("bool", True), one)))
    elif kind == "bool-arith":
        body.append(("op", "bind", tgt, ("op", "add", ("bool", True), one)))
    elif kind == "num-and":
        q["events"][i] = (("op", "and", one, ("bool", True)), body)
    elif kind == "bind-prim":
        body.append(("op", "bind", ("var", rng.choice(PRIMS_NUM)), one))
    elif kind == "bind-lit":
        body.append(("op", "bind", rng.choice([one, ("bool", True), ("inf",)]), one))
    elif kind == "ewma-if":
        body.append(("op", "bind", tgt, ("op", "ewma", one, ("op", "if", ("bool", True), one))))
    elif kind == "stmt-atom":
        body.append(rng.choice([one, ("var", "Cwnd"), ("bool", False), ("var", "undefinedvar")]))
    elif kind == "unbound-local":
        body.append(("op", "bind", tgt, ("op", "add", ("var", "neverbound"), one)))
    elif kind == "deep":
        e = one
        for _ in range(rng.choice([9, 10, 17, 40, 64])):
            e = ("op", "add", one, e) if rng.random() < 0.5 else ("op", "add", e, one)
        body.append(("op", "bind", tgt, e))
    elif kind == "cmd-operand":
        body.append(("op", "bind", tgt, ("op", "add", ("cmd", "report"), one)))
    elif kind == "if-in-cond":
        q["events"][i] = (("op", "if", ("bool", True), ("bool", True)), body)
    elif kind == "bind-in-cond":
        q["events"][i] = (("op", "bind", ("var", "fl"), ("op", "lt", one, one)), body)
    elif kind == "many-locals":
        for k in range(rng.choice([6, 7, 8])):
            body.append(("op", "bind", ("var", "loc%d" % k), one))
    elif kind == "big-lit":
        body.append(("op", "bind", tgt, ("num", rng.choice([2**31, 2**32 - 1, 2**32, 2**63, 2**64 - 2, 2**64 - 1, 2**64, 10**25]))))
    return q, kind


TOKENS = ["(", ")", "def", "when", "Report", "volatile", "true", "false", "+infinity", "0", "7", "x", "Report.x",
          "Micros", ":=", "+", "&&", "if", "!if", "ewma", "report", "fallthrough", "#c\n"]


def token_contexts(seq):
    """a token sequence placed in four contexts"""
    s = " ".join(seq)
    yield s
    yield "(def " + s + ") (when true (report))"
    yield "(def (Report (x 0))) (when " + s + " (report))"
    yield "(def (Report (x 0))) (when true " + s + ")"


def corner_programs():
    """finite grids at the syntactic corners a random generator never reaches (shared by C03, C10, C13, C14, C20 acceptance):
    stateful instructions x operand positions x operators x EVERY kind of bind target (variables, built-ins, primitives,
    literals, computed expressions), binds as conditions, and type/kind mismatches of declared booleans"""
    OPS16 = ["+", "-", "*", "/", "max", "min", "wrapped_max", "==", "<", ">", "&&", "||", "if", "!if", "ewma", ":="]
    inner = ("(if true 3)", "(!if false 3)", "(ewma 2 Flow.rtt_sample_us)", "(if (ewma 2 1) 3)", "(ewma (if true 1) 3)")
    targets = ("Report.x", "c", "loc", "Cwnd", "Micros", "Flow.rtt_sample_us", "Ack.now", "5", "true", "+infinity", "(+ 1 2)", "(> Ack.bytes_acked 0)",
               "__eventFlag", "bflag", "vb")
    head = "(def (Report (x 0)) (c 1) (bflag true) (volatile vb false)) "
    out = []
    # a rejected program whose Report block fails at its first member, then an accepted one with declarations outside the block
    # (whatever the parser remembered of the failed attempt must not leak into the next compilation)
    goods = ["(def (Report (x 0)) (cap 10) (volatile vc 3)) (when true (:= Report.x (+ cap vc)) (report))",
             "(def (cap 10) (volatile vc 3) (Report (x 0))) (when true (:= Report.x (+ cap vc)) (report))",   # declarations BEFORE the block
             "(def (cap 10) (volatile vc 3)) (when true (:= Cwnd (+ cap vc)))",                              # no Report block at all
             "(def (cap 10) (volatile thresh 20) (volatile Report.acked 3)) (when true (:= cap 5) (:= thresh 6) (:= Report.acked 7) (report))"]
    bads = ("(def (Report (1bad 0)) (c 1)) (when true (report))", "(def (Report ()) (c 1)) (when true (report))",
            "(def (Report) (c 1)) (when true (report))", "(def (Report (x)) (c 1)) (when true (report))",
            "(def (Report (acked) (volatile rtt 0)) (cap 10)) (when true (report))",
            "(def (Report (volatile)) (c 1)) (when true (report))", "(def (Report (x 0) (1bad 0)) (c 1)) (when true (report))",
            "(def (Report (x 0)) (1bad 0)) (when true (report))", "(def (Report (x 99999999999)) (c 1)) (when true (report))")
    # (every text is made distinct - trailing blanks - so that the runner's de-duplication keeps every copy, in this order)
    for i, bad in enumerate(bads):
        for j, good in enumerate(goods):
            out.append(bad + " " * (j + 1))
            out.append(good + " " * (i + 1))
    for outer in OPS16:
        for inn in inner:
            for shape in ("(%s %s 3)" % (outer, inn), "(%s 3 %s)" % (outer, inn), "(%s %s %s)" % (outer, inn, inn)):
                for tgt in ("Report.x", "c", "loc", "Cwnd"):
                    out.append(head + "(when true (:= %s %s) (report))" % (tgt, shape))
                out.append(head + "(when true %s (report))" % shape)
                out.append(head + "(when %s (report))" % shape)
    values = ("3", "true", "(+ 1 2)", "(> 2 1)", "(if true 3)", "(if (> Ack.bytes_acked 0) 5)", "(!if false 3)", "(ewma 2 3)", "Flow.was_timeout", "bflag", "c", "nosuch")
    for tgt in targets:
        for v in values:
            out.append(head + "(when true (:= %s %s) (report))" % (tgt, v))
            out.append(head + "(when true (bind %s %s) (:= Report.x 1))" % (tgt, v))
            out.append(head + "(when (:= %s %s) (report))" % (tgt, v))                  # a bind as the condition
            out.append(head + "(when (&& (:= %s %s) true) (report))" % (tgt, v))
            out.append(head + "(when true (:= Report.x (+ 1 (:= %s %s))) (report))" % (tgt, v))
    # a bind whose TARGET is itself a bind (it evaluates to the inner target's register), with values whose code is shorter than,
    # as long as, and longer than the target's code (operand code order matters to the stateful instructions' placeholder)
    ntargets = ("(:= Report.x 1)", "(:= c (+ 1 2))", "(bind c Micros)", "(:= Report.x (+ (+ 1 2) (+ 3 4)))", "(:= loc 2)", "(:= Cwnd 10)",
                "(:= (:= c 1) 2)", "(:= Report.x (if true 4))")
    nvalues = ("3", "(+ Micros 3)", "(if true 5)", "(if (> Micros 3) 5)", "(!if (== 1 2) (+ c 1))", "(ewma 2 3)", "(ewma 2 (+ Micros 3))",
               "(if (&& (> Micros 3) (< Micros 9)) (+ (+ c 1) (+ c 2)))", "(:= c 7)", "(> 2 1)")
    for tgt in ntargets:
        for v in nvalues:
            out.append(head + "(when true (:= %s %s) (report))" % (tgt, v))
            out.append(head + "(when true (bind %s %s) (:= Report.x (+ Report.x c)) (report))" % (tgt, v))
            out.append(head + "(when (> (:= %s %s) 0) (report))" % (tgt, v))
    out += semantic_corner_programs()
    return out


def short_name_programs():
    """a LOCAL (or control) whose name is the short name of a declared Report variable is a different variable (round 6: the scope
    lookup fell back to "Report." + name, so the local shared the report register)"""
    out = []
    for decl in ("(Report (acked 0) (rtt 5))", "(Report.acked 0) (Report.rtt 5)", "(Report (volatile acked 0)) (Report.rtt 5)"):
        out.append("(def %s (c 1)) (when true (:= acked 7) (:= Report.acked (+ acked 1)) (:= rtt (+ Report.rtt 2)) (:= Report.rtt (+ rtt acked)) (report))" % decl)
        out.append("(def %s (acked 3)) (when true (:= rtt 9) (:= Report.acked (+ acked rtt)) (:= acked (+ acked 1)) (report))" % decl)
        out.append("(def %s) (when (> Ack.bytes_acked 0) (:= l1 1) (:= acked (+ l1 1)) (:= l2 (+ acked 1)) (:= Report.rtt (+ l2 acked)) (report))" % decl)
    # a member of the Report block whose OWN name starts with "Report." (or is "Report"-like) keeps it: (Report (Report.x 0)) declares
    # Report.Report.x, not Report.x (round 6: the qualifier was trimmed from block members before being added)
    out.append("(def (Report (Report.x 0) (y 1))) (when true (:= Report.Report.x (+ Report.y 4)) (:= Report.x 9) (report))")
    out.append("(def (Report (Report.x 3) (x 4) (Reportx 5) (Report.Report.z 6))) (when true (:= Report.x (+ Report.Report.x Report.Reportx)) (report))")
    out.append("(def (Report (x 1)) (Report.Report.x 2) (Report.x.Report. 3)) (when true (:= Report.x (+ Report.Report.x 1)) (report))")
    return out


def multibyte_comment_sweep(lo=0, hi=600):
    """a valid program with a comment that holds a multi-byte character lying across every byte offset lo..hi of the source text
    (round 6: a log line sliced the first 256 bytes of the program text - a panic when the cut falls inside a character)"""
    for off in range(lo, hi):
        for ch in ("\u00e9", "\u20ac", "\U0001F600")[: 3 if off % 16 == 0 else 1]:
            head = "(def (Report (x 0))) "
            pad = off - len(head) - 2
            if pad < 0:
                src = "# " + "a" * max(0, off - 2) + ch + " z\n" + head + "(when true (:= Report.x %d) (report))" % off
            else:
                src = head + "# " + "a" * pad + ch + " z\n(when true (:= Report.x %d) (report))" % off
            yield src


def semantic_corner_programs():
    """corner programs whose MEANING matters (run on the datapath by C01): declared booleans, literals at the representation limits"""
    out = []
    for decl in ("(b true)", "(b false)", "(volatile b true)", "(volatile b false)", "(Report (b true))", "(Report (volatile b true))", "(Report.b true)"):
        nm = "Report.b" if "Report" in decl else "b"
        out.append("(def (Report (x 0)) %s) (when (&& %s true) (:= Report.x (+ Report.x 1)) (:= %s false) (report))" % (decl, nm, nm))
        out.append("(def (Report (x 0)) %s) (when true (:= %s (> Ack.bytes_acked 5)) (fallthrough)) (when (|| %s false) (:= Report.x 7) (report))" % (decl, nm, nm))
        out.append("(def (Report (x 0)) %s) (when (|| %s false) (:= Report.x (+ Report.x 100)) (:= %s false) (report)) (when true (:= Report.x (+ Report.x 1)) (:= %s true) (report))" % (decl, nm, nm, nm))
    out.extend(short_name_programs())
    # F11 regression shapes: a local first bound to a never-assigned name, then bound again (each must keep its own register)
    out.append("(def (Report (acked 0)) (c 0)) (when true (:= x y) (:= x 3) (:= Report.acked x) (report))")
    out.append("(def (Report (a 0) (b 0))) (when true (bind p q) (bind p 5) (bind q 6) (:= Report.a p) (:= Report.b q) (report))")
    out.append("(def (Report (a 0))) (when true (:= p q) (:= r p) (:= p 1) (:= r 2) (:= q 3) (:= Report.a (+ (+ p r) q)) (report))")
    for st in ("(|| Flow.was_timeout false)", "(&& Flow.was_timeout true)", "(> Ack.bytes_acked 5)", "(+ Ack.bytes_acked 18446744073709551615)",
               "(/ 7 Ack.lost_pkts_sample)", "(max Report.x (:= Report.x 4))", "(* (+ Report.x 1) (- Report.x 1))"):
        out.append("(def (Report (r 0) (x 1))) (when true %s (:= Report.r (+ Report.r 1)) (report)) (when true (:= Report.r 100))" % st)
        out.append("(def (Report (r 0) (x 1))) (when true (:= Report.r 5) %s %s (report))" % (st, st))
    # the SAME pure sub-expression before and after a nested bind of a variable it reads (round 5: a table of already computed
    # sub-expressions reused the first temporary although a guarded bind had changed the variable in between)
    for g in ("(if (> Ack.bytes_acked 0) 7)", "(!if (> Ack.bytes_acked 0) 7)", "(ewma 5 Ack.bytes_acked)", "7", "(+ Report.x Ack.bytes_acked)"):
        out.append("(def (Report (r 0) (x 10))) (when true (:= Report.r (+ (* Report.x 2) (+ (:= Report.x %s) (* Report.x 2)))) (report))" % g)
        out.append("(def (Report (r 0)) (x 10)) (when true (:= Report.r (+ (+ x 1) (* (:= x %s) (+ x 1)))) (report))" % g.replace("Report.x", "x"))
        out.append("(def (Report (r 0) (x 10))) (when (> (+ (* Report.x 2) (:= Report.x %s)) (* Report.x 2)) (:= Report.r Report.x) (report))" % g)
        out.append("(def (Report (r 0) (x 3))) (when true (:= Report.r (max (min Report.x 5) (max (:= Report.x %s) (min Report.x 5)))) (report)) (when true (:= Report.r (min Report.x 5)))" % g)
    for lit in (2**31 - 1, 2**31, 2**32 - 1, 2**32, 2**33 - 1, 2**40, 2**40 - 1, 2**63 - 1, 2**63, 2**64 - 2, 2**64 - 1, 2**64, 3 * 2**32 + 0xffffffff):
        out.append("(def (Report (x 0))) (when true (:= Report.x %d) (report))" % lit)
        out.append("(def (Report (x %d))) (when true (report))" % lit)
        out.append("(def (Report (x 0)) (c %d)) (when (> Micros %d) (:= Report.x c) (report))" % (lit, lit))
    return out
