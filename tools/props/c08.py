"""C08 — the receive path frames datagrams correctly and never mixes in stale bytes."""
import struct
from core import Case
from . import wiregen as W

ID = "C08"
SPEC_IS_ORACLE = lambda c: c.cmd in ("BKDR", "BKDC", "BKDN")
THEOREMS = [
    "Portus.C08.yields_function_of_datagrams", "Portus.C08.stale_bytes_irrelevant",
    "Portus.C08.yields_from_any_state", "Portus.C08.wellformed_datagrams_yield_messages",
    "Portus.C08.next_no_panic", "Portus.C08.reception_advances", "Portus.C08.check_model",
]
RELATION = "sequence of (sender, message) yielded by Backend::next over a scripted transport"
RULE = ("scripts of 1..6 (thorough: ..12) datagrams from 3 senders, each 1..4 well-formed messages, sizes chosen so that "
        "later datagrams are shorter than earlier ones; the last message truncated at every offset or with a corrupted "
        "length/type field; recv errors, empty datagrams and stop requests interleaved; every script is run with two "
        "different pre-fills of the receive buffer (metamorphic: stale bytes). non-trivial = at least 2 datagrams and a "
        "yield after the first; distinct by script")
EXPLANATION = ("theorem: the yield sequence of the Backend model equals specRun, a function of the datagram script alone "
               "(no buffer), from any buffer contents and any reachable cursor state; framing theorem for well-formed "
               "datagrams via the C07 round trip; no panic; cursor strictly advances. Correspondence: real Backend::next "
               "over a scripted Ipc vs the model; oracle C08.check = specRun evaluated in Lean on the real yields")
ASSUMPTIONS = ["datagrams no larger than the 1024-byte receive buffer (a larger one is cut by the scripted transport as recv would)",
               "Ipc::recv writes only the returned prefix of the buffer"]
LEVEL_TEXT = ("Machine-checked proof (Lean 4) that the sequence of (message, sender) pairs yielded by the model of "
              "Backend::next equals a buffer-free specification of the datagram script, for every script, every initial buffer "
              "content and every reachable cursor state (so stale bytes can never become part of a message), that datagrams made "
              "of well-formed messages yield exactly those messages in order with their sender, that next never panics and always "
              "advances. Model tied to the code by differential runs over scripted transports.")
LEVEL_NOTE = "Trusts: Lean kernel; correspondence sampling; the Ipc contract (recv returns the number of bytes it wrote)."
TECHNIQUE = "Lean 4 refinement theorem (receive loop = buffer-free spec, induction over fuel) + differential correspondence + Lean oracle"


def gen_script(rng, maxd):
    items = []
    nd = rng.randrange(1, maxd + 1)
    sizes_desc = rng.random() < 0.6
    dgrams = []
    for _ in range(nd):
        k = rng.randrange(1, 5)
        msgs = [W.rand_valid(rng)[1] for _ in range(k)]
        # messages of types the CCP side does not interpret, of ANY length (odd ones too), between the others
        for j in range(len(msgs)):
            if rng.random() < 0.15:
                L = rng.choice([8, 9, 10, 11, 12, 13, 15, 17, 21, 33, rng.randrange(8, 60)])
                msgs.insert(j, struct.pack("<HHI", rng.choice([2, 3, 4, 6, 7, 0x23, 255]), L, rng.getrandbits(32)) + bytes(rng.getrandbits(8) for _ in range(L - 8)))
        dgrams.append(b"".join(msgs)[:1024] if rng.random() < 0.95 else b"".join(msgs))
    if sizes_desc:
        dgrams.sort(key=len, reverse=True)
    for i, d in enumerate(dgrams):
        last = i == len(dgrams) - 1
        r = rng.random()
        if (last or rng.random() < 0.2) and r < 0.5 and len(d) > 1:
            d = d[: rng.randrange(1, len(d))]  # truncated tail
        elif r < 0.6 and len(d) >= 8:
            m = bytearray(d)
            off = 0
            # corrupt the header of the last message in the datagram: find it by walking declared lengths
            while off + 8 <= len(m):
                ln = struct.unpack_from("<H", m, off + 2)[0]
                if ln < 8 or off + ln >= len(m):
                    break
                off += ln
            if off + 4 <= len(m):
                if rng.random() < 0.5:
                    struct.pack_into("<H", m, off + 2, rng.choice([0, 7, 8, 9, 12, 16, 24, 96, 200, 1024, 65535]))
                else:
                    struct.pack_into("<H", m, off, rng.choice([0, 1, 2, 3, 4, 5, 6, 256, 257, 261]))
            d = bytes(m)
        elif r < 0.65:
            d += bytes(rng.getrandbits(8) for _ in range(rng.randrange(1, 12)))
        if len(d) > 1024:
            d = d[:1024]
        if rng.random() < 0.1:
            items.append("E")
        if rng.random() < 0.05:
            items.append("%d:-" % rng.randrange(1, 4))
        items.append("%d:%s" % (rng.randrange(1, 4), W.hx(d)))
        if rng.random() < 0.03:
            items.append("X")
    return items


def gen(ctx):
    rng = ctx.rng
    from . import rtgen as R
    # two runtimes alive in one process at the same time (own threads, own transports): each behaves as it does alone
    for _ in range(600 if ctx.thorough else 40):
        # (same algorithm configuration in both: the harness keeps algorithm names in process-global slots)
        algs, allp = R.gen_cfg(rng, rich=False)
        cfg = " ".join(x["text"] for x in algs)
        sa = R.gen_script(rng, algs, allp, n=rng.randrange(8, 25), adversarial=0.2, faults=0.0, stop=0.0)
        sb = R.gen_script(rng, algs, allp, n=rng.randrange(8, 25), adversarial=0.2, faults=0.0, stop=0.0)
        yield Case("RUNPAIR", "%s SCRIPT %s || %s SCRIPT %s" % (cfg, " ".join(sa), cfg, " ".join(sb)), tags=("two-runtimes",))
    # a well-formed message at the head of a buffer around and beyond 64 KiB (length arithmetic must not be done in 16 bits)
    import struct as _st
    for msg in (W.enc_ready(7), W.enc_measure(3, 9, [1, 2, 3]), W.enc_create(1, 2, 3, 4, 5, 6, 7, b"reno"),
                _st.pack("<HHI", 0x23, 40000, 1) + bytes(39992)):
        for total in (65535, 65536, 65537, 65536 + len(msg) - 1, 65536 + len(msg), 131072, 131072 + 5, 200000):
            if total >= len(msg):
                yield Case("DEC", W.hx(msg + bytes(total - len(msg))), tags=("bigbuf",))
        yield Case("DECS", W.hx(msg * 3 + bytes(65536) + msg), tags=("bigbuf",))
    n = 60000 if ctx.thorough else 3000
    maxd = 12 if ctx.thorough else 6
    for _ in range(n):
        items = gen_script(rng, maxd)
        f1, f2 = rng.sample(["00", "01", "05", "aa", "ff", "61"], 2)
        yield Case("BKD", "F:%s %s" % (f1, " ".join(items)), tags=("script",))
        if rng.random() < 0.5:
            yield Case("BKD", "F:%s %s" % (f2, " ".join(items)), tags=("script-refill",))
    # pause and resume: the stop flag is cleared between datagrams (item X), next() returns None, the caller sets the flag again and
    # keeps calling next() on the SAME backend: nothing already delivered may come back, nothing may be lost
    for _ in range(n // 3):
        items = gen_script(rng, maxd)
        k = rng.randrange(1, 4)
        for _ in range(k):
            items.insert(rng.randrange(len(items) + 1), "X")
        yield Case("BKDR", "F:%s %s" % (rng.choice(["00", "aa", "ff"]), " ".join(items)), tags=("pause-resume",))
    # the same loop over the REAL in-process channel transport, with datagrams that fill the 1024-byte receive buffer to the last
    # byte (and one or a few more: those the transport refuses, and the traffic after them is unaffected)
    small = W.enc_measure(4, 2, [8, 9])
    for L in (512, 1000, 1008, 1016, 1020, 1021, 1022, 1023, 1024, 1025, 1026, 1028, 1032, 2048, 4096):
        if L % 8 == 0:
            big = W.enc_measure(7, 1, list(range((L - 16) // 8)))
        elif L % 4 == 0:
            big = W.enc_ready(3) + W.enc_measure(7, 1, list(range((L - 12 - 16) // 8)))
        else:
            big = struct.pack("<HHI", 0x23, L, 1) + bytes(L - 8)
        assert len(big) == L
        for fill in ("00", "ff"):
            yield Case("BKDC", "F:%s 0:%s 0:%s 0:%s" % (fill, W.hx(small), W.hx(big), W.hx(small + W.enc_ready(5))), tags=("chan-full-buffer",))
            yield Case("BKDC", "F:%s 0:%s 0:%s 0:%s" % (fill, W.hx(big), W.hx(big), W.hx(small)), tags=("chan-full-buffer",))
    for _ in range(2000 if ctx.thorough else 200):
        items = [("0:" + it.split(":", 1)[1]) for it in gen_script(rng, maxd) if ":" in it and not it.endswith(":-")]
        if items:
            yield Case("BKDC", "F:%s %s" % (rng.choice(["00", "aa"]), " ".join(items)), tags=("chan-script",))
    # the same loop over the REAL netlink transport; the netlink header of every other datagram claims more payload than was sent
    # (round 6: the receive took the length from the header, so bytes of an earlier, longer datagram were framed again)
    two = W.enc_measure(1, 9, [11, 12, 13]) + W.enc_measure(7, 9, [1, 2, 3])
    one = W.enc_measure(2, 9, [21, 22, 23])
    mark = struct.pack("<HHI", 255, 12, 3597) + b"done"
    for fill in ("00", "aa"):
        yield Case("BKDN", "F:%s 0:%s 0:%s 0:%s" % (fill, W.hx(two), W.hx(one), W.hx(mark)), tags=("netlink",))
        yield Case("BKDN", "F:%s 0:%s 0:%s 0:%s 0:%s" % (fill, W.hx(one), W.hx(two + one), W.hx(one[:24]), W.hx(mark)), tags=("netlink",))
    for _ in range(400 if ctx.thorough else 40):
        items = [("0:" + it.split(":", 1)[1]) for it in gen_script(rng, maxd) if ":" in it and not it.endswith(":-")]
        items = [it for it in items if 2 <= len(it) - 2 <= 1800]
        if items:
            yield Case("BKDN", "F:%s %s" % (rng.choice(["00", "aa"]), " ".join(items[:12])), tags=("netlink",))
    # every truncation point of a fixed two-datagram scenario (long create, then short tail)
    cr = W.enc_create(1, 2, 3, 4, 5, 6, 7, b"reno")
    ms = W.enc_measure(7, 1, [5])
    tail = ms + W.enc_ready(9)
    for cut in range(1, len(tail) + 1):
        for fill in ("00", "aa"):
            yield Case("BKD", "F:%s 1:%s 2:%s" % (fill, W.hx(cr + cr), W.hx(tail[:cut])), tags=("trunc",))


_NO_NETLINK = set()


def project(c, r):
    """a sandbox without NETLINK_USERSOCK cannot run the BKDN cases: they are then skipped (counted in the histogram), not compared"""
    if c.cmd == "BKDN":
        if r == "NETLINK-UNAVAILABLE":
            _NO_NETLINK.add(c.key())
        if c.key() in _NO_NETLINK:
            return "SKIPPED (no netlink sockets in this sandbox)"
    return r


def classify(c, r):
    if c.cmd == "BKDN" and r == "NETLINK-UNAVAILABLE":
        return ["netlink:unavailable-skipped"]
    parts = r.split(" | ")
    kinds = sorted(set(p.split(" ")[2] if p.count(" ") >= 2 else p for p in parts))
    return [c.tags[0] + ":yields=%d" % min(len(parts) - 1, 9), "kinds:" + "+".join(kinds)]


def nontrivial(c, r):
    return c.args.count(":") >= 3 and r.count(" | ") >= 2


def oracle(c, impl_res):
    if c.cmd != "BKD":
        return None  # pause/resume runs: decided against the model's next() (theorem yields_from_any_state covers every reachable state)
    return ("ORC", "C08 %s @@ %s" % (c.args, impl_res))
