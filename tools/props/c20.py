"""C20 — the documented language is accepted, and layout does not change meaning."""
from core import Case
import core
from . import proggen as G

ID = "C20"
AUDIT_IMPORTS = ["PortusModel.Props.C20Layout", "PortusModel.Lemmas.Accept2"]
# theorems of Props/Tables.lean over the tables TRANSLATED from /repo/src and libccp's headers on every run (DESIGN 11.7)
TABLE_THEOREMS = ['src_opTable_eq']
THEOREMS = ["Portus.Lang.Typing.well_typed_accepted", "Portus.Lang.Typing.well_typed_accepted_upd", "Portus.Lang.Typing.well_typed_image",
            "Portus.Lang.Typing.wtSrc_accepted", "Portus.Lang.Typing.richSrc_accepted", "Portus.Lang.Typing.wellTyped_eq",
            "Portus.Lang.Typing.wellTyped_mono", "Portus.Lang.Typing.compile_value", "Portus.Lang.Typing.nestedSrc_accepted",
            "Portus.Lang.Typing.nestedLocalSrc_accepted", "Portus.Lang.Typing.hazardSrc_accepted", "Portus.Lang.Typing.finding_known_target_type",
            "Portus.Lang.Typing.compile_valueG", "Portus.Lang.Typing.compile_flagV", "Portus.Lang.Typing.guardedValueSrc_accepted",
            "Portus.Lang.Typing.condBindSrc_accepted", "Portus.Lang.Typing.finding_bind_condition", "Portus.Lang.Typing.finding_placeholder_operand",
            "Portus.Lang.Typing.finding_bare_bool_condition", "Portus.Lang.Typing.finding_guarded_target",
            "Portus.C20.layout_same_image", "Portus.C20.comments_same_program", "Portus.C20.rendering_parses",
            "Portus.Lang.parse_render", "Portus.Lang.layout_independent", "Portus.Lang.comments_only_add_none",
            "Portus.Lang.rexpr_parses", "Portus.Lang.revents_parse", "Portus.Lang.rdefs_parse", "Portus.Lang.spelling_table",
            "Portus.C20.comments_do_not_lower", "Portus.C20.comments_irrelevant", "Portus.C20.compile_deterministic",
            "Portus.C20.image_deterministic", "Portus.C20.spelling_table", "Portus.C20.spellings_cover", "Portus.Lang.compile_uid_indep"]
RELATION = "compile_and_serialize image + Scope::get listing, and the parser's Debug AST, for every layout variant of a program"
RULE = ("generated well-typed programs of the documented grammar (Report block and legacy declarations, volatile markers, 1..5 events, "
        "all 16 operators, report/fallthrough, locals, conditionals, ewma) each rendered in 6 (thorough: 12) layouts: single spaces; "
        "random runs of space/tab/CR/LF at every gap; no optional whitespace; comments before events and among statements; symbolic, "
        "word and mixed operator spellings; plus the identical text compiled twice. Every variant must be accepted and all variants "
        "of a program must give byte-identical images and identical name-to-register listings. non-trivial = accepted program with "
        ">= 2 distinct layouts; distinct by source text")
EXPLANATION = ("theorems: comments among statements do not lower (compileBody ignores Expr::None; event lists equal up to comments compile "
               "identically); compilation is a function of the syntax tree and overrides - the uid is only carried along "
               "(compile_uid_indep through every compiler function); both spellings of all 16 operators parse to the same Op for "
               "every continuation (closed table, prefix-freeness by decide). PARTIAL: 'every layout parses to the same tree' "
               "(parse_render) is being proved separately; 'every documented program is accepted' (typing judgement) is not proved - "
               "both are decided here by generated programs x layouts against the real compiler")
ASSUMPTIONS = ["documented exclusions: identifiers starting with true/false/a digit/__ (and 'volatile' in declarations); at most one comment "
               "line directly before an event; a comment must end with a newline"]
LEVEL_TEXT = ("PARTIAL. Machine-checked proof (Lean 4) of both halves of the property over the model of the parser and compiler. ACCEPTANCE: "
              "Typing.well_typed_accepted - every parsed program that passes the declarative check WellTyped (types Num/Bool, operator "
              "signatures, declared/built-in/local names, <= 16 report, 16 control, 6 local registers, <= 8 operator nodes per statement or "
              "condition, literals < 2^31 or +infinity; no scopes or registers mentioned) is compiled AND serialized, also with an override "
              "list. LAYOUT: every rendering of a program tree - any run of space/tab/CR/LF at every gap (empty where two tokens cannot "
              "merge), any spelling of each operator, any numeral of each number, comment lines before events and among statements - "
              "parses back to that tree (parse_render), hence all renderings compile to the same image and register mapping "
              "(layout_same_image), comments never change the program (comments_same_program), and the uid does not either. Partial "
              "because: WellTyped covers plain and guarded (if / !if / ewma) binds nested as values and binds inside conditions (typeOfG threads the "
              "environment; hazardous nestings included, since the compiler accepts them) but not chains like (:= x (:= y x)) that leave "
              "locals untyped, and it is stricter than the compiler on the operand types of if/!if/ewma; it carries five named "
              "restrictions that mirror the compiler, each with a kernel-checked rejected example (a bare boolean VARIABLE is not accepted "
              "as a condition - noBareBoolCondition; a condition whose top node is a bind is rejected - noBindCondition; if/!if/ewma only "
              "into declared Report/control variables - guardedTargetDeclared; a bare (if ..) as an operand is rejected - "
              "finding_placeholder_operand; the value of a bind to a known variable has the variable's recorded type - knownTargetType); "
              "identifiers the tokenizer splits "
              "(prefixes true/false/volatile/digit/__) are excluded from the rendering relation. The metamorphic differential check "
              "ties it to the real code: generated programs x layouts through the real compiler must be accepted and byte-identical, "
              "every generated program the Lean check calls well typed must be accepted by the real compiler, ASTs are compared.")
LEVEL_NOTE = "Trusts: Lean kernel for the proved parts; sampling of programs and layouts for acceptance and whitespace-invariance."
TECHNIQUE = "Lean 4 proof of parse-of-rendering = tree (layout, spelling, numeral, comment invariance end to end) + uid independence; metamorphic differential check over layouts for acceptance; parser AST correspondence"


def layouts(rng, p, n):
    out = [G.render(p, G.Layout())]
    out.append(G.render(p, G.Layout(rng, ws=False, comments=False, spelling="word")))
    while len(out) < n:
        out.append(G.render(p, G.Layout(rng, ws=True, comments=rng.random() < 0.6, spelling=rng.choice(["sym", "word", "mix"]))))
    return out


def groups(ctx, rng):
    n = 10000 if ctx.thorough else 500
    for _ in range(n):
        p = G.gen_program(rng, ensure_report=0.5)
        names = ";".join(G.hx(x) for x in G.all_names(p) + ["Cwnd", "nope"])
        yield p, layouts(rng, p, 12 if ctx.thorough else 6), names


def gen(ctx):
    rng = ctx.rng
    # programs that are refused (at parse time, at lowering, at encoding) interleaved with the accepted ones: a refusal must leave
    # nothing behind that changes a later compilation
    for _src in ["(def (Report (x 0))) (when true (:= Report.x 3000000000) (report))",
                 "(def (Report (x 0))) (when true (:= Report.x (+ 1 (+ 1 (+ 1 (+ 1 (+ 1 (+ 1 (+ 1 (+ 1 (+ 1 1)))))))))) (report))",
                 "(def (Report (1bad 0)) (c 1)) (when true (report))", "(def (Report (x 0))) (when 5 (report))"]:
        yield Case("CMP", "%s - -" % G.hx(_src), tags=("refused-first",), meta=("refused",))
    # look-alike twins: two DIFFERENT programs whose texts coincide once white space is normalised - the line feed that ends a comment
    # is the one place where "the amount or kind of white space" carries meaning (round 5: a process-wide memo of compiled programs
    # keyed by the white-space-squeezed text gave the second twin the first one's image). Both orders, one process.
    for _k in range(24):
        _h = "(def (Report (x 0)) (c %d)) (when true (:= Report.x %d)" % (_k, 100 + _k)
        _tw = [(_h + " # then\n (:= c 5) (report))", _h + " (:= c 5) (report))"),
               (_h + " # then (:= c 5) (report)\n)", _h + " )"),
               (_h + " # then (:= c 5)\n (report))", _h + " (report))")]
        _g = "(def (Report (x 0))) %s(when (> Ack.bytes_acked %d) (report)) %s(when true (:= Report.x 1))"
        _tw += [(_g % ("# first\n ", _k, ""), _g % ("", _k, "")),
                ("(def (Report (x 0))) # first (when (> Ack.bytes_acked %d) (report))\n (when true (:= Report.x 1))" % _k,
                 "(def (Report (x 0))) (when true (:= Report.x 1))")]
        if _k % 2:
            _tw.reverse()
        # each twin is a layout (one comment line added) of its own comment-free form: same image as THAT, whatever was compiled before
        for _s, _plain in _tw:
            yield Case("CMP", "%s - -" % G.hx(_s), tags=("whitespace-lookalike-twins",), meta=("CMP %s - -" % G.hx(_plain),))
        for _s, _plain in _tw:
            yield Case("CMP", "%s - -" % G.hx(_plain), tags=("whitespace-lookalike-twins",))
    # comment TEXT is arbitrary UTF-8: a multi-byte character across every byte offset of the source (each is the program below
    # plus one comment line: same image as the comment-free form)
    for _off in list(range(24, 64)) + list(range(120, 136)) + list(range(248, 264)) + list(range(504, 520)) + list(range(1016, 1032)):
        for _s in G.multibyte_comment_sweep(_off, _off + 1):
            _plain = "(def (Report (x 0))) (when true (:= Report.x %d) (report))" % _off
            yield Case("CMP", "%s - -" % G.hx(_s), tags=("multibyte-comment",), meta=("CMP %s - -" % G.hx(_plain),))
            yield Case("CMP", "%s - -" % G.hx(_plain), tags=("multibyte-comment",))
    # several threads compiling at the same time: a compilation shares nothing with the others (but the uid counter)
    for _ in range(60 if ctx.thorough else 6):
        k = rng.choice([2, 4, 8, 16, 32])
        srcs = []
        for _j in range(k):
            _p = G.gen_program(rng)
            srcs.append(G.hx(G.render(_p, G.Layout(rng, spelling=rng.choice(["sym", "word"])))))
        yield Case("CMPPAR", " ".join(srcs), tags=("concurrent-compile",))
    _deep = "1"
    for _d in range(7):   # 7 operator nodes: within the 8 temporaries, so the program is accepted
        _deep = "(+ 1 %s)" % _deep
    yield Case("CMPPAR", " ".join([G.hx("(def (Report (x 0))) (when true (:= Report.x %s) (report))" % _deep)] * 32), tags=("concurrent-compile",))
    for p, ls, names in groups(ctx, rng):
        first = None
        for k, src in enumerate(ls):
            c = Case("CMP", "%s - %s" % (G.hx(src), names), tags=("layout%d" % min(k, 2),))
            yield c
            if k == 0:
                yield Case("CMP", "%s - %s again" % (G.hx(src), names), tags=("twice",), meta=("CMP %s - %s" % (G.hx(src), names),))
            else:
                # the oracle compares this layout's outcome with the first layout's
                c.meta = ("CMP %s - %s" % (G.hx(ls[0]), names),)
            if k < 3:
                yield Case("AST", G.hx(src), tags=("ast",))


_first = {}


def prepare(cases, impl):
    """called by check.py after the implementation ran: index results by case key"""
    _first.clear()
    for c in cases:
        _first[c.key()] = impl.get(c.id, "NOANSWER")


def classify(c, r):
    return [c.tags[0] + ":" + r.split(" ")[0]]


def nontrivial(c, r):
    return c.cmd == "CMP" and r.startswith("OK ") and c.meta is not None


def oracle(c, impl_res):
    if c.cmd != "CMP" or "refused-first" in c.tags:
        return None
    if c.meta is None:
        # the reference layout itself: must be accepted (documented program)
        return ("ORC", "C20 %s @@ %s" % ("OK" if impl_res.startswith("OK ") else impl_res, "OK"))
    ref = _first.get(c.meta[0])
    if ref is None:
        return None
    return ("ORC", "C20 %s @@ %s" % (impl_res, ref))


def extra(ctx):
    """Typing.WellTyped (Lean) on generated programs vs the REAL compiler: well typed => accepted (the theorem, checked against the code)"""
    import core
    rng = ctx.rng
    n = 6000 if ctx.thorough else 600
    srcs = []
    for i in range(n):
        p = G.gen_program(rng)
        if i % 3 == 0:
            p, _ = G.mutate_ast(rng, p)   # ill-typed / over-limit variants: the check must then say 0 or the compiler may refuse
        srcs.append(G.render(p, G.Layout(rng, ws=rng.random() < 0.3, comments=rng.random() < 0.3, spelling=rng.choice(["sym", "word", "mix"]))))
    impl = core.run_impl(["CMP %d %s - -" % (i, G.hx(s)) for i, s in enumerate(srcs)])
    wt = core.run_model(["WT %d %s" % (i, G.hx(s)) for i, s in enumerate(srcs)])
    fails, hist = [], {}
    for i, s in enumerate(srcs):
        a, w = impl.get(str(i), "").split(" ")[0], wt.get(str(i), "")
        hist[(w, a)] = hist.get((w, a), 0) + 1
        if w == "WT 1" and a != "OK":
            fails.append({"property": ID, "kind": "failing-input", "case": "CMP x %s - -" % G.hx(s), "source": s[:1500],
                          "relation": "Typing.WellTyped src = true (theorem well_typed_accepted: the compiler accepts) but the real compiler answered " + a})
    return fails[:5], {"well_typed_vs_real_compiler": {"%s / compiler %s" % k: v for k, v in sorted(hist.items())}}
