"""C05 — a datapath is always sent a program before being told to use it."""
from core import Case
from . import rtgen as R

ID = "C05"
AUDIT_IMPORTS = ["PortusModel.Props.C05History", "PortusModel.Props.C05Loop"]
THEOREMS = ['Portus.C05.loop_tx_eq_hist_tx', 'Portus.C05.loop_history_install_before_use', 'Portus.C05.install_before_use', 'Portus.C05.install_before_use_sf', 'Portus.C05.install_before_use_trace', 'Portus.C05.installedOk_sound', 'Portus.C05.runHistSf_cons', 'Portus.C05.ready_installs_all', 'Portus.C05.first_create_installs_before_handler', 'Portus.C05.no_other_installs', 'Portus.C05.addresses_stay_registered', 'Portus.C05.install_before_use_partial', 'Portus.Rt.runUser_spec', 'Portus.Rt.step_ok']
SPEC_IS_ORACLE = True  # the compared trace is what the property speaks about and is determined by the history
KEEP = {"RX", "TX IN", "TX CP", "TXFAIL", "NF", "RES"}
RELATION = 'send trace (installs and change-program commands with destination and program) interleaved with RX / new_flow markers'
RULE = 'histories as for C02 with 1..4 programs spread over 1..5 algorithms, flows that select programs from new_flow and from on_report, create-before-ready (first contact by create), restarts, second and third address, injected send failures. non-trivial = at least one install batch and one change-program; distinct by case line'
EXPLANATION = "theorems (per step, every state/configuration/bounded policy): a ready sends the complete install batch exactly once after dropping the old flows; a create from an unregistered address sends the batch before new_flow; no other message causes an install (all other transmissions are type 3/4 commands of user code); registered addresses stay registered; every change-program goes to the sender's address and names a configured program's uid. install_before_use lifts them to every history by the invariant 'registered => complete batch since the last ready'. Oracle checkC05 on the real trace"
ASSUMPTIONS = ["user callbacks do not panic, issue commands only through their handle, and use field lists shorter than 2^24",
               "HashMap iteration order is canonicalised (install batches and drop batches are sorted)"]
LEVEL_TEXT = ("Machine-checked proof (Lean 4) for EVERY history of messages, configuration, bounded policy and send-failure schedule "
              "(install_before_use / install_before_use_sf / install_before_use_trace): in the trace of the run, every change-program "
              "command to an address names the uid of a configured program whose install message was transmitted to that address "
              "earlier and after that address's last ready. Proved by an invariant (every registered address holds the complete batch "
              "since its last ready) over the per-step theorems: ready => complete install batch exactly once; first contact by create "
              "=> the batch before the handler runs; nothing else installs; commands only to the sender's own address. The history is "
              "the sequence of decoded messages; loop_tx_eq_hist_tx shows the receive loop (Backend.next framing, receive failures, stop "
              "requests) transmits exactly what the history of the messages it yields transmits. Model tied to the code by "
              "differential runs on send traces; the Lean trace oracle checkC05 is evaluated on the real trace.")
LEVEL_NOTE = 'Trusts: Lean kernel; correspondence sampling; policy discipline (no sends from Drop, callbacks do not panic).'
TECHNIQUE = 'Lean 4 history-level theorem (invariant over all message histories) + differential correspondence on send traces + Lean trace oracle'


def project(c, r):
    return R.project(r, KEEP)


def gen(ctx):
    rng = ctx.rng
    for a in R.same_text_cases():
        yield Case("RUN", a, tags=("same-text-programs",))
    for a in R.big_program_cases():
        yield Case("RUN", a, tags=("big-program",))
    for _ in range(40000 if ctx.thorough else 2000):
        yield Case("RUN", R.gen_case(rng, n=rng.randrange(1, 61 if ctx.thorough else 31), adversarial=0.02, faults=rng.choice([0.0, 0.05, 0.1]), stop=0.01), tags=("history",))


def classify(c, r):
    parts = r.split(" | ")
    return ["events:%d" % min(len(parts) // 10 * 10, 80), "end:" + parts[-1].split(" ")[1]]


def nontrivial(c, r):
    return " IN " in r and " CP " in r


def oracle(c, impl_res):
    return ("ORC", "C05 %d @@ %s" % (R.nprogs_of(c.args), impl_res))
