"""C05 — a datapath is always sent a program before being told to use it."""
from core import Case
from . import rtgen as R

ID = "C05"
THEOREMS = ['Portus.C05.ready_installs_all', 'Portus.C05.first_create_installs_before_handler', 'Portus.C05.no_other_installs', 'Portus.C05.addresses_stay_registered', 'Portus.C05.install_before_use_partial', 'Portus.Rt.runUser_spec', 'Portus.Rt.step_ok']
KEEP = {"RX", "TX IN", "TX CP", "TXFAIL", "NF", "RES"}
RELATION = 'send trace (installs and change-program commands with destination and program) interleaved with RX / new_flow markers'
RULE = 'histories as for C02 with 1..4 programs spread over 1..5 algorithms, flows that select programs from new_flow and from on_report, create-before-ready (first contact by create), restarts, second and third address, injected send failures. non-trivial = at least one install batch and one change-program; distinct by case line'
EXPLANATION = "theorems (per step, every state/configuration/bounded policy): a ready sends the complete install batch exactly once after dropping the old flows; a create from an unregistered address sends the batch before new_flow; no other message causes an install (all other transmissions are type 3/4 commands of user code); registered addresses stay registered; every change-program goes to the sender's address and names a configured program's uid. The history-level combination is install_before_use_partial (per step, relative to the registration invariant). Oracle checkC05 on the real trace"
ASSUMPTIONS = ["user callbacks do not panic, issue commands only through their handle, and use field lists shorter than 2^24",
               "HashMap iteration order is canonicalised (install batches and drop batches are sorted)"]
LEVEL_TEXT = "Machine-checked proof (Lean 4), per dispatch step and for every state/configuration/policy: ready => complete install batch exactly once; first contact by create => the batch before the handler runs; nothing else installs; commands only to registered (hence installed) addresses, naming configured uids. PARTIAL: the quantification over whole histories ('since the datapath last announced itself') is assembled from these per-step theorems and the registration invariant informally, not as one Lean theorem. Model tied to the code by differential runs on send traces."
LEVEL_NOTE = 'Trusts: Lean kernel; correspondence sampling; policy discipline (no sends from Drop). History-level composition not yet a single theorem.'
TECHNIQUE = 'Lean 4 per-step theorems + registration invariant + differential correspondence on send traces + Lean trace oracle'


def project(c, r):
    return R.project(r, KEEP)


def gen(ctx):
    rng = ctx.rng
    for _ in range(40000 if ctx.thorough else 2000):
        yield Case("RUN", R.gen_case(rng, n=rng.randrange(1, 61 if ctx.thorough else 31), adversarial=0.02, faults=rng.choice([0.0, 0.05, 0.1]), stop=0.01), tags=("history",))


def classify(c, r):
    parts = r.split(" | ")
    return ["events:%d" % min(len(parts) // 10 * 10, 80), "end:" + parts[-1].split(" ")[1]]


def nontrivial(c, r):
    return " IN " in r and " CP " in r


def oracle(c, impl_res):
    return ("ORC", "C05 %d @@ %s" % (R.nprogs_of(c.args), impl_res))
