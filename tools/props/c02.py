"""C02 — every flow event reaches exactly the right flow handler, exactly once."""
from core import Case
from . import rtgen as R

ID = "C02"
THEOREMS = ["Portus.C02.other_ignored", "Portus.C02.measure_unknown_ignored", "Portus.C02.report_delivered",
            "Portus.C02.close_once_and_forget", "Portus.C02.create_one_handler", "Portus.C02.ready_drops_only_that_address",
            "Portus.Rt.runUser_spec", "Portus.Rt.step_ok"]
SPEC_IS_ORACLE = True  # the compared trace is what the property speaks about and is determined by the history
KEEP = {"RX", "NF", "RP", "CL", "DR", "RES", "GF", "GFP"}
RELATION = "callback trace (RX, new_flow, on_report with get_field values, close, drop, result) of RunBuilder::run over a scripted transport"
RULE = ("histories of 1..30 (thorough: ..60) script items over 3 datapath addresses with deliberately coinciding flow ids: ready "
        "(restart), create (new / live / closed flow id; registered, unregistered, empty names), measurement (live / closed / "
        "unknown flow; right / stale / unknown program uid; 1..5 values read back through get_field), close, unknown types, 1..4 "
        "messages per datagram, occasional receive errors; 1..5 registered algorithms with command policies. "
        "non-trivial = at least 3 callbacks; distinct by case line")
EXPLANATION = ("theorems: one dispatch step against the flat map (address, flow id) -> flow, for every state with unique keys, "
               "configuration and bounded user policy: create = exactly one new_flow with the message's details (older flow dropped "
               "without close), non-empty measurement = on_report of exactly the registered flow with uid and values, empty = close "
               "once then drop and forget, unknown targets = nothing, ready = drop only that address; key uniqueness is preserved, so "
               "the statements hold after every history. Oracle checkC02 = trace consequences evaluated in Lean on the real trace")
ASSUMPTIONS = ["user callbacks do not panic, issue commands only through their handle, and use field lists shorter than 2^24",
               "HashMap iteration order is canonicalised (drop order within one batch is sorted)"]
LEVEL_TEXT = ("Machine-checked proof (Lean 4) that the runtime model REFINES the flat partial map (datapath address, flow id) -> handler for EVERY "
              "history: history_refines_flat_map (every configuration, bounded policy, send-failure script and input history: the callbacks "
              "per input are those of the 30-line specification C02.specStep), loop_refines_flat_map (the same for the loop over arbitrary "
              "datagram bytes, receive failures and stop requests), wellformed_script_calls_eq_spec (datagram BYTES in, user-code calls out: "
              "for every script of datagrams made of libccp-encoded messages the calls are exactly the specification's over the carried "
              "messages, each from its datagram's sender). Underneath, per message kind and for every reachable state, that the dispatch "
              "step of the runtime model refines the flat map (datapath address, flow id) -> handler: one handler per create carrying the "
              "message's connection details, replacement without close, in-order delivery of each non-empty measurement with its uid "
              "and values to exactly the registered handler, close exactly once then forget, nothing for unknown targets. The model "
              "loop is tied to RunBuilder::run by differential runs over scripted three-address histories.")
LEVEL_NOTE = "Trusts: Lean kernel; correspondence sampling of histories; the policy discipline (callbacks modelled as interactive programs over the two handle commands)."
TECHNIQUE = "Lean 4 refinement theorems (dispatch step vs flat partial map, invariant by induction over histories) + differential correspondence on callback traces + Lean trace oracle"



# history-level refinement (Props/C02History, Props/C09History): the per-step theorems lifted to EVERY history against the flat-map specification
THEOREMS = THEOREMS + ['Portus.C02.step_refines', 'Portus.C02.history_refines_from', 'Portus.C02.history_refines_flat_map', 'Portus.C02.complete_run_equals_spec', 'Portus.C02.report_reaches_current_handler_only', 'Portus.C02.closed_flow_hears_nothing', 'Portus.C02.Abs_init', 'Portus.C02.loop_calls_eq_hist_calls', 'Portus.C02.loop_refines_flat_map']
AUDIT_IMPORTS = ['PortusModel.Props.C02History', 'PortusModel.Props.C02Loop']


# round 5 additions
THEOREMS = THEOREMS + ['Portus.C02.wellformed_script_calls_prefix', 'Portus.C02.wellformed_script_calls_eq_spec']
AUDIT_IMPORTS = list(globals().get('AUDIT_IMPORTS', [])) + ['PortusModel.Props.C02Bytes']

def project(c, r):
    return R.project(r, KEEP)


def gen(ctx):
    rng = ctx.rng
    # two runtimes alive in one process at the same time (own threads, own transports): each behaves as it does alone
    for _ in range(600 if ctx.thorough else 40):
        # (same algorithm configuration in both: the harness keeps algorithm names in process-global slots)
        algs, allp = R.gen_cfg(rng, rich=False)
        cfg = " ".join(x["text"] for x in algs)
        sa = R.gen_script(rng, algs, allp, n=rng.randrange(8, 25), adversarial=0.0, faults=0.0, stop=0.0)
        sb = R.gen_script(rng, algs, allp, n=rng.randrange(8, 25), adversarial=0.0, faults=0.0, stop=0.0)
        yield Case("RUNPAIR", "%s SCRIPT %s || %s SCRIPT %s" % (cfg, " ".join(sa), cfg, " ".join(sb)), tags=("two-runtimes",))
    for _s in R.long_fault_runs():
        yield Case("RUN", _s, tags=("history-long-recv-failure-run",))
    n = 40000 if ctx.thorough else 2000
    for _ in range(n):
        yield Case("RUN", R.gen_case(rng, n=rng.randrange(1, 61 if ctx.thorough else 31), adversarial=rng.choice([0.0, 0.0, 0.05]),
                                    faults=rng.choice([0.0, 0.02]), stop=0.01), tags=("history",))


def classify(c, r):
    parts = r.split(" | ")
    k = sum(1 for p in parts if p.split(" ")[0] in ("NF", "RP", "CL", "DR"))
    return ["callbacks:%d" % min(k // 5 * 5, 40), "end:" + parts[-1].split(" ")[1]]


def nontrivial(c, r):
    return sum(1 for p in r.split(" | ") if p.split(" ")[0] in ("NF", "RP", "CL")) >= 3


def oracle(c, impl_res):
    if c.cmd == "RUNPAIR":
        return None  # two traces side by side: decided by the correspondence with the model (each runtime behaves as it does alone)
    return ("ORC", "C02 %s" % impl_res)
