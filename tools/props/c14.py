"""C14 — numeric literals reach the datapath unchanged or are rejected."""
from core import Case
from . import proggen as G

ID = "C14"
# override-kinds cases: the model IS the property there - literal_reaches_operand_override(_def) hold for a scope of any declared kinds
SPEC_IS_ORACLE = lambda c: "override-kinds" in c.tags or "refused-entry-in-override-list" in c.tags
# theorems of Props/Tables.lean over the tables TRANSLATED from /repo/src and libccp's headers on every run (DESIGN 11.7)
TABLE_THEOREMS = ['src_regEnc_eq']
THEOREMS = [
    "Portus.C14.digitsVal_repr", "Portus.C14.numeral_parses_exactly", "Portus.C14.numeral_value_lt",
    "Portus.C14.numeral_of_value", "Portus.C14.infinity_parses", "Portus.C14.imm_encoding",
    "Portus.C14.literal_reaches_operand_atom", "Portus.C14.literal_reaches_operand_combine",
    "Portus.C14.literal_reaches_operand_bind", "Portus.C14.literal_reaches_operand_def_shape",
    "Portus.C14.literal_reaches_operand_override_def", "Portus.C14.no_silent_truncation", "Portus.C14.literal_read_back",
    "Portus.C14.literal_too_big_rejected", "Portus.C14.check_model_operand", "Portus.C14.check_model_definition",
    "Portus.C14.check_model_override", "Portus.C14.literal_below_2_31_accepted", "Portus.C14.literal_unencodable_refused",
]
RELATION = "compile_and_serialize of three fixed templates with the numeral in operand / definition / override position (image bytes | ERR | PANIC)"
RULE = ("numerals: exhaustively 0..2^12 (thorough: 0..2^16), all 2^k-1, 2^k, 2^k+1 for k <= 70 and around 2^96, 2^128, 2^256, 2^512, 38- to 300-digit numerals, leading zeros, 20- to 30-digit "
        "numerals, random 31/32/63/64/65-bit values; each in operand and definition position, and as a compile-time override "
        "(u32 range); plus literals inside generated programs. non-trivial = numeral >= 2 digits; distinct by (position, numeral)")
EXPLANATION = ("theorems: a maximal digit string parses to exactly its decimal value if < 2^64 and is otherwise rejected; an immediate "
               "n encodes to n for n < 2^31, to all-ones for 2^64-1, and has no encoding otherwise; the literal is the operand of the "
               "consuming instruction / the DEF of its variable / of the overridden variable; whatever serializes is read back by libccp's "
               "record reader as exactly the expected immediate; closed-form images of the three templates for every numeral")
ASSUMPTIONS = ["an overflowing numeral immediately followed by a name character is an identifier (documented exclusion: names starting with a digit)"]
LEVEL_TEXT = ("Machine-checked proof (Lean 4) for all decimal numerals: exact parsing or rejection at 2^64, the immediate encoding rule "
              "(n < 2^31 as itself, +infinity as all-ones, nothing else), that the literal reaches the consuming instruction / DEF / "
              "override unchanged, that libccp's reader reads back exactly that immediate from any image that serializes, and the "
              "closed-form image of three template programs for every numeral. Model tied to the code by differential runs.")
LEVEL_NOTE = "Trusts: Lean kernel; correspondence (exhaustive 0..2^12/2^16 and all powers of two +-1, sampled elsewhere); Rust u64 parsing semantics as modelled."
TECHNIQUE = "Lean 4 theorems over all digit strings (symbolic evaluation of the parser/compiler on templates) + differential correspondence + Lean oracle"

T_OPERAND = "(def (Report (x 0))) (when true (:= Report.x %s))"
T_DEFINITION = "(def (Report (x %s))) (when true (report))"
T_OVERRIDE = "(def (Report (x 0)) (c 0)) (when true (report))"


def numerals(ctx):
    rng = ctx.rng
    out = [str(n) for n in range(0, 2**16 if ctx.thorough else 2**12)]
    for k in list(range(0, 71)) + [96, 127, 128, 129, 130, 192, 255, 256, 257, 300, 512]:   # also around every wider machine integer
        for d in (-1, 0, 1):
            if 2**k + d >= 0:
                out.append(str(2**k + d))
    out += ["007", "00", "0000000000000000000000001", "2147483647", "2147483648", "4294967295", "4294967296",
            "18446744073709551614", "18446744073709551615", "18446744073709551616", "18446744073709551617",
            "99999999999999999999", "100000000000000000000"]
    for _ in range(5000 if ctx.thorough else 300):
        out.append(str(rng.getrandbits(rng.choice([8, 16, 30, 31, 32, 33, 62, 63, 64, 65, 70, 90]))))
    for _ in range(2000 if ctx.thorough else 100):
        out.append("".join(rng.choice("0123456789") for _ in range(rng.randrange(20, 31))))
    for nd in (38, 39, 40, 41, 50, 78, 100, 300):
        out.append("3" + "".join(rng.choice("0123456789") for _ in range(nd - 1)))
        out.append("9" * nd)
        out.append("1" + "0" * (nd - 1))
    return out


def gen(ctx):
    rng = ctx.rng
    for _src in G.corner_programs():
        yield Case("CMP", "%s - -" % G.hx(_src), tags=("corner-grid",))
    for d in numerals(ctx):
        yield Case("CMP", "%s - -" % G.hx(T_OPERAND % d), tags=("operand", d))
        yield Case("CMP", "%s - -" % G.hx(T_DEFINITION % d), tags=("definition", d))
        if int(d) < 2**32 and d == str(int(d)):
            yield Case("CMP", "%s %s=%s -" % (G.hx(T_OVERRIDE), G.hx("c"), d), tags=("override", d))
    # a name that occurs twice in the register file (declared twice, Report-block field also declared flat, declared like a
    # built-in): the override, the DEF instruction and the program's reads must all mean the same register
    DUPS = ["(def (Report (x 0)) (gain 1) (gain 2)) (when true (:= Report.x gain) (report))",
            "(def (Report (x 0) (y 3)) (Report.y 4)) (when true (:= Report.x Report.y) (report))",
            "(def (Report (x 0)) (Rate 5)) (when true (:= Report.x Rate) (report))",
            "(def (Report (x 0)) (Cwnd 5) (c 1)) (when true (:= Report.x (+ Cwnd c)) (report))",
            "(def (Report (x 0)) (a 1) (b 2) (a 3) (c 4)) (when true (:= Report.x (+ a c)) (report))",
            "(def (Report (x 0) (x 1))) (when true (:= Report.x (+ Report.x 1)) (report))",
            "(def (Report (x 0)) (volatile g 1) (g 2)) (when true (:= Report.x g) (report))",
            "(def (Report (x 0)) (Micros 9)) (when (> Micros 5) (:= Report.x Micros) (report))"]
    for src in DUPS:
        yield Case("CMP", "%s - %s" % (G.hx(src), ";".join(G.hx(n) for n in ("gain", "Report.y", "Rate", "Cwnd", "a", "c", "g", "Report.x", "Micros"))), tags=("duplicate-names", "-"))
        for nm in ("gain", "Report.y", "Rate", "Cwnd", "a", "c", "g", "Report.x", "Micros"):
            for v in (9, 2**31 - 1):
                yield Case("CMP", "%s %s=%d %s" % (G.hx(src), G.hx(nm), v, G.hx(nm)), tags=("duplicate-names", "-"))
    # overrides of variables of EVERY declared kind (number / boolean / +infinity, Report / control, volatile or not) with boundary
    # values: the supplied number is the variable's initial value - whatever the declared kind - or the compilation is refused
    KINDS = "(def (Report (rn 0) (rb true) (volatile rvb false) (ri +infinity)) (cn 5) (cb false) (volatile cvb true) (ci +infinity))"
    KNAMES = ("Report.rn", "Report.rb", "Report.rvb", "Report.ri", "cn", "cb", "cvb", "ci")
    BODIES = ("(when true (:= Report.rn cn) (report))",
              "(when (&& cb true) (:= Report.rn 1) (report)) (when (|| Report.rb cvb) (:= Report.rn 2) (report))",
              "(when (> cn 3) (:= Report.rn (+ ci Report.ri)) (:= cb (> cn 1)) (report))")
    names_arg = ";".join(G.hx(n) for n in KNAMES)
    for body in BODIES:
        for nm in KNAMES:
            for v in (0, 1, 2, 3, 5, 255, 2**31 - 1, 2**31, 2**32 - 1):
                yield Case("CMP", "%s %s=%d %s" % (G.hx(KINDS + " " + body), G.hx(nm), v, names_arg), tags=("override-kinds", "-"))
        for _ in range(10):   # several overrides at once, in either order
            k = rng.sample(KNAMES, rng.choice([2, 3, 8]))
            yield Case("CMP", "%s %s %s" % (G.hx(KINDS + " " + body), ";".join("%s=%d" % (G.hx(n), rng.choice([0, 1, 2, 7, 2**31 - 1, 2**31])) for n in k), names_arg),
                       tags=("override-kinds", "-"))
    # an override list may contain entries the compiler refuses to apply (an unknown name, Cwnd / Rate - which set_program accepts in
    # the same kind of list -, a primitive): the OTHER entries are applied all the same, wherever the refused one stands (round 6:
    # the first refused entry ended the whole override pass, the later overrides were silently dropped)
    for body in BODIES[:2]:
        for bad in ("nosuch", "Cwnd", "Rate", "Ack.now", "Micros", "__eventFlag"):
            for nm in ("cn", "Report.rn", "ci", "cb"):
                for v in (7, 5000, 2**31 - 1, 2**31, 3000000000, 2**32 - 1):
                    for order in (0, 1, 2):
                        ents = [(bad, 1), (nm, v)] if order == 0 else [(nm, v), (bad, 1)] if order == 1 else [("cvb", 1), (bad, 14600), (nm, v)]
                        yield Case("CMP", "%s %s %s" % (G.hx(KINDS + " " + body), ";".join("%s=%d" % (G.hx(n), x) for n, x in ents), names_arg),
                                   tags=("refused-entry-in-override-list", "-"))
    # +infinity and literals inside generated programs (correspondence only)
    yield Case("CMP", "%s - -" % G.hx(T_OPERAND % "+infinity"), tags=("infinity", "-"))
    yield Case("CMP", "%s - -" % G.hx(T_DEFINITION % "+infinity"), tags=("infinity", "-"))
    for _ in range(3000 if ctx.thorough else 300):
        p = G.gen_program(rng)
        q, _ = G.mutate_ast(rng, p) if rng.random() < 0.3 else (p, None)
        yield Case("CMP", "%s - -" % G.hx(G.render(q)), tags=("program", "-"))


def classify(c, r):
    return [c.tags[0] + ":" + r.split(" ")[0]]


def nontrivial(c, r):
    return c.tags[0] in ("operand", "definition", "override") and len(c.tags[1]) >= 2


def oracle(c, impl_res):
    if c.tags[0] not in ("operand", "definition", "override"):
        return None
    return ("ORC", "C14 %s %s @@ %s" % (c.tags[0], c.tags[1], impl_res))
