"""C16 — no message history or transport failure can crash the runtime."""
from core import Case
from . import rtgen as R

ID = "C16"
AUDIT_IMPORTS = ["PortusModel.Props.C19"]
THEOREMS = ['Portus.C19.recv_never_panics', 'Portus.C16.loopStep_ok', 'Portus.C16.run_no_panic', 'Portus.C16.run_bytes_no_panic', 'Portus.C16.ignored_is_identity', 'Portus.C16.untyped_bytes_are_other', 'Portus.C08.next_no_panic', 'Portus.C04.from_buf_no_panic', 'Portus.Rt.step_ok']
SPEC_IS_ORACLE = True  # the compared trace is what the property speaks about and is determined by the history
KEEP = {"RX", "NF", "RP", "CL", "DR", "RES", "TXFAIL"}
RELATION = 'callback trace and final result (OK | ERR | PANIC) of RunBuilder::run under adversarial datagrams and injected transport failures'
RULE = 'valid traffic interleaved with adversarial datagrams: every type code incl. the CCP->datapath types 2/3/4 and >255, truncated and oversized payloads, typed messages too short for their fixed fields, bad counts, random bytes, empty datagrams; recv errors and send failures (1..3 consecutive) at random points, stop requests. non-trivial = at least one adversarial item and one callback after it; distinct by case line'
EXPLANATION = 'theorems: the composed loop (receive path + decoder + dispatch + user code + send-failure injection) returns a trace and Ok/Err for every script, state satisfying the cursor invariant, configuration and bounded policy - never a panic; ignored messages (unknown type incl. install/update/change-prog and undecodable headers by C04, unknown address/flow) are the identity on the state and emit nothing, so later dispatch is unaffected. Oracle checkC16 (result is OK or ERR) on the real run'
ASSUMPTIONS = ["user callbacks do not panic, issue commands only through their handle, and use field lists shorter than 2^24",
               "HashMap iteration order is canonicalised (install batches and drop batches are sorted)"]
LEVEL_TEXT = 'Machine-checked proof (Lean 4) that the composed runtime model - Backend::next over arbitrary datagram bytes, failed receives and stop requests; Msg::from_buf; the dispatch step with arbitrary bounded user code; injected send failures - never panics for any script and always returns Ok or Err, and that every ignored message is the identity on the dispatch state. Tied to the code by differential runs under catch_unwind with adversarial scripts. The second sentence over whole histories: spec_ignored_is_identity / spec_unknown_measure_is_identity (an ignored message anywhere in a history leaves every later callback as it would have been) on the flat-map specification the loop refines.'
LEVEL_NOTE = 'Trusts: Lean kernel; correspondence sampling; panics inside user callbacks and allocation failure are outside the model.'
TECHNIQUE = 'Lean 4 totality theorem over the composed loop (induction on fuel with the cursor invariant) + differential correspondence + Lean trace oracle'



# history-level refinement (Props/C02History, Props/C09History): the per-step theorems lifted to EVERY history against the flat-map specification
THEOREMS = THEOREMS + ['Portus.C02.history_refines_flat_map', 'Portus.C09.spec_ignored_is_identity', 'Portus.C09.spec_unknown_measure_is_identity']
AUDIT_IMPORTS = list(AUDIT_IMPORTS) + ['PortusModel.Props.C09History']

def project(c, r):
    return r if c.cmd == "XPT" else R.project(r, KEEP)


def gen(ctx):
    rng = ctx.rng
    # two runtimes alive in one process at the same time (own threads, own transports): each behaves as it does alone
    for _ in range(600 if ctx.thorough else 40):
        # (same algorithm configuration in both: the harness keeps algorithm names in process-global slots)
        algs, allp = R.gen_cfg(rng, rich=False)
        cfg = " ".join(x["text"] for x in algs)
        sa = R.gen_script(rng, algs, allp, n=rng.randrange(8, 25), adversarial=0.3, faults=0.0, stop=0.0)
        sb = R.gen_script(rng, algs, allp, n=rng.randrange(8, 25), adversarial=0.3, faults=0.0, stop=0.0)
        yield Case("RUNPAIR", "%s SCRIPT %s || %s SCRIPT %s" % (cfg, " ".join(sa), cfg, " ".join(sb)), tags=("two-runtimes",))
    # the bundled transports themselves: a datagram larger than the receive buffer must not crash the receiver (F13)
    for kind in ("chan", "unix"):
        for mode in ("b", "nb"):
            yield Case("XPT", "over %s %s" % (kind, mode), tags=("oversize",))
    for _ in range(40000 if ctx.thorough else 2500):
        yield Case("RUN", R.gen_case(rng, n=rng.randrange(1, 61 if ctx.thorough else 31), adversarial=rng.choice([0.2, 0.4, 0.6]), faults=rng.choice([0.05, 0.1, 0.2]), stop=0.02, rich=rng.random() < 0.5), tags=("adversarial",))
    for _s in R.long_fault_runs():
        yield Case("RUN", _s, tags=("long-recv-failure-run",))
    # thousands of datagrams in a row from a peer without a pathname over the real unix transport: ignored, whatever their number
    yield Case("STOPX", "unixnoise burst", tags=("unnamed-peer-burst",))
    for typ in list(range(0, 8)) + [255, 256, 257, 258, 259, 260, 261, 0xFFFF]:
        for ln in (8, 12, 16, 20, 96):
            import struct
            body = bytes(range(1, max(1, ln - 8) + 1))[: ln - 8]
            raw = struct.pack("<HHI", typ, ln, 1) + body
            yield Case("RUN", "ALG - 1 PROGS p1=%s NF sp:p1:- OR gf:%s SCRIPT 5:RD.1 5:CR.1.10.1460.1.2.3.4.- 5:RAW.%s 5:MS.1.u:p1.7;9 5:MS.1.u:p1.-" % (R.hx(R.P1), R.hx("Report.acked"), raw.hex()), tags=("typegrid",))


def classify(c, r):
    if c.cmd == "STOPX":
        return ["unnamed-peer-burst:" + r]
    if c.cmd == "XPT":
        return ["oversize:" + r]
    parts = r.split(" | ")
    return ["events:%d" % min(len(parts) // 10 * 10, 80), "end:" + parts[-1].split(" ")[1]]


def nontrivial(c, r):
    return c.cmd in ("XPT", "STOPX") or "RAW" in c.args and ("RP " in r or "NF " in r)


def oracle(c, impl_res):
    if c.cmd == "STOPX":
        return ("ORC", "C16 %s" % ("RES PANIC" if impl_res in ("ABORT", "HANG") or "PANIC" in impl_res else "RES OK"))
    if c.cmd == "XPT":
        return ("ORC", "C19 over @@ %s" % impl_res)
    if c.cmd == "RUNPAIR":
        return ("ORC", "C16 %s" % ("RES PANIC" if "PANIC" in impl_res else impl_res.split(" || ")[0]))
    return ("ORC", "C16 %s" % impl_res)
