"""C17 — program uids are unique across all compilations, even concurrent ones (partial)."""
import os, subprocess, sys
from core import Case
import core

ID = "C17"
THEOREMS = ["Portus.C17.step_inv", "Portus.C17.single_rmw_unique", "Portus.C17.generated_is_single_rmw", "Portus.C17.uids_unique",
            "Portus.C17.scope_uid_is_allocated", "Portus.C17.uid_in_install", "Portus.Lang.compile_uid_indep"]
RELATION = "uids of sequential compilations (relative to the first), uniqueness under N-thread stress, uid carried by the install message and by a cloned scope"
RULE = ("translator: the body of get_next_uid! and its use in Scope::new are re-extracted from /repo on every run into Generated/UidOp.lean; "
        "sequential histories of 1..200 compilations (compile and Scope::new alternating) vs the model; stress: N = 4, 8, 16 threads x "
        "M = 2000 (thorough: 10^5) allocations with a global uniqueness check, repeated; install bytes vs program_uid; clone. "
        "non-trivial = stress runs and sequences of >= 10 allocations; distinct by case line")
EXPLANATION = ("theorem single_rmw_unique: for every number of threads, allocations per thread and EVERY interleaving of atomic steps, "
               "allocations that are one fetch_add(k>=1) return pairwise distinct uids (no wrap below 2^32); generated_is_single_rmw: the "
               "code translated from /repo has that form (this obligation breaks when the macro changes; the check then asks the Lean model "
               "for a two-thread counter-schedule and tries to exhibit the duplicate on the implementation under stress); the returned "
               "scope carries the allocated uid, the install message carries it where libccp reads it, set_program names it")
ASSUMPTIONS = ["PARTIAL: atomicity and sequential consistency of AtomicU32::fetch_add are assumed, not modelled",
               "fewer than 2^32 allocations per process"]
LEVEL_TEXT = ("PARTIAL. Machine-checked proof (Lean 4) over a model of threads as sequences of atomic operations on one counter: for every "
              "interleaving, single-RMW allocations return distinct uids; the allocation code is translated from /repo on every run and "
              "proved (by decide) to be a single fetch_add(k) with k >= 1 (what is added to the value read does not matter for uniqueness; that the first uid is libccp's marker 1 is C06's obligation); uid flow into scope/install/change-prog proved on the model. What the "
              "model cannot exhibit: hardware atomicity and memory ordering of AtomicU32 - exercised, not proved, by a 16-thread stress.")
LEVEL_NOTE = "Trusts: Lean kernel; the translator (regex over the macro body, unknown shapes become an unprovable op); AtomicU32 semantics."
TECHNIQUE = "Lean 4 invariant proof over all interleavings + translator from the Rust macro (obligation re-checked each run) + multi-threaded stress"


def pre(ctx):
    p = subprocess.run([sys.executable, os.path.join(core.VERIF, "tools", "extract_uid.py")], capture_output=True, text=True)
    if p.returncode != 0:
        raise core.Fail("extract_uid.py failed: " + p.stderr[-2000:])


MANY = ["(def (Report (x 0))) (when true (:= Report.x %d) (report))" % (100 + i) for i in range(8)]


def gen(ctx):
    from . import rtgen as R
    # "the uid in the scope is the uid placed in the install message FOR THAT PROGRAM and echoed in reports": runtimes with many
    # distinct programs; every flow selects one, the change-program must name the uid whose install carried THAT program's code,
    # and reports under that uid must be read with that program's scope
    hx = R.hx
    progs = ",".join("q%d=%s" % (i, hx(t)) for i, t in enumerate(MANY))
    for i in range(8):
        j = (i + 3) % 8
        yield Case("RUN", "ALG %s 1 PROGS %s NF sp:q%d:- OR gf:%s,sp:q%d:-,gfp:q%d:%s SCRIPT 5:RD.1 5:CR.1.10.1460.1.2.3.4.%s 5:MS.1.u:q%d.%d 5:MS.1.u:q%d.%d 5:MS.1.u:q%d.%d X"
                   % (hx("reno"), progs, i, hx("Report.x"), j, i, hx("Report.x"), hx("reno"), i, 100 + i, j, 100 + j, i, 100 + i), tags=("run-many-programs",))
    for _ in range(1500 if ctx.thorough else 150):
        yield Case("RUN", R.gen_case(ctx.rng, n=ctx.rng.randrange(4, 16), adversarial=0.0, faults=0.0, stop=0.0), tags=("run",))
    # (70000: more allocations in one process than a 16-bit field holds - round 5: uid = pid << 16 | counter as u16)
    for n in [1, 2, 3, 10, 50, 200, 70000]:
        yield Case("UID", "seq %d" % n, tags=("seq",))
    yield Case("UID", "flow", tags=("flow",))
    per = 100000 if ctx.thorough else 2000
    for t in [2, 4, 8, 16, 16, 16]:
        yield Case("UID", "stress %d %d" % (t, per + len(str(t))), tags=("stress",))
        per += 1


def classify(c, r):
    if c.cmd == "RUN":
        return [c.tags[0] + ":" + r.split(" | ")[-1].split(" ")[1]]
    return [c.tags[0] + ":" + r.split(" ")[0]]


def nontrivial(c, r):
    if c.cmd == "RUN":
        return " CP " in r and " IN " in r
    return c.tags[0] == "stress" or (c.tags[0] == "seq" and int(c.args.split(" ")[1]) >= 10)


def oracle(c, impl_res):
    return None


SPEC_IS_ORACLE = True  # the model answers are consequences of the theorems (uids_unique, scope_uid_is_allocated, uid_in_install)


def fresh_process_stress(rounds):
    """16 threads released together perform the FIRST allocations of a fresh process (round 5: the counter moved into a lazily built
    singleton whose initialisation was not re-checked under the lock - several first compilations returned uid 1)"""
    res = []
    for k in range(rounds):
        r = core.run_impl(["UID 0 stress 16 %d" % (40 + k)], extra_env={"PHARNESS_UID_BUMP": "0"}).get("0", "NOANSWER")
        res.append(r)
    return res


def extra(ctx):
    res = fresh_process_stress(120 if ctx.thorough else 24)
    bad = [r for r in res if not r.startswith("UNIQUE ")]
    fails = []
    if bad:
        fails.append({"property": "C17", "kind": "failing-input", "case": "UID 0 stress 16 40  (first allocations of a fresh process, PHARNESS_UID_BUMP=0, 16 threads released together)",
                      "observed": bad[0], "expected": "UNIQUE (C17.uids_unique: every interleaving returns distinct uids)", "failing_runs": len(bad), "runs": len(res)})
    return fails, {"fresh_process_first_allocation_races": {"runs": len(res), "with_duplicates": len(bad)}}


def on_build_fail(ctx, err):
    """the proof obligation about the generated allocation code no longer checks: search for a failing schedule"""
    if "C17" not in err and "UidOp" not in err and "generated_is_single_rmw" not in err:
        return None
    core.build_lean(["pmodel"])
    search = core.run_model(["UID 0 search"]).get("0", "")
    stress = {}
    try:
        core.build_harness()
        stress = core.run_impl(["UID %d stress 16 %d" % (k, 200000 + k) for k in range(10)])
    except core.Fail:
        pass
    try:
        for k, v in enumerate(fresh_process_stress(24)):
            stress["fresh-process-%d" % k] = v
    except core.Fail:
        pass
    dup = [v for v in stress.values() if v.startswith("DUP")]
    rp = {"property": "C17", "theorem": "Portus.C17.generated_is_single_rmw (the allocation code translated from /repo is no longer a single atomic read-modify-write)",
          "generated": open(os.path.join(core.LEAN, "PortusModel", "Generated", "UidOp.lean")).read(),
          "model_counter_schedule": search, "implementation_stress": stress}
    if dup:
        rp["kind"] = "failing-input"
        rp["case"] = "UID 0 stress 16 200000"
        rp["observed"] = dup[0]
        return ("failing-input", rp)
    rp["kind"] = "no-failing-input-found"
    return ("proof", rp)
