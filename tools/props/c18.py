"""C18 — a stop request terminates the runtime promptly and cleanly (partial)."""
from core import Case
from . import rtgen as R

ID = "C18"
THEOREMS = ["Portus.C18.stop_poll_ends_reception", "Portus.C18.result_ok_iff_stopped", "Portus.C18.run_ignores_after_stop",
            "Portus.C18.stop_returns_ok", "Portus.C18.dispatch_after_stop_bounded", "Portus.C18.nothing_after_shutdown",
            "Portus.C16.run_no_panic"]
SPEC_IS_ORACLE = True
KEEP = {"RX", "NF", "RP", "CL", "DR", "RES"}
RELATION = ("(a) STOP: result, Ipc::close count, recv calls started after the clear, callbacks after return, latency within one receive "
            "timeout + slack, stop-handle strong count, over a transport whose recv really blocks; (b) RUN: callback trace and result for "
            "scripted histories with the stop flag cleared at every position")
RULE = ("STOP: {inline, spawn} x {caller-supplied handle, internal handle + kill()} x stop point {before start, between two messages "
        "k = 0..7, during a blocked receive (100 ms timeout), under a continuous flood} and 'stream ends without a stop' (undecodable "
        "message); RUN: for generated histories the stop item X inserted at every position 0..n (all cut points of the history). "
        "non-trivial = a stop after at least one dispatched message; distinct by case line")
EXPLANATION = ("theorems over the loop model: the poll that reads the flag false makes no recv and leaves the rest of the transport "
               "unconsumed; the whole remaining run is independent of what would still arrive; at most the unparsed messages of the "
               "current datagram are dispatched (cursor strictly advances inside [read_until, tot_read)); the result is Ok exactly when "
               "the loop ended at a stop poll, Err when a message fails to decode with the flag set; the trace ends with the drops of the "
               "live flows. Real-time behaviour (latency, in-flight recv, close count, handle balance) is observed, not proved")
ASSUMPTIONS = ["PARTIAL: wall-clock time, OS scheduling and the Arc::into_raw/from_raw hand-off are outside the model",
               "Ipc::recv returns within its timeout; user flows do not keep a Datapath handle alive past their drop"]
LEVEL_TEXT = ("PARTIAL. Machine-checked proof (Lean 4) of the stop logic of the receive/dispatch loop model: no recv after the flag is read "
              "false, independence of the rest of the transport, bounded dispatch after the stop, Ok iff stopped / Err on an undecodable "
              "stream end, drops then nothing; and over a reference-count model of the stop flag and the socket (Conc/Own): the "
              "into_raw/from_raw hand-off is balanced for every sequence of handle operations (stop_handle_balanced), the socket is dropped "
              "and closed exactly once unless a handle copy outlives the runtime (close_called_once), such a copy cannot send "
              "(dead_handle_cannot_send). The runtime aspects the model cannot exhibit - latency within one receive timeout, the "
              "in-flight recv, Ipc::close invoked once, no callback after return, wait() yielding the result, handle strong count - are "
              "exercised by a harness with a really blocking transport in 40+ stop points x 3 run/handle modes.")
LEVEL_NOTE = "Trusts: Lean kernel for the loop logic; timing assertions carry 1 s slack; thread scheduling is sampled, not proved."
TECHNIQUE = "Lean 4 theorems over the loop model (script cut at the stop poll) + differential runs at every stop position + timed harness observations"



# round 5 additions
THEOREMS = THEOREMS + ['Portus.C18.stop_handle_balanced', 'Portus.C18.close_called_once', 'Portus.C18.close_exactly_once_under_discipline', 'Portus.C18.dead_handle_cannot_send']
AUDIT_IMPORTS = list(globals().get('AUDIT_IMPORTS', [])) + ['PortusModel.Props.C18Own']

def project(c, r):
    return r if c.cmd in ("STOP", "STOPX") else R.project(r, KEEP)


def gen(ctx):
    rng = ctx.rng
    # "-early": the stop handle is supplied FIRST in the builder chain (every later step - default_alg, additional_alg,
    # try_additional_alg, spawn_thread - has to carry it along)
    modes = [("inline", "caller"), ("spawn", "caller"), ("spawn", "internal"), ("inline-early", "caller"), ("spawn-early", "caller"),
             ("inline-raw", "caller"), ("spawn-raw", "caller")]   # -raw: with_raw_stop_handle(Arc::into_raw(..))
    for run, handle in modes:
        for point in ("pre", "blocked", "flood", "badmsg"):
            if point == "badmsg" and handle == "internal":
                continue
            yield Case("STOP", "%s %s %s 0" % (run, handle, point), tags=("stop-" + point,))
        if handle == "caller":
            for k in range(0, 8):
                yield Case("STOP", "%s %s mid %d" % (run, handle, k), tags=("stop-mid",))
        else:
            for k in (0, 3):
                yield Case("STOP", "%s %s mid %d" % (run, handle, k), tags=("stop-mid",))
    # a stop after a LONG quiet period on a transport whose receives fail quickly (2 ms): hundreds of failed receives in a row
    # must not make the loop any slower to notice the request
    for run, handle in (("inline", "caller"), ("spawn", "caller"), ("spawn", "internal")):
        for k in ((300, 1300, 2600) if ctx.thorough else (1300,)):
            yield Case("STOP", "%s %s quiet %d" % (run, handle, k), tags=("stop-quiet",))
    # the bundled transports themselves (every constructor): a stop requested while nothing arrives
    for kc in ("unix new", "unix skbuf", "unix skbufsz", "chan b"):
        yield Case("STOPX", kc, tags=("stop-real-transport",))
    # the unix transport under datagrams from a peer WITHOUT a pathname (not attributable: failed reads): thousands back to back,
    # and a steady trickle across the stop request
    for kc in ("unixnoise burst", "unixnoise steady"):
        yield Case("STOPX", kc, tags=("stop-real-transport-unnamed-peer",))
    for a in R.stop_from_callback_cases():
        yield Case("RUN", a, tags=("stop-from-callback",))
    # every cut point of scripted histories
    for _ in range(300 if ctx.thorough else 25):
        algs, allp = R.gen_cfg(rng, rich=False)
        items = R.gen_script(rng, algs, allp, n=rng.randrange(3, 15), adversarial=0.05, faults=0.05, stop=0.0)
        cfg = " ".join(a["text"] for a in algs)
        for cut in range(len(items) + 1):
            yield Case("RUN", "%s SCRIPT %s" % (cfg, " ".join(items[:cut] + ["X"] + items[cut:])), tags=("cut",))


def classify(c, r):
    return [c.tags[0] + ":" + " ".join(r.split(" | ")[-1].split(" ")[:2])]


def nontrivial(c, r):
    return c.cmd == "STOPX" or (c.cmd == "STOP" and "pre" not in c.args) or (c.cmd == "RUN" and ("NF " in r or "RP " in r))


def oracle(c, impl_res):
    return None
