"""C07 — datapath->CCP messages survive an encode/decode round trip."""
from core import Case
from . import wiregen as W

ID = "C07"
# theorems of Props/Tables.lean over the tables TRANSLATED from /repo/src and libccp's headers on every run (DESIGN 11.7)
TABLE_THEOREMS = ['src_msgTypes_eq', 'src_lengths_eq', 'msgtypes_shared_with_libccp']
THEOREMS = [
    "Portus.C07.encode_is_libccp", "Portus.C07.libccp_create_decodes", "Portus.C07.algSpec_of_name",
    "Portus.C07.libccp_measure_decodes", "Portus.C07.libccp_ready_decodes",
    "Portus.C07.decode_encode", "Portus.C07.decode_concat", "Portus.C07.check_model",
]
RELATION = ("serialize(m1);…;serialize(mk) concatenated, then Msg::from_buf iterated over the bytes; and the ready / create / measurement / "
            "close messages emitted by the REAL libccp (C driver) decoded by the real portus decoder vs the values libccp was given")
RULE = ("every algorithm-name length 0..64 (incl. absent, empty, 63, 64 and multi-byte UTF-8), every field count "
        "0..255, boundary and random u32/u64 values, count fields that do not match the value list, and random "
        "concatenations of 1..8 messages. non-trivial = all messages in range and the round trip result is a "
        "decoded sequence; distinct by the message list")
EXPLANATION = ("theorems: encode = libccp layout, decode∘encode = id with exact length and arbitrary trailing bytes, "
               "concatenations of any length decode to the same sequence; model tied to the code by differential "
               "RT/ENC runs; oracle C07.check evaluated in Lean on the implementation's bytes and decodes")
ASSUMPTIONS = ["libccp's writers are modelled from libccp 1.2.0 serialize.c (packed structs, little-endian host); validated against the C code by the libccp driver in C06/C01 checks"]

LEVEL_TEXT = ("Machine-checked proof (Lean 4) that for every in-range create/measure/ready message the model encoder succeeds, "
              "emits exactly libccp's packed layout, and that decoding the bytes (with arbitrary trailing bytes) returns the same "
              "message and its exact length; by induction, any concatenation of any number of encodings decodes to the same "
              "sequence. Model tied to the code by differential encode/decode runs over all name lengths 0..64, all counts 0..255, "
              "boundary/random values and concatenations.")
LEVEL_NOTE = ("Trusts: Lean kernel; correspondence sampling outside the exhaustive name-length/count tables; libccp writer layout as "
              "modelled from serialize.c.")
TECHNIQUE = "Lean 4 round-trip theorems (induction over message lists) + differential correspondence + Lean oracle"


def spec_cr(rng, name):
    a = [W.r32(rng) for _ in range(7)]
    alg = "-" if name is None else "s:" + name.hex()
    return "CR %s %s" % (" ".join(map(str, a)), alg)


def spec_ms(rng, n, nf=None):
    f = [W.r64(rng) for _ in range(n)]
    return "MS %d %d %d %s" % (W.r32(rng), W.r32(rng), n if nf is None else nf, ",".join(map(str, f)) if f else "-")


def spec_rd(rng):
    return "RD %d" % W.r32(rng)


def rand_spec(rng):
    k = rng.random()
    if k < 0.35:
        return spec_cr(rng, None if rng.random() < 0.25 else W.rname(rng))
    if k < 0.8:
        return spec_ms(rng, rng.choice([0, 1, 2, 3, 8, 16, 17, 50, 255]) if rng.random() < 0.8 else rng.randrange(256))
    return spec_rd(rng)


def gen(ctx):
    rng = ctx.rng
    # several threads decoding at the same time (each its own buffer): the decoder shares nothing between threads
    for _ in range(200 if ctx.thorough else 20):
        k = rng.choice([2, 2, 3, 4, 8])
        yield Case("DECPAR", " ".join(W.hx(W.rand_valid(rng)[1]) for _ in range(k)), tags=("concurrent-decode",))
    # a well-formed message at the head of a buffer around and beyond 64 KiB (length arithmetic must not be done in 16 bits)
    import struct as _st
    for msg in (W.enc_ready(7), W.enc_measure(3, 9, [1, 2, 3]), W.enc_create(1, 2, 3, 4, 5, 6, 7, b"reno"),
                _st.pack("<HHI", 0x23, 40000, 1) + bytes(39992)):
        for total in (65535, 65536, 65537, 65536 + len(msg) - 1, 65536 + len(msg), 131072, 131072 + 5, 200000):
            if total >= len(msg):
                yield Case("DEC", W.hx(msg + bytes(total - len(msg))), tags=("bigbuf",))
        yield Case("DECS", W.hx(msg * 3 + bytes(65536) + msg), tags=("bigbuf",))
    for n in range(0, 65):
        for _ in range(3 if ctx.thorough else 1):
            yield Case("RT", spec_cr(rng, W.rname(rng, n)), tags=("name-len",))
        yield Case("ENC", spec_cr(rng, W.rname(rng, n)), tags=("name-len",))
    yield Case("RT", spec_cr(rng, None), tags=("name-len",))
    # names whose first / last bytes are what a "tidy-up" would strip or fold (round 5: trailing CR/LF removed on decode):
    # the name is ANY 1-63 bytes without NUL that are valid UTF-8
    for core_ in (b"reno", b"cubic", b"x", b""):
        for pre in (b"", b" ", b"\t", b"\n", b"\r\n", b"\x7f", b"\x01", "\u00a0".encode(), "\ufeff".encode(), "\u2028".encode()):
            for suf in (b"", b" ", b"\t", b"\n", b"\r", b"\r\n", b"\n\n", b"\x0b", b"\x0c", b"\x7f", b"\x01", "\u00a0".encode(), "\u2029".encode(), b".", b"/", b"\\"):
                nm = pre + core_ + suf
                if 1 <= len(nm) <= 63:
                    yield Case("RT", spec_cr(rng, nm), tags=("name-edge-bytes",))
    # a multi-byte character lying across every byte offset of the name (round 6: a log line sliced the name at byte 24)
    for _ch in ("\u00e9", "\u20ac", "\U0001F600"):
        _cb = _ch.encode()
        for _off in range(0, 64 - len(_cb)):
            for _tail in (0, 63 - _off - len(_cb)):
                nm = b"a" * _off + _cb + b"z" * _tail
                if 1 <= len(nm) <= 63:
                    yield Case("RT", spec_cr(rng, nm), tags=("name-multibyte-at-every-offset",))
    for nm in (b"RENO", b"Reno", b"reno", b"ren\xc3\xb6", b"reno\xcc\x88"):
        yield Case("RT", spec_cr(rng, nm), tags=("name-edge-bytes",))
    yield Case("RT", spec_cr(rng, b"a\x00b"), tags=("name-nul",))
    yield Case("RT", spec_cr(rng, b"\x00"), tags=("name-nul",))
    for n in range(0, 256):
        yield Case("RT", spec_ms(rng, n), tags=("count",))
    for _ in range(400 if ctx.thorough else 60):
        n = rng.randrange(0, 256)
        nf = rng.choice([0, 1, min(n + 1, 255), max(0, n - 1), 255])   # the count field is a u8
        yield Case("RT", spec_ms(rng, n, nf), tags=("count-mismatch",))
    for _ in range(100000 if ctx.thorough else 4000):
        k = rng.randrange(1, 9) if rng.random() < 0.6 else 1
        yield Case("RT", " ; ".join(rand_spec(rng) for _ in range(k)), tags=("concat%d" % k if k > 1 else "single",))


def classify(c, r):
    enc, _, dec = r.partition(" => ")
    e = enc.split(" ")[0]
    kinds = "+".join(sorted(set(p.split(" ")[1] if p.startswith("OK ") else p for p in dec.split(" | ")))) if dec else "-"
    return [c.tags[0] + ":" + e, "decoded:" + kinds[:40]]


def nontrivial(c, r):
    return c.cmd == "RT" and r.startswith("OK ") and " => OK " in r


def oracle(c, impl_res):
    if c.cmd != "RT":
        return None
    return ("ORC", "C07 %s @@ %s" % (c.args, impl_res))


# ------------------------------------------------------------------ messages emitted by the REAL libccp
NEEDS_CVM = True
REPORT_SRC = ("(def (Report (a 0) (b 0) (c 0) (volatile d 0))) (when true (:= Report.a Ack.bytes_acked) (:= Report.b Flow.rate_outgoing) "
              "(:= Report.c Flow.rtt_sample_us) (:= Report.d (+ Report.d Ack.packets_acked)) (report))")


def extra(ctx):
    """the create, measurement, ready and close messages that libccp 1.2.0 itself emits (C driver around its unmodified sources)
    must decode, by the real portus decoder, to the values libccp was given - and the Lean decoder must agree"""
    import struct
    import core
    rng = ctx.rng
    fails, n_cr, n_ms, n_rd, n_cl = [], 0, 0, 0, 0
    img_res = core.run_impl(["CMP 0 %s - -" % REPORT_SRC.encode().hex()]).get("0", "")
    if not img_res.startswith("OK "):
        return ([{"property": ID, "kind": "no-failing-input-found", "relation": "report program for the libccp cross-check compiles",
                  "detail": img_res}], {})
    img = bytes.fromhex(img_res.split(" ")[1])
    ne = 1
    ni = (len(img) - 16 * ne) // 16
    inst = struct.pack("<HHIIII", 2, 20 + len(img), 0, 7, ne, ni) + img
    B32 = [0, 1, 2**31 - 1, 2**31, 2**32 - 1]
    scripts, expect = [], {}
    for i in range(400 if ctx.thorough else 60):
        name = bytes(rng.choice(b"abcdefghijklmnopqrstuvwxyz_0123456789-") for _ in range(rng.choice([0, 0, 1, 2, 4, 8, 31, 32, 62, 63])))
        vals = [rng.choice(B32 + [rng.getrandbits(32)]) for _ in range(6)]
        acked = rng.choice(B32 + [rng.getrandbits(32)])
        rate = rng.choice([0, 1, 2**32, 2**63, 2**64 - 1, rng.getrandbits(64)])
        rtt = rng.choice([1, 2**32 - 1, 2**32, 2**64 - 1, rng.getrandbits(64) | 1])
        pk = rng.choice([0, 1, 7, 2**31])
        prims = [acked, 0, 0, 0, 0, 0, pk, 0, 0, 0, 0, 0, rate, rtt, 0]
        ops = ["M " + inst.hex(), "S %d %d %d %d %d %d %s" % (*vals, name.hex() or "-"),
               "M " + struct.pack("<HHIII", 4, 16, 1, 7, 0).hex(), "T 10",
               "I 1 10 10 " + ",".join(str(p) for p in prims), "T 20", "I 1 10 10 " + ",".join(str(p) for p in prims), "F 1"]
        scripts.append("VM %d %s" % (i, " ; ".join(ops)))
        expect[str(i)] = {
            "ready": "OK RD 1 12",
            "create": "OK CR 1 %d %d %d %d %d %d %s 96" % (*vals, ("s:" + name.hex()) if name else "-"),
            "ms1": "OK MS 1 7 4 %d,%d,%d,%d %d" % (acked, rate, rtt, pk, 48),
            "ms2": "OK MS 1 7 4 %d,%d,%d,%d %d" % (acked, rate, rtt, pk, 48),   # d is volatile: reset after the first report
            "close": "OK MS 1 0 0 - 16",
        }
    out = core.run_cvm(scripts)
    dec_lines, want = [], {}
    for sid, r in out.items():
        parts = r.split(" | ")
        try:
            msgs = {"ready": parts[0].split(" ")[2], "create": parts[2].split(" ")[2], "ms1": parts[5].split(" ")[-1],
                    "ms2": parts[7].split(" ")[-1], "close": parts[8].split(" ")[-1]}
        except IndexError:
            fails.append({"property": ID, "kind": "no-failing-input-found", "relation": "libccp driver answered the script", "detail": r[:500]})
            continue
        for k, hx in msgs.items():
            cid = "%s-%s" % (sid, k)
            dec_lines.append("DEC %s %s" % (cid, hx))
            want[cid] = (expect[sid][k], hx)
    impl = core.run_impl(dec_lines)
    model = core.run_model(dec_lines)
    for cid, (w, hx) in want.items():
        got = impl.get(cid)
        kind = cid.split("-")[1]
        if got != w or model.get(cid) != w:
            fails.append({"property": ID, "kind": "failing-input", "case": "DEC %s %s" % (cid, hx),
                          "relation": "a %s message emitted by the real libccp decodes to the values libccp was given" % kind,
                          "given_to_libccp": w, "decoded_by_portus": got, "decoded_by_model": model.get(cid)})
        n_cr += kind == "create"
        n_ms += kind in ("ms1", "ms2")
        n_rd += kind == "ready"
        n_cl += kind == "close"
    return fails[:5], {"libccp_emitted_messages_decoded": {"create": n_cr, "measure": n_ms, "ready": n_rd, "close": n_cl,
                                                           "all_equal_to_values_given_to_libccp": not fails}}
