"""C07 — datapath->CCP messages survive an encode/decode round trip."""
from core import Case
from . import wiregen as W

ID = "C07"
THEOREMS = [
    "Portus.C07.encode_is_libccp", "Portus.C07.libccp_create_decodes", "Portus.C07.algSpec_of_name",
    "Portus.C07.libccp_measure_decodes", "Portus.C07.libccp_ready_decodes",
    "Portus.C07.decode_encode", "Portus.C07.decode_concat", "Portus.C07.check_model",
]
RELATION = "serialize(m1);…;serialize(mk) concatenated, then Msg::from_buf iterated over the bytes"
RULE = ("every algorithm-name length 0..64 (incl. absent, empty, 63, 64 and multi-byte UTF-8), every field count "
        "0..255, boundary and random u32/u64 values, count fields that do not match the value list, and random "
        "concatenations of 1..8 messages. non-trivial = all messages in range and the round trip result is a "
        "decoded sequence; distinct by the message list")
EXPLANATION = ("theorems: encode = libccp layout, decode∘encode = id with exact length and arbitrary trailing bytes, "
               "concatenations of any length decode to the same sequence; model tied to the code by differential "
               "RT/ENC runs; oracle C07.check evaluated in Lean on the implementation's bytes and decodes")
ASSUMPTIONS = ["libccp's writers are modelled from libccp 1.2.0 serialize.c (packed structs, little-endian host); validated against the C code by the libccp driver in C06/C01 checks"]

LEVEL_TEXT = ("Machine-checked proof (Lean 4) that for every in-range create/measure/ready message the model encoder succeeds, "
              "emits exactly libccp's packed layout, and that decoding the bytes (with arbitrary trailing bytes) returns the same "
              "message and its exact length; by induction, any concatenation of any number of encodings decodes to the same "
              "sequence. Model tied to the code by differential encode/decode runs over all name lengths 0..64, all counts 0..255, "
              "boundary/random values and concatenations.")
LEVEL_NOTE = ("Trusts: Lean kernel; correspondence sampling outside the exhaustive name-length/count tables; libccp writer layout as "
              "modelled from serialize.c.")
TECHNIQUE = "Lean 4 round-trip theorems (induction over message lists) + differential correspondence + Lean oracle"


def spec_cr(rng, name):
    a = [W.r32(rng) for _ in range(7)]
    alg = "-" if name is None else "s:" + name.hex()
    return "CR %s %s" % (" ".join(map(str, a)), alg)


def spec_ms(rng, n, nf=None):
    f = [W.r64(rng) for _ in range(n)]
    return "MS %d %d %d %s" % (W.r32(rng), W.r32(rng), n if nf is None else nf, ",".join(map(str, f)) if f else "-")


def spec_rd(rng):
    return "RD %d" % W.r32(rng)


def rand_spec(rng):
    k = rng.random()
    if k < 0.35:
        return spec_cr(rng, None if rng.random() < 0.25 else W.rname(rng))
    if k < 0.8:
        return spec_ms(rng, rng.choice([0, 1, 2, 3, 8, 16, 17, 50, 255]) if rng.random() < 0.8 else rng.randrange(256))
    return spec_rd(rng)


def gen(ctx):
    rng = ctx.rng
    for n in range(0, 65):
        for _ in range(3 if ctx.thorough else 1):
            yield Case("RT", spec_cr(rng, W.rname(rng, n)), tags=("name-len",))
        yield Case("ENC", spec_cr(rng, W.rname(rng, n)), tags=("name-len",))
    yield Case("RT", spec_cr(rng, None), tags=("name-len",))
    yield Case("RT", spec_cr(rng, b"a\x00b"), tags=("name-nul",))
    yield Case("RT", spec_cr(rng, b"\x00"), tags=("name-nul",))
    for n in range(0, 256):
        yield Case("RT", spec_ms(rng, n), tags=("count",))
    for _ in range(400 if ctx.thorough else 60):
        n = rng.randrange(0, 256)
        nf = rng.choice([0, 1, n + 1, max(0, n - 1), 255])
        yield Case("RT", spec_ms(rng, n, nf), tags=("count-mismatch",))
    for _ in range(100000 if ctx.thorough else 4000):
        k = rng.randrange(1, 9) if rng.random() < 0.6 else 1
        yield Case("RT", " ; ".join(rand_spec(rng) for _ in range(k)), tags=("concat%d" % k if k > 1 else "single",))


def classify(c, r):
    enc, _, dec = r.partition(" => ")
    e = enc.split(" ")[0]
    kinds = "+".join(sorted(set(p.split(" ")[1] if p.startswith("OK ") else p for p in dec.split(" | ")))) if dec else "-"
    return [c.tags[0] + ":" + e, "decoded:" + kinds[:40]]


def nontrivial(c, r):
    return c.cmd == "RT" and r.startswith("OK ") and " => OK " in r


def oracle(c, impl_res):
    if c.cmd != "RT":
        return None
    return ("ORC", "C07 %s @@ %s" % (c.args, impl_res))
