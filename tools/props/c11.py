"""C11 — only controllable registers can be updated: all-or-nothing, values as asked."""
from core import Case
from . import rtgen as R

ID = "C11"
# theorems of Props/Tables.lean over the decision logic TRANSLATED from /repo/src/lib.rs on every run (DESIGN 11.7)
TABLE_THEOREMS = ['src_updFilter_eq', 'src_resolveField_eq']
THEOREMS = ['Portus.C11.resolveFields_spec', 'Portus.C11.set_program_spec', 'Portus.C11.update_field_spec', 'Portus.C11.set_program_effect', 'Portus.C11.update_field_effect', 'Portus.C11.updatable_reg_encodes', 'Portus.C06.changeprog_read_by_libccp']
SPEC_IS_ORACLE = True
KEEP = {"TX CP", "TX UF", "TXFAIL", "SP", "UF", "NF", "RP", "RES"}   # RES carries late=: what a handle that outlived the runtime answers
RELATION = "for every set_program / update_field call of a flow: the message handed to the transport (full body bytes) or nothing, and the call's result"
RULE = 'flows whose new_flow / on_report policies call set_program and update_field with field lists of 1..3 names drawn from every register class of the selected program (control, volatile control, report, local, primitive, implicit Cwnd/Rate/Micros, reserved __names, undeclared, prefixes/extensions of declared names) in every position, unknown program names, no scope, values 0, 1, 2^31, 2^32-1, random; injected send failures. non-trivial = at least one accepted and one refused call; distinct by case line'
EXPLANATION = "theorems: closed-form characterisation of set_program / update_field: the call succeeds iff the program is known and every field is updatable (not reserved, bound to a control register or implicit 4/5), all-or-nothing, first error wins; on success the bytes are exactly serialize(ChangeProg{sid, program uid, (register, value) pairs in order}) and the returned scope is the program's; on refusal nothing is handed to the transport; exactly one send otherwise (runUser step lemmas). The oracle is the closed form itself: the projection of the real trace must equal the model's"
ASSUMPTIONS = ["user callbacks do not panic, issue commands only through their handle, and use field lists shorter than 2^24",
               "HashMap iteration order is canonicalised (install batches and drop batches are sorted)"]
LEVEL_TEXT = "Machine-checked proof (Lean 4) of the complete decision rule of Datapath::set_program / update_field for all scopes, field lists and values: success iff known program and only control registers or Cwnd/Rate, otherwise an error and nothing transmitted; on success exactly one message with the flow id, the program's uid and the (register, value) pairs in the order given (byte exact, read back by libccp per C06), and the program's scope returned. Tied to the code by differential runs."
LEVEL_NOTE = 'Trusts: Lean kernel; correspondence sampling over register classes/positions; Scope::get as modelled (C13).'
TECHNIQUE = 'Lean 4 closed-form specification theorems (the oracle is the specification function) + differential correspondence on command traces'



# vertical composition, control direction (Props/VerticalDown): update_field BY NAME -> bytes -> libccp model -> the register holds the value at the next invocation
THEOREMS = THEOREMS + ['Portus.Vertical.update_by_name_reaches_register']
AUDIT_IMPORTS = list(globals().get('AUDIT_IMPORTS', [])) + ['PortusModel.Props.VerticalDown']

def project(c, r):
    return R.project(r, KEEP)


def gen(ctx):
    rng = ctx.rng
    for a in R.boundary_update_cases():
        yield Case("RUN", a, tags=("handle-limits",))
    for a in R.declared_kind_value_cases():
        yield Case("RUN", a, tags=("declared-kind-x-value",))
    for a in R.shadowing_control_cases():
        yield Case("RUN", a, tags=("control-shadowing-a-built-in",))
    for a in R.same_names_other_program_cases():
        yield Case("RUN", a, tags=("same-names-other-program",))
    for _ in range(40000 if ctx.thorough else 3000):
        yield Case("RUN", R.gen_case(rng, n=rng.randrange(2, 16), adversarial=0.0, faults=rng.choice([0.0, 0.1]), stop=0.0), tags=("commands",))


def classify(c, r):
    parts = r.split(" | ")
    return ["events:%d" % min(len(parts) // 10 * 10, 80), "end:" + parts[-1].split(" ")[1]]


def nontrivial(c, r):
    return " OK" in r and " ERR" in r and ("SP " in r or "UF " in r)


def oracle(c, impl_res):
    return None
