"""C04 — decoding is total, in bounds, and makes progress."""
import struct
from core import Case
from . import wiregen as W

ID = "C04"
# theorems of Props/Tables.lean over the tables TRANSLATED from /repo/src and libccp's headers on every run (DESIGN 11.7)
TABLE_THEOREMS = ['src_msgTypes_eq', 'msgtypes_shared_with_libccp']
THEOREMS = [
    "Portus.C04.from_buf_no_panic", "Portus.C04.from_buf_progress",
    "Portus.C04.create_only_when_create", "Portus.C04.measure_only_when_measure",
    "Portus.C04.ready_only_when_ready", "Portus.C04.otherwise_unknown", "Portus.C04.check_fromBuf",
]
RELATION = "Msg::from_buf(bytes) (decoded message, consumed length | ERR | PANIC)"
RULE = ("grid (type code x declared length x actual length) with position-coded payloads, NUL at varying "
        "offsets of the name block, count fields != value count, count 255/256; plus bit/byte mutations and "
        "truncations/extensions of valid encodings, and random bytes. quick: boundary rows/columns complete + "
        "1/16 of the interior; thorough: whole grid. non-trivial = input of >= 8 bytes whose result is not the "
        "undecodable-header fallback; distinct by input bytes")
EXPLANATION = ("theorems over all byte lists for the Lean model of Msg::from_buf (no panic, progress, typed only "
               "when typed, fields at documented offsets, otherwise unknown/err); model tied to the code by "
               "differential runs; oracle C04.check evaluated in Lean on the implementation's results")
ASSUMPTIONS = [
    "alignment/aliasing UB of the &[u8] -> &[u32] transmute in RawMsg::get_u32s is outside the model (only in-range reads are proved)",
    "error texts are not compared",
]

TYPES = [0, 1, 2, 3, 4, 5, 6, 7, 255, 256, 257, 261, 0x0200, 0x0300, 0x0500, 0x0501, 0xFF00, 0xFFFF]
EDGE = [0, 1, 7, 8, 9, 11, 12, 13, 15, 16, 17, 23, 24, 25, 31, 32, 33, 39, 40, 41, 87, 88, 95, 96, 97, 104, 105, 140]

LEVEL_TEXT = ("Machine-checked proof (Lean 4) that the model of Msg::from_buf never panics, consumes between 1 and len bytes "
              "(0 only for the empty buffer), produces a typed message only for its type code with a declared length covering "
              "the fixed fields, with every field equal to the little-endian value at its documented offset, and surfaces "
              "everything else as unknown or error - for all byte lists, no size bound. The model is tied to the code by a "
              "differential run over a (type x declared x actual length) grid, mutated encodings and random bytes.")
LEVEL_NOTE = ("Trusts: Lean kernel; the correspondence (exhaustive on grid boundaries, sampled inside); Rust slice/cast semantics as "
              "modelled. Not covered: UB of the &[u8]->&[u32] transmute itself.")
TECHNIQUE = "Lean 4 theorems over all byte lists + differential correspondence + Lean oracle on implementation output"


def payload(rng, typ, total, variant):
    """payload bytes after the header so that the whole buffer has `total` bytes"""
    n = max(0, total - 8)
    if variant == 0:
        b = bytearray(((i * 7 + 1) % 255) + 1 for i in range(n))  # position coded, no NUL
    elif variant == 1:
        b = bytearray(n)  # all NUL
    else:
        b = bytearray(rng.getrandbits(8) for _ in range(n))
    if typ & 0xFF == 0 and n > 24:
        # name block: NUL at a chosen offset
        if variant == 0 and n > 25:
            b[24 + rng.randrange(0, min(64, n - 24))] = 0
        if variant == 3:
            for i in range(24, n):
                b[i] = 0x61 + (i % 26)
            if rng.random() < 0.7:
                b[24 + rng.randrange(0, n - 24)] = 0
        if variant == 4 and n > 30:
            b[24:27] = b"\xff\xfe\x00" if rng.random() < 0.5 else b"\xc3\x28\x00"
    if typ & 0xFF == 1 and n >= 8:
        cnt = rng.choice([0, 1, (n - 8) // 8, 255, 256, 257, 0x100, 0x1FF, 2**32 - 1])
        b[4:8] = struct.pack("<I", cnt)
    return bytes(b)


def gen(ctx):
    rng = ctx.rng
    # several threads decoding at the same time (each its own buffer): the decoder shares nothing between threads
    for _ in range(200 if ctx.thorough else 20):
        k = rng.choice([2, 2, 3, 4, 8])
        yield Case("DECPAR", " ".join(W.hx(W.rand_valid(rng)[1]) for _ in range(k)), tags=("concurrent-decode",))
    # a well-formed message at the head of a buffer around and beyond 64 KiB (length arithmetic must not be done in 16 bits)
    import struct as _st
    for msg in (W.enc_ready(7), W.enc_measure(3, 9, [1, 2, 3]), W.enc_create(1, 2, 3, 4, 5, 6, 7, b"reno"),
                _st.pack("<HHI", 0x23, 40000, 1) + bytes(39992)):
        for total in (65535, 65536, 65537, 65536 + len(msg) - 1, 65536 + len(msg), 131072, 131072 + 5, 200000):
            if total >= len(msg):
                yield Case("DEC", W.hx(msg + bytes(total - len(msg))), tags=("bigbuf",))
        yield Case("DECS", W.hx(msg * 3 + bytes(65536) + msg), tags=("bigbuf",))
    # create messages whose names are DIFFERENT but look alike to a weak key (same length and same 32-bit hash under the usual hash
    # functions, same bytes permuted, same prefix/suffix): decoded one after the other in one process, each must give its own name,
    # and the variant that is not UTF-8 must be refused however many look-alikes were accepted before it
    import json as _json, os as _os
    _col = _json.load(open(_os.path.join(_os.path.dirname(_os.path.abspath(__file__)), "collisions.json")))
    _cr = lambda nm: W.enc_create(1, 2, 3, 4, 5, 6, 7, nm)
    for _h, _t in sorted(_col.items()):
        for _a, _b in _t["valid_valid"]:
            for _x in (_a, _b, _a):
                yield Case("DEC", W.hx(_cr(_x.encode())), tags=("look-alike-names",))
            yield Case("DECS", W.hx(_cr(_a.encode()) + _cr(_b.encode()) + _cr(_a.encode())), tags=("look-alike-names",))
        for _a, _bh in _t["valid_invalidhex"]:
            for _x in (_a.encode(), bytes.fromhex(_bh), _a.encode()):
                yield Case("DEC", W.hx(_cr(_x)), tags=("look-alike-names",))
            yield Case("DECS", W.hx(_cr(_a.encode()) + _cr(bytes.fromhex(_bh))), tags=("look-alike-names",))
    for _a, _b in ((b"abcdef", b"fedcba"), (b"abcdef", b"abdcef"), (b"reno-aaaa", b"reno-aaab"), (b"xreno", b"yreno"), (b"ab\x00cd", b"ab\x00ce"),
                   (b"cubic", b"cubi\xff"), (b"\xc3\xa9", b"\xa9\xc3"), (b"bbr", b"BBR")):
        for _x in (_a, _b, _a):
            yield Case("DEC", W.hx(_cr(_x)), tags=("look-alike-names",))
    declared_all = list(range(0, 141)) + [1023, 1024, 1025, 65535]
    actual_all = list(range(0, 141)) + [1024]
    keep = 1.0 if ctx.thorough else 1 / 16
    for typ in TYPES:
        for d in declared_all:
            for a in actual_all:
                edge = d in EDGE or a in EDGE or d >= 1023 or a == 1024 or abs(d - a) <= 1
                if not edge and rng.random() > keep:
                    continue
                if edge and not ctx.thorough and rng.random() > 0.5:
                    continue
                var = rng.choice([0, 0, 1, 2, 3, 4])
                if a < 8:
                    buf = (W.hdr(typ, d, rng.getrandbits(32)) + b"")[:a]
                else:
                    buf = W.hdr(typ, d, rng.getrandbits(32)) + payload(rng, typ, a, var)
                yield Case("DEC", W.hx(buf), tags=("grid",))
    # valid encodings and their mutations
    nmut = 20000 if ctx.thorough else 2500
    for _ in range(nmut):
        kind, b, _ = W.rand_valid(rng)
        yield Case("DEC", W.hx(b), tags=("valid", kind))
        m = bytearray(b)
        r = rng.random()
        if r < 0.3:
            i = rng.randrange(len(m)) if rng.random() < 0.5 else rng.randrange(min(16, len(m)))
            m[i] ^= 1 << rng.randrange(8)
        elif r < 0.5:
            m = m[: rng.randrange(len(m))]
        elif r < 0.65:
            m += bytes(rng.getrandbits(8) for _ in range(rng.randrange(1, 20)))
        elif r < 0.8:
            m[2:4] = struct.pack("<H", rng.choice([0, 7, 8, len(m) - 1, len(m) + 1, len(m) - 8, 65535]) & 0xFFFF)
        else:
            i = rng.randrange(len(m))
            m[i] = rng.getrandbits(8)
        yield Case("DEC", W.hx(bytes(m)), tags=("mutated", kind))
    for _ in range(20000 if ctx.thorough else 1500):
        n = rng.choice([0, 1, 7, 8, 9, 12, 16, 24, 96, 200]) if rng.random() < 0.5 else rng.randrange(0, 300)
        b = bytearray(rng.getrandbits(8) for _ in range(n))
        if n >= 4 and rng.random() < 0.7:
            b[0:2] = struct.pack("<H", rng.choice([0, 1, 5, 2, 3]))
            b[2:4] = struct.pack("<H", rng.choice([n, n, n - 1, n + 1, 8, 12, 16, 96]) & 0xFFFF)
        yield Case("DEC", W.hx(bytes(b)), tags=("random",))


def classify(c, r):
    t = r.split(" ")
    k = " ".join(t[:2]) if t[0] == "OK" else t[0]
    if t[:2] == ["OK", "OT"] and t[2:5] == ["255", "0", "0"]:
        k = "OK OT(fallback)"
    return [c.tags[0] + ":" + k, "result:" + k]


def nontrivial(c, r):
    return len(c.args) >= 16 and not r.startswith("OK OT 255 0 0")


def oracle(c, impl_res):
    if c.cmd == "DECPAR" or (c.cmd == "DECS" and ("bigbuf" in c.tags or "look-alike-names" in c.tags)):
        return None  # the oracle's answer parser is for single results; these streams are decided by the correspondence with the model
    return ("ORC", "C04 %s %s" % (c.args, impl_res))
