"""C13 — names map to distinct datapath registers with a stable built-in ABI."""
from core import Case
from . import proggen as G

ID = "C13"
SPEC_IS_ORACLE = lambda c: c.cmd == "CMPX"
# theorems of Props/Tables.lean over the tables TRANSLATED from /repo/src and libccp's headers on every run (DESIGN 11.7)
TABLE_THEOREMS = ['src_builtins_eq', 'primitives_shared_with_libccp', 'implicits_shared_with_libccp']
THEOREMS = [
    "Portus.C13.builtin_abi", "Portus.C13.builtin_only", "Portus.C13.abiTable_positions",
    "Portus.C13.report_slots", "Portus.C13.report_slots_bijective", "Portus.C13.declareAll_ok_iff",
    "Portus.C13.overrides", "Portus.C13.overrides_cases", "Portus.C13.locals_distinct",
    "Portus.C13.compile_keeps_slots", "Portus.C13.compile_scope_slots", "Portus.C13.instrs_use_scope",
    "Portus.C13.check_model",
]
RELATION = "Scope::get(name) for every declared, local, built-in and some undeclared names of the scope returned by compile_and_serialize (and the image)"
RULE = ("exhaustive over the 21 built-in names (queried for every program); generated declaration lists with 0..16 report, "
        "0..16 control variables in random order, with/without Report block and legacy Report.x names, volatile or not, numeric/"
        "boolean/+infinity initial values, 0..6 locals, compile-time overrides of declared/local/built-in/unknown names. "
        "non-trivial = accepted program with at least 2 declared variables; distinct by (source, overrides)")
EXPLANATION = ("theorems: built-in ABI table (closed, decide); report variables occupy exactly slots 0..n-1 in declaration order, "
               "controls 0..m-1, with declared volatility/initial value or the override; locals injective and < numLocal; compilation "
               "never changes class/index/volatility; complete characterisation of the returned scope (compile_scope_slots); every named "
               "register in the emitted instructions is bound in the returned scope (instrs_use_scope). Oracle = that characterisation, "
               "evaluated in Lean on the real scope listing")
ASSUMPTIONS = ["declared names pairwise distinct and different from the built-in names (the property's quantifier); with duplicates the newer declaration shadows the older one"]
LEVEL_TEXT = ("Machine-checked proof (Lean 4) that in the scope returned for any accepted program (distinct, non-built-in names) the "
              "declared report variables occupy exactly report slots 0..n-1 in declaration order and control variables slots 0..m-1, "
              "each with the declared (or overridden) initial value and volatility, locals get pairwise distinct slots, the 21 built-in "
              "names map to libccp's fixed indices, nothing else is bound, and every named register used by the emitted instructions "
              "is the one the scope maps its name to. Model tied to the code by differential runs over generated declaration lists.")
LEVEL_NOTE = "Trusts: Lean kernel; correspondence sampling; libccp's register index constants as transcribed into the ABI table (checked against ccp_priv.h by the VM correspondence)."
TECHNIQUE = "Lean 4 theorems (closed ABI table by decide; slot assignment and its preservation by induction over declarations and the compiler) + differential correspondence + Lean oracle"


def gen(ctx):
    rng = ctx.rng
    # the other public routes: the scope a compilation leaves behind, compiled against again (same program, another program)
    for _i in range(3000 if ctx.thorough else 300):
        _p = G.gen_program(rng)
        yield Case("CMPX", G.hx(G.render(_p, G.Layout(rng, spelling=rng.choice(["sym", "word"])))), tags=("other-routes",))
    for _src in G.corner_programs():
        yield Case("CMP", "%s - -" % G.hx(_src), tags=("corner-grid",))
    for _src in G.short_name_programs():
        yield Case("CMP", "%s - %s" % (G.hx(_src), ";".join(G.hx(x) for x in ["acked", "rtt", "Report.acked", "Report.rtt", "l1", "l2", "c", "Report.c", "x", "y", "Report.x", "Report.y", "Report.Report.x", "Report.Reportx", "Reportx", "Report.Report.Report.z", "Report.Report.z", "Report.x.Report."])), tags=("short-name-of-a-report-variable",))
    n = 30000 if ctx.thorough else 1500
    for i in range(n):
        p = G.gen_program(rng, nrep=rng.randrange(0, 17), nctl=rng.randrange(0, 17)) if i % 3 else G.gen_program(rng)
        L = G.Layout(rng, ws=rng.random() < 0.3, comments=False, spelling=rng.choice(["sym", "word"]))
        src = G.render(p, L)
        names = G.all_names(p) + G.BUILTINS + ["nope", "Report.nope", "Ack.nope"]
        rng.shuffle(names)
        upd = "-"
        tag = "plain"
        if rng.random() < 0.35:
            cands = G.all_names(p) + ["Cwnd", "Ack.now", "nosuch", "zzzzzz", "~~", "A", "0", "{", "Report.", "\u00e9"]
            upd = ";".join("%s=%d" % (G.hx(rng.choice(cands)), rng.choice([0, 1, 7, 2**31 - 1, 2**32 - 1])) for _ in range(rng.randrange(1, 4)))
            tag = "override"
        yield Case("CMP", "%s %s %s" % (G.hx(src), upd, ";".join(G.hx(x) for x in names)), tags=(tag,))
    # duplicates and collisions with built-ins (outside the quantifier; correspondence only)
    for src in ["(def (a 1) (a 2)) (when true (report))", "(def (Cwnd 5)) (when true (:= Cwnd 1))",
                "(def (Report (x 1)) (Report.x 2)) (when true (report))", "(def (Report.Ack.now 0)) (when true (report))"]:
        yield Case("CMP", "%s - %s" % (G.hx(src), ";".join(G.hx(x) for x in ["a", "Cwnd", "Report.x", "Report.Ack.now"] + G.BUILTINS)), tags=("collision",))


def classify(c, r):
    return [c.tags[0] + ":" + r.split(" ")[0]]


def nontrivial(c, r):
    return r.startswith("OK ") and r.count(";") >= 25


def oracle(c, impl_res):
    if c.cmd != "CMP":
        return None  # other routes: decided by the correspondence with the model's compileProg on the same scopes
    return ("ORC", "C13 %s @@ %s" % (c.args, impl_res))
