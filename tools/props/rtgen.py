"""Generator of RUN cases (configurations, policies, message histories) shared by C02/C05/C09/C11/C12/C15/C16/C18."""
import struct

P1 = ("(def (Report (volatile acked 0) (rtt 0)) (cwndcap 100)) (when true (:= Report.acked (+ Report.acked Ack.bytes_acked)) "
      "(:= Report.rtt Flow.rtt_sample_us) (fallthrough)) (when (> Micros 1000) (report) (:= Micros 0))")
P2 = ("(def (Report (volatile loss 0)) (thresh 5) (volatile vc 7)) (when true (:= Report.loss (+ Report.loss Ack.lost_pkts_sample)) "
      "(fallthrough)) (when (> Report.loss thresh) (report))")
P3 = "(def (Report (a 1) (b 2) (volatile c 3) (d 4)) (k1 1) (k2 2)) (when true (:= Report.a (+ Report.a k1)) (:= loc Report.b) (report))"
P4 = "(def (Report.legacy 0) (gain 10)) (when (< Flow.bytes_in_flight gain) (:= Cwnd (* gain 2)) (:= Rate gain) (report))"
P5 = ("(def (Report (x 0)) " + " ".join("(c%02d %d)" % (i, i) for i in range(14)) + " (ReportEvery 7) (c15 15) (spare c00)) "
      "(when true (:= Report.x (+ c00 c15)) (report))")   # control 16 `spare` (no DEF: non-literal initial value) cannot be encoded
PBAD = "(def (Report (x 0))) (when (report) (report))"
PROGRAMS = {"p1": P1, "p2": P2, "p3": P3, "p4": P4, "p5": P5}
REPORT_VARS = {"p1": ["Report.acked", "Report.rtt"], "p2": ["Report.loss"], "p3": ["Report.a", "Report.b", "Report.c", "Report.d"],
               "p4": ["Report.legacy"], "p5": ["Report.x"]}
CONTROL_VARS = {"p1": ["cwndcap"], "p2": ["thresh", "vc"], "p3": ["k1", "k2"], "p4": ["gain"], "p5": ["c00", "c15", "spare", "ReportEvery", "c07"]}
OTHER_NAMES = ["Cwnd", "Rate", "Micros", "Ack.bytes_acked", "Flow.was_timeout", "__eventFlag", "__shouldReport", "loc", "nope", "", "Report.", "cwndca", "cwndcapp"]


def hx(s):
    b = s.encode() if isinstance(s, str) else s
    return b.hex() if b else "-"


def gen_upd(rng, pname, valid_bias=0.7):
    n = rng.choice([1, 1, 2, 3])
    fs = []
    for _ in range(n):
        r = rng.random()
        if r < valid_bias:
            f = rng.choice(CONTROL_VARS.get(pname, ["cwndcap"]) + ["Cwnd", "Rate"])
        elif r < valid_bias + 0.15:
            f = rng.choice(REPORT_VARS.get(pname, ["Report.acked"]))
        else:
            f = rng.choice([x for x in OTHER_NAMES if x != ""])
        fs.append("%s=%d" % (hx(f), rng.choice([0, 1, 2**31, 2**32 - 1, rng.getrandbits(32)])))
    return ";".join(fs)


def gen_cmds(rng, progs, in_report, rich=True):
    cmds = []
    for _ in range(rng.choice([0, 1, 1, 2, 3, 4]) if rich else rng.choice([0, 1])):
        r = rng.random()
        pn = rng.choice(progs + ["zz"]) if rng.random() < 0.9 else "zz"
        if r < 0.35:
            cmds.append("sp:%s:%s" % (pn, "-" if rng.random() < 0.5 else gen_upd(rng, pn)))
        elif r < 0.55:
            cmds.append("uf:%s" % ("-" if rng.random() < 0.15 else gen_upd(rng, rng.choice(progs))))
        elif r < 0.85:
            names = REPORT_VARS.get(pn, []) + CONTROL_VARS.get(pn, []) + OTHER_NAMES
            f = rng.choice(REPORT_VARS.get(pn, ["Report.acked"])) if rng.random() < 0.6 else rng.choice(names)
            if f == "":
                f = "nope"
            cmds.append("gf:%s" % hx(f))
        else:
            f = rng.choice(REPORT_VARS.get(pn, ["Report.acked"]) + ["nope", "Cwnd"])
            cmds.append("gfp:%s:%s" % (pn, hx(f)))
    return ",".join(cmds) if cmds else "-"


ALG_NAMES = ["reno", "ren", "renox", "cubic", "bbr", "", "a" * 63, "Reno", "reno ", "é", "a" * 64, "a" * 71, "a" * 62, "bbr2"]


def gen_cfg(rng, nadd=None, bad_prog=False, rich=True):
    nadd = rng.choice([0, 0, 1, 2, 3, 4]) if nadd is None else nadd
    algs = []
    pool = list(PROGRAMS)
    names = []
    for i in range(nadd + 1):
        if i > 0 and names and rng.random() < 0.3:
            nm = rng.choice(names)  # duplicate registration
        else:
            nm = rng.choice(ALG_NAMES)
        names.append(nm)
        inst = 1 if i == 0 or rng.random() < 0.8 else 0
        k = rng.choice([1, 1, 2, 3]) if i == 0 else rng.choice([0, 1, 2])
        ps = rng.sample(pool, min(k, len(pool)))
        prog_s = ",".join("%s=%s" % (p, hx(PROGRAMS[p])) for p in ps) or "-"
        if bad_prog and i == 0:
            prog_s += (",") + "pbad=%s" % hx(PBAD)
        avail = ps or ["p1"]
        algs.append({"name": nm, "inst": inst, "progs": ps,
                     "text": "ALG %s %d PROGS %s NF %s OR %s" % (hx(nm), inst, prog_s, gen_cmds(rng, avail, False, rich), gen_cmds(rng, avail, True, rich))})
    allp = sorted(set(p for a in algs if a["inst"] for p in a["progs"]))
    return algs, allp


def gen_script(rng, algs, allp, n=None, addrs=None, adversarial=0.1, faults=0.05, stop=0.02, miscount=0.04):
    n = n or rng.randrange(1, 31)
    if addrs is None:
        # 0 is `Addr::default()` for the scripted transport: an address like any other
        addrs = rng.choice([(5, 6, 7), (0, 5, 7), (5, 0), (0, 4294967295, 6)])
    live = {a: [] for a in addrs}     # sids believed live
    closed = {a: [] for a in addrs}
    items = []
    names = [a["name"] for a in algs]

    def sid_for(a, kind):
        if kind == "live" and live[a]:
            return rng.choice(live[a])
        if kind == "closed" and closed[a]:
            return rng.choice(closed[a])
        return rng.choice([1, 2, 3, 7, 2**32 - 1])

    def one_msg(a):
        r = rng.random()
        if r < 0.12:
            live[a] = []
            return "RD.%d" % rng.randrange(1000)
        if r < 0.42:
            k = rng.random()
            sid = sid_for(a, "live") if k < 0.25 else sid_for(a, "closed") if k < 0.35 else rng.choice([1, 2, 3, 4])
            if sid not in live[a]:
                live[a].append(sid)
            q = rng.random()
            if q < 0.5 and names:
                nm = rng.choice(names)
            elif q < 0.7:
                nm = ""
            else:
                nm = rng.choice(ALG_NAMES + ["reno\x00x", "zzz"])
            nmb = nm.encode()[:64]
            return "CR.%d.%d.%d.%d.%d.%d.%d.%s" % (sid, rng.getrandbits(32), rng.choice([1460, 9000]), rng.getrandbits(32),
                                                  rng.getrandbits(16), rng.getrandbits(32), rng.getrandbits(16), hx(nmb))
        if rng.random() < miscount * 2 and allp:
            # a well-framed measurement for a live flow of a live program whose COUNT WORD does not match the values it carries
            sid = sid_for(a, "live")
            nv = rng.choice([0, 1, 1, 2, 3])
            cnt = rng.choice([nv + 1, nv + 2, 3, 5, 255, max(nv - 1, 0), 1])
            vals = ";".join(str(rng.choice([0, 7, 2**63, rng.getrandbits(20)])) for _ in range(nv)) or "-"
            return "MC.%d.u:%s.%d.%s" % (sid, rng.choice(allp), cnt, vals)
        if r < 0.9 - adversarial:
            k = rng.random()
            sid = sid_for(a, "live") if k < 0.75 else sid_for(a, "closed") if k < 0.85 else rng.choice([9, 99, 2**31])
            q = rng.random()
            uid = ("u:" + rng.choice(allp)) if (q < 0.75 and allp) else rng.choice(["0", str(2**31 + rng.randrange(100)), "u:zz"])
            if rng.random() < 0.15:
                vals = "-"
                if sid in live[a]:
                    live[a].remove(sid)
                    closed[a].append(sid)
            else:
                vals = ";".join(str(rng.choice([0, 1, 2**63, 2**64 - 1, rng.getrandbits(20)])) for _ in range(rng.choice([1, 2, 2, 3, 4, 5])))
            return "MS.%d.%s.%s" % (sid, uid, vals)
        # adversarial
        k = rng.random()
        if k < 0.25:
            typ = rng.choice([2, 3, 4, 6, 7, 255, 256, 257, 261, 0xFFFF])
            body = bytes(rng.getrandbits(8) for _ in range(rng.choice([0, 4, 12, 40])))
            return "RAW." + hx(struct.pack("<HHI", typ, 8 + len(body), rng.getrandbits(32)) + body)
        if k < 0.5:
            return "RAW." + hx(bytes(rng.getrandbits(8) for _ in range(rng.choice([0, 1, 7, 8, 9, 30, 100]))))
        if k < 0.7:
            # truncated / short typed message
            typ = rng.choice([0, 1, 5])
            ln = rng.choice([8, 9, 12, 15, 16, 20, 40, 95])
            body = bytes(rng.getrandbits(8) for _ in range(max(0, ln - 8)))
            return "RAW." + hx(struct.pack("<HHI", typ, ln, rng.choice([1, 2, 3])) + body)
        if k < 0.85:
            # measure with odd count field
            sid = sid_for(a, "live")
            cnt = rng.choice([0, 1, 255, 256, 0x100, 2**32 - 1])
            nv = rng.choice([0, 1, 2])
            return "RAW." + hx(struct.pack("<HHIII", 1, 16 + 8 * nv, sid, 0, cnt) + b"".join(struct.pack("<Q", rng.getrandbits(64)) for _ in range(nv)))
        return "RAW." + hx(struct.pack("<HHI", 1, rng.choice([16, 24]), 1))  # declared longer than present

    for _ in range(n):
        r = rng.random()
        if r < faults:
            items.append("E")
            continue
        if r < 2 * faults:
            items.append("SF%d" % rng.choice([1, 1, 2, 3]))
            continue
        if r < 2 * faults + stop:
            items.append("X")
            continue
        a = rng.choice(addrs)
        k = rng.choice([1, 1, 1, 2, 3, 4])
        items.append("%d:%s" % (a, "+".join(one_msg(a) for _ in range(k))))
    return items


def gen_case(rng, **kw):
    algs, allp = gen_cfg(rng, nadd=kw.pop("nadd", None), bad_prog=kw.pop("bad_prog", False), rich=kw.pop("rich", True))
    items = gen_script(rng, algs, allp, **kw)
    return " ".join(a["text"] for a in algs) + " SCRIPT " + " ".join(items)


def project(trace, keep):
    """keep only the events whose first token is in `keep` (the projection a property's relation compares)"""
    parts = trace.split(" | ")
    return " | ".join(p for p in parts if p.split(" ")[0] in keep or (p.startswith("TX ") and ("TX " + p.split(" ")[2]) in keep))


def nprogs_of(args):
    """number of distinct program names over algorithms with an instance"""
    toks = args.split(" ")
    names = set()
    i = 0
    while i < len(toks) and toks[i] != "SCRIPT":
        if toks[i] == "ALG":
            inst = toks[i + 2] == "1"
            progs = toks[i + 4]
            if inst and progs != "-":
                for pr in progs.split(","):
                    names.add(pr.split("=")[0])
            i += 9
        else:
            i += 1
    return len(names)


def boundary_update_cases():
    """update_field / set_program with field lists around the u8 / u16 representation limits (255|256 updates, a 65536-byte
    change-program), driven through the real Datapath handle inside new_flow and on_report"""
    out = []
    cfg_progs = "p1=%s" % hx(P1)
    script = "5:RD.1 5:CR.1.10.1460.1.2.3.4.%s 5:MS.1.u:p1.1;2 X" % hx("reno")
    for n in (0, 1, 254, 255, 256, 257, 300, 511, 512, 513, 1024):
        fs = ";".join("%s=%d" % (hx("Cwnd" if i % 2 else "cwndcap"), i) for i in range(n)) or "-"
        out.append("ALG %s 1 PROGS %s NF sp:p1:-,uf:%s OR uf:%s SCRIPT %s" % (hx("reno"), cfg_progs, fs, fs, script))
    for n in (255, 256, 257, 5039, 5040, 5041, 6000):
        fs = ";".join("%s=%d" % (hx("Rate" if i % 2 else "cwndcap"), i) for i in range(n))
        out.append("ALG %s 1 PROGS %s NF sp:p1:%s OR - SCRIPT %s" % (hx("reno"), cfg_progs, fs, script))
    return out


def big_program_cases():
    """a registered program whose INSTALL message is large (around and beyond 32 KiB, still below the 16-bit length limit): it must be
    installed like any other - on ready, on first contact by create, on restart - before a flow selects it"""
    out = []
    for nst in (900, 1100, 1900):
        big = "(def (Report (x 0))) (when true " + " ".join("(:= Report.x (+ Report.x %d))" % (i % 1000) for i in range(nst)) + " (report))"
        progs = "p1=%s,p9=%s" % (hx(P1), hx(big))
        cr = lambda sid: "CR.%d.10.1460.1.2.3.4.%s" % (sid, hx("reno"))
        for script in ("5:RD.1 5:%s 5:MS.1.u:p9.1 5:MS.1.u:p1.2 X" % cr(1),
                       "6:%s 6:MS.2.u:p9.1 6:RD.7 6:%s 6:MS.2.u:p9.3 5:RD.1 5:%s 5:MS.1.u:p9.4 X" % (cr(2), cr(2), cr(1))):
            out.append("ALG %s 1 PROGS %s NF sp:p9:- OR sp:p1:-,sp:p9:- SCRIPT %s" % (hx("reno"), progs, script))
    return out


def same_names_other_program_cases():
    """the SAME update list issued under different programs in which the names mean different registers (other index, other
    volatility, a local, undeclared): every call is resolved against the scope it is given"""
    pa = "(def (Report (x 0)) (volatile alpha 1) (beta 2)) (when true (:= Report.x (+ alpha beta)) (report))"
    pb = "(def (Report (x 0)) (beta 2) (alpha 1)) (when true (:= Report.x (+ alpha beta)) (report))"
    pc = "(def (Report (x 0)) (beta 2)) (when true (:= alpha 3) (:= Report.x (+ alpha beta)) (report))"
    pd = "(def (Report (x 0) (alpha 4)) (gamma 1) (volatile beta 2)) (when true (:= Report.x beta) (report))"
    progs = "pa=%s,pb=%s,pc=%s,pd=%s" % (hx(pa), hx(pb), hx(pc), hx(pd))
    out = []
    lists = ["%s=1;%s=30;%s=16000" % (hx("alpha"), hx("beta"), hx("Cwnd")), "%s=7" % hx("alpha"), "%s=9;%s=8" % (hx("beta"), hx("alpha")),
             "%s=5" % hx("beta")]
    orders = [("pa", "pb", "pc", "pd"), ("pb", "pa", "pd", "pc"), ("pc", "pa", "pb", "pa"), ("pd", "pc", "pb", "pa"), ("pa", "pc", "pa", "pb")]
    for ul in lists:
        for o in orders:
            nf = "sp:%s:-,uf:%s" % (o[0], ul)
            orr = ",".join("sp:%s:-,uf:%s" % (q, ul) for q in o[1:]) + ",uf:%s" % ul
            out.append("ALG %s 1 PROGS %s NF %s OR %s SCRIPT 5:RD.1 5:CR.1.10.1460.1.2.3.4.%s 5:MS.1.u:%s.1 5:MS.1.u:%s.2 X"
                       % (hx("reno"), progs, nf, orr, hx("reno"), o[0], o[-1]))
            # the same through set_program's own field list
            orr2 = ",".join("sp:%s:%s" % (q, ul) for q in o[1:])
            out.append("ALG %s 1 PROGS %s NF sp:%s:%s OR %s SCRIPT 5:RD.1 5:CR.1.10.1460.1.2.3.4.%s 5:MS.1.u:%s.1 X"
                       % (hx("reno"), progs, o[0], ul, orr2, hx("reno"), o[0]))
    return out


def own_scope_cases(rng, n=40):
    """get_field through a scope the flow obtained by compiling the program text ITSELF (lang::compile, the documented way), with and
    without compile-time overrides of report / control / unknown names; the scripted datapath reports under that scope's uid"""
    pa = "(def (Report (volatile acked 0) (rtt 5)) (thresh 64) (volatile vc 7)) (when true (:= Report.acked (+ Report.acked thresh)) (report))"
    pb = "(def (Report (loss 0)) (gain 2) (Report.legacy 9)) (when true (:= Report.loss gain) (report))"
    progs = "pa=%s,pb=%s" % (hx(pa), hx(pb))
    names = {"pa": ["Report.acked", "Report.rtt", "thresh", "vc", "Cwnd", "nope", "acked", "Report.loss"],
             "pb": ["Report.loss", "Report.legacy", "gain", "legacy", "Rate", "nope", "Report.acked"]}
    ovs = {"pa": ["-", "%s=7" % hx("thresh"), "%s=3" % hx("Report.rtt"), "%s=9;%s=1" % (hx("vc"), hx("thresh")), "%s=1" % hx("nope"),
                  "%s=4;%s=2" % (hx("Report.acked"), hx("vc")), "%s=5" % hx("Cwnd")],
           "pb": ["-", "%s=7" % hx("gain"), "%s=1" % hx("Report.legacy"), "%s=8;%s=3" % (hx("Report.loss"), hx("gain")), "%s=1" % hx("legacy")]}
    nvals = {"pa": 2, "pb": 2}
    out = []
    for q in ("pa", "pb"):
        for ov in ovs[q]:
            for k in range(max(1, n // 12)):
                o = "pb" if q == "pa" else "pa"
                gets = ",".join("gfp:%s_c:%s" % (q, hx(f)) for f in rng.sample(names[q], 5)) + ",gfp:%s:%s,gf:%s" % (q, hx(names[q][0]), hx(names[q][2]))
                nf = "sp:%s:-,cu:%s:%s" % (rng.choice([q, o]), q, ov)
                vals = lambda m: ";".join(str(rng.choice([0, 1, 7111, 2**63, 2**64 - 1])) for _ in range(m)) or "-"
                script = ["5:RD.1", "5:CR.1.10.1460.1.2.3.4.%s" % hx("reno"),
                          "5:MS.1.u:%s_c.%s" % (q, vals(nvals[q])),              # under the flow's own scope's uid
                          "5:MS.1.u:%s.%s" % (q, vals(nvals[q])),                # under the runtime's uid of the same program: stale for _c
                          "5:MS.1.u:%s_c.%s" % (q, vals(rng.choice([0, 1, 3]))),  # short / long reports
                          "5:MS.1.u:%s_c.%s" % (o, vals(2)), "X"]                # never compiled by the flow: uid unknown -> 0
                out.append("ALG %s 1 PROGS %s NF %s OR %s SCRIPT %s" % (hx("reno"), progs, nf, gets, " ".join(script)))
    return out


def same_text_cases():
    """several registered programs with byte-identical text under different names (neighbours in name order, and not): every NAME
    is compiled, installed and selectable - two algorithms that happen to ship the same program each find theirs"""
    out = []
    cr = lambda sid, alg: "5:CR.%d.10.1460.1.2.3.4.%s" % (sid, hx(alg))
    for na, nb, nc in (("pa", "pb", "pz"), ("pa", "pz", "pb"), ("p1", "p2", "p3"), ("prog_x", "prog_y", "a")):
        for ta, tb, tc in ((P2, P2, P1), (P1, P2, P2), (P2, P1, P2), (P2, P2, P2)):
            algs = ("ALG %s 1 PROGS %s=%s NF sp:%s:- OR gf:%s " % (hx("reno"), na, hx(ta), na, hx("Report.loss")) +
                    "ALG %s 1 PROGS %s=%s NF sp:%s:- OR gf:%s " % (hx("cubic"), nb, hx(tb), nb, hx("Report.loss")) +
                    "ALG %s 1 PROGS %s=%s NF sp:%s:- OR gf:%s" % (hx("bbr"), nc, hx(tc), nc, hx("Report.acked")))
            script = ["5:RD.1", cr(1, "cubic"), cr(2, "bbr"), cr(3, "reno"), cr(4, ""), cr(5, "nosuch"), cr(6, "bbr"),
                      "5:MS.1.u:%s.3" % nb, "5:MS.2.u:%s.4;5" % nc, "5:MS.3.u:%s.6" % na, "X"]
            out.append(algs + " SCRIPT " + " ".join(script))
        # the same within ONE algorithm's program list
        out.append("ALG %s 1 PROGS %s=%s,%s=%s,%s=%s NF sp:%s:-,sp:%s:-,sp:%s:- OR - SCRIPT 5:RD.1 %s X"
                   % (hx("reno"), na, hx(P2), nb, hx(P2), nc, hx(P1), na, nb, nc, cr(1, "reno")))
    return out


def long_fault_runs(lengths=(63, 64, 65, 66, 100, 129, 300)):
    """histories in which `recv` fails MANY times in a row between two messages (round 5: a give-up counter after 64 failed
    reads, a back-off whose shift overflows at the 65th): the runtime must keep serving - a failed read is 'nothing right now'
    for every transport but the in-process channel - and the later report and close must still reach the handler"""
    for n in lengths:
        for sf in ("", " SF1"):
            yield ("ALG - 1 PROGS p1=%s NF sp:p1:- OR gf:%s SCRIPT 5:RD.1 5:CR.1.10.1460.1.2.3.4.- 5:MS.1.u:p1.7;9 %s%s 5:MS.1.u:p1.8;10 "
                   "6:CR.1.10.1460.1.2.3.4.- %s 5:MS.1.u:p1.- 6:MS.1.u:p1.1;2"
                   % (hx(P1), hx("Report.acked"), " ".join(["E"] * n), sf, " ".join(["E"] * (n // 2))))


PINF = ("(def (Report (volatile acked 0)) (cinf +infinity) (volatile vinf +infinity) (cmax 2147483647) (cb true) (cf false) (cz 0) (cn other)) "
        "(when true (:= Report.acked (+ Report.acked Ack.bytes_acked)) (report))")


PSHADOW = ("(def (Report (volatile acked 0)) (pacing 0) (Cwnd 10) (volatile Rate 3)) "
           "(when true (:= Report.acked (+ Report.acked Cwnd)) (:= pacing (+ pacing Rate)) (report))")


def shadowing_control_cases():
    """a program may declare its OWN control named Cwnd or Rate (it shadows the built-in in its scope): updates then go to the
    declared control register, as Scope::get says (round 6: a fast path answered the names Cwnd / Rate without looking at the scope)"""
    for v in (0, 7, 2**32 - 1):
        allf = ";".join("%s=%d" % (hx(n), max(0, v - k)) for k, n in enumerate(["Cwnd", "pacing", "Rate"]))
        yield ("ALG - 1 PROGS p=%s NF sp:p:%s OR uf:%s SCRIPT 5:RD.1 5:CR.1.10.1460.1.2.3.4.- 5:MS.1.u:p.7 5:MS.1.u:p.-" % (hx(PSHADOW), allf, allf))
        for n in ("Cwnd", "Rate"):
            one = "%s=%d" % (hx(n), v)
            yield ("ALG - 1 PROGS p=%s,q=%s NF sp:p:%s OR uf:%s,sp:q:%s,uf:%s SCRIPT 5:RD.1 5:CR.1.10.1460.1.2.3.4.- 5:MS.1.u:p.7 5:MS.1.u:q.7;9"
                   % (hx(PSHADOW), hx(P1), one, one, one, one))


def declared_kind_value_cases():
    """'values as asked' must not depend on how the control was DECLARED (round 5: a control declared +infinity and updated with
    exactly 2^32-1 was widened to 2^64-1): every kind of declared initial value x every boundary value, as set_program presets and
    as update_field, one field at a time and all together"""
    names = ["cinf", "vinf", "cmax", "cb", "cf", "cz", "cn", "Cwnd", "Rate"]
    vals = [0, 1, 2**31 - 1, 2**31, 2**32 - 2, 2**32 - 1]
    for v in vals:
        allf = ";".join("%s=%d" % (hx(n), v) for n in names)
        yield ("ALG - 1 PROGS p=%s NF sp:p:%s OR uf:%s SCRIPT 5:RD.1 5:CR.1.10.1460.1.2.3.4.- 5:MS.1.u:p.7 5:MS.1.u:p.-" % (hx(PINF), allf, allf))
        for n in names:
            one = "%s=%d" % (hx(n), v)
            yield ("ALG - 1 PROGS p=%s NF sp:p:%s OR uf:%s,sp:p:%s SCRIPT 5:RD.1 5:CR.1.10.1460.1.2.3.4.- 5:MS.1.u:p.7 5:MS.1.u:p.-" % (hx(PINF), one, one, one))


def stop_from_callback_cases():
    """the stop is requested from INSIDE a callback (policy command `st`), while the datagram being processed still holds further
    messages (round 5: `next()` started to poll the flag between the messages of one read and the bytes left over were then taken
    for a malformed message: `run` returned Err although a stop was requested and every message was well formed). The loop polls
    the flag only before a receive, so the rest of the datagram is dispatched and the run ends Ok (C18.dispatch_after_stop_bounded);
    the `X` right after the datagram is where the model learns of the request."""
    p1, acked = hx(P1), hx("Report.acked")
    head = "ALG - 1 PROGS p1=%s NF sp:p1:- OR st,gf:%s SCRIPT 5:RD.1 5:CR.1.10.1460.1.2.3.4.- " % (p1, acked)
    for d in ("5:MS.1.u:p1.7;9", "5:MS.1.u:p1.7;9+MS.1.u:p1.8;9", "5:MS.1.u:p1.7;9+MS.1.u:p1.8;9+MS.1.u:p1.-",
              "5:MS.1.u:p1.7;9+CR.2.10.1460.1.2.3.4.-+MS.2.u:p1.1;1", "5:MS.1.u:p1.7;9+RD.1+CR.1.10.1460.1.2.3.4.-",
              "5:MS.1.u:p1.7;9+RAW.ff000800%s+MS.1.u:p1.3;4" % "01000000"):
        yield head + d + " X 5:MS.1.u:p1.5;6"
        yield head + "6:CR.1.10.1460.1.2.3.4.- " + d + " X"
    # requested inside new_flow, with further creates and reports behind it in the same datagram
    nf = "ALG - 1 PROGS p1=%s NF st,sp:p1:- OR gf:%s SCRIPT 5:RD.1 " % (p1, acked)
    for d in ("5:CR.1.10.1460.1.2.3.4.-", "5:CR.1.10.1460.1.2.3.4.-+MS.1.u:p1.1;2", "5:CR.1.10.1460.1.2.3.4.-+CR.2.10.1460.1.2.3.4.-+MS.2.u:p1.1;2+MS.1.u:p1.-"):
        yield nf + d + " X 5:MS.1.u:p1.5;6"
