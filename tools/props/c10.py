"""C10 — the compiler is total: any source text yields Ok or Err, never a panic."""
import itertools
from core import Case
from . import proggen as G

ID = "C10"
# theorems of Props/Tables.lean over the tables TRANSLATED from /repo/src and libccp's headers on every run (DESIGN 11.7)
TABLE_THEOREMS = ['src_opcodes_eq', 'src_regEnc_eq', 'allOps_complete']
THEOREMS = [
    "Portus.C10.new_with_scope_no_panic", "Portus.C10.compile_no_panic", "Portus.C10.compile_and_serialize_no_panic",
    "Portus.C10.compile_and_serialize_bytes_no_panic", "Portus.C10.check_model",
    "Portus.Lang.compileExpr_spec", "Portus.Lang.parseSource_NoDef", "Portus.Lang.declareAll_spec",
]
RELATION = "outcome class (OK | ERR | PANIC) of compile_and_serialize(source bytes, overrides)"
RULE = ("exhaustive: all token sequences over the 23-token alphabet up to length 3 (thorough: 4), each in four contexts (whole "
        "source / inside (def ..) / as event condition / as event body); plus type-directed valid programs in random layouts, "
        "one ill-typed or ill-placed construct per mutant (20 kinds), character-level mutations, raw random bytes incl. invalid "
        "UTF-8, nesting to depth 64, 255/256/300 declarations, 6..300 locals, overrides of every name class. "
        "non-trivial = source of >= 10 bytes; distinct by (source, overrides)")
EXPLANATION = ("theorem: the model of compile_and_serialize (every unreachable!/unwrap/assert_eq!/u8 += 1 kept as a panic outcome) "
               "never panics, for all byte strings and override lists (invariants: scope regs never Reg::None, __eventFlag bound, "
               "u8 counters guarded, placeholder discipline of compile_expr, parser never yields Op::Def). Correspondence compares "
               "only the outcome class, so harmless changes of emitted bytes do not disturb this property")
ASSUMPTIONS = ["stack exhaustion on nesting deeper than the tested 64 levels is outside the model", "allocation failure is outside the model"]
LEVEL_TEXT = ("Machine-checked proof (Lean 4) that the model of compile_and_serialize returns an image or an error for every byte "
              "string and every override list, never a panic; all panic sites of the Rust code are kept in the model and proved "
              "unreachable by invariants (structural induction over expressions, induction over the parser's fuel). The model's "
              "outcome class is tied to the code by differential runs incl. exhaustive short token sequences.")
LEVEL_NOTE = "Trusts: Lean kernel; correspondence (exhaustive to token length 3/4, sampled beyond); nom 7 combinator semantics as modelled. Depth > 64 not exercised on the implementation."
TECHNIQUE = "Lean 4 totality theorem (panic sites kept in the model, proved unreachable by invariants) + differential correspondence on outcome class"


def project(c, r):
    if c.cmd == "CMPPAR":
        # outcome class of every source compiled alone + the verdict of the concurrent / at-thread-exit compilations
        parts = r.split(" || ")
        return " || ".join(x.split(" ")[0] for x in parts[:-1]) + " || " + " ".join(parts[-1].split(" ")[:2])
    return r.split(" ")[0]


def cmp_case(src, upd="-", tags=()):
    return Case("CMP", "%s %s -" % (G.hx(src), upd), tags=tags)


def gen(ctx):
    rng = ctx.rng
    # several threads compiling at the same time: a compilation shares nothing with the others (but the uid counter)
    for _ in range(60 if ctx.thorough else 6):
        k = rng.choice([2, 4, 8, 16, 32])
        srcs = []
        for _j in range(k):
            _p = G.gen_program(rng)
            srcs.append(G.hx(G.render(_p, G.Layout(rng, spelling=rng.choice(["sym", "word"])))))
        yield Case("CMPPAR", " ".join(srcs), tags=("concurrent-compile",))
    _deep = "1"
    for _d in range(7):   # 7 operator nodes: within the 8 temporaries, so the program is accepted
        _deep = "(+ 1 %s)" % _deep
    yield Case("CMPPAR", " ".join([G.hx("(def (Report (x 0))) (when true (:= Report.x %s) (report))" % _deep)] * 32), tags=("concurrent-compile",))
    # the other public routes into the compiler (two-step API; a scope that has been compiled against before; Scope::default())
    for _i in range(3000 if ctx.thorough else 300):
        _p = G.gen_program(rng)
        if _i % 4 == 0:
            _p, _ = G.mutate_ast(rng, _p)
        yield Case("CMPX", G.hx(G.render(_p, G.Layout(rng, spelling=rng.choice(["sym", "word"])))), tags=("other-routes",))
    for _src in G.semantic_corner_programs():
        yield Case("CMPX", G.hx(_src), tags=("other-routes",))
    maxlen = 4 if ctx.thorough else 3
    for n in range(1, maxlen + 1):
        for seq in itertools.product(G.TOKENS, repeat=n):
            for k, s in enumerate(G.token_contexts(seq)):
                yield cmp_case(s, tags=("tokens%d" % n,))
    nprog = 30000 if ctx.thorough else 1200
    for i in range(nprog):
        p = G.gen_program(rng)
        L = G.Layout(rng, ws=rng.random() < 0.5, comments=rng.random() < 0.4, spelling=rng.choice(["sym", "word", "mix"]))
        src = G.render(p, L)
        yield cmp_case(src, tags=("valid",))
        q, kind = G.mutate_ast(rng, p)
        yield cmp_case(G.render(q), tags=("mutant:" + kind,))
        # character-level mutation
        b = bytearray(src.encode())
        for _ in range(rng.randrange(1, 4)):
            r = rng.random()
            if r < 0.4 and b:
                del b[rng.randrange(len(b))]
            elif r < 0.8:
                b.insert(rng.randrange(len(b) + 1), rng.choice(b"()# \n:=+-!<>|&._0129azAZ\xc3\xa9\xff\x00"))
            elif b:
                b[rng.randrange(len(b))] = rng.getrandbits(8)
        yield cmp_case(bytes(b), tags=("charmut",))
        if i % 4 == 0:
            names = G.all_names(p) + ["Cwnd", "Micros", "Ack.now", "__eventFlag", "nosuch", "zzzzzz", "~~", "A", "0", "{", "Report.", "\u00e9"]
            upd = ";".join("%s=%d" % (G.hx(rng.choice(names)), rng.choice([0, 1, 2**31, 2**32 - 1])) for _ in range(rng.randrange(1, 4)))
            yield cmp_case(src, upd, tags=("override",))
    for _ in range(20000 if ctx.thorough else 1000):
        n = rng.randrange(0, 60)
        yield cmp_case(bytes(rng.choice(b"()# \n\t:=+-!<>|&._0129azAZdefwhnRpotrlu\xc3\xa9\xff\x00\xe2\x82") for _ in range(n)), tags=("randbytes",))
    for src in G.corner_programs():
        yield cmp_case(src, tags=("corner-grid",))
    # non-ASCII text at every byte offset of every place where the compiler quotes the source in an error message
    base_def, base_ev = "(def (Report (x 0)) (c 1))", "(when true (:= Report.x 1) (report))"
    for k in range(0, 72):
        junk = "a" * k + "\u00e9\u20ac\U0001F600" * 6
        for src in (junk + base_def + base_ev, base_def + junk + base_ev, base_def + base_ev + " " + junk, base_def + base_ev + " # " + junk,
                    base_def + "(when true (:= Report.x " + junk + ") (report))", "(def (Report (x " + junk + ")))" + base_ev,
                    base_def + base_ev + "(" + junk, base_def + "(when (" + junk + ") (report))"):
            yield cmp_case(src, tags=("nonascii-sweep",))
    # bushy expressions: many operator nodes at small nesting depth (temporaries are numbered with a u8)
    def bushy(n):
        if n == 0:
            return "1"
        l = (n - 1) // 2
        return "(+ %s %s)" % (bushy(l), bushy(n - 1 - l))
    for n in (7, 8, 9, 15, 16, 17, 254, 255, 256, 257, 258, 300, 511, 512, 513, 700):
        yield cmp_case("(def (Report (x 0))) (when true (:= Report.x %s) (report))" % bushy(n), tags=("bushy",))
        yield cmp_case("(def (Report (x 0))) (when (< %s 5) (report))" % bushy(n), tags=("bushy",))
    # declaration counts around the u8 register counters, one kind and mixed kinds (volatile / plain share one counter)
    def decls(nv, npl, rep):
        ds = ["(volatile v%d %d)" % (i, i % 7) for i in range(nv)] + ["(p%d %d)" % (i, i % 5) for i in range(npl)]
        return ("(def (Report %s))" % " ".join(ds)) if rep else ("(def (Report (x 0)) %s)" % " ".join(ds))
    for nv, npl in ((0, 255), (255, 0), (0, 256), (256, 0), (128, 128), (200, 100), (255, 1), (1, 255), (127, 128), (300, 300), (254, 1), (16, 0), (17, 0), (8, 9)):
        for rep in (True, False):
            yield cmp_case(decls(nv, npl, rep) + " (when true (report))", tags=("decl-count",))
    for depth in [1, 2, 8, 9, 16, 17, 32, 64]:
        for shape in ("l", "r"):
            e = "1"
            for _ in range(depth):
                e = "(+ %s 1)" % e if shape == "l" else "(+ 1 %s)" % e
            yield cmp_case("(def (Report (x 0))) (when true (:= Report.x %s))" % e, tags=("depth",))
            yield cmp_case("(def (Report (x 0))) (when %s (report))" % e.replace("+", "<", 1), tags=("depth",))
        yield cmp_case("(" * depth + "def", tags=("depth",))
    for _s in G.multibyte_comment_sweep(0, 1100 if ctx.thorough else 600):
        yield cmp_case(_s, tags=("multibyte-character-across-every-offset",))
    # sources nested DEEPER than the property's bound are outside its quantifier themselves - but what they leave behind is
    # not (round 5: a per-thread depth counter that a refused over-deep source did not give back; after ~255 of them every
    # ordinary program panicked): several hundred distinct over-deep sources, all compiled by this one process on this one
    # thread, with ordinary programs in between and after
    for k in range(330):
        depth = 201 + k % 60
        e = str(k)
        for _ in range(depth):
            e = "(+ 1 %s)" % e
        yield cmp_case("(def (Report (x 0))) (when true (:= Report.x %s))" % e, tags=("beyond-depth-bound",))
        if k % 10 == 9 or k >= 250:
            yield cmp_case("(def (Report (x 0))) (when true (:= Report.x (+ (+ 1 %d) (* 2 3))) (report))" % k, tags=("after-over-deep",))
    for n in [0, 1, 16, 17, 254, 255, 256, 257, 300]:
        yield cmp_case("(def " + " ".join("(c%d 0)" % i for i in range(n)) + ") (when true (report))", tags=("manydecls",))
        yield cmp_case("(def (Report " + " ".join("(r%d 0)" % i for i in range(max(n, 1))) + ")) (when true (report))", tags=("manydecls",))
        yield cmp_case("(def " + " ".join("(Report.r%d 0)" % i for i in range(n)) + ") (when true (report))", tags=("manydecls",))
        yield cmp_case("(def (Report (x 0))) (when true " + " ".join("(:= l%d 1)" % i for i in range(max(n, 1))) + ")", tags=("manylocals",))
        yield cmp_case("(def (Report (x 0))) (when true " + " ".join("(:= Report.x l%d)" % i for i in range(max(n, 1))) + ")", tags=("manylocals",))


def classify(c, r):
    return [c.tags[0].split(":")[0] + ":" + r.split(" ")[0]] + ([c.tags[0] + ":" + r.split(" ")[0]] if c.tags[0].startswith("mutant") else [])


def nontrivial(c, r):
    return len(c.args.split(" ")[0]) >= 20


def oracle(c, impl_res):
    if c.cmd == "CMPPAR":
        return ("ORC", "C10 %s" % ("PANIC" if ("PANIC" in impl_res or "UNSTABLE" in impl_res or impl_res in ("ABORT", "HANG", "NOANSWER")) else "OK"))
    if c.cmd == "CMPX":
        return ("ORC", "C10 %s" % ("PANIC" if ("PANIC" in impl_res or impl_res in ("ABORT", "HANG", "NOANSWER")) else "OK"))
    return ("ORC", "C10 %s" % impl_res.split(" ")[0])
