"""C15 — the algorithm named in a create message handles the flow; default otherwise."""
from core import Case
from . import rtgen as R

ID = "C15"
THEOREMS = ['Portus.C15.pick_spec', 'Portus.C15.pick_default', 'Portus.C15.programs_are_union']
SPEC_IS_ORACLE = True
KEEP = {"NF", "TX IN", "RX", "RES", "RP", "CL", "DR"}   # which flow (created by which algorithm) gets the later reports, the close, the drop
RELATION = "which algorithm's new_flow ran for each create (by name) and which programs were installed"
RULE = 'registration lists: default plus 0..4 additional algorithms with duplicate names, registrations without an instance, names that are prefixes/extensions of each other, empty name, 63-byte name, non-ASCII name; requested names: each registered name, strict prefixes and extensions, empty, absent, embedded NUL, unregistered; programs spread over the algorithms with name collisions. non-trivial = at least 2 additional algorithms and 2 creates; distinct by case line'
EXPLANATION = "theorems: pick = the most recently registered algorithm with an instance whose name equals the requested name exactly, else the default (pick_spec: matches, and no later registration matches; pick_default); the program union contains every program name of every algorithm with an instance. Oracle = the closed form (NF/install projection must equal the model's)"
ASSUMPTIONS = ["user callbacks do not panic, issue commands only through their handle, and use field lists shorter than 2^24",
               "HashMap iteration order is canonicalised (install batches and drop batches are sorted)"]
LEVEL_TEXT = 'Machine-checked proof (Lean 4) for every registration list and requested name: the picked algorithm is a registered instance with exactly that name and no more recent registration matches, otherwise the default; and every program of every registered instance is in the compiled set. Tied to the code by differential runs over generated RunBuilder configurations (5 shapes, const-generic algorithm types).'
LEVEL_NOTE = 'Trusts: Lean kernel; correspondence sampling; program-name collisions across algorithms resolve to the earlier registration (modelled, see DESIGN 6.3).'
TECHNIQUE = 'Lean 4 specification theorems for Pick/CollectDps + differential correspondence on new_flow/install traces'


def project(c, r):
    return R.project(r, KEEP)


def gen(ctx):
    rng = ctx.rng
    for a in R.same_text_cases():
        yield Case("RUN", a, tags=("same-text-programs",))
    for _ in range(20000 if ctx.thorough else 2500):
        yield Case("RUN", R.gen_case(rng, n=rng.randrange(2, 12), nadd=rng.choice([0, 1, 2, 3, 4, 4]), adversarial=0.0, faults=0.0, stop=0.0, rich=False), tags=("pick",))


def classify(c, r):
    parts = r.split(" | ")
    return ["events:%d" % min(len(parts) // 10 * 10, 80), "end:" + parts[-1].split(" ")[1]]


def nontrivial(c, r):
    return r.count("NF ") >= 2 and c.args.count("ALG ") >= 3


def oracle(c, impl_res):
    return None
