#!/usr/bin/env python3
"""seedkeep.py <ID> <n> "<site>" "<what it needs in order to manifest>"
keep a confirmed seeded change as /verif/seeded/<ID>-<n>/ {patch.diff, demo.rs, meta.json} from /tmp/wt-out/<ID>/"""
import json, os, shutil, sys
pid, n, site, needs = sys.argv[1], sys.argv[2], sys.argv[3], sys.argv[4]
src = os.environ.get("SEED_OUT", "/tmp/wt-out/%s" % pid)
dst = "/verif/seeded/%s-%s" % (pid, os.environ.get("SEED_AS", n))   # round 2: SEED_OUT=/tmp/wt2-out/Cnn SEED_AS=3|4
os.makedirs(dst, exist_ok=True)
shutil.copy(os.path.join(src, "patch%s.diff" % n), os.path.join(dst, "patch.diff"))
shutil.copy(os.path.join(src, "demo%s.rs" % n), os.path.join(dst, "demo.rs"))
if os.path.exists(os.path.join(src, "notes%s.md" % n)):
    shutil.copy(os.path.join(src, "notes%s.md" % n), os.path.join(dst, "notes.md"))
v = {}
for l in open(os.path.join(src, "verify%s.txt" % n)):
    l = l.strip()
    if "=" in l and not l.startswith(("VIOLATION", "OK", "KNOWN")):
        for kv in l.split(" "):
            if "=" in kv:
                k, _, val = kv.partition("=")
                v[k] = val
    elif l:
        v.setdefault("check_output", []).append(l)
confirmed = (v.get("demo_on_unchanged_rc") == "0" and v.get("demo_on_changed_rc") not in (None, "0")
             and v.get("suite_on_changed_rc") == "0" and v.get("patch_applies") == "yes")
checks = {k[6:-3]: ("caught" if val != "0" else "MISSED") for k, val in v.items() if k.startswith("check_") and k.endswith("_rc")}
meta = {
    "breaks_property": pid,
    "site": site,
    "needs_to_manifest": needs,
    "confirmed_by_me": confirmed,
    "what_i_ran": {
        "in scratch worktree /tmp/wt/%s (git worktree of /repo HEAD)" % pid: [
            "cargo test --offline --test <demo> on unchanged tree -> rc %s (passes)" % v.get("demo_on_unchanged_rc"),
            "git apply patch.diff; cargo test --offline --test <demo> -> rc %s (fails)" % v.get("demo_on_changed_rc"),
            "cargo test --workspace --no-fail-fast --offline with the patch, demo removed -> rc %s, %s passed, %s failed"
            % (v.get("suite_on_changed_rc"), v.get("suite_passed"), v.get("suite_failed")),
        ],
        "against /repo": ["git -C /repo apply patch.diff; /verif/check <id> (quick); git -C /repo checkout -- ."],
    },
    "checks": checks,
    "check_output": v.get("check_output", []),
    "origin": "fresh sub-agent given only the property text and a scratch worktree (tools/seedverify.sh reproduces the confirmation)",
}
json.dump(meta, open(os.path.join(dst, "meta.json"), "w"), indent=1)
print(dst, "confirmed" if confirmed else "NOT-CONFIRMED", checks)
