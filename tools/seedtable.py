#!/usr/bin/env python3
"""print the markdown table of /verif/seeded/*/meta.json (DESIGN.md 11.4)"""
import json, os
root = "/verif/seeded"
print("| seeded change | site | needs, in order to manifest | caught by |")
print("|---|---|---|---|")
for d in sorted(os.listdir(root)):
    m = json.load(open(os.path.join(root, d, "meta.json")))
    caught = ", ".join("`./check %s` %s" % (k, v) for k, v in sorted(m["checks"].items()))
    hist = m.get("history")
    print("| %s | %s | %s | %s%s |" % (d, m["site"], m["needs_to_manifest"], caught, (" — " + hist) if hist else ""))
