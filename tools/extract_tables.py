#!/usr/bin/env python3
"""Translator for the CLOSED TABLES of portus and of libccp (DESIGN 11.7).

Reads, on every run of a check that depends on them,
  /repo/src/lang/ast.rs          op(): the operator spelling table (order of the `alt`)
  /repo/src/lang/serialize.rs    serialize_op (opcode numbering), impl IntoIterator for Reg (class codes, index limits)
  /repo/src/lang/datapath.rs     Scope::new: the built-in primitive / implicit names with their types; the expand_reg!/add_reg! macros
  /repo/src/serialize/*.rs       message type constants, HDR_LENGTH, the get_hdr length formulas
  libccp 1.2.0 (cargo registry)  ccp_priv.h / serialize.h / ccp.h: opcodes, register classes, implicit and primitive indices,
                                 message types, register-file sizes and message limits
and emits lean/PortusModel/Generated/Tables.lean.  The theorems of lean/PortusModel/Props/Tables.lean then have to hold of what
the sources say NOW: generated table = the table the hand-written model (and so every theorem about it) uses, and
portus' numbering = libccp's numbering.  Anything the translator does not recognise is emitted as a value no theorem accepts
(`none`, 999999, `false`), never guessed."""
import glob, os, re, sys

REPO = os.environ.get("VERIF_REPO", "/repo")
OUT = os.environ.get("VERIF_TABLES_OUT") or os.path.join(os.path.dirname(os.path.dirname(os.path.abspath(__file__))), "lean", "PortusModel", "Generated", "Tables.lean")
BAD = 999999

OPS = {"Add": "add", "And": "and", "Bind": "bind", "Def": "def", "Div": "div", "Equiv": "equiv", "Ewma": "ewma", "Gt": "gt",
       "If": "if", "Lt": "lt", "Max": "max", "MaxWrap": "maxWrap", "Min": "min", "Mul": "mul", "NotIf": "notIf", "Or": "or",
       "Sub": "sub"}


def nocomment(t):
    return re.sub(r"//[^\n]*", "", t)


def body_after(text, start_re):
    """text of the balanced {...} that follows the first match of start_re"""
    m = re.search(start_re, text)
    if not m:
        return None
    i = text.find("{", m.end() - 1)
    if i < 0:
        return None
    depth, j = 0, i
    while j < len(text):
        if text[j] == "{":
            depth += 1
        elif text[j] == "}":
            depth -= 1
            if depth == 0:
                return text[i + 1:j]
        j += 1
    return None


def lstr(s):
    return '"' + s.replace("\\", "\\\\").replace('"', '\\"') + '"'


def lop(o):
    return "." + OPS[o] if o in OPS else None


# ---------------------------------------------------------------- portus
def op_spellings(notes):
    t = nocomment(open(os.path.join(REPO, "src/lang/ast.rs")).read())
    b = body_after(t, r"pub fn op\(input: &str\)[^{]*\{")
    if b is None:
        notes.append("ast.rs: fn op not found")
        return None
    m = re.fullmatch(r"\s*alt\(\((.*)\)\)\(input\)\s*", b, re.S)
    if not m:
        notes.append("ast.rs: op() is not a single alt((..))(input)")
        return None
    inner = m.group(1)
    out = []
    pos = 0
    item = re.compile(r"\s*map\(\s*(alt\(\(\s*((?:tag\(\"[^\"]*\"\)\s*,?\s*)+)\)\)|tag\(\"([^\"]*)\"\))\s*,\s*\|_\|\s*Op::(\w+)\s*\)\s*,?")
    while pos < len(inner) and inner[pos:].strip():
        mm = item.match(inner, pos)
        if not mm:
            notes.append("ast.rs: unrecognised alternative in op(): " + " ".join(inner[pos:pos + 80].split()))
            return None
        tags = re.findall(r'tag\("([^"]*)"\)', mm.group(1))
        o = mm.group(4)
        if o not in OPS:
            notes.append("ast.rs: unknown operator Op::" + o)
            return None
        for s in tags:
            out.append((s, o))
        pos = mm.end()
    return out


def opcodes(notes):
    t = nocomment(open(os.path.join(REPO, "src/lang/serialize.rs")).read())
    b = body_after(t, r"fn serialize_op\(o: Op\) -> u8\s*\{")
    if b is None:
        notes.append("serialize.rs: serialize_op not found")
        return None
    mb = body_after(b, r"match o\s*\{")
    if mb is None or b.strip() != "match o {" + mb + "}":
        notes.append("serialize.rs: serialize_op is not a single match")
        return None
    res = []
    for arm in [a.strip() for a in mb.split(",") if a.strip()]:
        m = re.fullmatch(r"Op::(\w+)\s*=>\s*(\d+|unreachable!\(\))", arm)
        if not m or m.group(1) not in OPS:
            notes.append("serialize.rs: unrecognised arm of serialize_op: " + arm)
            return None
        res.append((m.group(1), None if m.group(2).startswith("unreachable") else int(m.group(2))))
    return res


def reg_enc(notes):
    """impl IntoIterator for Reg: class code(s) and the largest index accepted, per register class"""
    t = nocomment(open(os.path.join(REPO, "src/lang/serialize.rs")).read())
    b = body_after(t, r"impl IntoIterator for Reg\s*\{")
    enc = {}
    if b is None:
        notes.append("serialize.rs: impl IntoIterator for Reg not found")
        return enc
    mb = body_after(b, r"let reg = match self\s*\{")
    if mb is None:
        notes.append("serialize.rs: `let reg = match self` not found")
        return enc
    flat = " ".join(mb.split())

    def guarded(ctor, pat_args, key, vol):
        # Reg::X(i, ..) => { if i > N { Err(..) } else { Ok((<code>, u32::from(i))) } }
        code = r"if is_volatile \{ (\d+)u8 \} else \{ (\d+)u8 \}" if vol else r"(\d+)u8"
        m = re.search(r"Reg::%s\(%s\) => \{ if i > (\d+) \{ Err\(Error::from\(format!\( \"[^\"]*\", i \)\)\) \} else \{ Ok\(\(%s, u32::from\(i\)\)\) \} \}"
                      % (ctor, pat_args, code), flat)
        if not m:
            notes.append("serialize.rs: arm Reg::%s not in the recognised form" % ctor)
            return
        enc[key + "Max"] = int(m.group(1))
        if vol:
            enc[key + "Vol"], enc[key + "Nonvol"] = int(m.group(2)), int(m.group(3))
        else:
            enc[key] = int(m.group(2))

    guarded("Control", r"i, _, is_volatile", "ctl", True)
    guarded("Implicit", r"i, _", "impl", False)
    guarded("Local", r"i, _", "loc", False)
    guarded("Primitive", r"i, _", "prim", False)
    guarded("Report", r"i, _, is_volatile", "rep", True)
    guarded("Tmp", r"i, _", "tmp", False)
    m = re.search(r"Reg::ImmBool\(bl\) => Ok\(\((\d+)u8, bl as u32\)\)", flat)
    if m:
        enc["immBool"] = int(m.group(1))
    else:
        notes.append("serialize.rs: arm Reg::ImmBool not in the recognised form")
    m = re.search(r"Reg::ImmNum\(num\) => \{ if num == u64::max_value\(\) \|\| num < \(1 << (\d+)\) \{ Ok\(\((\d+)u8, num as u32\)\) \} else \{ Err\(", flat)
    if m:
        enc["immNumLog"], enc["immNum"] = int(m.group(1)), int(m.group(2))
    else:
        notes.append("serialize.rs: arm Reg::ImmNum not in the recognised form")
    if not re.search(r"Reg::None => unreachable!\(\)", flat):
        notes.append("serialize.rs: arm Reg::None is not unreachable!()")
        enc["noneUnreachable"] = False
    else:
        enc["noneUnreachable"] = True
    arms = re.findall(r"Reg::(\w+)(?:\([^)]*\))? =>", flat)
    if sorted(arms) != sorted(["Control", "ImmBool", "ImmNum", "Implicit", "Local", "Primitive", "Report", "Tmp", "None"]):
        notes.append("serialize.rs: unexpected set of arms in Reg::into_iter: %s" % arms)
        enc["noneUnreachable"] = False
    # the tail: class byte, then the index as a little-endian u32
    tail = " ".join(b[b.find(mb) + len(mb):].split())
    if "let v = &mut [typ, 0, 0, 0, 0]; u32_to_u8s(&mut v[1..5], idx);" not in tail:
        notes.append("serialize.rs: the (class byte, LE u32 index) layout of a register is not in the recognised form")
        enc["layout5"] = False
    else:
        enc["layout5"] = True
    return enc


MACROS_EXPECTED = (
    "macro_rules! add_reg { ($scope:ident, $name:expr, $rtyp:ident, $idx:expr, $typ:expr) => {{ $scope .named "
    ".insert(String::from($name), Reg::$rtyp($idx, $typ)); }}; } "
    "macro_rules! expand_reg { ( $scope:ident; $reg:ident; $count:expr; $headname:expr => $headtype:expr ) => ( "
    "{add_reg!($scope, $headname, $reg, $count, $headtype); $count + 1} ); ( $scope:ident; $reg:ident; $count:expr; "
    "$headname:expr => $headtype:expr, $( $restname:expr => $resttype:expr ),* ) => ({ add_reg!($scope, $headname, $reg, $count, $headtype); "
    "expand_reg!($scope; $reg; $count+1; $( $restname => $resttype ),* ) }); ( $scope:ident; $reg:ident; $headname:expr => $headtype:expr, "
    "$( $restname:expr => $resttype:expr ),* ) => ({ add_reg!($scope, $headname, $reg, 0, $headtype); "
    "expand_reg!($scope; $reg; 1; $( $restname => $resttype ),* ) }); }")


def builtins(notes):
    t = nocomment(open(os.path.join(REPO, "src/lang/datapath.rs")).read())
    res = {"Primitive": None, "Implicit": None}
    b = body_after(t, r"pub fn new\(\) -> Self\s*\{")
    if b is None:
        notes.append("datapath.rs: Scope::new not found")
        return res, False
    calls = re.findall(r"expand_reg!\(\s*sc;\s*(\w+);(.*?)\);", b, re.S)
    if [c[0] for c in calls] != ["Primitive", "Implicit"]:
        notes.append("datapath.rs: Scope::new does not register exactly (Primitive, Implicit) in that order: %s" % [c[0] for c in calls])
        return res, False
    for cls, lst in calls:
        ents = []
        for e in [x.strip() for x in lst.split(",") if x.strip()]:
            m = re.fullmatch(r'"([^"]+)"\s*=>\s*Type::(Num|Bool)\(None\)', e)
            if not m:
                notes.append("datapath.rs: unrecognised built-in entry: " + e)
                ents = None
                break
            ents.append((m.group(1), ".num none" if m.group(2) == "Num" else ".bool none"))
        res[cls] = ents
    # nothing else may be inserted by Scope::new
    rest = re.sub(r"expand_reg!\(.*?\);", "", b, flags=re.S)
    if "insert" in rest or "add_reg!" in rest:
        notes.append("datapath.rs: Scope::new inserts registers outside the two expand_reg! calls")
        return res, False
    i = t.find("macro_rules! add_reg")
    j = t.find("macro_rules! expand_reg")
    macros = None
    if i >= 0 and j > i:
        k = t.find("\n}\n", j)
        macros = " ".join(t[i:k + 2].split())
    ok = macros is not None and re.sub(r"\s+", "", macros) == re.sub(r"\s+", "", MACROS_EXPECTED)
    if not ok:
        notes.append("datapath.rs: add_reg!/expand_reg! differ from the recognised text (indices 0,1,2,.. in list order)")
    return res, ok


def rust_expr_to_lean(e, params):
    """the get_hdr length expressions: +, *, parentheses, integer literals, HDR_LENGTH, self.<field>, u32::from(self.<field>)"""
    e = " ".join(e.split())
    e = re.sub(r"u32::from\(self\.(\w+)\)", r"self.\1", e)
    toks = re.findall(r"self\.\w+|HDR_LENGTH|\d+|[()+*]|\S", e)
    out = []
    for tk in toks:
        if tk.startswith("self."):
            f = tk[5:]
            if f not in params:
                return None
            out.append(f)
        elif tk == "HDR_LENGTH":
            out.append("hdr")
        elif re.fullmatch(r"\d+|[()+*]", tk):
            out.append(tk)
        else:
            return None
    return " ".join(out)


def wire(notes):
    w = {"types": {}, "hdr": None, "len": {}}
    base = os.path.join(REPO, "src/serialize")
    m = re.search(r"pub const HDR_LENGTH: u32 = (\d+);", open(os.path.join(base, "mod.rs")).read())
    if m:
        w["hdr"] = int(m.group(1))
    else:
        notes.append("serialize/mod.rs: HDR_LENGTH not found")
    spec = [("create.rs", "CREATE", []), ("measure.rs", "MEASURE", ["num_fields"]), ("install.rs", "INSTALL", ["num_events", "num_instrs"]),
            ("update_field.rs", "UPDATE_FIELD", ["num_fields"]), ("changeprog.rs", "CHANGEPROG", ["num_fields"]), ("ready.rs", "READY", [])]
    for f, c, params in spec:
        t = nocomment(open(os.path.join(base, f)).read())
        m = re.search(r"pub\(crate\) const %s: u8 = (\d+);" % c, t)
        if m:
            w["types"][c] = int(m.group(1))
        else:
            notes.append("serialize/%s: constant %s not found" % (f, c))
        b = body_after(t, r"fn get_hdr\(&self\) -> \(u8, u32, u32\)\s*\{")
        mm = re.fullmatch(r"\s*\(\s*%s\s*,(.*),\s*(self\.sid|0)\s*,?\s*\)\s*" % c, b or "", re.S)
        le = rust_expr_to_lean(mm.group(1), params) if mm else None
        if le is None:
            notes.append("serialize/%s: get_hdr not in the recognised form" % f)
        w["len"][c] = (params, le)
    return w


def handle_logic(notes):
    """src/lib.rs: the name -> register resolution closure of Datapath::set_program / update_field (which classes may be updated,
    the reserved prefix, the value passed on unchanged), and the decision order and error kinds of Report::get_field"""
    t = " ".join(nocomment(open(os.path.join(REPO, "src/lib.rs")).read()).split())
    upd = {"ok": False}
    cl = re.findall(r"\.map\(\|&\(reg_name, new_value\)\| \{ (.*?) \}\) \.collect::<Result<_>>\(\)\?;", t)
    if len(cl) != 2:
        notes.append("lib.rs: expected the resolution closure twice (set_program, update_field), found %d" % len(cl))
    else:
        upd["same"] = cl[0] == cl[1]
        if not upd["same"]:
            notes.append("lib.rs: set_program and update_field resolve field names differently")
        m = re.fullmatch(
            r'if reg_name\.starts_with\("([^"]*)"\) \{ return Err\(Error\(format!\( "[^"]*", reg_name \)\)\); \} '
            r'sc\.get\(reg_name\) \.ok_or_else\(\|\| Error\(format!\("[^"]*", reg_name\)\)\) \.and_then\(\|reg\| match \*reg \{ '
            r'Reg::Control\(idx, ref t, v\) => \{ Ok\(\(Reg::Control\(idx, t\.clone\(\), v\), u64::from\(new_value\)\)\) \} '
            r'Reg::Implicit\(idx, ref t\) if ((?:idx == \d+(?: \|\| )?)+) => \{ Ok\(\(Reg::Implicit\(idx, t\.clone\(\)\), u64::from\(new_value\)\)\) \} '
            r'_ => Err\(Error\(format!\("[^"]*", reg_name\)\)\), \}\)', cl[0])
        if not m:
            notes.append("lib.rs: the resolution closure is not in the recognised form")
        else:
            upd.update(ok=True, prefix=m.group(1), implicit=[int(x) for x in re.findall(r"idx == (\d+)", m.group(2))])
    gf = {"ok": False}
    m = re.search(
        r"pub fn get_field\(&self, field: &str, sc: &Scope\) -> Result<u64> \{ "
        r"if sc\.program_uid != self\.program_uid \{ return Err\(Error::from\((\w+)\)\); \} "
        r"match sc\.get\(field\) \{ Some\(r\) => match \*r \{ Reg::Report\(idx, _, _\) => \{ "
        r"if idx as usize (>=|>) self\.fields\.len\(\) \{ Err\(Error::from\((\w+)\)\) \} else \{ Ok\(self\.fields\[idx as usize\]\) \} \} "
        r"_ => Err\(Error::from\((\w+)\)\), \}, None => Err\(Error::from\((\w+)\)\), \} \}", t)
    if not m:
        notes.append("lib.rs: Report::get_field is not in the recognised form")
    else:
        gf.update(ok=True, stale=m.group(1), cmp=m.group(2), short=m.group(3), wrong=m.group(4), missing=m.group(5))
    return upd, gf


# ---------------------------------------------------------------- libccp
def libccp_dir():
    c = sorted(glob.glob(os.path.expanduser("~/.cargo/registry/src/*/libccp-1.2.0/libccp")))
    return c[0] if c else None


def defines(path, names_re):
    out = []
    for m in re.finditer(r"^\s*#define\s+(%s)\s+(\d+)\b" % names_re, nocomment(open(path).read()), re.M):
        out.append((m.group(1), int(m.group(2))))
    return out


def libccp(notes):
    d = libccp_dir()
    r = {"ops": [], "classes": [], "impl": [], "prims": [], "types": [], "limits": []}
    if d is None:
        notes.append("libccp 1.2.0 sources not found in the cargo registry")
        return r
    # the version Cargo.lock pins
    lock = open(os.path.join(REPO, "Cargo.lock")).read()
    if not re.search(r'name = "libccp"\nversion = "1\.2\.0"', lock):
        notes.append("Cargo.lock does not pin libccp 1.2.0")
        return r
    priv = os.path.join(d, "ccp_priv.h")
    r["ops"] = defines(priv, "ADD|BIND|DEF|DIV|EQUIV|EWMA|GT|IF|LT|MAX|MAXWRAP|MIN|MUL|NOTIF|SUB|MAX_OP")
    r["classes"] = defines(priv, r"\w+_REG")
    r["impl"] = [x for x in r["classes"] if x[0] in ("EXPR_FLAG_REG", "SHOULD_FALLTHROUGH_REG", "SHOULD_REPORT_REG", "US_ELAPSED_REG", "CWND_REG", "RATE_REG")]
    r["classes"] = [x for x in r["classes"] if x not in r["impl"]]
    r["prims"] = defines(priv, r"ACK_\w+|FLOW_\w+")
    ser = os.path.join(d, "serialize.h")
    r["types"] = defines(ser, "CREATE|MEASURE|INSTALL_EXPR|UPDATE_FIELDS|CHANGE_PROG|READY")
    r["limits"] = defines(ser, r"MAX_\w+|BIGGEST_MSG_SIZE|CREATE_MSG_SIZE|READY_MSG_SIZE") + defines(os.path.join(d, "ccp.h"), "MAX_CONG_ALG_SIZE")
    return r


# ---------------------------------------------------------------- emit
def main():
    notes = []
    sp = op_spellings(notes)
    oc = opcodes(notes)
    enc = reg_enc(notes)
    bi, macros_ok = builtins(notes)
    w = wire(notes)
    lc = libccp(notes)
    upd, gf = handle_logic(notes)

    def pairs(l, f=lambda x: str(x)):
        return "[" + ", ".join("(%s, %s)" % (lstr(a), f(b)) for a, b in l) + "]"

    L = []
    L.append("import PortusModel.Lang.Tables")
    L.append("/-! GENERATED by tools/extract_tables.py from /repo/src (lang/ast.rs, lang/serialize.rs, lang/datapath.rs, serialize/*.rs)")
    L.append("and from libccp 1.2.0's headers in the cargo registry, on every run of a check that depends on it. Do not edit.")
    L.append("Unrecognised source is emitted as `none` / %d / `false`, which no theorem of Props/Tables.lean accepts." % BAD)
    L.append("translator notes: " + ("; ".join(notes).replace("-/", "- /") if notes else "everything recognised") + " -/")
    L.append("namespace Portus.Generated.Tables")
    L.append("open Portus.Lang")
    L.append("")
    L.append("/-- `ast::op`: (spelling, operator) in the order of the `alt` -/")
    L.append("def srcOpTable : Option (List (String × Op)) := " + ("none" if sp is None else "some [" + ", ".join("(%s, %s)" % (lstr(s), lop(o)) for s, o in sp) + "]"))
    L.append("/-- `serialize_op`: `none` = `unreachable!()` -/")
    L.append("def srcOpcodes : Option (List (Op × Option Nat)) := " + ("none" if oc is None else "some [" + ", ".join(
        "(%s, %s)" % (lop(o), "none" if c is None else "some %d" % c) for o, c in oc) + "]"))
    g = lambda k: enc.get(k, BAD)
    L.append("/-- `impl IntoIterator for Reg`: class codes and largest accepted indices -/")
    L.append("def srcRegEnc : RegEnc :=\n  { ctlNonvol := %d, ctlVol := %d, ctlMax := %d, immBool := %d, immNum := %d, immNumLog := %d,\n"
             "    impl := %d, implMax := %d, loc := %d, locMax := %d, prim := %d, primMax := %d,\n"
             "    repVol := %d, repNonvol := %d, repMax := %d, tmp := %d, tmpMax := %d,\n    noneUnreachable := %s, layout5 := %s }" % (
                 g("ctlNonvol"), g("ctlVol"), g("ctlMax"), g("immBool"), g("immNum"), g("immNumLog"), g("impl"), g("implMax"), g("loc"),
                 g("locMax"), g("prim"), g("primMax"), g("repVol"), g("repNonvol"), g("repMax"), g("tmp"), g("tmpMax"),
                 "true" if enc.get("noneUnreachable") else "false", "true" if enc.get("layout5") else "false"))
    for nm, key in (("srcPrimitives", "Primitive"), ("srcImplicits", "Implicit")):
        v = bi.get(key)
        L.append("def %s : Option (List (String × Ty)) := %s" % (nm, "none" if v is None else "some " + pairs(v)))
    L.append("/-- `add_reg!`/`expand_reg!` are the recognised macros: the k-th listed name gets index k, nothing else is inserted -/")
    L.append("def srcBuiltinsIndexedFrom0 : Bool := " + ("true" if macros_ok else "false"))
    L.append("def srcMsgTypes : List (String × Nat) := " + pairs(sorted(w["types"].items())))
    L.append("def srcHdrLength : Nat := %d" % (w["hdr"] if w["hdr"] is not None else BAD))
    for c, (params, le) in w["len"].items():
        nm = "src%sLen" % "".join(p.capitalize() for p in c.lower().split("_"))
        ps = " ".join(params)
        L.append("/-- `get_hdr` of %s: the header's length field -/" % c)
        L.append("def %s (hdr%s : Nat) : Nat := %s" % (nm, (" " + ps) if ps else "", le if le is not None else str(BAD)))
    L.append("/-- `Datapath::set_program` / `update_field` (`src/lib.rs`): the closure that resolves a field name to a register -/")
    L.append("def srcUpdFilter : UpdFilter :=\n  { recognised := %s, sameInBoth := %s, reservedPrefix := %s, implicitOk := [%s] }" % (
        "true" if upd.get("ok") else "false", "true" if upd.get("same") else "false", lstr(upd.get("prefix", "?")),
        ", ".join(str(x) for x in upd.get("implicit", []))))
    L.append("/-- `Report::get_field` (`src/lib.rs`): uid comparison first, then the lookup, the class, the bound; the error type of each refusal -/")
    L.append("def srcGetField : GfTable :=\n  { recognised := %s, staleErr := %s, boundIsGe := %s, shortErr := %s, wrongClassErr := %s, notFoundErr := %s }" % (
        "true" if gf.get("ok") else "false", lstr(gf.get("stale", "?")), "true" if gf.get("cmp") == ">=" else "false",
        lstr(gf.get("short", "?")), lstr(gf.get("wrong", "?")), lstr(gf.get("missing", "?"))))
    L.append("")
    L.append("/-! libccp 1.2.0 (`ccp_priv.h`, `serialize.h`, `ccp.h`) -/")
    L.append("def ccpOpcodes : List (String × Nat) := " + pairs(lc["ops"]))
    L.append("def ccpRegClasses : List (String × Nat) := " + pairs(lc["classes"]))
    L.append("def ccpImplicit : List (String × Nat) := " + pairs(lc["impl"]))
    L.append("def ccpPrims : List (String × Nat) := " + pairs(lc["prims"]))
    L.append("def ccpMsgTypes : List (String × Nat) := " + pairs(lc["types"]))
    L.append("def ccpLimits : List (String × Nat) := " + pairs(lc["limits"]))
    L.append("")
    L.append("end Portus.Generated.Tables")
    out = "\n".join(L) + "\n"
    if not os.path.exists(OUT) or open(OUT).read() != out:
        open(OUT, "w").write(out)
    for n in notes:
        print("extract_tables: " + n, file=sys.stderr)
    print("extract_tables: %s (%d notes)" % (OUT, len(notes)))


if __name__ == "__main__":
    main()
