#!/bin/sh
# run every claimed check (quick tier by default) on the current tree
cd "$(dirname "$0")/.."
tier=${1:-quick}
rc=0
for id in $(python3 -c "import json;print(' '.join(c['property_id'] for c in json.load(open('MANIFEST.json'))['checks']))"); do
  ./check $id --tier $tier || rc=1
done
exit $rc
