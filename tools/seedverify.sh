#!/bin/bash
# usage: seedverify.sh <ID> <n>      confirm a sub-agent's seeded change in its scratch worktree, then run our check against it
# 1. demo passes on the unchanged worktree; 2. with the patch: project compiles, existing suite passes, demo fails;
# 3. apply to /repo, run ./check <ID> (quick), undo.  Results -> /tmp/wt-out/<ID>/verify<n>.txt
id=$1; n=$2; lid=$(echo $id | tr A-Z a-z)
wt=${SEED_WT:-/tmp/wt/$id}; out=${SEED_OUT:-/tmp/wt-out/$id}; res=$out/verify$n.txt   # round 2: SEED_WT=/tmp/wt/Dnn SEED_OUT=/tmp/wt2-out/Cnn
export CARGO_NET_OFFLINE=true CARGO_TARGET_DIR=/tmp/wt/target-shared
: > $res
cd $wt || exit 2
git checkout -q -- . ; git clean -fdq -e target; sleep 0.2; find src tests -name "*.rs" -exec touch {} + 2>/dev/null   # the shared target dir may hold ANOTHER worktree's (changed) build of the same package: cargo's dep-info is relative to the package root, so only fresh mtimes force a rebuild
demo=tests/seed_demo_${lid}_$n.rs
cp $out/demo$n.rs $demo
cargo test --offline --test seed_demo_${lid}_$n > $out/v${n}_demo_base.log 2>&1; echo "demo_on_unchanged_rc=$?" >> $res
sleep 0.2   # file timestamps tick every 4 ms here: a change made in the tick in which cargo finished would look fresh to cargo
git apply $out/patch$n.diff || { echo "patch_applies=no" >> $res; git checkout -q -- .; rm -f $demo; exit 3; }
echo "patch_applies=yes" >> $res
cargo test --offline --test seed_demo_${lid}_$n > $out/v${n}_demo_mut.log 2>&1; echo "demo_on_changed_rc=$?" >> $res
rm -f $demo
sleep 0.2
cargo test --workspace --no-fail-fast --offline > $out/v${n}_suite_mut.log 2>&1; echo "suite_on_changed_rc=$?" >> $res
grep -E "^test result" $out/v${n}_suite_mut.log | awk '{p+=$4; f+=$6} END {print "suite_passed="p" suite_failed="f}' >> $res
git checkout -q -- . ; git clean -fdq -e target
# our checks against the change (the property's own check; others can be added by hand)
shift 2
checks=${@:-$id}
unset CARGO_TARGET_DIR
cd /repo && git apply $out/patch$n.diff || { echo "repo_apply=no" >> $res; exit 4; }
for c in $checks; do
  (cd /verif && timeout 1500 ./check $c > $out/v${n}_check_$c.log 2>&1; echo "check_${c}_rc=$?" >> $res; grep -E "^(VIOLATION|OK|KNOWN)" $out/v${n}_check_$c.log | head -3 >> $res)
done
cd /repo && git checkout -- . && git status --short | grep -v '^??' >> $res
cat $res
