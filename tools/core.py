"""Shared machinery of ./check (DESIGN §2): build, audit, correspondence, oracle search, report."""
import fcntl, hashlib, json, os, random, re, subprocess, sys, time

VERIF = os.path.dirname(os.path.dirname(os.path.abspath(__file__)))
LEAN = os.path.join(VERIF, "lean")
HARNESS = os.path.join(VERIF, "harness")
BUILD = os.path.join(VERIF, ".build")
PHARNESS = os.path.join(BUILD, "harness-target", "debug", "pharness")
PMODEL = os.path.join(LEAN, ".lake", "build", "bin", "pmodel")
CVM = os.path.join(BUILD, "cvm", "drv")
REPLAYS = os.path.join(VERIF, "replays")
EVIDENCE = os.path.join(VERIF, "evidence")
CORPUS = os.path.join(VERIF, "corpus")
ALLOWED_AXIOMS = {"propext", "Classical.choice", "Quot.sound"}
FORBIDDEN = re.compile(r"\bsorry\b|\badmit\b|^\s*axiom\s|native_decide|bv_decide|implemented_by|\bunsafe\s|maxHeartbeats\s+0|\bpartial\s+def\b")

TRUSTED_BASE = [
    "Lean 4.33.0 kernel (theorems re-checked by leanchecker on the compiled .olean files)",
    "axioms: at most propext, Classical.choice, Quot.sound (audited with #print axioms on every run); no sorry/admit/axiom/native_decide/bv_decide/implemented_by/unsafe",
    "Lean compiler+runtime executing the model definitions in pmodel during correspondence",
    "hand-written Lean model, tied to /repo by the correspondence run of this check (exhaustive only on the finite tables named in coverage.rule, sampled elsewhere)",
    "Rust harness (/verif/harness, public portus API only), Python generators/differ (/verif/tools)",
    "translators tools/extract_tables.py (closed tables, length formulas and the decision logic of src/lib.rs; libccp's headers) and tools/extract_uid.py: regular-expression readers of the sources that emit sentinel values for anything they do not recognise - trusted to report what the files say; the theorems of Props/Tables.lean are re-checked against their output on every run of a check that lists them",
    "modelled, not verified: Rust std (slices, Vec, HashMap, String/UTF-8, integer casts, debug overflow checks), byteorder, nom 7 combinators",
]


class Fail(Exception):
    pass


def env():
    e = dict(os.environ)
    e["CARGO_NET_OFFLINE"] = "true"
    e.setdefault("CARGO_TERM_COLOR", "never")
    return e


def sh(cmd, cwd=None, inp=None, timeout=None, check=True):
    p = subprocess.run(cmd, cwd=cwd, input=inp, capture_output=True, text=True, env=env(), timeout=timeout)
    if check and p.returncode != 0:
        raise Fail("command failed (%d): %s\n%s\n%s" % (p.returncode, " ".join(cmd), p.stdout[-4000:], p.stderr[-4000:]))
    return p


class Lock:
    def __init__(self, name):
        os.makedirs(BUILD, exist_ok=True)
        self.path = os.path.join(BUILD, name + ".lock")

    def __enter__(self):
        self.f = open(self.path, "w")
        fcntl.flock(self.f, fcntl.LOCK_EX)

    def __exit__(self, *a):
        fcntl.flock(self.f, fcntl.LOCK_UN)
        self.f.close()


def build_harness():
    """rebuild the harness against /repo's current working tree (incremental)."""
    with Lock("cargo"):
        lock_src = "/repo/Cargo.lock"
        dst = os.path.join(HARNESS, "Cargo.lock")
        if os.path.exists(lock_src) and not os.path.exists(dst):
            open(dst, "w").write(open(lock_src).read())
        t = time.time()
        os.environ.pop("CARGO_TARGET_DIR", None)  # the harness binary must land where PHARNESS points (harness/.cargo/config.toml)
        os.environ.pop("CARGO_BUILD_TARGET_DIR", None)
        p = sh(["cargo", "build", "--offline", "--quiet"], cwd=HARNESS, check=False, timeout=1800)
        if p.returncode != 0 and os.path.exists(lock_src):
            open(dst, "w").write(open(lock_src).read())
            p = sh(["cargo", "build", "--offline", "--quiet"], cwd=HARNESS, check=False, timeout=1800)
        if p.returncode != 0:
            raise Fail("harness does not build against /repo's working tree:\n" + p.stderr[-6000:])
        return time.time() - t


def build_cvm():
    """the C driver around the real libccp sources pinned by /repo/Cargo.lock"""
    with Lock("cvm"):
        p = sh(["bash", os.path.join(HARNESS, "cvm", "build.sh")], check=False, timeout=600)
        if p.returncode != 0:
            raise Fail("cvm driver does not build:\n" + (p.stdout + p.stderr)[-3000:])


def build_lean(targets):
    with Lock("lake"):
        t = time.time()
        p = sh(["lake", "build"] + targets, cwd=LEAN, check=False, timeout=3600)
        if p.returncode != 0:
            raise Fail("lake build failed:\n" + (p.stdout + p.stderr)[-6000:])
        return time.time() - t


def extract_tables():
    """regenerate lean/PortusModel/Generated/Tables.lean from /repo/src and libccp's headers (tools/extract_tables.py)"""
    p = subprocess.run([sys.executable, os.path.join(VERIF, "tools", "extract_tables.py")], capture_output=True, text=True)
    if p.returncode != 0:
        raise Fail("extract_tables.py failed: " + (p.stdout + p.stderr)[-2000:])
    return p.stderr


def table_search_cases(prop):
    """when an obligation about the translated tables is broken: programs built FROM the tables the source has now - every built-in
    name read, tested and written, every operator spelling used - so that the oracle is evaluated where the tables changed"""
    path = os.path.join(LEAN, "PortusModel", "Generated", "Tables.lean")
    text = open(path).read() if os.path.exists(path) else ""
    names, spellings = [], []
    for key, out in (("srcPrimitives", names), ("srcImplicits", names), ("srcOpTable", spellings)):
        m = re.search(r"def %s\b[^\n]*:= some \[(.*)\]\s*$" % key, text, re.M)
        if m:
            out.extend(re.findall(r'\("((?:[^"\\]|\\.)*)",', m.group(1)))
    hx = lambda s: s.encode().hex()
    cases = []
    for n in names:
        third = hx(n) if prop == "C13" else "-"
        for src in ("(def (Report (x 0))) (when true (:= Report.x %s) (report))" % n,
                    "(def (Report (x 0))) (when (> %s 0) (:= Report.x 1) (report))" % n,
                    "(def (Report (x 0))) (when true (:= %s 1) (:= Report.x %s) (report))" % (n, n)):
            cases.append(Case("CMP", "%s - %s" % (hx(src), third), tags=("table-search",)))
    for s in spellings:
        for src in ("(def (Report (x 0))) (when true (:= Report.x (%s 6 3)) (report))" % s,
                    "(def (Report (x 0))) (when (%s 6 3) (report))" % s):
            cases.append(Case("CMP", "%s - -" % hx(src), tags=("table-search",)))
    return cases


def strip_comments(src):
    # remove /- ... -/ (nested) and -- line comments
    out = []
    i, depth, n = 0, 0, len(src)
    while i < n:
        if src.startswith("/-", i):
            depth += 1
            i += 2
        elif depth and src.startswith("-/", i):
            depth -= 1
            i += 2
        elif depth:
            if src[i] == "\n":
                out.append("\n")
            i += 1
        elif src.startswith("--", i):
            while i < n and src[i] != "\n":
                i += 1
        else:
            out.append(src[i])
            i += 1
    return "".join(out)


def lean_sources():
    for root, _, files in os.walk(os.path.join(LEAN)):
        if "/.lake" in root:
            continue
        for f in files:
            if f.endswith(".lean"):
                yield os.path.join(root, f)


def grep_audit():
    """no sorry/admit/axiom/native_decide/... anywhere in the Lean sources (comments stripped).
    `partial def` is allowed only in Main.lean (the IO loop of the driver)."""
    bad = []
    for p in lean_sources():
        src = strip_comments(open(p).read())
        for ln, line in enumerate(src.split("\n"), 1):
            m = FORBIDDEN.search(line)
            if m:
                if "partial" in m.group(0) and os.path.basename(p) == "Main.lean":
                    continue
                bad.append("%s:%d: %s" % (os.path.relpath(p, VERIF), ln, line.strip()))
    return bad


def axiom_audit(prop, theorems, extra_imports=()):
    """#print axioms on every property theorem; returns {theorem: [axioms]}."""
    os.makedirs(os.path.join(LEAN, "Audit"), exist_ok=True)
    path = os.path.join(LEAN, "Audit", prop + ".lean")
    body = "import PortusModel.Props.%s\n" % prop + "".join("import %s\n" % m for m in extra_imports) + "".join("#print axioms %s\n" % t for t in theorems)
    if not os.path.exists(path) or open(path).read() != body:
        open(path, "w").write(body)
    with Lock("lake"):
        p = sh(["lake", "env", "lean", path], cwd=LEAN, check=False, timeout=1800)
    if p.returncode != 0:
        raise Fail("axiom audit failed to elaborate:\n" + (p.stdout + p.stderr)[-4000:])
    text = p.stdout.replace("\n  ", " ").replace("\n ", " ")
    res = {}
    for m in re.finditer(r"'([^']+)' depends on axioms: \[([^\]]*)\]", text):
        res[m.group(1)] = [a.strip() for a in m.group(2).split(",") if a.strip()]
    for m in re.finditer(r"'([^']+)' does not depend on any axioms", text):
        res[m.group(1)] = []
    return res


def leancheck(modules, fresh=False):
    """leanchecker (the toolchain's independent re-checker of .olean files) on the given modules; `fresh` replays every
    imported module from scratch as well (one module at a time: minutes)"""
    if isinstance(modules, str):
        modules = [modules]
    with Lock("lake"):
        if fresh:
            for m in modules:
                p = sh(["lake", "env", "leanchecker", "--fresh", m], cwd=LEAN, check=False, timeout=3600)
                if p.returncode != 0:
                    return False, m + ": " + (p.stdout + p.stderr)[-2000:]
            return True, ""
        p = sh(["lake", "env", "leanchecker"] + list(modules), cwd=LEAN, check=False, timeout=3600)
    return p.returncode == 0, (p.stdout + p.stderr)[-2000:]


STALL = 45  # seconds without an answer before the case in progress is declared hung
MAX_HANGS = 3  # after that many hung cases the rest of the batch is not run (answer NOTRUN)


def run_lines(binary, lines, timeout=3600, stall=STALL, hangs=0, extra_env=None):  # hangs: 3 per hung case, 1 per died process
    """feed `lines` to a driver and collect `<id> <answer>`; a process that dies gives ABORT for the case in progress, one
    that produces no answer for `stall` seconds is killed and gives HANG for it; the remaining cases are re-run"""
    if not lines:
        return {}
    import selectors, threading
    p = subprocess.Popen([binary], stdin=subprocess.PIPE, stdout=subprocess.PIPE, stderr=subprocess.DEVNULL,
                         env=dict(os.environ, **(extra_env or {})))
    data = ("\n".join(lines) + "\n").encode()

    def feed():
        try:
            p.stdin.write(data)
            p.stdin.close()
        except (BrokenPipeError, OSError):
            pass
    th = threading.Thread(target=feed, daemon=True)
    th.start()
    sel = selectors.DefaultSelector()
    sel.register(p.stdout, selectors.EVENT_READ)
    chunks = []
    hung = False
    fd = p.stdout.fileno()
    last_line = time.time()      # progress = a completed answer line, not bytes (a runaway case can print forever)
    pending = 0                  # bytes since the last newline
    while True:
        ready = sel.select(timeout=5)
        if ready:
            chunk = os.read(fd, 1 << 20)
            if not chunk:
                break
            chunks.append(chunk)
            k = chunk.rfind(b"\n")
            if k >= 0:
                last_line = time.time()
                pending = len(chunk) - k - 1
            else:
                pending += len(chunk)
        if time.time() - last_line > stall or pending > (1 << 26):
            hung = True
            p.kill()
            break
    buf = b"".join(chunks)
    if hung:
        buf = buf[:buf.rfind(b"\n") + 1]   # drop the unfinished answer of the runaway case
    p.wait()
    out = {}
    for l in buf.decode(errors="replace").split("\n"):
        if not l:
            continue
        i, _, r = l.partition(" ")
        out[i] = r
    if (hung or p.returncode != 0) and len(out) < len(lines):
        # the process died (abort/stack overflow) or stalled: the first unanswered case is the culprit
        for l in lines:
            cid = l.split(" ")[1]
            if cid not in out:
                out[cid] = "HANG" if hung else "ABORT"
                # a died process counts a third of a hang: after MAX_HANGS hangs or 3*MAX_HANGS deaths the rest is not run
                # (a change that makes thousands of cases die would otherwise restart the driver thousands of times)
                hangs += 3 if hung else 1
                rest = [x for x in lines if x.split(" ")[1] not in out]
                if hangs >= 3 * MAX_HANGS:
                    out.update({x.split(" ")[1]: "NOTRUN" for x in rest})
                else:
                    out.update(run_lines(binary, rest, timeout, stall, hangs, extra_env))
                break
    return out


def run_cvm(lines):
    if not lines:
        return {}
    p = subprocess.run([CVM, "--isolate"], input="\n".join(lines) + "\n", capture_output=True, text=True, timeout=3600)
    out = {}
    for l in p.stdout.split("\n"):
        if l:
            i, _, r = l.partition(" ")
            out[i] = r
    return out


def run_impl(lines, extra_env=None):
    """the implementation side: real portus (pharness) and, for VM cases, real libccp (cvm)"""
    vm = [l for l in lines if l.startswith("VM ")]
    rest = [l for l in lines if not l.startswith("VM ")]
    out = run_lines(PHARNESS, rest, extra_env=extra_env)
    out.update(run_cvm(vm))
    return out


# commands whose answer is a function of the case line alone (no threads, no clocks): they are run a second time in a process
# WITHOUT a tracing subscriber and must answer identically
DETERMINISTIC_CMDS = ("DEC ", "DECS ", "ENC ", "RT ", "BKD ", "BKDR ", "BKDC ", "CMP ", "CMPX ", "AST ", "RUN ", "RUNPAIR ")


def run_impl_untraced(lines):
    sub = [l for l in lines if l.startswith(DETERMINISTIC_CMDS)]
    return run_lines(PHARNESS, sub, extra_env={"PHARNESS_TRACING": "off"})


def run_model(lines):
    return run_lines(PMODEL, lines)


class Case:
    __slots__ = ("cmd", "args", "tags", "origin", "id", "meta")

    def __init__(self, cmd, args, tags=(), origin="gen", meta=None):
        self.cmd, self.args, self.tags, self.origin, self.id, self.meta = cmd, args, tuple(tags), origin, None, meta

    def line(self):
        return "%s %s %s" % (self.cmd, self.id, self.args)

    def key(self):
        return self.cmd + " " + self.args


def load_corpus(prop):
    d = os.path.join(CORPUS, prop)
    cases = []
    if os.path.isdir(d):
        for f in sorted(os.listdir(d)):
            if f.endswith(".case"):
                for l in open(os.path.join(d, f)):
                    l = l.strip()
                    if not l or l.startswith("#"):
                        continue
                    cmd, _, args = l.partition(" ")
                    cases.append(Case(cmd, args, tags=("corpus", f[:-5]), origin="corpus:" + f))
    return cases


def load_known():
    p = os.path.join(VERIF, "known_findings.json")
    if os.path.exists(p):
        return json.load(open(p))
    return {"findings": []}


def write_json(path, obj):
    os.makedirs(os.path.dirname(path), exist_ok=True)
    tmp = path + ".tmp"
    json.dump(obj, open(tmp, "w"), indent=1, sort_keys=False)
    os.replace(tmp, path)


def short(s, n=400):
    return s if len(s) <= n else s[:n] + "…(%d chars)" % len(s)
