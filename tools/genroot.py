#!/usr/bin/env python3
"""regenerate lean/PortusModel.lean so that `lake build PortusModel` builds every module."""
import os
root = os.path.join(os.path.dirname(os.path.dirname(os.path.abspath(__file__))), "lean")
mods = []
for d, _, fs in os.walk(os.path.join(root, "PortusModel")):
    for f in fs:
        if f.endswith(".lean"):
            rel = os.path.relpath(os.path.join(d, f), root)[:-5].replace("/", ".")
            mods.append(rel)
open(os.path.join(root, "PortusModel.lean"), "w").write("".join("import %s\n" % m for m in sorted(mods)))
