#!/usr/bin/env python3
"""split a unified diff into per-hunk patches: splitdiff.py in.diff outdir -> outdir/<n>-<file>-<k>.patch"""
import sys, os, re
src, out = sys.argv[1], sys.argv[2]
os.makedirs(out, exist_ok=True)
lines = [l for l in open(src) if not l.startswith('#')]
files = []; cur = None
for l in lines:
    if l.startswith('diff --git'):
        cur = {'head': [l], 'hunks': []}; files.append(cur)
    elif cur is None: continue
    elif l.startswith('@@'):
        cur['hunks'].append([l])
    elif cur['hunks']: cur['hunks'][-1].append(l)
    else: cur['head'].append(l)
n = 0
for f in files:
    name = re.search(r' b/(.*)$', f['head'][0]).group(1).replace('/', '_')
    for k, h in enumerate(f['hunks']):
        p = os.path.join(out, f"{n:02d}-{name}-{k}.patch"); n += 1
        open(p, 'w').write(''.join(f['head']) + ''.join(h))
        print(p, h[0].strip())
