#!/usr/bin/env python3
"""./check Cnn [--tier quick|thorough] [--replay file]   (DESIGN §2.3–2.5)

1. rebuild the harness from /repo's working tree and the Lean library (theorems + pmodel);
2. proof audit: forbidden-token grep, `#print axioms` on every property theorem, leanchecker;
3. correspondence: corpus + generated cases through the real code and through the Lean model;
4. the Lean oracle `Cnn.check` on the *implementation's* behaviour for every case;
5. on a broken correspondence / proof: search for a failing input, report per the protocol.
"""
import argparse, collections, importlib, json, os, random, re, sys, time

sys.path.insert(0, os.path.dirname(os.path.abspath(__file__)))
import core
from core import Case, Fail


def replay_path(prop, tag):
    os.makedirs(core.REPLAYS, exist_ok=True)
    return os.path.join(core.REPLAYS, "%s-%s.json" % (prop, tag))


def main():
    ap = argparse.ArgumentParser()
    ap.add_argument("prop")
    ap.add_argument("--tier", default=os.environ.get("VERIF_TIER", "quick"))
    ap.add_argument("--replay")
    a = ap.parse_args()
    prop = a.prop.upper()
    tier = a.tier if a.tier in ("quick", "thorough") else "quick"
    try:
        seed = int(os.environ.get("VERIF_SEED", "0"))
    except ValueError:
        seed = 0
    mod = importlib.import_module("props." + prop.lower())
    t0 = time.time()
    ctx = type("Ctx", (), {})()
    ctx.prop, ctx.tier, ctx.seed, ctx.rng = prop, tier, seed, random.Random("%s-%d" % (prop, seed))
    ctx.thorough = tier == "thorough"

    violations = []  # (kind, replay dict)
    notes = []
    proof = {"obligations": 0, "discharged": 0, "theorems": {}, "leanchecker": None, "forbidden_tokens": []}
    cov = {}
    known_lines = []

    table_thms = ["Portus.Tables." + x for x in getattr(mod, "TABLE_THEOREMS", ())]
    tables_broken = None
    audit_imports = list(getattr(mod, "AUDIT_IMPORTS", ()))
    try:
        if hasattr(mod, "pre"):
            mod.pre(ctx)
        if table_thms:
            core.extract_tables()
        tb = core.build_harness()
        if getattr(mod, "NEEDS_CVM", False):
            core.build_cvm()
        targets = ["pmodel", "PortusModel.Props." + prop] + audit_imports
        try:
            tl = core.build_lean(targets + (["PortusModel.Props.Tables"] if table_thms else []))
            if table_thms:
                audit_imports.append("PortusModel.Props.Tables")
        except Fail as e:
            if not table_thms or ("Props/Tables" not in str(e) and "Generated/Tables" not in str(e) and "Props.Tables" not in str(e)):
                raise
            # the obligations about the tables translated from the sources no longer check (DESIGN 11.7): everything else must
            # still build; the correspondence and the oracle below are then the search for a failing input
            tables_broken = str(e)
            tl = core.build_lean(targets)
        notes.append("harness build %.1fs, lake build %.1fs" % (tb, tl))
        built = True
    except Fail as e:
        built = False
        handled = None
        if hasattr(mod, "on_build_fail"):
            try:
                handled = mod.on_build_fail(ctx, str(e))
            except Exception as e2:  # the search itself failed: fall back to the plain report
                notes.append("on_build_fail raised: %r" % (e2,))
        if handled:
            violations.append(handled)
        else:
            violations.append(("build", {"property": prop, "kind": "no-failing-input-found",
                                         "relation": "build of harness/model/theorems", "detail": str(e)[-3000:]}))

    if built:
        # ---------------- proof audit
        bad = core.grep_audit()
        proof["forbidden_tokens"] = bad
        all_thms = list(mod.THEOREMS) + table_thms
        ax = core.axiom_audit(prop, list(mod.THEOREMS) + ([] if tables_broken else table_thms), audit_imports) if all_thms else {}
        proof["obligations"] = len(all_thms)
        for t in all_thms:
            axs = ax.get(t)
            ok = axs is not None and set(axs) <= core.ALLOWED_AXIOMS
            proof["theorems"][t] = axs if axs is not None else "MISSING"
            if ok:
                proof["discharged"] += 1
        lc_mods = ["PortusModel.Props." + prop] + [m for m in audit_imports if m != "PortusModel.Props." + prop]
        okc, msg = core.leancheck(lc_mods, fresh=False)
        proof["leanchecker"] = ("ok: " + " ".join(lc_mods)) if okc else msg
        if okc and tier == "thorough" and not a.replay:
            # replay the whole import closure of the property's top module from scratch
            okc, msg = core.leancheck(lc_mods[-1:], fresh=True)
            proof["leanchecker"] = ("ok: " + " ".join(lc_mods) + "; --fresh " + lc_mods[-1]) if okc else msg
        if tables_broken:
            pass  # reported below, together with whatever the search finds
        elif bad or proof["discharged"] != proof["obligations"] or not okc:
            violations.append(("proof", {"property": prop, "kind": "no-failing-input-found",
                                         "relation": "proof audit", "forbidden_tokens": bad,
                                         "theorems": proof["theorems"], "leanchecker": proof["leanchecker"]}))

        # ---------------- cases
        if a.replay:
            rp = json.load(open(a.replay))
            cases = []
            metas = rp.get("metas") or []
            for k, c in enumerate(rp.get("cases", [rp.get("case")] if rp.get("case") else [])):
                cmd, _, args = c.partition(" ")
                # stored lines carry an id as second token
                toks = args.split(" ", 1)
                m = metas[k] if k < len(metas) else None
                cases.append(Case(cmd, toks[1] if len(toks) > 1 else "", origin="replay", meta=tuple(m) if m else None))
        else:
            cases = core.load_corpus(prop) + list(mod.gen(ctx))
            if tables_broken and prop in ("C03", "C10", "C13", "C14", "C20"):
                cases = core.table_search_cases(prop) + cases
        seen = set()
        uniq = []
        for c in cases:
            k = c.key()
            if k in seen:
                continue
            seen.add(k)
            c.id = str(len(uniq))
            uniq.append(c)
        cases = uniq
        lines = [c.line() for c in cases]
        impl = core.run_impl(lines)
        model = core.run_model(lines)
        # the same cases in a process where no tracing subscriber is installed (every log callsite disabled)
        untraced = core.run_impl_untraced(lines) if not a.replay or True else {}
        log_dep = [c for c in cases if c.id in untraced and untraced[c.id] != impl.get(c.id)]
        proj = getattr(mod, "project", lambda c, r: r)
        disagree = []
        hist = collections.Counter()
        nontriv = set()
        for c in cases:
            ri, rm = impl.get(c.id, "NOANSWER"), model.get(c.id, "NOANSWER")
            if proj(c, ri) != proj(c, rm):
                disagree.append(c)
            for t in mod.classify(c, ri):
                hist[t] += 1
            if mod.nontrivial(c, ri):
                nontriv.add(c.key())
        if hasattr(mod, "prepare"):
            mod.prepare(cases, impl)
        # ---------------- oracle on the implementation's behaviour
        olines, omap = [], {}
        for c in cases:
            o = mod.oracle(c, impl.get(c.id, "NOANSWER"))
            if o is not None:
                olines.append("%s %s %s" % (o[0], c.id, o[1]))
                omap[c.id] = c
        ores = core.run_model(olines)
        oracle_fail = [omap[i] for i in omap if not ores.get(i, "NOANSWER").startswith("PASS")]
        # sanity of the oracle itself: it must accept the model's behaviour (that is the theorem)
        mlines = []
        if hasattr(mod, "prepare"):
            mod.prepare(cases, model)
        for c in (cases if getattr(mod, "ORACLE_ON_MODEL", True) else []):
            o = mod.oracle(c, model.get(c.id, "NOANSWER"))
            if o is not None:
                mlines.append("%s %s %s" % (o[0], c.id, o[1]))
        mres = core.run_model(mlines)
        oracle_rejects_model = [i for i in mres if not mres[i].startswith("PASS")]
        if oracle_rejects_model:
            notes.append("ORACLE-BUG: the oracle rejects the model's own behaviour on %d cases, first: %s" % (
                len(oracle_rejects_model), core.short(cases[int(oracle_rejects_model[0])].line(), 300)))
        extra = getattr(mod, "extra", None)
        extra_cov = {}
        if extra is not None and not a.replay:
            efails, extra_cov = extra(ctx)
            known_ids = {f.get("finding_id"): f for f in core.load_known()["findings"]
                         if f.get("property") == prop and f.get("status") == "known" and f.get("finding_id")}
            for ef in efails:
                f = known_ids.get(ef.get("finding_id"))
                if f is not None:
                    line = "KNOWN-FINDING: property=%s %s" % (prop, f.get("what", ef.get("finding_id")))
                    if line not in known_lines:
                        known_lines.append(line)
                else:
                    violations.append(("extra", ef))

        cov.update({
            "evaluations": len(cases),
            "distinct_nontrivial": len(nontriv),
            "rule": mod.RULE,
            "histogram": dict(sorted(hist.items())),
            "corpus_cases": sum(1 for c in cases if c.origin.startswith("corpus")),
            "disagreements": len(disagree),
            "rerun_without_tracing_subscriber": {"cases": len(untraced), "different_answers": len(log_dep)},
            "oracle_evaluations_on_impl": len(olines),
            "oracle_failures_on_impl": len(oracle_fail),
            "oracle_answers": dict(collections.Counter(v for v in ores.values())),
            "oracle_rejections_of_model": len(oracle_rejects_model),
            "samples": [{"case": core.short(c.line()), "impl": core.short(impl.get(c.id, "")),
                         "model": core.short(model.get(c.id, ""))}
                        for c in (cases[:2] + cases[len(cases) // 2: len(cases) // 2 + 2] + cases[-2:])],
        })
        cov.update(extra_cov)

        # ---------------- report
        known = [f for f in core.load_known()["findings"] if f.get("property") == prop and f.get("status") == "known"]

        def is_known(c):
            for f in known:
                if f.get("case") == c.key():
                    return f
            return None

        if oracle_fail:
            unk = []
            for c in oracle_fail:
                f = is_known(c)
                if f:
                    known_lines.append("KNOWN-FINDING: property=%s %s" % (prop, f.get("what", c.key())))
                else:
                    unk.append(c)
            if unk:
                c = min(unk, key=lambda c: len(c.args))
                violations.append(("failing-input", {
                    "property": prop, "kind": "failing-input", "case": c.line(), "meta": c.meta,
                    "cases": [x.line() for x in unk[:20]], "metas": [x.meta for x in unk[:20]],
                    "observed": impl.get(c.id), "model": model.get(c.id), "oracle": ores.get(c.id),
                    "oracle_name": "%s.check (PortusModel/Props/%s.lean)" % (prop, prop),
                    "seed": seed, "tier": tier, "failing_inputs": len(unk)}))
        if oracle_rejects_model:
            violations.append(("oracle-bug", {"property": prop, "kind": "no-failing-input-found",
                                              "relation": "Cnn.check x (Model x) = true (the check's own oracle is inconsistent with its model)",
                                              "case": cases[int(oracle_rejects_model[0])].line(), "detail": notes[-1]}))
        if log_dep:
            c = min(log_dep, key=lambda c: len(c.args))
            violations.append(("failing-input", {
                "property": prop, "kind": "failing-input", "case": c.line(), "cases": [x.line() for x in log_dep[:20]],
                "relation": "the implementation answers the same whether or not a tracing subscriber is installed",
                "with_subscriber_enabling_every_callsite": impl.get(c.id), "without_any_subscriber": untraced.get(c.id),
                "model": model.get(c.id), "seed": seed, "tier": tier, "failing_inputs": len(log_dep)}))
        spec = getattr(mod, "SPEC_IS_ORACLE", False)
        spec_dis = [c for c in disagree if (spec(c) if callable(spec) else spec)]
        if spec_dis and not any(k == "failing-input" for k, _ in violations):
            # the compared projection is exactly what the property speaks about and the model is its closed-form
            # specification (proved complete): a disagreement is an input on which the implementation violates it
            c = min(spec_dis, key=lambda c: len(c.args))
            violations.append(("failing-input", {
                "property": prop, "kind": "failing-input", "case": c.line(), "cases": [x.line() for x in disagree[:20]],
                "observed": proj(c, impl.get(c.id, "")), "expected_by_specification": proj(c, model.get(c.id, "")),
                "oracle_name": "closed-form specification " + ", ".join(mod.THEOREMS[:3]),
                "seed": seed, "tier": tier, "failing_inputs": len(disagree)}))
        if disagree and not any(k == "failing-input" for k, _ in violations):
            c = min(disagree, key=lambda c: len(c.args))
            violations.append(("correspondence", {
                "property": prop, "kind": "no-failing-input-found",
                "relation": "Impl(x) = Model(x) on " + mod.RELATION,
                "theorems_depending": mod.THEOREMS,
                "case": c.line(), "cases": [x.line() for x in disagree[:20]],
                "observed": impl.get(c.id), "model": model.get(c.id),
                "oracle_on_impl": "passed on all %d cases incl. the %d disagreeing ones" % (len(olines), len(disagree)),
                "seed": seed, "tier": tier, "disagreements": len(disagree)}))
        elif disagree:
            notes.append("%d model disagreements (reported separately from the %d oracle failures)" % (len(disagree), len(oracle_fail)))

    if tables_broken:
        gen = open(os.path.join(core.LEAN, "PortusModel", "Generated", "Tables.lean")).read()
        broken = sorted(set(re.findall(r"Props/Tables\.lean:(\d+):", tables_broken)))
        info = {"theorems": table_thms, "file": "lean/PortusModel/Props/Tables.lean", "failing_lines": broken,
                "meaning": "a closed table translated from /repo/src (or libccp's headers) is no longer the table the model and its theorems use, or portus' numbering no longer matches libccp's",
                "build_error": tables_broken[-2500:], "generated": gen[:6000]}
        fi = [v for v in violations if v[0] == "failing-input"]
        if fi:
            fi[0][1]["broken_obligation"] = info
        else:
            violations.append(("proof", dict({"property": prop, "kind": "no-failing-input-found",
                                              "relation": "theorems of Props/Tables.lean over Generated/Tables.lean (translated from the sources on this run)",
                                              "searched": "correspondence and oracle on %d cases found no input on which the property fails" % cov.get("evaluations", 0)}, **info)))
    wall = time.time() - t0
    ev = {
        "property_id": prop, "tier": tier, "seed": seed, "level": "proof",
        "coverage": dict({
            "obligations": max(proof["obligations"], 1), "discharged": proof["discharged"],
            "checker_cmd": "cd /verif/lean && lake build PortusModel.Props.%s && lake env lean Audit/%s.lean && lake env leanchecker PortusModel.Props.%s" % (prop, prop, prop),
            "trusted_base": core.TRUSTED_BASE + list(getattr(mod, "TRUSTED_EXTRA", [])),
            "theorems": proof["theorems"], "leanchecker": proof["leanchecker"],
            "forbidden_tokens": proof["forbidden_tokens"],
            "explanation": mod.EXPLANATION,
        }, **cov),
        "assumptions": list(getattr(mod, "ASSUMPTIONS", [])),
        "wall_s": round(wall, 2),
        "violations": len(violations),
        "known_findings_reported": known_lines,
        "notes": notes,
    }
    core.write_json(os.path.join(core.EVIDENCE, prop + ".json"), ev)
    for l in known_lines:
        print(l)
    if violations:
        for i, (kind, rp) in enumerate(violations):
            path = replay_path(prop, "%s-%d-%d" % (kind, seed, i))
            core.write_json(path, rp)
            tail = " no-failing-input-found" if rp.get("kind") == "no-failing-input-found" else ""
            print("VIOLATION property=%s replay=%s%s" % (prop, path, tail))
        sys.exit(1)
    print("OK property=%s tier=%s cases=%d nontrivial=%d theorems=%d/%d wall=%.1fs" % (
        prop, tier, cov.get("evaluations", 0), cov.get("distinct_nontrivial", 0),
        proof["discharged"], proof["obligations"], wall))
    sys.exit(0)


if __name__ == "__main__":
    main()
