#!/usr/bin/env python3
"""regenerate /verif/MANIFEST.json from the per-property modules (tools/props/cNN.py)."""
import importlib, json, os, sys
sys.path.insert(0, os.path.dirname(os.path.abspath(__file__)))
import core

ALL = ["C%02d" % i for i in range(1, 21)]
checks, na = [], []
for pid in ALL:
    try:
        mod = importlib.import_module("props." + pid.lower())
    except ModuleNotFoundError:
        na.append({"property_id": pid, "reason": "check not built yet in this round (planned, see DESIGN.md section 5/9); not a statement that proof cannot apply"})
        continue
    checks.append({
        "property_id": pid,
        "quick_cmd": "./check %s --tier quick" % pid,
        "thorough_cmd": "./check %s --tier thorough" % pid,
        "evidence_file": "/verif/evidence/%s.json" % pid,
        "replay_cmd_template": "./check %s --replay {path}" % pid,
        "engine": "lean-proof+correspondence",
        "level_claimed": {
            "category": "proof",
            "text": mod.LEVEL_TEXT,
            "design_ref": "DESIGN.md section 5, " + pid,
        },
        "level_note": mod.LEVEL_NOTE,
        "technique": mod.TECHNIQUE,
    })
man = {
    "version": 1,
    "setup_cmd": "./setup.sh",
    "hooks": {
        "guard": "--cfg portus_verif",
        "enable": "none needed: every observation goes through portus' public API (DESIGN.md section 9); the guard name is reserved",
        "baseline_off_cmd": "cd /repo && cargo test --workspace --no-fail-fast --offline",
        "source_commits": [],
        "add_only": True,
    },
    "engines": [
        {"name": "lean-proof+correspondence", "path": "/verif/lean, /verif/harness, /verif/tools",
         "serves_properties": [c["property_id"] for c in checks],
         "kind_free_text": "Lean 4 theorems about a hand-written executable model (PortusModel/*), audited (#print axioms, leanchecker) on every run; model tied to /repo by a differential correspondence run (Rust harness calling the real code vs the compiled Lean model `pmodel`) plus the Lean oracle Cnn.check evaluated on the implementation's observed behaviour"},
    ],
    "checks": checks,
    "notes": "All checks rebuild the harness from /repo's working tree. Fixes of genuine defects are 'fix:' commits in /repo, listed in /verif/known_findings.json as status 'fixed' (they suppress nothing).",
    "not_applicable": na,
}
core.write_json(os.path.join(core.VERIF, "MANIFEST.json"), man)
print("claimed:", [c["property_id"] for c in checks])
