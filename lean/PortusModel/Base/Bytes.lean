import PortusModel.Base.Prim
/-!
# Little-endian integers (`serialize/mod.rs` `u16/u32/u64_{to,from}_u8s`, byteorder `LittleEndian`)

Values are `Nat`; writers reduce modulo the field width exactly as an `as u16`/`as u32` cast would,
readers return a value below the field width.
-/
namespace Portus

@[inline] def byte (n : Nat) : UInt8 := UInt8.ofNat n

def le16 (x : Nat) : Bytes := [byte x, byte (x / 256)]
def le32 (x : Nat) : Bytes := [byte x, byte (x / 256), byte (x / 65536), byte (x / 16777216)]
def le64 (x : Nat) : Bytes := le32 x ++ le32 (x / 4294967296)

/-- `b[i]` as a number, 0 beyond the end (callers establish the length first). -/
@[inline] def bAt (b : Bytes) (i : Nat) : Nat := (b.getD i 0).toNat

def rd16 (b : Bytes) : Nat := bAt b 0 + 256 * bAt b 1
def rd32 (b : Bytes) : Nat := bAt b 0 + 256 * bAt b 1 + 65536 * bAt b 2 + 16777216 * bAt b 3
def rd64 (b : Bytes) : Nat := rd32 b + 4294967296 * rd32 (b.drop 4)

theorem bAt_lt (b : Bytes) (i : Nat) : bAt b i < 256 := (b.getD i 0).toNat_lt

theorem rd16_lt (b : Bytes) : rd16 b < 2^16 := by
  have := bAt_lt b 0; have := bAt_lt b 1
  simp only [rd16]; omega

theorem rd32_lt (b : Bytes) : rd32 b < 2^32 := by
  have := bAt_lt b 0; have := bAt_lt b 1; have := bAt_lt b 2; have := bAt_lt b 3
  simp only [rd32]; omega

theorem rd64_lt (b : Bytes) : rd64 b < 2^64 := by
  have := rd32_lt b; have := rd32_lt (b.drop 4)
  simp only [rd64]; omega

@[simp] theorem le16_length (x : Nat) : (le16 x).length = 2 := rfl
@[simp] theorem le32_length (x : Nat) : (le32 x).length = 4 := rfl
@[simp] theorem le64_length (x : Nat) : (le64 x).length = 8 := rfl

@[simp] theorem bAt_cons_zero (a : UInt8) (l : Bytes) : bAt (a :: l) 0 = a.toNat := rfl
@[simp] theorem bAt_cons_succ (a : UInt8) (l : Bytes) (i : Nat) : bAt (a :: l) (i+1) = bAt l i := by
  simp [bAt]

theorem byte_toNat (n : Nat) : (byte n).toNat = n % 256 := by
  simp [byte, UInt8.toNat_ofNat']

theorem rd16_le16_append (x : Nat) (r : Bytes) : rd16 (le16 x ++ r) = x % 65536 := by
  simp only [rd16, le16, List.cons_append, List.nil_append, bAt_cons_zero, bAt_cons_succ, byte_toNat]
  omega

theorem rd32_le32_append (x : Nat) (r : Bytes) : rd32 (le32 x ++ r) = x % 4294967296 := by
  simp only [rd32, le32, List.cons_append, List.nil_append, bAt_cons_zero, bAt_cons_succ, byte_toNat]
  omega

theorem rd64_le64_append (x : Nat) (r : Bytes) : rd64 (le64 x ++ r) = x % 18446744073709551616 := by
  have h1 : List.drop 4 (le64 x ++ r) = le32 (x / 4294967296) ++ r := by
    simp [le64, le32]
  rw [rd64, h1, rd32_le32_append]
  simp only [le64, List.append_assoc, rd32_le32_append]
  omega

theorem rd16_le16 (x : Nat) (h : x < 2^16) : rd16 (le16 x) = x := by
  have := rd16_le16_append x []; simp at this; omega
theorem rd32_le32 (x : Nat) (h : x < 2^32) : rd32 (le32 x) = x := by
  have := rd32_le32_append x []; simp at this; omega
theorem rd64_le64 (x : Nat) (h : x < 2^64) : rd64 (le64 x) = x := by
  have := rd64_le64_append x []; simp at this; omega

/-- Readers only look at the first 2/4/8 bytes. -/
theorem rd16_take (b : Bytes) (n : Nat) (h : 2 ≤ n) : rd16 (b.take n) = rd16 b := by
  simp only [rd16, bAt, List.getD_eq_getElem?_getD, List.getElem?_take]
  have h0 : 0 < n := by omega
  have h1 : 1 < n := by omega
  simp [h0, h1]

theorem rd32_take (b : Bytes) (n : Nat) (h : 4 ≤ n) : rd32 (b.take n) = rd32 b := by
  simp only [rd32, bAt, List.getD_eq_getElem?_getD, List.getElem?_take]
  have h0 : 0 < n := by omega
  have h1 : 1 < n := by omega
  have h2 : 2 < n := by omega
  have h3 : 3 < n := by omega
  simp [h0, h1, h2, h3]

/-- `n` zero bytes (kept as a definition so that `simp` does not expand it into a literal) -/
def zeros (n : Nat) : Bytes := List.replicate n 0

@[simp] theorem zeros_length (n : Nat) : (zeros n).length = n := by simp [zeros]
theorem zeros_succ (n : Nat) : zeros (n + 1) = 0 :: zeros n := by simp [zeros, List.replicate_succ]

/-- Hex rendering used by the line protocol. -/
def hexDigit (n : Nat) : Char :=
  if n < 10 then Char.ofNat (48 + n) else Char.ofNat (87 + n)

def toHex (b : Bytes) : String :=
  String.ofList (b.flatMap fun x => [hexDigit (x.toNat / 16), hexDigit (x.toNat % 16)])

def hexVal (c : Char) : Option Nat :=
  if '0' ≤ c ∧ c ≤ '9' then some (c.toNat - 48)
  else if 'a' ≤ c ∧ c ≤ 'f' then some (c.toNat - 87)
  else if 'A' ≤ c ∧ c ≤ 'F' then some (c.toNat - 55)
  else none

def fromHexAux : List Char → Option Bytes
  | [] => some []
  | [_] => none
  | a :: b :: rest => do
    let x ← hexVal a
    let y ← hexVal b
    let r ← fromHexAux rest
    pure (byte (16 * x + y) :: r)

/-- `-` denotes the empty byte string in the protocol. -/
def fromHex (s : String) : Option Bytes :=
  if s = "-" then some [] else fromHexAux s.toList

end Portus
