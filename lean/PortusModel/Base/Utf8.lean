import PortusModel.Base.Prim
/-!
# Strict UTF-8 validation (`std::str::from_utf8`)

Accepts exactly the well-formed sequences of Unicode 15 table 3-7 (no overlong forms, no
surrogates, nothing above U+10FFFF), which is what Rust's `from_utf8` accepts.
Also decodes to code points (needed by the language front end, which works on `char`s).
-/
namespace Portus

@[inline] def isCont (b : UInt8) : Bool := 0x80 ≤ b && b ≤ 0xBF

/-- Decode a UTF-8 byte string into code points; `none` if it is not well formed. -/
def utf8Decode : Bytes → Option (List Nat)
  | [] => some []
  | b0 :: rest =>
    if b0 < 0x80 then (utf8Decode rest).map (b0.toNat :: ·)
    else if 0xC2 ≤ b0 && b0 ≤ 0xDF then
      match rest with
      | b1 :: rest' =>
        if isCont b1 then
          (utf8Decode rest').map (((b0.toNat - 0xC0) * 64 + (b1.toNat - 0x80)) :: ·)
        else none
      | _ => none
    else if 0xE0 ≤ b0 && b0 ≤ 0xEF then
      match rest with
      | b1 :: b2 :: rest' =>
        let lo : UInt8 := if b0 == 0xE0 then 0xA0 else 0x80
        let hi : UInt8 := if b0 == 0xED then 0x9F else 0xBF
        if lo ≤ b1 && b1 ≤ hi && isCont b2 then
          (utf8Decode rest').map
            (((b0.toNat - 0xE0) * 4096 + (b1.toNat - 0x80) * 64 + (b2.toNat - 0x80)) :: ·)
        else none
      | _ => none
    else if 0xF0 ≤ b0 && b0 ≤ 0xF4 then
      match rest with
      | b1 :: b2 :: b3 :: rest' =>
        let lo : UInt8 := if b0 == 0xF0 then 0x90 else 0x80
        let hi : UInt8 := if b0 == 0xF4 then 0x8F else 0xBF
        if lo ≤ b1 && b1 ≤ hi && isCont b2 && isCont b3 then
          (utf8Decode rest').map
            (((b0.toNat - 0xF0) * 262144 + (b1.toNat - 0x80) * 4096 + (b2.toNat - 0x80) * 64
              + (b3.toNat - 0x80)) :: ·)
        else none
      | _ => none
    else none

def validUtf8 (b : Bytes) : Bool := (utf8Decode b).isSome

end Portus
