/-!
# The three-valued outcome of a Rust computation

`Out α` models a Rust function returning `Result<α, _>` that may also panic.
Error texts are not modelled (DESIGN §3); a panic is an explicit third outcome so that
"never panics" is a theorem about the model and not a consequence of its type.
-/
namespace Portus

inductive Out (α : Type) where
  | ok : α → Out α
  | err : Out α
  | panic : Out α
deriving Repr, DecidableEq, Inhabited

namespace Out

@[inline] def bind {α β : Type} (x : Out α) (f : α → Out β) : Out β :=
  match x with
  | .ok a => f a
  | .err => .err
  | .panic => .panic

instance : Monad Out where
  pure := .ok
  bind := Out.bind

@[simp] theorem bind_ok {α β} (a : α) (f : α → Out β) : (Out.ok a >>= f) = f a := rfl
@[simp] theorem bind_err {α β} (f : α → Out β) : ((Out.err : Out α) >>= f) = .err := rfl
@[simp] theorem bind_panic {α β} (f : α → Out β) : ((Out.panic : Out α) >>= f) = .panic := rfl
@[simp] theorem pure_eq {α} (a : α) : (pure a : Out α) = .ok a := rfl

/-- `x` is not a panic. -/
def NoPanic {α} (x : Out α) : Prop := x ≠ .panic

theorem bind_no_panic {α β} (x : Out α) (f : α → Out β)
    (hx : x ≠ .panic) (hf : ∀ a, x = .ok a → f a ≠ .panic) : (x >>= f) ≠ .panic := by
  cases x with
  | ok a => simpa using hf a rfl
  | err => simp
  | panic => exact absurd rfl hx

theorem bind_eq_ok {α β} {x : Out α} {f : α → Out β} {b : β} :
    (x >>= f) = .ok b ↔ ∃ a, x = .ok a ∧ f a = .ok b := by
  cases x <;> simp

theorem bind_eq_panic {α β} {x : Out α} {f : α → Out β} :
    (x >>= f) = .panic ↔ x = .panic ∨ ∃ a, x = .ok a ∧ f a = .panic := by
  cases x <;> simp

/-- `Result::ok()` : forget the error. A panic stays a panic (kept as `none` is wrong), so this
returns `Out (Option α)`. -/
def toOption {α} : Out α → Out (Option α)
  | .ok a => .ok (some a)
  | .err => .ok none
  | .panic => .panic

def isOk {α} : Out α → Bool
  | .ok _ => true
  | _ => false

def ofOption {α} : Option α → Out α
  | some a => .ok a
  | none => .err

end Out
end Portus
