import PortusModel.Base.Out
/-!
# Panic-faithful primitives

Each mirrors one Rust operation that can panic and returns `Out.panic` under exactly Rust's
condition (debug profile for integer overflow).
-/
namespace Portus

abbrev Bytes := List UInt8

/-- Rust `&b[lo..hi]`: panics unless `lo ≤ hi ≤ b.len()`. -/
def sliceP {α : Type} (b : List α) (lo hi : Nat) : Out (List α) :=
  if lo ≤ hi ∧ hi ≤ b.length then .ok ((b.drop lo).take (hi - lo)) else .panic

/-- Rust `&b[lo..]`: panics unless `lo ≤ b.len()`. -/
def sliceFromP {α : Type} (b : List α) (lo : Nat) : Out (List α) :=
  if lo ≤ b.length then .ok (b.drop lo) else .panic

/-- Rust `b[i]`. -/
def idxP {α : Type} (b : List α) (i : Nat) : Out α :=
  match b[i]? with
  | some a => .ok a
  | none => .panic

/-- Rust `Option::unwrap`. -/
def unwrapP {α : Type} : Option α → Out α
  | some a => .ok a
  | none => .panic

/-- Rust `unreachable!()` / `unimplemented!()`. -/
def unreachableP {α : Type} : Out α := .panic

/-- `u8 + 1` in the debug profile. -/
def incU8P (a : Nat) : Out Nat := if a + 1 < 256 then .ok (a + 1) else .panic

theorem sliceP_ok {α} (b : List α) (lo hi : Nat) (h : lo ≤ hi ∧ hi ≤ b.length) :
    sliceP b lo hi = .ok ((b.drop lo).take (hi - lo)) := by simp [sliceP, h]

theorem sliceP_length {α} {b r : List α} {lo hi : Nat} (h : sliceP b lo hi = .ok r) :
    r.length = hi - lo := by
  unfold sliceP at h
  split at h
  · injection h with h; subst h; simp; omega
  · cases h

theorem sliceP_ne_err {α} (b : List α) (lo hi : Nat) : sliceP b lo hi ≠ .err := by
  unfold sliceP; split <;> simp

end Portus
