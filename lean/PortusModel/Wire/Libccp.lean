import PortusModel.Base.Bytes
/-!
# libccp 1.2.0 wire layouts (`libccp/serialize.{h,c}`), little-endian host, packed structs

Writers: `write_ready_msg`, `write_create_msg`, `write_measure_msg` (what the datapath emits).
The readers used for C06 are in `Wire/LibccpRead.lean`.
-/
namespace Portus.Libccp
open Portus

/-- `struct CcpMsgHeader { u16 Type; u16 Len; u32 SocketId; }` copied with `memcpy` -/
def writeHeader (typ len sid : Nat) : Bytes := le16 typ ++ le16 len ++ le32 sid

/-- `write_ready_msg(buf, bufsize, id)` (bufsize large enough) -/
def writeReady (id : Nat) : Bytes := writeHeader 5 12 0 ++ le32 id

/-- `write_create_msg(buf, bufsize, sid, cr)`: `struct CreateMsg { u32 ×6; char congAlg[64]; }`.
`block` is the 64-byte `congAlg` array as it sits in memory. -/
def writeCreate (sid cwnd mss srcIp srcPort dstIp dstPort : Nat) (block : Bytes) : Bytes :=
  writeHeader 0 96 sid ++ le32 cwnd ++ le32 mss ++ le32 srcIp ++ le32 srcPort ++ le32 dstIp
    ++ le32 dstPort ++ block

/-- `write_measure_msg(buf, bufsize, sid, program_uid, fields, num_fields)` with `num_fields : u8` -/
def writeMeasure (sid uid : Nat) (fields : List Nat) : Bytes :=
  writeHeader 1 (8 + 8 + fields.length * 8) sid ++ le32 uid ++ le32 fields.length
    ++ fields.flatMap le64

end Portus.Libccp
