import PortusModel.Wire.Dp
import PortusModel.Lang.Serialize
/-!
# CCP → datapath messages (`src/serialize/{install,changeprog,update_field}.rs`)
-/
namespace Portus.Wire
open Portus Portus.Lang

structure Install where
  sid : Nat
  uid : Nat
  numEvents : Nat
  numInstrs : Nat
  bin : Bin
deriving Repr, DecidableEq, Inhabited

structure ChangeProg where
  sid : Nat
  uid : Nat
  numFields : Nat
  fields : List (Reg × Nat)
deriving Repr, DecidableEq, Inhabited

structure UpdateField where
  sid : Nat
  /-- `num_fields : u8` -/
  numFields : Nat
  fields : List (Reg × Nat)
deriving Repr, DecidableEq, Inhabited

/-- the shared `get_bytes` of change-prog and update-field: 5 register bytes + 8 value bytes each -/
def serializeUpdates : List (Reg × Nat) → Out Bytes
  | [] => .ok []
  | (r, v) :: rest => do
    let rb ← r.serialize
    let tail ← serializeUpdates rest
    pure (rb ++ le64 v ++ tail)

/-- `get_hdr` computes the length in `u32`; an overflow panics in the debug profile (it needs
2^28 records, far beyond anything the library builds, and is excluded by the theorems' hypotheses) -/
def u32LenP (len : Nat) (k : Out Bytes) : Out Bytes := if len ≥ 2^32 then .panic else k

def serializeInstall (m : Install) : Out Bytes :=
  u32LenP (8 + 12 + (m.numEvents * 16 + m.numInstrs * 16)) <|
  serializeWith INSTALL (8 + 12 + (m.numEvents * 16 + m.numInstrs * 16)) m.sid do
    let b ← m.bin.serialize
    pure (le32 m.uid ++ le32 m.numEvents ++ le32 m.numInstrs ++ b)

def serializeChangeProg (m : ChangeProg) : Out Bytes :=
  u32LenP (8 + 4 + 4 + m.numFields * 13) <|
  serializeWith CHANGEPROG (8 + 4 + 4 + m.numFields * 13) m.sid do
    let b ← serializeUpdates m.fields
    pure (le32 m.uid ++ le32 m.numFields ++ b)

def serializeUpdateField (m : UpdateField) : Out Bytes :=
  serializeWith UPDATE_FIELD (8 + 4 + m.numFields * 13) m.sid do
    let b ← serializeUpdates m.fields
    pure (le32 m.numFields ++ b)

end Portus.Wire
