import PortusModel.Base.Bytes
/-!
# How libccp 1.2.0 reads CCP → datapath messages
(`serialize.c` `read_header`, `read_install_expr_msg_hdr`, `check_update_fields_msg`,
`read_change_prog_msg`; `ccp.c` `ccp_read_msg`; packed little-endian structs of `serialize.h`)

This is the *independent reader* of C06: it knows nothing about portus' encoders.
-/
namespace Portus.Libccp
open Portus

/-- `struct UpdateField { u8 reg_type; u32 reg_index; u64 new_value; }` packed: 13 bytes -/
structure Upd where
  cls : Nat
  idx : Nat
  val : Nat
deriving Repr, DecidableEq, Inhabited

/-- `struct ExpressionMsg` (4 × u32) -/
structure Expr where
  condStart : Nat
  numCond : Nat
  eventStart : Nat
  numEvent : Nat
deriving Repr, DecidableEq, Inhabited

/-- `struct InstructionMsg` packed: opcode, then three (type, register) pairs: 16 bytes -/
structure InstrMsg where
  opcode : Nat
  resT : Nat
  resI : Nat
  leftT : Nat
  leftI : Nat
  rightT : Nat
  rightI : Nat
deriving Repr, DecidableEq, Inhabited

inductive CtlMsg where
  | install (sid uid : Nat) (exprs : List Expr) (instrs : List InstrMsg)
  | changeProg (sid uid : Nat) (updates : List Upd)
  | updateFields (sid : Nat) (updates : List Upd)
deriving Repr, DecidableEq, Inhabited

def BIGGEST_MSG_SIZE : Nat := 32678
def MAX_MUTABLE_REG : Nat := 222

def readUpds : Nat → Bytes → List Upd
  | 0, _ => []
  | n + 1, b => { cls := bAt b 0, idx := rd32 (b.drop 1), val := rd64 (b.drop 5) } :: readUpds n (b.drop 13)

def readExprs : Nat → Bytes → List Expr
  | 0, _ => []
  | n + 1, b => { condStart := rd32 b, numCond := rd32 (b.drop 4), eventStart := rd32 (b.drop 8),
                  numEvent := rd32 (b.drop 12) } :: readExprs n (b.drop 16)

def readInstrs : Nat → Bytes → List InstrMsg
  | 0, _ => []
  | n + 1, b => { opcode := bAt b 0, resT := bAt b 1, resI := rd32 (b.drop 2), leftT := bAt b 6,
                  leftI := rd32 (b.drop 7), rightT := bAt b 11, rightI := rd32 (b.drop 12) }
                :: readInstrs n (b.drop 16)

/-- `(u32)*buf` on a `char *`: one *signed* byte, sign-extended, then converted to `u32` -/
def signedByteAsU32 (x : Nat) : Nat := if x < 128 then x else 2^32 - 256 + x

/-- `ccp_read_msg` up to the point where the message has been taken apart; `none` = a negative return
code. The caller passes the whole buffer; `bufsize = buf.length`. Reads beyond `hdr.Len` but inside
the buffer are what the C code would do too, so the records are read from `buf`, not from a slice. -/
def readMsg (buf : Bytes) : Option CtlMsg :=
  if buf.length < 8 then none else
  let typ := rd16 buf
  let len := rd16 (buf.drop 2)
  let sid := rd32 (buf.drop 4)
  if typ ≠ 2 ∧ typ ≠ 3 ∧ typ ≠ 4 then none else
  if len > buf.length then none else
  if len > BIGGEST_MSG_SIZE then none else
  let p := buf.drop 8
  if typ = 2 then
    let uid := rd32 p
    let ne := rd32 (p.drop 4)
    let ni := rd32 (p.drop 8)
    some (.install sid uid (readExprs ne (p.drop 12)) (readInstrs ni (p.drop (12 + 16 * ne))))
  else if typ = 3 then
    let n := signedByteAsU32 (bAt p 0)
    if n > MAX_MUTABLE_REG then none else
    some (.updateFields sid (readUpds n (p.drop 4)))
  else
    let uid := rd32 p
    let n := rd32 (p.drop 4)
    if n > MAX_MUTABLE_REG then none else
    some (.changeProg sid uid (readUpds n (p.drop 8)))

end Portus.Libccp
