import PortusModel.Base.Bytes
import PortusModel.Base.Utf8
/-!
# Datapath → CCP messages (`src/serialize/{mod,create,measure,ready}.rs`)

The model follows the repaired code (DESIGN §6.1 F2–F5, F10): every Rust slice, index and cast is
kept as the panic-faithful primitive it is, and the theorems of C04/C07 show the guards in front of
them suffice.
-/
namespace Portus.Wire

open Portus

structure Raw where
  typ : Nat
  len : Nat
  sid : Nat
  bytes : Bytes
deriving Repr, DecidableEq, Inhabited

structure Create where
  sid : Nat
  cwnd : Nat
  mss : Nat
  srcIp : Nat
  srcPort : Nat
  dstIp : Nat
  dstPort : Nat
  /-- `cong_alg : Option<String>` as its UTF-8 bytes -/
  alg : Option Bytes
deriving Repr, DecidableEq, Inhabited

structure Measure where
  sid : Nat
  uid : Nat
  /-- `num_fields : u8` -/
  numFields : Nat
  fields : List Nat
deriving Repr, DecidableEq, Inhabited

inductive Msg where
  | cr (m : Create)
  | ms (m : Measure)
  | rdy (id : Nat)
  | other (r : Raw)
deriving Repr, DecidableEq, Inhabited

def CREATE : Nat := 0
def MEASURE : Nat := 1
def INSTALL : Nat := 2
def UPDATE_FIELD : Nat := 3
def CHANGEPROG : Nat := 4
def READY : Nat := 5

/-! ## Encoding -/

/-- `serialize_header(typ, len, sid)`: `len as u16`. -/
def serializeHeader (typ len sid : Nat) : Bytes := le16 typ ++ le16 len ++ le32 sid

/-- `serialize<T>` front: refuse lengths the 16-bit field cannot hold (F6), then the header. -/
def serializeWith (typ len sid : Nat) (body : Out Bytes) : Out Bytes :=
  if len > 65535 then .err else do
    let b ← body
    pure (serializeHeader typ len sid ++ b)

/-- `create::Msg::get_bytes`: 64-byte block, name copied into its prefix (F5). -/
def createNameBlock (alg : Option Bytes) : Out Bytes :=
  match alg with
  | none => .ok (zeros 64)
  | some c => if c.length > 63 then .err else .ok (c ++ zeros (64 - c.length))

def serializeCreate (m : Create) : Out Bytes :=
  serializeWith CREATE (8 + 6 * 4 + 64) m.sid do
    let nb ← createNameBlock m.alg
    pure (le32 m.cwnd ++ le32 m.mss ++ le32 m.srcIp ++ le32 m.srcPort ++ le32 m.dstIp
            ++ le32 m.dstPort ++ nb)

def serializeMeasure (m : Measure) : Out Bytes :=
  serializeWith MEASURE (8 + 8 + m.numFields * 8) m.sid
    (pure (le32 m.uid ++ le32 m.numFields ++ m.fields.flatMap le64))

def serializeReady (id : Nat) : Out Bytes :=
  serializeWith READY (8 + 4) 0 (pure (le32 id))

/-! ## Decoding -/

/-- `deserialize`: header (`read_exact` fails below 8 bytes; type codes above 255 are refused, F3),
then the two length checks and the payload slice. -/
def deserialize (buf : Bytes) : Out Raw :=
  if buf.length < 8 then .err else
  let typ := rd16 buf
  let len := rd16 (buf.drop 2)
  let sid := rd32 (buf.drop 4)
  if typ > 255 then .err else
  if len < 8 then .err else
  if len > buf.length then .err else do
    let bytes ← sliceP buf 8 len
    pure { typ := typ, len := len, sid := sid, bytes := bytes }

/-- `RawMsg::get_u32s` (length-checked, F2): the fixed `u32` block of a predefined type. -/
def getU32s (m : Raw) : Out Bytes :=
  let n := if m.typ = CREATE then 24 else if m.typ = MEASURE then 8
           else if m.typ = UPDATE_FIELD then 4 else if m.typ = READY then 4 else 0
  if m.typ ≠ CREATE ∧ m.typ ≠ MEASURE ∧ m.typ ≠ UPDATE_FIELD ∧ m.typ ≠ READY then .ok []
  else if m.bytes.length < n then .err
  else sliceP m.bytes 0 n

/-- `RawMsg::get_bytes` (`bytes.get(start..)`, F2). -/
def getBytes (m : Raw) : Out Bytes :=
  if m.typ = CREATE then (if 24 ≤ m.bytes.length then .ok (m.bytes.drop 24) else .err)
  else if m.typ = MEASURE then (if 8 ≤ m.bytes.length then .ok (m.bytes.drop 8) else .err)
  else if m.typ = UPDATE_FIELD then (if 4 ≤ m.bytes.length then .ok (m.bytes.drop 4) else .err)
  else .ok m.bytes

/-- the `k`-th `u32` of the transmuted block: Rust `u32s[k]` -/
def u32At (u : Bytes) (k : Nat) : Out Nat :=
  if 4 * k + 4 ≤ u.length then .ok (rd32 (u.drop (4 * k))) else .panic

/-- index of the first NUL byte: `b.iter().position(|&c| c == 0)` -/
def nulPos : Bytes → Option Nat
  | [] => none
  | x :: xs => if x = 0 then some 0 else (nulPos xs).map (· + 1)

def createFromRaw (m : Raw) : Out Create := do
  let u ← getU32s m
  let b ← getBytes m
  if b.length < 64 then .err else
  let alg ← (match nulPos b with
    | none => (.ok none : Out (Option Bytes))
    | some 0 => .ok none
    | some e => do
        let s ← sliceP b 0 e
        if validUtf8 s then pure (some s) else .err)
  let cwnd ← u32At u 0
  let mss ← u32At u 1
  let sip ← u32At u 2
  let sport ← u32At u 3
  let dip ← u32At u 4
  let dport ← u32At u 5
  pure { sid := m.sid, cwnd := cwnd, mss := mss, srcIp := sip, srcPort := sport,
         dstIp := dip, dstPort := dport, alg := alg }

/-- `deserialize_fields`: `chunks(8)`, a short last chunk is an error. -/
def deserializeFields : (fuel : Nat) → Bytes → Out (List Nat)
  | 0, _ => .ok []
  | fuel + 1, b =>
    if b.length = 0 then .ok []
    else if b.length < 8 then .err
    else do
      let rest ← deserializeFields fuel (b.drop 8)
      pure (rd64 b :: rest)

def measureFromRaw (m : Raw) : Out Measure := do
  let u ← getU32s m
  let b ← getBytes m
  let uid ← u32At u 0
  let nf ← u32At u 1
  if nf > 255 then .err else
  let fields ← deserializeFields (b.length + 1) b
  pure { sid := m.sid, uid := uid, numFields := nf, fields := fields }

def readyFromRaw (m : Raw) : Out Nat := do
  let u ← getU32s m
  u32At u 0

/-- `Msg::from_raw_msg` (install/update-field bytes are surfaced as `Other`, F4). -/
def fromRaw (m : Raw) : Out Msg :=
  if m.typ = CREATE then do let c ← createFromRaw m; pure (.cr c)
  else if m.typ = MEASURE then do let c ← measureFromRaw m; pure (.ms c)
  else if m.typ = READY then do let c ← readyFromRaw m; pure (.rdy c)
  else pure (.other m)

/-- `Msg::from_buf`. -/
def fromBuf (buf : Bytes) : Out (Msg × Nat) :=
  match deserialize buf with
  | .panic => .panic
  | .err => do
    let m ← fromRaw { typ := 255, len := 0, sid := 0, bytes := buf }
    pure (m, buf.length)
  | .ok r => do
    let m ← fromRaw r
    pure (m, r.len)

end Portus.Wire
