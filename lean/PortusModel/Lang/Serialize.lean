import PortusModel.Lang.Ast
import PortusModel.Base.Bytes
/-!
# `src/lang/serialize.rs`: `Bin::serialize`, `Event`/`Instr`/`Reg` `into_iter`, `serialize_op`
(repaired code: 8 temporaries, F8)
-/
namespace Portus.Lang
open Portus

/-- `serialize_op`; `And`/`Or` are `unreachable!()` (they are lowered before) -/
def serializeOp : Op → Out Nat
  | .add => .ok 0
  | .and => unreachableP
  | .bind => .ok 1
  | .def => .ok 2
  | .div => .ok 3
  | .equiv => .ok 4
  | .ewma => .ok 5
  | .gt => .ok 6
  | .if => .ok 7
  | .lt => .ok 8
  | .max => .ok 9
  | .maxWrap => .ok 10
  | .min => .ok 11
  | .mul => .ok 12
  | .notIf => .ok 13
  | .or => unreachableP
  | .sub => .ok 14

/-- (class, index) of a register or the encoder's refusal; `Reg::None` is `unreachable!()` -/
def Reg.classIdx : Reg → Out (Nat × Nat)
  | .control i _ vol => if i > 15 then .err else .ok (if vol then 8 else 0, i)
  | .immBool b => .ok (1, if b then 1 else 0)
  | .immNum n => if n = 2^64 - 1 ∨ n < 2^31 then .ok (1, n % 2^32) else .err
  | .implicit i _ => if i > 5 then .err else .ok (2, i)
  | .local i _ => if i > 5 then .err else .ok (3, i)
  | .primitive i _ => if i > 15 then .err else .ok (4, i)
  | .report i _ vol => if i > 15 then .err else .ok (if vol then 5 else 6, i)
  | .tmp i _ => if i > 7 then .err else .ok (7, i)
  | .none => unreachableP

/-- `Reg::into_iter`: one class byte and the little-endian `u32` index -/
def Reg.serialize (r : Reg) : Out Bytes := do
  let (c, i) ← r.classIdx
  pure (byte c :: le32 i)

/-- `Instr::into_iter().collect()`: the iterator chain is built eagerly (op, res, left, right) and an
`Err` item makes the final `collect::<Result<Vec<u8>>>` fail. A panic in any part panics. -/
def Instr.serialize (i : Instr) : Out Bytes :=
  match serializeOp i.op, i.res.serialize, i.left.serialize, i.right.serialize with
  | .panic, _, _, _ => .panic
  | _, .panic, _, _ => .panic
  | _, _, .panic, _ => .panic
  | _, _, _, .panic => .panic
  | .ok o, .ok a, .ok b, .ok c => .ok (byte o :: (a ++ b ++ c))
  | _, _, _, _ => .err

def EvRec.serialize (e : EvRec) : Bytes :=
  le32 e.flagIdx ++ le32 e.numFlag ++ le32 e.bodyIdx ++ le32 e.numBody

/-- all instruction encodings in order; a panic anywhere wins over an error anywhere
(`flat_map(into_iter)` evaluates every `Instr::into_iter` call while `collect` pulls items, and
`collect` stops pulling at the first `Err` item — so instructions after the first failing one are
never encoded). -/
def serializeInstrs : List Instr → Out Bytes
  | [] => .ok []
  | i :: rest => do
    let b ← i.serialize
    let r ← serializeInstrs rest
    pure (b ++ r)

/-- `Bin::serialize`: event records, then instruction records -/
def Bin.serialize (b : Bin) : Out Bytes := do
  let is ← serializeInstrs b.instrs
  pure (b.events.flatMap EvRec.serialize ++ is)

end Portus.Lang
