import PortusModel.Lang.Fragment
/-!
# A declarative well-typedness check for the portus DSL (C20, acceptance half)

Nothing in this file mentions scopes, registers or instructions: a program is a list of parsed
declarations `ds : List Decl` and (desugared) events `evs : List Event`, a typing environment maps
names to a *kind* (who may assign to it) and a *type* (`Num` or `Bool`).

`WellTyped ds evs : Bool` is the whole check. `Lemmas/Accept.lean`, `AcceptValue.lean`, `Accept2.lean`
prove that every parsed program that passes it is accepted by `compile` and by `Bin.serialize`.

Rules that are dictated by the compiler rather than by a natural reading of the grammar are kept
as separate, named definitions:

* `noBareBoolCondition` – a `when` condition must be `true`, `false` or an operator node; a bare
  Bool *variable* (`(when Flow.was_timeout …)`, `(when flag …)`) is rejected by `compile_flag`.
* `guardedTargetDeclared` – the target of `(:= x (if c v))`, `(:= x (!if c v))`, `(:= x (ewma a v))`
  must be a declared (Report / control) variable: a local, `Cwnd`, `Rate`, … is rejected by the
  `Op::Bind` arm (`bindEmit`, right operand `Reg::None`).
* `notReadOnly` – `Ack.*` / `Flow.*` primitives cannot be assigned.
* `knownTargetType` – the value of `(:= x e)` used inside an expression, `x` already known, has the type
  recorded for `x`, not the type of `e` (the compiler's value of a bind is the *register of the target*).

* `noBindCondition` – the top node of a `when` condition must not be an assignment (assignments *inside*
  the operands of the top operator are fine): `compile_flag` wants the flag block to end in a temporary.

An assignment – plain, or guarded (`if` / `!if` / `ewma` into a declared variable) – may be used **as a
value** inside an expression, and inside a `when` condition (`typeOfG`, `typeOfV`, `checkStmtV`,
`checkCondV`, … below); the former check, which confines assignments to statement level, is kept as
`WellTypedStratified` (`typeOf`, `checkStmt`, …) and is the restriction of `WellTyped` to
`Frag.Stratified` programs (`Lemmas/Accept2.lean`, `wellTyped_eq`).
-/
namespace Portus.Lang.Typing
open Portus Portus.Lang

/-! ## Types, kinds, environments -/

/-- the two value types of the language -/
inductive Ty where
  | num
  | bool
deriving Repr, DecidableEq, Inhabited

/-- who owns a name: a read-only datapath primitive (`Ack.*`, `Flow.*`), an implicit register
(`Cwnd`, `Rate`, `Micros`, `__eventFlag`, `__shouldContinue`, `__shouldReport`), a declared variable
(`(def …)`: Report or control, volatile or not), or a local created by its first assignment -/
inductive Kind where
  | prim
  | impl
  | var
  | loc
deriving Repr, DecidableEq, Inhabited

/-- typing environment; the first entry for a name counts -/
abbrev Env := List (Name × Kind × Ty)

def lookup (x : Name) : Env → Option (Kind × Ty)
  | [] => none
  | (y, kt) :: rest => if y = x then some kt else lookup x rest

/-- `Type::Bool(_)` ↦ `Bool`, everything else in the built-in tables is `Type::Num(_)` -/
def builtinTy : Lang.Ty → Ty
  | .bool _ => .bool
  | _ => .num

/-- the built-in names, read off the two tables `Scope::new()` is filled from -/
def builtinEnv : Env :=
  primitiveNames.map (fun p => (p.1.toList, Kind.prim, builtinTy p.2)) ++
  implicitNames.map (fun p => (p.1.toList, Kind.impl, builtinTy p.2))

/-- … spelled out -/
example : builtinEnv =
    [ ("Ack.bytes_acked".toList, .prim, .num), ("Ack.bytes_misordered".toList, .prim, .num),
      ("Ack.ecn_bytes".toList, .prim, .num), ("Ack.ecn_packets".toList, .prim, .num),
      ("Ack.lost_pkts_sample".toList, .prim, .num), ("Ack.now".toList, .prim, .num),
      ("Ack.packets_acked".toList, .prim, .num), ("Ack.packets_misordered".toList, .prim, .num),
      ("Flow.bytes_in_flight".toList, .prim, .num), ("Flow.bytes_pending".toList, .prim, .num),
      ("Flow.packets_in_flight".toList, .prim, .num), ("Flow.rate_incoming".toList, .prim, .num),
      ("Flow.rate_outgoing".toList, .prim, .num), ("Flow.rtt_sample_us".toList, .prim, .num),
      ("Flow.was_timeout".toList, .prim, .bool),
      ("__eventFlag".toList, .impl, .bool), ("__shouldContinue".toList, .impl, .bool),
      ("__shouldReport".toList, .impl, .bool),
      ("Micros".toList, .impl, .num), ("Cwnd".toList, .impl, .num), ("Rate".toList, .impl, .num) ] := by
  decide

/-! ## Limits (all from the encoder, `Reg.classIdx`: index ≤ 15 / ≤ 5 / ≤ 7) -/

def maxReports : Nat := 16
def maxControls : Nat := 16
def maxLocals : Nat := 6
def maxTmps : Nat := 8

/-- a numeric literal the immediate field can hold: `< 2^31`, or `+infinity` -/
def litOk (n : Nat) : Bool := decide (n < 2^31) || decide (n = 2^64 - 1)

/-! ## Pure expressions -/

/-- operand type and result type of the operators of pure expressions; `:=`, `if`, `!if`, `ewma`
(and the internal `def`) are statement forms, not operators -/
def opSig : Op → Option (Ty × Ty)
  | .add | .sub | .mul | .div | .max | .min | .maxWrap => some (.num, .num)
  | .equiv | .lt | .gt => some (.num, .bool)
  | .and | .or => some (.bool, .bool)
  | _ => none

/-- the type of a pure expression; `none` = ill typed (unknown name, operand of the wrong type,
or not a pure expression at all) -/
def typeOf (Γ : Env) : Expr → Option Ty
  | .atom (.bool _) => some .bool
  | .atom (.num _) => some .num
  | .atom (.name x) => (lookup x Γ).map (·.2)
  | .sexp o l r =>
    match opSig o, typeOf Γ l, typeOf Γ r with
    | some (a, res), some tl, some tr => if tl = a ∧ tr = a then some res else none
    | _, _, _ => none
  | _ => none

/-- number of temporaries a (statement or condition) needs: one per operator node that computes a
value (`:=`, `if`, `!if`, `ewma` compute into their target, not into a temporary) -/
def tmps : Expr → Nat
  | .sexp o l r => (if (opSig o).isSome then 1 else 0) + tmps l + tmps r
  | _ => 0

/-! ## Statements, assignments at statement level only (the former check, `WellTypedStratified`) -/

def numLocals (Γ : Env) : Nat := Γ.countP fun e => decide (e.2.1 = Kind.loc)

/-- primitives are read-only -/
def notReadOnly (k : Kind) : Bool := decide (k ≠ Kind.prim)

/-- `(:= x e)`, `e` pure of type `τ`: a known `x` must not be a primitive (the compiler does not
compare the types of `x` and `e`, and neither do we); an unknown `x` becomes a new local of type `τ` -/
def checkPlain (Γ : Env) (x : Name) (e : Expr) : Option Env :=
  match typeOf Γ e with
  | none => none
  | some τ =>
    match lookup x Γ with
    | some (k, _) => if notReadOnly k then some Γ else none
    | none => if numLocals Γ < maxLocals then some ((x, Kind.loc, τ) :: Γ) else none

/-- the target of a conditional / ewma assignment must be a declared variable -/
def guardedTargetDeclared (Γ : Env) (x : Name) : Bool :=
  match lookup x Γ with
  | some (k, _) => decide (k = Kind.var)
  | none => false

/-- `(:= x (if c v))`, `(:= x (!if c v))`: `c : Bool`, `v` pure of any type -/
def checkGuarded (Γ : Env) (x : Name) (c v : Expr) : Option Env :=
  if guardedTargetDeclared Γ x && decide (typeOf Γ c = some Ty.bool) && (typeOf Γ v).isSome then some Γ else none

/-- `(:= x (ewma a v))`: `a : Num`, `v : Num` -/
def checkEwma (Γ : Env) (x : Name) (a v : Expr) : Option Env :=
  if guardedTargetDeclared Γ x && decide (typeOf Γ a = some Ty.num) && decide (typeOf Γ v = some Ty.num) then some Γ
  else none

/-- the right-hand side of an assignment to `x` -/
def checkRhs (Γ : Env) (x : Name) : Expr → Option Env
  | .sexp o l r =>
    match o with
    | .if => checkGuarded Γ x l r
    | .notIf => checkGuarded Γ x l r
    | .ewma => checkEwma Γ x l r
    | _ => checkPlain Γ x (.sexp o l r)
  | e => checkPlain Γ x e

/-- one statement of an event body; the result is the environment for the next statement.
`(report)` and `(fallthrough)` arrive here desugared (`(:= __shouldReport true)`,
`(:= __shouldContinue true)`); comments are `Expr.none`. -/
def checkStmt (Γ : Env) : Expr → Option Env
  | .none => some Γ
  | .sexp .bind (.atom (.name x)) rhs => if tmps rhs ≤ maxTmps then checkRhs Γ x rhs else none
  | _ => none

def checkBody (Γ : Env) : List Expr → Option Env
  | [] => some Γ
  | s :: rest =>
    match checkStmt Γ s with
    | some Γ' => checkBody Γ' rest
    | none => none

/-! ## Assignments used as values

`(:= x r)` may occur wherever a value is expected: `(:= Report.out (+ a (:= Report.saved b)))`. The
compiler (`compile_expr`, `Op::Bind` arm: `bindTarget`, `bindEmit`) compiles the *target first*, then
`r`, and yields the register of the target. Typing therefore threads the environment through an
expression, left operand before right operand, and the rule of a nested assignment is the rule of the
statement-level assignment (`checkPlain`) with two refinements the compiler dictates:

* the target is looked up in the environment *before* `r` (`Γ`), the outcome is recorded in the
  environment *after* `r` (`Γ'`);
* if `x` is new at the assignment but `r` itself assigns `x` (`(:= x (> (:= x 1) 0))`), no second
  local is created: the outer assignment re-types the local the inner one created (`setTy`).

A **guarded** assignment `(:= x (if c v))`, `(:= x (!if c v))`, `(:= x (ewma a v))` may occur as a value
too: `(:= Report.a (+ 1 (:= Report.b (if (> Ack.bytes_acked 0) 5))))`. The compiler compiles the guarded
form into an instruction without result register and yields a placeholder (`Reg::None`); the only
consumer of a placeholder is the `Op::Bind` arm with a Report / control register on the left
(`bindEmit`), which makes that register the result of the instruction and yields it. So the nested
form is `(:= x (if c v))` as an operand – never a bare `(if c v)` operand – with `x` declared
(`guardedTargetDeclared`), and its type is the type recorded for `x` (`bindGuarded`).

No hazard condition (`Frag.noHazard`) is needed for *acceptance*: the compiler accepts
`(:= x (+ (:= x 1) (:= x 2)))`, and so does the check. The temporaries count `tmps` is unchanged:
a bind allocates none. -/

/-- re-type the entries of `x`; kinds (hence `numLocals`) are kept -/
def setTy (x : Name) (τ : Ty) (Γ : Env) : Env :=
  Γ.map fun e => if e.1 = x then (e.1, e.2.1, τ) else e

/-- **named rule.** `(:= x e)` as a value, `x` known with recorded type `τx`, `e : τ`: the value is the
register of `x`, whose recorded type the assignment does not change – so the type is `τx`, whatever
`τ` is (the compiler does not compare them: `(+ (:= Report.n true) 1)` is accepted for `n : Num`,
`(&& (:= Report.n true) true)` is rejected). -/
def knownTargetType (τx _τ : Ty) : Ty := τx

/-- the `Op::Bind` arm on a plain right-hand side of type `τ`. `Γ`: the environment the target was
looked up in (before the right-hand side), `Γ'`: the environment after the right-hand side.
* `x` known: must not be read-only (`notReadOnly`); value of type `knownTargetType τx τ`;
* `x` unknown before the right-hand side but assigned inside it: that local is re-typed to `τ`;
* `x` unknown: a new local of type `τ`, if there are fewer than `maxLocals` already. -/
def bindValue (Γ Γ' : Env) (x : Name) (τ : Ty) : Option (Ty × Env) :=
  match lookup x Γ with
  | some (k, τx) => if notReadOnly k then some (knownTargetType τx τ, Γ') else none
  | none =>
    match lookup x Γ' with
    | some _ => some (τ, setTy x τ Γ')
    | none => if numLocals Γ' < maxLocals then some (τ, (x, Kind.loc, τ) :: Γ') else none

/-- the name assigned by an operator node, if it is a plain assignment to a name -/
def bindName : Op → Expr → Option Name
  | .bind, .atom (.name x) => some x
  | _, _ => none

/-- **named rule.** operand types of the guarded forms: `(if c v)`, `(!if c v)`: `c : Bool`, `v` of any
type; `(ewma a v)`: `a : Num`, `v : Num`. (The compiler itself only wants two *values* here – neither
operand may be an unbound placeholder –; the types are what the datapath expects.) -/
def guardOk : Op → Ty → Ty → Bool
  | .if, .bool, _ => true
  | .notIf, .bool, _ => true
  | .ewma, .num, .num => true
  | _, _, _ => false

/-- the `Op::Bind` arm on a *guarded* right-hand side (`(:= x (if c v))`, `(:= x (!if c v))`,
`(:= x (ewma a v))`; the right operand is the placeholder `Reg::None`). `Γ`: the environment the target
was looked up in, `Γ'`: the environment after the right-hand side. The target must be a declared
(Report / control) variable (`guardedTargetDeclared`); the value is the register of `x`, of the type
recorded for `x`. -/
def bindGuarded (Γ Γ' : Env) (x : Name) : Option (Option Ty × Env) :=
  if guardedTargetDeclared Γ x then (lookup x Γ).map fun kt => (some kt.2, Γ') else none

/-- typing of an expression *as the compiler compiles it*, and the environment it leaves; operands left
to right. The outcome is either a value of a type (`some τ`: operators over atoms and nested
assignments) or the **unbound placeholder** of a guarded form (`none`: `(if c v)`, `(!if c v)`,
`(ewma a v)`, the compiler's `Reg::None`). A placeholder is accepted in exactly one place: as the
right-hand side of an assignment to a declared variable (`bindGuarded`); an operator, a guarded form
or an assignment to anything else refuses it. The overall answer `none` = ill typed. -/
def typeOfG (Γ : Env) : Expr → Option (Option Ty × Env)
  | .atom (.bool _) => some (some .bool, Γ)
  | .atom (.num _) => some (some .num, Γ)
  | .atom (.name x) => (lookup x Γ).map fun kt => (some kt.2, Γ)
  | .sexp o l r =>
    match opSig o with
    | some (a, res) =>
      match typeOfG Γ l with
      | some (some tl, Γ1) =>
        match typeOfG Γ1 r with
        | some (some tr, Γ2) => if tl = a ∧ tr = a then some (some res, Γ2) else none
        | _ => none
      | _ => none
    | none =>
      match bindName o l with
      | some x =>
        match typeOfG Γ r with
        | some (some τ, Γ') => (bindValue Γ Γ' x τ).map fun p => (some p.1, p.2)
        | some (none, Γ') => bindGuarded Γ Γ' x
        | none => none
      | none =>
        match typeOfG Γ l with
        | some (some tl, Γ1) =>
          match typeOfG Γ1 r with
          | some (some tr, Γ2) => if guardOk o tl tr then some (none, Γ2) else none
          | _ => none
        | _ => none
  | _ => none

/-- type of a *value* expression (operators over atoms and nested assignments, plain or guarded) and
the environment it leaves. `none` = ill typed, or not a value (a bare `(if c v)`, `(!if c v)`,
`(ewma a v)` is a placeholder, not a value). -/
def typeOfV (Γ : Env) (e : Expr) : Option (Ty × Env) :=
  match typeOfG Γ e with
  | some (some τ, Γ') => some (τ, Γ')
  | _ => none

/-- `(:= x e)` as a statement: the same rule as in value position -/
def checkPlainV (Γ : Env) (x : Name) (e : Expr) : Option Env :=
  match typeOfV Γ e with
  | some (τ, Γ') => (bindValue Γ Γ' x τ).map (·.2)
  | none => none

/-- `(:= x (if c v))`, `(:= x (!if c v))`: `c : Bool`, then `v` of any type -/
def checkGuardedV (Γ : Env) (x : Name) (c v : Expr) : Option Env :=
  if guardedTargetDeclared Γ x then
    match typeOfV Γ c with
    | some (Ty.bool, Γ1) => (typeOfV Γ1 v).map (·.2)
    | _ => none
  else none

/-- `(:= x (ewma a v))`: `a : Num`, then `v : Num` -/
def checkEwmaV (Γ : Env) (x : Name) (a v : Expr) : Option Env :=
  if guardedTargetDeclared Γ x then
    match typeOfV Γ a with
    | some (Ty.num, Γ1) =>
      match typeOfV Γ1 v with
      | some (Ty.num, Γ2) => some Γ2
      | _ => none
    | _ => none
  else none

def checkRhsV (Γ : Env) (x : Name) : Expr → Option Env
  | .sexp o l r =>
    match o with
    | .if => checkGuardedV Γ x l r
    | .notIf => checkGuardedV Γ x l r
    | .ewma => checkEwmaV Γ x l r
    | _ => checkPlainV Γ x (.sexp o l r)
  | e => checkPlainV Γ x e

/-- one statement; at most `maxTmps` temporaries per statement, nested assignments included.
(`checkRhsV` spells out the three shapes of a statement; it is the value rule applied to the statement:
`checkRhsV Γ x rhs = (typeOfV Γ (:= x rhs)).map (·.2)`, `Lemmas/AcceptValue.lean`, `checkRhsV_eq`.) -/
def checkStmtV (Γ : Env) : Expr → Option Env
  | .none => some Γ
  | .sexp .bind (.atom (.name x)) rhs => if tmps rhs ≤ maxTmps then checkRhsV Γ x rhs else none
  | _ => none

def checkBodyV (Γ : Env) : List Expr → Option Env
  | [] => some Γ
  | s :: rest =>
    match checkStmtV Γ s with
    | some Γ' => checkBodyV Γ' rest
    | none => none

/-! ## Conditions and events -/

/-- `compile_flag` accepts a boolean literal or an operator node, not a bare boolean variable -/
def noBareBoolCondition : Expr → Bool
  | .atom (.bool _) => true
  | .sexp _ _ _ => true
  | _ => false

def checkCond (Γ : Env) (c : Expr) : Bool :=
  decide (typeOf Γ c = some Ty.bool) && noBareBoolCondition c && decide (tmps c ≤ maxTmps)

/-- events in program order, the condition before the body; locals created in one event are known
in the following ones -/
def checkEvents (Γ : Env) : List Event → Option Env
  | [] => some Γ
  | ev :: rest =>
    if checkCond Γ ev.flag then
      match checkBody Γ ev.body with
      | some Γ' => checkEvents Γ' rest
      | none => none
    else none

/-- **named rule.** the top node of a condition must not be an assignment: `compile_flag` makes the
last instruction of the flag block write `__eventFlag`, and only accepts a block whose value is a
*temporary* (or a boolean literal). `(when (:= flag (> Ack.bytes_acked 0)) …)` yields the register of
`flag` and is rejected; `(when (&& (:= flag (> Ack.bytes_acked 0)) true) …)` yields a temporary and is
accepted. (A guarded form at the top is not a value at all.) -/
def noBindCondition : Expr → Bool
  | .sexp o _ _ => (opSig o).isSome
  | _ => true

/-- a condition with assignments allowed as values in the operands of its top operator; the result
is the environment the event body is typed in (a condition may create locals) -/
def checkCondV (Γ : Env) (c : Expr) : Option Env :=
  match typeOfV Γ c with
  | some (Ty.bool, Γ') =>
    if noBareBoolCondition c && noBindCondition c && decide (tmps c ≤ maxTmps) then some Γ' else none
  | _ => none

/-- the same with assignments allowed as values, in the bodies and in the conditions; the environment
is threaded through the condition into the body -/
def checkEventsV (Γ : Env) : List Event → Option Env
  | [] => some Γ
  | ev :: rest =>
    match checkCondV Γ ev.flag with
    | some Γ0 =>
      match checkBodyV Γ0 ev.body with
      | some Γ' => checkEventsV Γ' rest
      | none => none
    | none => none

/-! ## Declarations -/

/-- the type of a declared variable is the type of its literal initial value -/
def declTy : Lang.Ty → Option Ty
  | .num (some n) => if litOk n then some .num else none
  | .bool (some _) => some .bool
  | _ => none

def declOk (d : Decl) : Bool :=
  (declTy d.init).isSome && !Frag.isBuiltinName d.var && !("__".toList.isPrefixOf d.var)

/-- literal, in-range initial values; distinct names, none built-in or starting with `__`; at most
16 Report variables and 16 control variables (volatile or not) -/
def declsOk (ds : List Decl) : Bool :=
  ds.all declOk && decide ((ds.map (·.var)).Nodup) &&
  decide ((ds.filter fun d => "Report.".toList.isPrefixOf d.var).length ≤ maxReports) &&
  decide ((ds.filter fun d => !("Report.".toList.isPrefixOf d.var)).length ≤ maxControls)

def declEnv (ds : List Decl) : Env := ds.map fun d => (d.var, Kind.var, (declTy d.init).getD Ty.num)

def initEnv (ds : List Decl) : Env := declEnv ds ++ builtinEnv

/-- **The check.** Well-formed declarations, numeric literals that fit the immediate field (those
inside nested assignments included), and every event well typed in the environment left by what
precedes it (condition, then body). Nothing else is needed: `checkStmtV` / `typeOfV` / `checkCondV`
answer `none` on anything that is not an assignment statement over value expressions (a superset of
the shape `Frag.stmtOk2`: assignments inside conditions, and assignments to built-in registers used as
values, are outside the fragment of the semantic theorem), and the hazard part of `Frag.stmtOk2` matters for the
semantics, not for acceptance – the compiler accepts hazardous nestings. -/
def WellTyped (ds : List Decl) (evs : List Event) : Bool :=
  declsOk ds && Frag.LitsOk evs && (checkEventsV (initEnv ds) evs).isSome

/-- the former check: assignments at statement level only (`Frag.Stratified`) -/
def WellTypedStratified (ds : List Decl) (evs : List Event) : Bool :=
  declsOk ds && Frag.Stratified evs && Frag.LitsOk evs && (checkEvents (initEnv ds) evs).isSome

/-- a well-formed list of compile-time overrides `(name, value)`: the values fit the immediate
field, and no override gives a number to a `Bool` variable (overrides of unknown names and of
built-in names are ignored by the compiler) -/
def updOk (ds : List Decl) (upd : List (Name × Nat)) : Bool :=
  upd.all fun p => litOk p.2 &&
    (match lookup p.1 (initEnv ds) with
     | some (k, τ) => decide (k = Kind.prim) || decide (k = Kind.impl) || decide (τ = Ty.num)
     | none => true)

end Portus.Lang.Typing
