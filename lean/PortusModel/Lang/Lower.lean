import PortusModel.Lang.Compile
import PortusModel.Vm.Machine
/-!
# A reference lowering of the programs of the fragment of C01 (proof device)

`lowerProg` is a small, type-free, scope-free compiler from the *fragment* of C01 (pure conditions,
statements that bind a value expression — pure, possibly with plain binds used as values inside it —
or a conditional / ewma over two such operands to a name) to machine instructions. It
looks names up in a fixed environment `ρ : Name → Option VReg` (in the theorems: the *final* scope
of the real compiler) and allocates temporaries from a counter. The correctness proof of the real
compiler is split along it:

* `compile ⊑ lower` — the real compiler (`Lang/Compile`), on a program of the fragment it accepts,
  emits exactly `lowerProg ρ_final` (Lemmas/CompileLower.lean);
* `lower ≈ Sem` — running `lowerProg ρ` on the libccp machine computes the source semantics
  (Lemmas/LowerSem.lean).
-/
namespace Portus.Lang
open Portus Portus.Vm

abbrev Rho := Name → Option VReg

/-- a register as libccp sees it: (class, index); immediates carry their 32-bit value -/
def toVReg (r : Reg) : VReg :=
  match r.classIdx with
  | .ok (c, i) => ⟨c, i⟩
  | _ => ⟨99, 0⟩

def opNat (o : Op) : Nat :=
  match serializeOp o with
  | .ok c => c
  | _ => 99

def toVInstr (i : Instr) : VInstr :=
  { op := opNat i.op, ret := toVReg i.res, left := toVReg i.left, right := toVReg i.right }

def vImmBool (b : Bool) : VReg := ⟨1, if b then 1 else 0⟩
def vImmNum (n : Nat) : VReg := ⟨1, n % 2^32⟩
def vTmp (k : Nat) : VReg := ⟨7, k⟩
def vFlag : VReg := ⟨2, 0⟩

/-- machine opcode of a pure operator (`&&`/`||` are lowered to MUL/ADD) -/
def pureOpcode : Op → Option Nat
  | .add => some 0 | .div => some 3 | .equiv => some 4 | .gt => some 6 | .lt => some 8 | .max => some 9
  | .maxWrap => some 10 | .min => some 11 | .mul => some 12 | .sub => some 14
  | .and => some 12 | .or => some 0
  | _ => none

/-- machine opcode of the in-place instruction of a guarded bind `(:= x (if c v))`, `(:= x (!if c v))`,
`(:= x (ewma a v))` -/
def condCode : Op → Option Nat
  | .if => some 7 | .notIf => some 13 | .ewma => some 5
  | _ => none

structure LE where
  instrs : List VInstr
  reg : VReg
  k : Nat
deriving Repr, DecidableEq, Inhabited

/-- value expressions: operands left to right, a fresh temporary per operator node. A plain bind used
as a value (`(:= x r)` inside an expression) runs `r`, binds its result register to the register of `x`
and *is* that register; it allocates no temporary (the counter runs on across the whole statement).
A guarded bind used as a value (`(:= x (if c v))`, `(:= x (!if c v))`, `(:= x (ewma a v))` inside an
expression) runs its two operands left to right, then the in-place instruction on the register of `x`, and
*is* that register; no temporary either (what `lowerCond` does at statement level, from the running counter).
Pure expressions never reach those cases. -/
def lowerE (ρ : Rho) : Expr → Nat → Option LE
  | .atom (.bool b), k => some ⟨[], vImmBool b, k⟩
  | .atom (.num n), k => some ⟨[], vImmNum n, k⟩
  | .atom (.name x), k => (ρ x).map fun r => ⟨[], r, k⟩
  | .sexp .bind (.atom (.name x)) (.sexp .if a b), k =>
    match ρ x, lowerE ρ a k with
    | some rx, some ca =>
      match lowerE ρ b ca.k with
      | some cb => some ⟨ca.instrs ++ cb.instrs ++ [⟨7, rx, ca.reg, cb.reg⟩], rx, cb.k⟩
      | none => none
    | _, _ => none
  | .sexp .bind (.atom (.name x)) (.sexp .notIf a b), k =>
    match ρ x, lowerE ρ a k with
    | some rx, some ca =>
      match lowerE ρ b ca.k with
      | some cb => some ⟨ca.instrs ++ cb.instrs ++ [⟨13, rx, ca.reg, cb.reg⟩], rx, cb.k⟩
      | none => none
    | _, _ => none
  | .sexp .bind (.atom (.name x)) (.sexp .ewma a b), k =>
    match ρ x, lowerE ρ a k with
    | some rx, some ca =>
      match lowerE ρ b ca.k with
      | some cb => some ⟨ca.instrs ++ cb.instrs ++ [⟨5, rx, ca.reg, cb.reg⟩], rx, cb.k⟩
      | none => none
    | _, _ => none
  | .sexp .bind (.atom (.name x)) r, k =>
    match ρ x, lowerE ρ r k with
    | some rx, some cr => some ⟨cr.instrs ++ [⟨1, rx, rx, cr.reg⟩], rx, cr.k⟩
    | _, _ => none
  | .sexp o l r, k =>
    match pureOpcode o, lowerE ρ l k with
    | some code, some cl =>
      match lowerE ρ r cl.k with
      | some cr => some ⟨cl.instrs ++ cr.instrs ++ [⟨code, vTmp cr.k, cl.reg, cr.reg⟩], vTmp cr.k, cr.k + 1⟩
      | none => none
    | _, _ => none
  | _, _ => none

/-- a conditional / ewma statement `(:= x (op a b))`: operands, then the in-place instruction on `x` -/
def lowerCond (ρ : Rho) (code : Nat) (x : Name) (a b : Expr) : Option (List VInstr) :=
  match ρ x, lowerE ρ a 0 with
  | some tx, some ca =>
    match lowerE ρ b ca.k with
    | some cb => some (ca.instrs ++ cb.instrs ++ [⟨code, tx, ca.reg, cb.reg⟩])
    | none => none
  | _, _ => none

/-- statements (temporaries restart at 0 for each); a bare operator expression is its code, the result temporary
is not used (`lowerE` is `none` on a node that is neither a bind to a name nor a pure operator) -/
def lowerStmt (ρ : Rho) : Expr → Option (List VInstr)
  | .none => some []
  | .sexp .bind (.atom (.name x)) (.sexp .if c v) => lowerCond ρ 7 x c v
  | .sexp .bind (.atom (.name x)) (.sexp .notIf c v) => lowerCond ρ 13 x c v
  | .sexp .bind (.atom (.name x)) (.sexp .ewma a v) => lowerCond ρ 5 x a v
  | .sexp .bind (.atom (.name x)) e =>
    match ρ x, lowerE ρ e 0 with
    | some tx, some ce => some (ce.instrs ++ [⟨1, tx, tx, ce.reg⟩])
    | _, _ => none
  | .sexp o l r => (lowerE ρ (.sexp o l r) 0).map (·.instrs)
  | _ => none

def lowerBody (ρ : Rho) : List Expr → Option (List VInstr)
  | [] => some []
  | e :: rest =>
    match lowerStmt ρ e, lowerBody ρ rest with
    | some a, some b => some (a ++ b)
    | _, _ => none

def setLastRet (is : List VInstr) (r : VReg) : List VInstr :=
  match is.reverse with
  | [] => []
  | l :: rest => (({ l with ret := r }) :: rest).reverse

/-- the condition block: an operator expression writes the event flag with its last instruction,
a literal is bound to it -/
def lowerFlag (ρ : Rho) (e : Expr) : Option (List VInstr) :=
  match lowerE ρ e 0 with
  | some c =>
    if c.reg.cls = 7 then (if c.instrs.isEmpty then none else some (setLastRet c.instrs vFlag))
    else if c.reg.cls = 1 then some (c.instrs ++ [⟨1, vFlag, vFlag, c.reg⟩])
    else none
  | none => none

structure LP where
  exprs : List Libccp.Expr
  instrs : List VInstr
deriving Repr, DecidableEq, Inhabited

def lowerEvents (ρ : Rho) : List Event → Nat → Option LP
  | [], _ => some ⟨[], []⟩
  | ev :: rest, idx =>
    match lowerFlag ρ ev.flag, lowerBody ρ ev.body with
    | some fi, some bi =>
      match lowerEvents ρ rest (idx + fi.length + bi.length) with
      | some tail =>
        some ⟨{ condStart := idx, numCond := fi.length, eventStart := idx + fi.length, numEvent := bi.length }
                :: tail.exprs, fi ++ bi ++ tail.instrs⟩
      | none => none
    | _, _ => none

/-- the whole program: the DEF preamble `defs` (one per declared variable with a literal initial
value, in register-file order) followed by the events -/
def lowerProg (ρ : Rho) (defs : List VInstr) (evs : List Event) : Option LP :=
  (lowerEvents ρ evs defs.length).map fun lp => ⟨lp.exprs, defs ++ lp.instrs⟩

end Portus.Lang
