import PortusModel.Lang.Scope
import PortusModel.Lang.Serialize
import PortusModel.Base.Utf8
/-!
# `compile_expr`, `Bin::compile_prog`, `lang::compile`, `compile_and_serialize`
(`src/lang/datapath.rs`, `src/lang/mod.rs`), repaired code (F7). Every `unreachable!`, `unwrap`
and `assert_eq!` of the source is kept as a panic.
-/
namespace Portus.Lang
open Portus

def isNumTy : Ty → Bool
  | .num _ => true
  | _ => false

def isBoolTy : Ty → Bool
  | .bool _ => true
  | _ => false

/-- set the result register of the last instruction (`instrs.last_mut()`) -/
def setLastRes (is : List Instr) (r : Reg) : List Instr :=
  match is.reverse with
  | [] => []
  | l :: rest => (({ l with res := r }) :: rest).reverse

structure CE where
  instrs : List Instr
  reg : Reg
  sc : Scope
deriving Repr, DecidableEq, Inhabited

def isRC : Reg → Bool
  | .report .. => true
  | .control .. => true
  | _ => false

def isTIL : Reg → Bool
  | .tmp .. => true
  | .implicit .. => true
  | .local .. => true
  | _ => false

/-- first step of the `Op::Bind` arm: a left register whose recorded type is still a name gets the
type of the right-hand side (`scope.update_type(&s, &right_type)?`) unless that type is itself a name -/
def bindTarget (left right : Reg) (sc : Scope) : Out (Reg × Scope) :=
  match left.getType with
  | .name s =>
    match right.getType with
    | .name _ => .ok (left, sc)          -- an untyped right-hand side has no type to give (fix F11)
    | t => sc.updateType s t
  | _ => .ok (left, sc)

/-- second step: the `match (&left, &right)` -/
def bindEmit (instrs : List Instr) (left right : Reg) (sc : Scope) : Out CE :=
  if right = .none then
    if isRC left then
      match instrs.getLast? with
      | none => unreachableP
      | some last => if last.res = .none then .ok ⟨setLastRes instrs left, left, sc⟩ else .panic
    else .err
  else if isRC left || isTIL left then
    .ok ⟨instrs ++ [{ res := left, op := .bind, left := left, right := right }], left, sc⟩
  else .err

/-- the `Op::Bind` arm of `compile_expr`, after both operands have been compiled -/
def combineBind (instrs : List Instr) (left right : Reg) (sc : Scope) : Out CE :=
  match bindTarget left right sc with
  | .ok (left', sc') => bindEmit instrs left' right sc'
  | .err => .err
  | .panic => .panic

/-- the `match *o` of `compile_expr`, after both operands have been compiled -/
def combine (o : Op) (instrs : List Instr) (left right : Reg) (sc : Scope) : Out CE :=
  match o with
  | .add | .div | .max | .maxWrap | .min | .mul | .sub =>
    if !isNumTy left.getType then .err
    else if !isNumTy right.getType then .err
    else
      let (res, sc') := sc.newTmp (.num none)
      .ok ⟨instrs ++ [{ res := res, op := o, left := left, right := right }], res, sc'⟩
  | .and | .or =>
    if !isBoolTy left.getType then .err
    else if !isBoolTy right.getType then .err
    else
      let (res, sc') := sc.newTmp (.bool none)
      let o' := if o = .and then Op.mul else Op.add
      .ok ⟨instrs ++ [{ res := res, op := o', left := left, right := right }], res, sc'⟩
  | .equiv | .gt | .lt =>
    if !isNumTy left.getType then .err
    else if !isNumTy right.getType then .err
    else
      let (res, sc') := sc.newTmp (.bool none)
      .ok ⟨instrs ++ [{ res := res, op := o, left := left, right := right }], res, sc'⟩
  | .bind => combineBind instrs left right sc
  | .ewma | .if | .notIf =>
    if left = .none ∨ right = .none then .err
    else .ok ⟨instrs ++ [{ res := .none, op := o, left := left, right := right }], .none, sc⟩
  | .def => unreachableP

/-- `compile_expr` on an atom -/
def compileAtom (p : Prim) (sc : Scope) : Out CE :=
  match p with
  | .bool b => .ok ⟨[], .immBool b, sc⟩
  | .name n =>
    match sc.get n with
    | some r => .ok ⟨[], r, sc⟩
    | none =>
      if sc.numLocal = 255 then .err
      else do
        let (r, sc') ← sc.newLocal n (.name n)
        pure ⟨[], r, sc'⟩
  | .num n => .ok ⟨[], .immNum n, sc⟩

/-- `compile_expr` (structural recursion on the expression): left operand first, then right -/
def compileExpr : Expr → Scope → Out CE
  | .atom p, sc => compileAtom p sc
  | .cmd _, _ => .err
  | .none, _ => .err
  | .sexp o le re, sc => do
    let l ← compileExpr le sc
    let r ← compileExpr re l.sc
    combine o (l.instrs ++ r.instrs) l.reg r.reg r.sc

/-- the flag block of one event -/
def compileFlag (flag : Expr) (sc : Scope) : Out (List Instr × Scope) := do
  let c ← compileExpr flag sc.clearTmps
  let flagReg ← unwrapP (c.sc.get "__eventFlag".toList)
  match c.reg with
  | .tmp _ (.bool _) =>
    if c.instrs.isEmpty then .err else pure (setLastRes c.instrs flagReg, c.sc)
  | .immBool _ =>
    pure (c.instrs ++ [{ res := flagReg, op := .bind, left := flagReg, right := c.reg }], c.sc)
  | _ => .err

/-- the body: comments skipped, each statement compiled with fresh temporaries; a statement whose
value is an unbound placeholder (`Reg::None`) is an error -/
def compileBody : List Expr → Scope → Out (List Instr × Scope)
  | [], sc => .ok ([], sc)
  | e :: rest, sc =>
    if e = .none then compileBody rest sc
    else do
      let c ← compileExpr e sc.clearTmps
      if c.reg = .none then .err
      else do
        let (is, sc') ← compileBody rest c.sc
        pure (c.instrs ++ is, sc')

structure CP where
  events : List EvRec
  instrs : List Instr
  sc : Scope
deriving Repr, DecidableEq, Inhabited

def compileEvents : List Event → Nat → Scope → Out CP
  | [], _, sc => .ok ⟨[], [], sc⟩
  | ev :: rest, idx, sc => do
    let (fi, sc1) ← compileFlag ev.flag sc
    let (bi, sc2) ← compileBody ev.body sc1
    let rec_ : EvRec := { flagIdx := idx, numFlag := fi.length, bodyIdx := idx + fi.length, numBody := bi.length }
    let tail ← compileEvents rest (idx + fi.length + bi.length) sc2
    pure ⟨rec_ :: tail.events, fi ++ bi ++ tail.instrs, tail.sc⟩

/-- `Bin::compile_prog` -/
def compileProg (evs : List Event) (sc : Scope) : Out (Bin × Scope) := do
  let ds := defInstrs sc.named
  let cp ← compileEvents evs ds.length sc
  pure ({ events := cp.events, instrs := ds ++ cp.instrs }, cp.sc)

/-- the compile-time overrides of `lang::compile`: failures are printed and ignored -/
def applyUpdates (sc : Scope) : List (Name × Nat) → Scope
  | [] => sc
  | (n, v) :: rest =>
    match sc.updateType n (.num (some v)) with
    | .ok (_, sc') => applyUpdates sc' rest
    | _ => applyUpdates sc rest

/-- `Prog::new_with_scope` on decoded source -/
def newWithScope (uid : Nat) (src : List Char) : Out (List Event × Scope) :=
  match parseSource src with
  | none => .err
  | some (ds, evs) => do
    let sc ← declareAll (Scope.new uid) ds
    pure (evs, sc)

/-- `lang::compile` on decoded source -/
def compile (uid : Nat) (src : List Char) (upd : List (Name × Nat)) : Out (Bin × Scope) := do
  let (evs, sc) ← newWithScope uid src
  compileProg evs (applyUpdates sc upd)

/-- `compile_and_serialize` on decoded source -/
def compileAndSerialize (uid : Nat) (src : List Char) (upd : List (Name × Nat)) : Out (Bytes × Scope) := do
  let (bin, sc) ← compile uid src upd
  let b ← bin.serialize
  pure (b, sc)

/-- `compile_and_serialize(src: &[u8], …)`: `str::from_utf8` first -/
def compileAndSerializeBytes (uid : Nat) (src : Bytes) (upd : List (Name × Nat)) : Out (Bytes × Scope) :=
  match utf8Decode src with
  | none => .err
  | some cps => compileAndSerialize uid (cps.map Char.ofNat) upd

end Portus.Lang
