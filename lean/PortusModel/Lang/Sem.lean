import PortusModel.Lang.Parse
import PortusModel.Vm.Machine
/-!
# Source-level semantics of datapath programs (DESIGN Appendix A)

An evaluator over variable *names* — no registers, no temporaries, no instruction order: what the
documentation (`lang/mod.rs`, `ast.rs` comments) says a program means. It shares only the ALU
(`Vm.alu`, `Vm.ewma`: the datapath's arithmetic and fault rules, a parameter of the correctness
statement) and the primitive read (`Vm.readPrim`) with the machine model.
-/
namespace Portus.Lang.Sem
open Portus Portus.Lang Portus.Vm

structure SrcState where
  /-- declared report/control variables and locals, by name; an unwritten local reads 0 -/
  vars : List (Name × Val)
  /-- origin of `Micros` -/
  t0 : Val
  ev : Val
  cont : Val
  rep : Val
  micros : Val
  cwnd : Val
  rate : Val
deriving Repr, DecidableEq, Inhabited

def primIndex (x : Name) : Option Nat :=
  ["Ack.bytes_acked", "Ack.bytes_misordered", "Ack.ecn_bytes", "Ack.ecn_packets", "Ack.lost_pkts_sample",
   "Ack.now", "Ack.packets_acked", "Ack.packets_misordered", "Flow.bytes_in_flight", "Flow.bytes_pending",
   "Flow.packets_in_flight", "Flow.rate_incoming", "Flow.rate_outgoing", "Flow.rtt_sample_us",
   "Flow.was_timeout"].findIdx? (·.toList = x)

def lookupVar (vars : List (Name × Val)) (x : Name) : Val :=
  match vars.find? (·.1 = x) with
  | some p => p.2
  | none => 0

def setVar (vars : List (Name × Val)) (x : Name) (v : Val) : List (Name × Val) :=
  if vars.any (·.1 = x) then vars.map fun p => if p.1 = x then (x, v) else p else vars ++ [(x, v)]

def read (env : Env) (s : SrcState) (x : Name) : Val :=
  if x = "Micros".toList then s.micros
  else if x = "Cwnd".toList then s.cwnd
  else if x = "Rate".toList then s.rate
  else if x = "__eventFlag".toList then s.ev
  else if x = "__shouldContinue".toList then s.cont
  else if x = "__shouldReport".toList then s.rep
  else match primIndex x with
    | some i => readPrim env i
    | none => lookupVar s.vars x

/-- `none`: the name is not assignable (a primitive) -/
def write (env : Env) (s : SrcState) (x : Name) (v : Val) : Option SrcState :=
  if x = "Micros".toList then some { s with micros := v, t0 := env.now - v }
  else if x = "Cwnd".toList then some { s with cwnd := v }
  else if x = "Rate".toList then some { s with rate := v }
  else if x = "__eventFlag".toList then some { s with ev := v }
  else if x = "__shouldContinue".toList then some { s with cont := v }
  else if x = "__shouldReport".toList then some { s with rep := v }
  else if (primIndex x).isSome then none
  else some { s with vars := setVar s.vars x v }

/-- value of a literal as the datapath can hold it: `n < 2^31` as itself, `+infinity` as all-ones -/
def immVal (n : Nat) : Val := if n = 2^64 - 1 then U32MAX else UInt64.ofNat n

inductive Res where
  | ok (s : SrcState) (v : Val)
  /-- arithmetic fault: the state holds the writes made before it -/
  | fault (s : SrcState) (rc : Int)
  /-- the expression has no meaning (the compiler rejects it) -/
  | notDenoted
  /-- `&&`/`||` met an operand that is not a truth value: outside the fragment the documentation defines -/
  | outside
deriving Repr, DecidableEq, Inhabited

def opCode : Op → Nat
  | .add => 0 | .div => 3 | .equiv => 4 | .gt => 6 | .lt => 8 | .max => 9 | .maxWrap => 10
  | .min => 11 | .mul => 12 | .sub => 14 | _ => 99

/-- eager, left-to-right evaluation -/
def evalE (env : Env) : SrcState → Expr → Res
  | s, .atom (.bool b) => .ok s (if b then 1 else 0)
  | s, .atom (.num n) => .ok s (immVal n)
  | s, .atom (.name x) => .ok s (read env s x)
  | s, .sexp .bind (.atom (.name x)) (.sexp .if c v) =>
    match evalE env s c with
    | .ok s1 cv =>
      match evalE env s1 v with
      | .ok s2 vv =>
        if cv != 0 then (match write env s2 x vv with | some s3 => .ok s3 (read env s3 x) | none => .notDenoted)
        else .ok s2 (read env s2 x)
      | r => r
    | r => r
  | s, .sexp .bind (.atom (.name x)) (.sexp .notIf c v) =>
    match evalE env s c with
    | .ok s1 cv =>
      match evalE env s1 v with
      | .ok s2 vv =>
        if cv == 0 then (match write env s2 x vv with | some s3 => .ok s3 (read env s3 x) | none => .notDenoted)
        else .ok s2 (read env s2 x)
      | r => r
    | r => r
  | s, .sexp .bind (.atom (.name x)) (.sexp .ewma a v) =>
    match evalE env s a with
    | .ok s1 av =>
      match evalE env s1 v with
      | .ok s2 vv =>
        (match write env s2 x (ewma av (read env s2 x) vv) with
         | some s3 => .ok s3 (read env s3 x) | none => .notDenoted)
      | r => r
    | r => r
  | s, .sexp .bind (.atom (.name x)) r =>
    match evalE env s r with
    | .ok s1 v => (match write env s1 x v with | some s2 => .ok s2 v | none => .notDenoted)
    | r => r
  | s, .sexp .and l r =>
    match evalE env s l with
    | .ok s1 a =>
      match evalE env s1 r with
      | .ok s2 b => if (a == 0 || a == 1) && (b == 0 || b == 1) then .ok s2 (if a != 0 && b != 0 then 1 else 0) else .outside
      | x => x
    | x => x
  | s, .sexp .or l r =>
    match evalE env s l with
    | .ok s1 a =>
      match evalE env s1 r with
      | .ok s2 b =>
        if (a == 0 || a == 1) && (b == 0 || b == 1) && !(a == 1 && b == 1)
        then .ok s2 (if a != 0 || b != 0 then 1 else 0) else .outside
      | x => x
    | x => x
  | s, .sexp o l r =>
    if opCode o = 99 then .notDenoted else
    match evalE env s l with
    | .ok s1 a =>
      match evalE env s1 r with
      | .ok s2 b =>
        match alu (opCode o) a b with
        | (some v, _) => .ok s2 v
        | (none, rc) => .fault s2 rc
      | x => x
    | x => x
  | _, _ => .notDenoted

/-- body statements in order; a fault stops everything -/
def evalStmts (env : Env) : SrcState → List Expr → Res
  | s, [] => .ok s 0
  | s, .none :: rest => evalStmts env s rest
  | s, e :: rest =>
    match evalE env s e with
    | .ok s' _ => evalStmts env s' rest
    | r => r

/-- events in source order: the first true event ends the invocation unless it requested fallthrough -/
def evalEvents (env : Env) : SrcState → List Event → Res
  | s, [] => .ok s 0
  | s, ev :: rest =>
    match evalE env s ev.flag with
    | .ok s1 c =>
      let s1 := { s1 with ev := c }
      if c != 0 then
        match evalStmts env s1 ev.body with
        | .ok s2 _ => if s2.cont == 0 then .ok s2 0 else evalEvents env s2 rest
        | r => r
      else evalEvents env s1 rest
    | r => r

/-- a declared variable with its literal initial value -/
structure VarDecl where
  name : Name
  isReport : Bool
  vol : Bool
  init : Val
deriving Repr, DecidableEq, Inhabited

inductive InvObs where
  | fault (rc : Int)
  | done (setCwnd setRate : Option Val) (report : Option (List Val))
  | outside
deriving Repr, DecidableEq, Inhabited

/-- one invocation: clear flags, load `Cwnd`/`Rate`/`Micros`, run the events, then settings and report -/
def invoke (decls : List VarDecl) (evs : List Event) (env : Env) (s : SrcState) : SrcState × InvObs :=
  let s := { s with ev := 0, cont := 0, rep := 0, cwnd := env.prims.sndCwnd.toUInt32.toUInt64, rate := env.prims.sndRate,
                    micros := env.now - s.t0 }
  match evalEvents env s evs with
  | .fault s' rc => (s', .fault rc)
  | .notDenoted => (s, .outside)
  | .outside => (s, .outside)
  | .ok s' _ =>
    let cw := if s'.cwnd > 0 then some s'.cwnd else none
    let rt := if s'.rate != 0 then some s'.rate else none
    if s'.rep != 0 then
      let vals := (decls.filter (·.isReport)).map fun d => lookupVar s'.vars d.name
      let vars := decls.foldl (fun vs d => if d.vol then setVar vs d.name d.init else vs) s'.vars
      ({ s' with vars := vars }, .done cw rt (some vals))
    else (s', .done cw rt none)

/-- the state when the program is switched in at clock `now`: declared variables at their initial
values, `Micros` origin = now; locals are whatever they were (0 on a fresh connection) -/
def initState (decls : List VarDecl) (now : Val) : SrcState :=
  { vars := decls.map fun d => (d.name, d.init), t0 := now, ev := 0, cont := 0, rep := 0,
    micros := 0, cwnd := 0, rate := 0 }

def run (decls : List VarDecl) (evs : List Event) : SrcState → List Env → List InvObs
  | _, [] => []
  | s, env :: rest => let r := invoke decls evs env s; r.2 :: run decls evs r.1 rest

end Portus.Lang.Sem
