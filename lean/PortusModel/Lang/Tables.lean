import PortusModel.Lang.Ast
/-!
# The shape of the closed tables the translator `tools/extract_tables.py` fills in from the sources
(`Generated/Tables.lean`), and the same tables as the hand-written model uses them.
-/
namespace Portus.Lang

/-- `impl IntoIterator for Reg` (`src/lang/serialize.rs`): the class byte of each register class and the
largest index the encoder accepts; an immediate number is accepted iff it is `u64::MAX` or `< 2^immNumLog`. -/
structure RegEnc where
  ctlNonvol : Nat
  ctlVol : Nat
  ctlMax : Nat
  immBool : Nat
  immNum : Nat
  immNumLog : Nat
  impl : Nat
  implMax : Nat
  loc : Nat
  locMax : Nat
  prim : Nat
  primMax : Nat
  repVol : Nat
  repNonvol : Nat
  repMax : Nat
  tmp : Nat
  tmpMax : Nat
  /-- the `Reg::None` arm is `unreachable!()` -/
  noneUnreachable : Bool
  /-- a register is one class byte followed by the index as a little-endian `u32` -/
  layout5 : Bool
deriving Repr, DecidableEq, Inhabited

/-- `Datapath::set_program` / `update_field` (`src/lib.rs`): names with the reserved prefix are refused; a control register resolves
to itself, an implicit register only at the listed indices, everything else is refused; the requested value is passed on
(`u64::from(new_value)`); both entry points use the same closure -/
structure UpdFilter where
  recognised : Bool
  sameInBoth : Bool
  reservedPrefix : String
  implicitOk : List Nat
deriving Repr, DecidableEq, Inhabited

/-- `Report::get_field` (`src/lib.rs`): the uid comparison comes first (`staleErr`), then the scope lookup (`notFoundErr`), the
register class (`wrongClassErr`), the bound `idx >= fields.len()` (`shortErr`) -/
structure GfTable where
  recognised : Bool
  staleErr : String
  boundIsGe : Bool
  shortErr : String
  wrongClassErr : String
  notFoundErr : String
deriving Repr, DecidableEq, Inhabited

end Portus.Lang
