import PortusModel.Lang.Ast
/-!
# The shape of the closed tables the translator `tools/extract_tables.py` fills in from the sources
(`Generated/Tables.lean`), and the same tables as the hand-written model uses them.
-/
namespace Portus.Lang

/-- `impl IntoIterator for Reg` (`src/lang/serialize.rs`): the class byte of each register class and the
largest index the encoder accepts; an immediate number is accepted iff it is `u64::MAX` or `< 2^immNumLog`. -/
structure RegEnc where
  ctlNonvol : Nat
  ctlVol : Nat
  ctlMax : Nat
  immBool : Nat
  immNum : Nat
  immNumLog : Nat
  impl : Nat
  implMax : Nat
  loc : Nat
  locMax : Nat
  prim : Nat
  primMax : Nat
  repVol : Nat
  repNonvol : Nat
  repMax : Nat
  tmp : Nat
  tmpMax : Nat
  /-- the `Reg::None` arm is `unreachable!()` -/
  noneUnreachable : Bool
  /-- a register is one class byte followed by the index as a little-endian `u32` -/
  layout5 : Bool
deriving Repr, DecidableEq, Inhabited

end Portus.Lang
