import PortusModel.Lang.Nom
/-!
# The parser (`src/lang/ast.rs`, `src/lang/prog.rs`), repaired code (F9: all-digit names rejected)
-/
namespace Portus.Lang

/-- the `alt` of `ast::op`, in source order -/
def opTable : List (List Char × Op) :=
  [ ("+".toList, .add), ("add".toList, .add), ("&&".toList, .and), ("and".toList, .and),
    (":=".toList, .bind), ("bind".toList, .bind), ("if".toList, .if),
    ("/".toList, .div), ("div".toList, .div), ("==".toList, .equiv), ("eq".toList, .equiv),
    ("ewma".toList, .ewma), (">".toList, .gt), ("gt".toList, .gt), ("<".toList, .lt), ("lt".toList, .lt),
    ("wrapped_max".toList, .maxWrap), ("max".toList, .max), ("min".toList, .min),
    ("*".toList, .mul), ("mul".toList, .mul), ("||".toList, .or), ("or".toList, .or),
    ("!if".toList, .notIf), ("-".toList, .sub), ("sub".toList, .sub) ]

def altTags {α : Type} : List (List Char × α) → Parser α
  | [] => fun _ => none
  | (s, a) :: rest => fun inp =>
    match tag s inp with
    | some (_, r) => some (a, r)
    | none => altTags rest inp

def op : Parser Op := altTags opTable

/-- decimal value of a digit string -/
def digitsVal (ds : List Char) : Nat := ds.foldl (fun acc c => 10 * acc + (c.toNat - 48)) 0

/-- `num`: `digit1` then `str::parse::<u64>` (fails above `u64::MAX`) -/
def num : Parser Nat := fun inp =>
  match digit1 inp with
  | none => none
  | some (ds, rest) => if digitsVal ds < 2^64 then some (digitsVal ds, rest) else none

/-- `is_alphanumeric(u as u8)`: the `char` is truncated to its low byte first -/
def isAlnumLowByte (c : Char) : Bool :=
  let b := c.toNat % 256
  (0x41 ≤ b && b ≤ 0x5A) || (0x61 ≤ b && b ≤ 0x7A) || (0x30 ≤ b && b ≤ 0x39)

def isNameChar (c : Char) : Bool := isAlnumLowByte c || c = '.' || c = '_'

def isAsciiDigit (c : Char) : Bool := '0' ≤ c && c ≤ '9'

/-- `name`: all-digit strings (F9) and names starting with `__` are refused -/
def name : Parser Name := fun inp =>
  match takeWhile1 isNameChar inp with
  | none => none
  | some (s, rest) =>
    if s.all isAsciiDigit then none
    else if "__".toList.isPrefixOf s then none
    else some (s, rest)

/-- `atom` -/
def atom : Parser Expr := fun inp =>
  match tag "true".toList inp with
  | some (_, r) => some (.atom (.bool true), r)
  | none =>
  match tag "false".toList inp with
  | some (_, r) => some (.atom (.bool false), r)
  | none =>
  match tag "+infinity".toList inp with
  | some (_, r) => some (.atom (.num (2^64 - 1)), r)
  | none =>
  match num inp with
  | some (n, r) => some (.atom (.num n), r)
  | none =>
  match name inp with
  | some (s, r) => some (.atom (.name s), r)
  | none => none

/-- `command` -/
def command : Parser Expr := fun inp => do
  let (_, r) ← tag "(".toList inp
  let (_, r) ← ms0 r
  let (c, r) ← altTags [("fallthrough".toList, Command.fallthrough), ("report".toList, Command.report)] r
  let (_, r) ← ms0 r
  let (_, r) ← tag ")".toList r
  pure (.cmd c, r)

/-- `comment` -/
def comment : Parser Expr := fun inp => do
  let (_, r) ← tag "#".toList inp
  let (_, r) ← takeUntilNl r
  pure (.none, r)

/-- `check_expr` -/
def checkExpr (o : Op) (l r : Expr) : Option Expr :=
  match o with
  | .bind => some (.sexp o l r)
  | _ =>
    match l with
    | .sexp .if _ _ => none
    | .sexp .notIf _ _ => none
    | _ => some (.sexp o l r)

/-- `expr` / `sexp`, mutually recursive in Rust; fuelled here (each nesting level consumes a `(`) -/
def expr : Nat → Parser Expr
  | 0 => fun _ => none
  | fuel + 1 => fun inp =>
    let inp := skipSpace inp
    let res : Option (Expr × List Char) :=
      match comment inp with
      | some x => some x
      | none =>
      -- sexp
      match (do
          let (_, r) ← tag "(".toList inp
          let (_, r) ← ms0 r
          let (o, r) ← op r
          let (_, r) ← ms0 r
          let (l, r) ← expr fuel r
          let (_, r) ← ms0 r
          let (rt, r) ← expr fuel r
          let e ← checkExpr o l rt
          let (_, r) ← ms0 r
          let (_, r) ← tag ")".toList r
          pure (e, r) : Option (Expr × List Char)) with
      | some x => some x
      | none =>
      match command inp with
      | some x => some x
      | none => atom inp
    match res with
    | some (e, r) => some (e, skipSpace r)
    | none => none

/-- `many0(p)`/`many1(p)` loop: stop at the first failure; a success that consumes nothing is an
error (nom's infinite-loop guard). Fuelled by the input length. -/
def manyLoop {α : Type} (p : Parser α) : Nat → List Char → List α → Option (List α × List Char)
  | 0, inp, acc => some (acc.reverse, inp)
  | fuel + 1, inp, acc =>
    match p inp with
    | none => some (acc.reverse, inp)
    | some (a, r) => if r.length = inp.length then none else manyLoop p fuel r (a :: acc)

def many0 {α : Type} (p : Parser α) : Parser (List α) := fun inp => manyLoop p (inp.length + 1) inp []

def many1 {α : Type} (p : Parser α) : Parser (List α) := fun inp =>
  match p inp with
  | none => none
  | some (a, r) => manyLoop p (r.length + 1) r [a]

/-- `exprs` -/
def exprs (fuel : Nat) : Parser (List Expr) := many1 (expr fuel)

/-- `check_atom_type` of the initial value, then the `defs` post-processing:
numbers and booleans are kept, anything else (a name) becomes `Type::None` -/
def initTy : Expr → Ty
  | .atom (.bool b) => .bool (some b)
  | .atom (.num n) => .num (some n)
  | _ => .none

/-- a declaration as `new_with_scope` sees it: (volatile, variable name, initial type) -/
structure Decl where
  vol : Bool
  var : Name
  init : Ty
deriving Repr, DecidableEq, Inhabited

/-- `decl` -/
def decl : Parser Decl := fun inp => do
  let (_, r) ← ms0 inp
  let (_, r) ← tag "(".toList r
  let (_, r) ← ms0 r
  let (v, r) : Bool × List Char :=
    match (do let (_, q) ← ms0 r; let (_, q) ← tag "volatile".toList q; let (_, q) ← ms0 q; pure q : Option (List Char)) with
    | some q => (true, q)
    | none => (false, r)
  let (n, r) ← name r
  let (_, r) ← ms0 r
  let (a, r) ← atom r
  let (_, r) ← ms0 r
  let (_, r) ← tag ")".toList r
  let (_, r) ← ms0 r
  pure ({ vol := v, var := n, init := initTy a }, r)

/-- `report_struct` -/
def reportStruct : Parser (List Decl) := fun inp => do
  let (_, r) ← ms0 inp
  let (_, r) ← tag "(".toList r
  let (_, r) ← ms0 r
  let (_, r) ← tag "Report".toList r
  let (ds, r) ← many1 decl r
  let (_, r) ← ms0 r
  let (_, r) ← tag ")".toList r
  let (_, r) ← ms0 r
  pure (ds, r)

/-- `defs`: Report-block entries (prefixed `Report.`) first, then the other declarations -/
def defs : Parser (List Decl) := fun inp => do
  let (_, r) ← ms0 inp
  let (_, r) ← tag "(".toList r
  let (_, r) ← tag "def".toList r
  let (d1, r) ← many0 decl r
  let (rs, r) : List Decl × List Char :=
    match reportStruct r with
    | some (x, q) => (x, q)
    | none => ([], r)
  let (d2, r) ← many0 decl r
  let (_, r) ← tag ")".toList r
  let (_, r) ← ms0 r
  pure (rs.map (fun d => { d with var := "Report.".toList ++ d.var }) ++ d1 ++ d2, r)

/-- `event` -/
def event (fuel : Nat) : Parser Event := fun inp => do
  let (_, r) ← ms0 inp
  let (_, r) ← tag "(".toList r
  let (_, r) ← ms0 r
  let (_, r) ← tag "when".toList r
  let (c, r) ← expr fuel r
  let (b, r) ← exprs fuel r
  let (_, r) ← ms0 r
  let (_, r) ← tag ")".toList r
  let (_, r) ← ms0 r
  pure ({ flag := c, body := b }, r)

/-- `events` -/
def events (fuel : Nat) : Parser (List Event) :=
  many1 fun inp => do
    let (_, r) ← ms0 inp
    let r := match comment r with
      | some (_, q) => q
      | none => r
    let (e, r) ← event fuel r
    let (_, r) ← ms0 r
    pure (e, r)

/-- `Expr::desugar` -/
def desugar : Expr → Expr
  | .cmd .fallthrough => .sexp .bind (.atom (.name "__shouldContinue".toList)) (.atom (.bool true))
  | .cmd .report => .sexp .bind (.atom (.name "__shouldReport".toList)) (.atom (.bool true))
  | .sexp o l r => .sexp o (desugar l) (desugar r)
  | e => e

/-- the syntactic part of `Prog::new_with_scope`: declarations and desugared events, or `none` -/
def parseSource (src : List Char) : Option (List Decl × List Event) := do
  let (ds, rest) ← defs src
  let fuel := src.length + 1
  let (evs, rest') ← events fuel rest
  if !rest'.isEmpty then none
  pure (ds, evs.map fun e => { e with body := e.body.map desugar })

end Portus.Lang
