import PortusModel.Lang.Parse
/-!
# The rendering relation: "this character list is a layout of this syntax tree"

Used by `Lemmas/ParseRender.lean` (C20, second part): every rendering of an abstract program parses
back to that program, whatever the whitespace, the operator spellings, the numeral spellings and the
comments that were chosen.

All layout choices are existentially free in the constructors:

* `Ws w`     : `w` is a (possibly empty) run of space / tab / CR / LF;
* operators  : any spelling of `opTable`;
* numbers    : any non-empty ASCII digit string of the right value (leading zeros allowed), or
               `+infinity` for `2^64 - 1`;
* comments   : `#`, any text without a newline, the newline.

The texts in the constructor indices are right-nested (`a ++ (b ++ (c ++ …))`), which is the normal form
of `simp only [List.append_assoc, List.cons_append]`.

Restrictions (each one forced by a parser quirk, see the constructor doc-strings):

* R1 names are ASCII, do not start with a digit, with `__`, with `true` or with `false`;
* R2 declared names moreover do not start with `volatile`;
* R3 two adjacent atoms are separated by at least one whitespace character (everywhere else the
     whitespace may be empty);
* R4 statements of an event body are s-expressions, commands or comments (not bare atoms);
* R5 a comment always includes its terminating newline (`take_until("\n")` fails at end of input),
     also when it is the last item of a body or directly in front of a `)`;
* R6 `(def` is written without whitespace between `(` and `def`, and whitespace inside the
     definition block belongs to a declaration or to the Report block — so the empty block is exactly
     `(def)`: the real parser rejects `(def )`;
* R7 the initial value of a declaration is a boolean or a number (documented language).
-/
namespace Portus.Lang

/-! ## Whitespace and token boundaries -/

/-- a run of whitespace characters (nom `multispace0`: space, tab, CR, LF), possibly empty -/
def Ws (w : List Char) : Prop := w.all isSpace = true

instance (w : List Char) : Decidable (Ws w) := inferInstanceAs (Decidable (_ = true))

/-- a non-empty run of whitespace -/
def Ws1 (w : List Char) : Prop := Ws w ∧ w ≠ []

instance (w : List Char) : Decidable (Ws1 w) := inferInstanceAs (Decidable (_ ∧ _))

def noNameHead : List Char → Bool
  | [] => true
  | c :: _ => !isNameChar c

/-- the text is empty or starts with a character that cannot continue a name or a number -/
def NoNameHead (l : List Char) : Prop := noNameHead l = true

instance (l : List Char) : Decidable (NoNameHead l) := inferInstanceAs (Decidable (_ = true))

/-! ## Names -/

/-- R1. A name of the documented language: non-empty; letters, digits, `.` and `_` only, all ASCII
(the parser's `is_alphanumeric(c as u8)` truncates a `char` to its low byte: outside ASCII the set of
"name characters" is an artefact); the first character is not a digit (`atom` tries `num` first: `1x`
is split into `1` and `x`); does not start with `__` (refused by `name`); does not start with `true`
or `false` (`atom` tries these tags first: `truex` is split into `true` and `x`). -/
def docName (x : Name) : Bool :=
  !x.isEmpty && x.all (fun c => isNameChar c && decide (c.toNat < 128)) &&
  (match x with | c :: _ => !isAsciiDigit c | [] => true) &&
  !"__".toList.isPrefixOf x && !"true".toList.isPrefixOf x && !"false".toList.isPrefixOf x

def DocName (x : Name) : Prop := docName x = true

instance (x : Name) : Decidable (DocName x) := inferInstanceAs (Decidable (_ = true))

/-- R2. A declared variable name: a `DocName` that does not start with `volatile`
(`decl` tries the tag `volatile` first: `(volatilex 0)` declares a volatile `x`). -/
def DeclName (x : Name) : Prop := DocName x ∧ "volatile".toList.isPrefixOf x = false

instance (x : Name) : Decidable (DeclName x) := inferInstanceAs (Decidable (_ ∧ _))

/-! ## Atoms, operators -/

/-- spellings of an atom -/
inductive RAtom : Prim → List Char → Prop
  | tt : RAtom (.bool true) "true".toList
  | ff : RAtom (.bool false) "false".toList
  | name {x : Name} (hx : DocName x) : RAtom (.name x) x
  /-- any non-empty ASCII digit string (leading zeros allowed) whose value fits a `u64` -/
  | num {ds : List Char} (hne : ds ≠ []) (hd : ∀ c ∈ ds, isAsciiDigit c = true)
      (hlt : digitsVal ds < 2^64) : RAtom (.num (digitsVal ds)) ds
  | inf : RAtom (.num (2^64 - 1)) "+infinity".toList

/-- spellings of an operator: every entry of the parser's table (both spellings where there are two) -/
def ROp (o : Op) (t : List Char) : Prop := (t, o) ∈ opTable

instance (o : Op) (t : List Char) : Decidable (ROp o t) := inferInstanceAs (Decidable (_ ∈ _))

def cmdText : Command → List Char
  | .fallthrough => "fallthrough".toList
  | .report => "report".toList

def isAtomE : Expr → Bool
  | .atom _ => true
  | _ => false

/-- the left operands refused by `check_expr` under any operator but `:=` -/
def isIfE : Expr → Bool
  | .sexp .if _ _ => true
  | .sexp .notIf _ _ => true
  | _ => false

/-! ## Expressions -/

/-- layouts of an expression (no leading or trailing whitespace: that belongs to the context).

`sexp`: `( w0 op w1 l w2 r w3 )`. `w0`, `w1`, `w3` are arbitrary whitespace, possibly empty (no operator
spelling is a prefix of what may follow it: `spelling_table` holds for every continuation). R3: `w2` may be
empty only if one of the operands is parenthesised (`hsep`). `hck` is `check_expr`: an `if`/`!if` may be
a left operand of `:=` only. -/
inductive RExpr : Expr → List Char → Prop
  | atom {p : Prim} {t : List Char} (h : RAtom p t) : RExpr (.atom p) t
  | cmd (c : Command) {w1 w2 : List Char} (h1 : Ws w1) (h2 : Ws w2) :
      RExpr (.cmd c) ('(' :: (w1 ++ (cmdText c ++ (w2 ++ [')']))))
  | sexp {o : Op} {l r : Expr} {ot w0 w1 tl w2 tr w3 : List Char}
      (ho : ROp o ot) (h0 : Ws w0) (h1 : Ws w1) (hl : RExpr l tl)
      (h2 : Ws w2) (hsep : w2 ≠ [] ∨ isAtomE l = false ∨ isAtomE r = false)
      (hr : RExpr r tr) (h3 : Ws w3) (hck : o = .bind ∨ isIfE l = false) :
      RExpr (.sexp o l r) ('(' :: (w0 ++ (ot ++ (w1 ++ (tl ++ (w2 ++ (tr ++ (w3 ++ [')']))))))))

/-! ## Event bodies -/

/-- `# text \n` -/
def commentLine (text : List Char) : List Char := '#' :: (text ++ ['\n'])

/-- an item of an event body. R4: a statement is an s-expression or a command (a bare atom is not a
statement of the documented language, and it would need a separator). R5: a comment contributes
`Expr.none` and always carries its newline (`take_until("\n")` needs it; the newline itself is then
eaten as whitespace). -/
inductive RItem : Expr → List Char → Prop
  | stmt {e : Expr} {t : List Char} (h : RExpr e t) (hn : isAtomE e = false) : RItem e t
  | comment {text : List Char} (h : ∀ c ∈ text, c ≠ '\n') : RItem .none (commentLine text)

/-- a non-empty sequence of items separated by arbitrary (possibly empty) whitespace: every item starts
with `(` or `#` and ends with `)` or a newline, so juxtaposition is unambiguous -/
inductive RStmts : List Expr → List Char → Prop
  | one {e : Expr} {t : List Char} (h : RItem e t) : RStmts [e] t
  | cons {e : Expr} {es : List Expr} {t w ts : List Char} (h : RItem e t) (hw : Ws w)
      (hs : RStmts es ts) : RStmts (e :: es) (t ++ (w ++ ts))

/-! ## Events -/

/-- `w0 ( w1 when w2 cond w3 body w4 ) w5`, all whitespace runs possibly empty (the body starts with `(`
or `#`, so even an atomic condition needs no separator; `whentrue` is accepted by the parser) -/
inductive REvent : Event → List Char → Prop
  | mk {c : Expr} {b : List Expr} {w0 w1 w2 tc w3 tb w4 w5 : List Char}
      (h0 : Ws w0) (h1 : Ws w1) (h2 : Ws w2) (hc : RExpr c tc) (h3 : Ws w3) (hb : RStmts b tb)
      (h4 : Ws w4) (h5 : Ws w5) :
      REvent ⟨c, b⟩
        (w0 ++ ('(' :: (w1 ++ ("when".toList ++ (w2 ++ (tc ++ (w3 ++ (tb ++ (w4 ++ (')' :: w5))))))))))

/-- an event, optionally preceded by one comment line (R5: with its newline) -/
inductive REvItem : Event → List Char → Prop
  | plain {e : Event} {t : List Char} (h : REvent e t) : REvItem e t
  | commented {e : Event} {w text t : List Char} (hw : Ws w) (htx : ∀ c ∈ text, c ≠ '\n')
      (h : REvent e t) : REvItem e (w ++ (commentLine text ++ t))

/-- one or more events -/
inductive REvents : List Event → List Char → Prop
  | one {e : Event} {t : List Char} (h : REvItem e t) : REvents [e] t
  | cons {e : Event} {es : List Event} {t ts : List Char} (h : REvItem e t) (hs : REvents es ts) :
      REvents (e :: es) (t ++ ts)

/-! ## Definitions -/

def isNamePrim : Prim → Bool
  | .name _ => true
  | _ => false

/-- the optional `volatile` marker and the whitespace after it -/
def volText (v : Bool) (w : List Char) : List Char := if v then "volatile".toList ++ w else []

/-- `w0 ( w1 [volatile w2] x w3 init w4 ) w5`. R2 on the name, R7 on the initial value (`hp`),
R3: `w3` may be empty only in front of `+infinity` (`hsep`). -/
inductive RDecl : Decl → List Char → Prop
  | mk (v : Bool) {x : Name} {p : Prim} {w0 w1 w2 w3 ta w4 w5 : List Char}
      (h0 : Ws w0) (h1 : Ws w1) (h2 : Ws w2) (hx : DeclName x) (h3 : Ws w3)
      (hp : isNamePrim p = false) (ha : RAtom p ta) (hsep : NoNameHead (w3 ++ ta))
      (h4 : Ws w4) (h5 : Ws w5) :
      RDecl { vol := v, var := x, init := initTy (.atom p) }
        (w0 ++ ('(' :: (w1 ++ (volText v w2 ++ (x ++ (w3 ++ (ta ++ (w4 ++ (')' :: w5)))))))))

inductive RDecls : List Decl → List Char → Prop
  | nil : RDecls [] []
  | cons {d : Decl} {ds : List Decl} {t ts : List Char} (h : RDecl d t) (hs : RDecls ds ts) :
      RDecls (d :: ds) (t ++ ts)

/-- what `defs` does to the entries of the Report block -/
def reportPrefix (d : Decl) : Decl := { d with var := "Report.".toList ++ d.var }

/-- R6. `w0 (def decls ) w1` or `w0 (def decls1 wr0 ( wr1 Report decls+ wr2 ) wr3 decls2 ) w1`;
the declaration list is the one `defs` computes: Report entries (prefixed) first. A legacy declaration
`(Report.x 0)` is an ordinary declaration whose `DocName` contains a dot; a declaration named `Report`
is not excluded (`many0(decl)` reads `(Report 0)` as a declaration, and fails on `(Report (x 0))`
at the inner `(`, which hands the block over to `report_struct`). -/
inductive RDefs : List Decl → List Char → Prop
  | plain {ds : List Decl} {w0 td w1 : List Char} (h0 : Ws w0) (hd : RDecls ds td) (h1 : Ws w1) :
      RDefs ds (w0 ++ ("(def".toList ++ (td ++ (')' :: w1))))
  | report {d1 rs d2 : List Decl} {w0 t1 wr0 wr1 tr wr2 wr3 t2 w1 : List Char}
      (h0 : Ws w0) (hd1 : RDecls d1 t1) (hr0 : Ws wr0) (hr1 : Ws wr1) (hrs : RDecls rs tr)
      (hne : rs ≠ []) (hr2 : Ws wr2) (hr3 : Ws wr3) (hd2 : RDecls d2 t2) (h1 : Ws w1) :
      RDefs (rs.map reportPrefix ++ d1 ++ d2)
        (w0 ++ ("(def".toList ++ (t1 ++ (wr0 ++ ('(' :: (wr1 ++ ("Report".toList ++
          (tr ++ (wr2 ++ (')' :: (wr3 ++ (t2 ++ (')' :: w1)))))))))))))

/-! ## Programs -/

/-- a layout of the program with declarations `ds` and events `evs` (bodies before desugaring, with
`Expr.none` at the comment positions) -/
def RProg (ds : List Decl) (evs : List Event) (text : List Char) : Prop :=
  ∃ t1 t2, RDefs ds t1 ∧ REvents evs t2 ∧ text = t1 ++ t2

end Portus.Lang
