import PortusModel.Lang.Parse
/-!
# `Scope`, `RegFile` (`src/lang/datapath.rs`)
-/
namespace Portus.Lang
open Portus

/-- Rust `String <` : lexicographic by code point (= UTF-8 byte order) -/
def strLt : List Char → List Char → Bool
  | [], [] => false
  | [], _ :: _ => true
  | _ :: _, [] => false
  | a :: as, b :: bs => if a.toNat < b.toNat then true else if a.toNat > b.toNat then false else strLt as bs

/-- `RegFile::insert`: before the first entry whose name is not smaller -/
def regInsert (name : Name) (r : Reg) : List (Name × Reg) → List (Name × Reg)
  | [] => [(name, r)]
  | (s, x) :: rest => if strLt s name then (s, x) :: regInsert name r rest else (name, r) :: (s, x) :: rest

/-- `RegFile::get`: first entry with that name -/
def regGet (name : Name) : List (Name × Reg) → Option Reg
  | [] => none
  | (s, x) :: rest => if s = name then some x else regGet name rest

/-- `RegFile::get_mut` followed by an assignment: replace the first entry with that name -/
def regSet (name : Name) (r : Reg) : List (Name × Reg) → List (Name × Reg)
  | [] => []
  | (s, x) :: rest => if s = name then (s, r) :: rest else (s, x) :: regSet name r rest

structure Scope where
  uid : Nat
  named : List (Name × Reg)
  numControl : Nat
  numLocal : Nat
  numPerm : Nat
  tmp : List Reg
deriving Repr, DecidableEq, Inhabited

def primitiveNames : List (String × Ty) :=
  [ ("Ack.bytes_acked", .num none), ("Ack.bytes_misordered", .num none), ("Ack.ecn_bytes", .num none),
    ("Ack.ecn_packets", .num none), ("Ack.lost_pkts_sample", .num none), ("Ack.now", .num none),
    ("Ack.packets_acked", .num none), ("Ack.packets_misordered", .num none),
    ("Flow.bytes_in_flight", .num none), ("Flow.bytes_pending", .num none),
    ("Flow.packets_in_flight", .num none), ("Flow.rate_incoming", .num none),
    ("Flow.rate_outgoing", .num none), ("Flow.rtt_sample_us", .num none), ("Flow.was_timeout", .bool none) ]

def implicitNames : List (String × Ty) :=
  [ ("__eventFlag", .bool none), ("__shouldContinue", .bool none), ("__shouldReport", .bool none),
    ("Micros", .num none), ("Cwnd", .num none), ("Rate", .num none) ]

def insertIndexed (mk : Nat → Ty → Reg) : List (String × Ty) → Nat → List (Name × Reg) → List (Name × Reg)
  | [], _, acc => acc
  | (n, t) :: rest, i, acc => insertIndexed mk rest (i + 1) (regInsert n.toList (mk i t) acc)

/-- `Scope::new()` with the uid supplied by the caller (`get_next_uid!()`) -/
def Scope.new (uid : Nat) : Scope :=
  { uid := uid,
    named := insertIndexed Reg.implicit implicitNames 0 (insertIndexed Reg.primitive primitiveNames 0 []),
    numControl := 0, numLocal := 0, numPerm := 0, tmp := [] }

def Scope.get (sc : Scope) (n : Name) : Option Reg := regGet n sc.named
def Scope.has (sc : Scope) (n : Name) : Bool := (regGet n sc.named).isSome

/-- `new_tmp`: `id = tmp.len() as u8` -/
def Scope.newTmp (sc : Scope) (t : Ty) : Reg × Scope :=
  let r := Reg.tmp (sc.tmp.length % 256) t
  (r, { sc with tmp := sc.tmp ++ [r] })

/-- `new_report`; `num_perm += 1` on a `u8` -/
def Scope.newReport (sc : Scope) (vol : Bool) (n : Name) (t : Ty) : Out Scope := do
  let np ← incU8P sc.numPerm
  pure { sc with numPerm := np, named := regInsert n (.report sc.numPerm t vol) sc.named }

def Scope.newControl (sc : Scope) (vol : Bool) (n : Name) (t : Ty) : Out Scope := do
  let nc ← incU8P sc.numControl
  pure { sc with numControl := nc, named := regInsert n (.control sc.numControl t vol) sc.named }

def Scope.newLocal (sc : Scope) (n : Name) (t : Ty) : Out (Reg × Scope) := do
  let nl ← incU8P sc.numLocal
  let r := Reg.local sc.numLocal t
  pure (r, { sc with numLocal := nl, named := regInsert n r sc.named })

/-- `update_type`: only report, local and control registers may change their recorded type -/
def Scope.updateType (sc : Scope) (n : Name) (t : Ty) : Out (Reg × Scope) :=
  match regGet n sc.named with
  | none => .err
  | some (.report i _ v) => let r := Reg.report i t v; .ok (r, { sc with named := regSet n r sc.named })
  | some (.local i _) => let r := Reg.local i t; .ok (r, { sc with named := regSet n r sc.named })
  | some (.control i _ v) => let r := Reg.control i t v; .ok (r, { sc with named := regSet n r sc.named })
  | some _ => .err

def Scope.clearTmps (sc : Scope) : Scope := { sc with tmp := [] }

/-- `ScopeDefInstrIter`: one `Def` per report/control register with a literal initial value,
in the order of the (name-sorted) register file -/
def defInstrs : List (Name × Reg) → List Instr
  | [] => []
  | (_, reg) :: rest =>
    match reg with
    | .report _ (.num (some n)) _ => { res := reg, op := .def, left := reg, right := .immNum n } :: defInstrs rest
    | .control _ (.num (some n)) _ => { res := reg, op := .def, left := reg, right := .immNum n } :: defInstrs rest
    | .report _ (.bool (some b)) _ => { res := reg, op := .def, left := reg, right := .immBool b } :: defInstrs rest
    | .control _ (.bool (some b)) _ => { res := reg, op := .def, left := reg, right := .immBool b } :: defInstrs rest
    | _ => defInstrs rest

/-- the scope part of `Prog::new_with_scope`: reports (names starting with `Report.`) first, then
controls, each in declaration order; more than 255 of either is an error (F7g) -/
def declareAll (sc : Scope) (ds : List Decl) : Out Scope :=
  let reports := ds.filter fun d => "Report.".toList.isPrefixOf d.var
  let controls := ds.filter fun d => !("Report.".toList.isPrefixOf d.var)
  if reports.length > 255 ∨ controls.length > 255 then .err else do
    let sc ← reports.foldlM (fun sc d => sc.newReport d.vol d.var d.init) sc
    controls.foldlM (fun sc d => sc.newControl d.vol d.var d.init) sc

end Portus.Lang
