import PortusModel.Lang.Ast
/-!
# The nom 7 combinators used by `ast.rs`/`prog.rs`, on `List Char`

All parsers are the `complete` variants, so the only failure is the recoverable `Err::Error`:
a parser is `List Char → Option (α × List Char)`.
-/
namespace Portus.Lang

abbrev Parser (α : Type) := List Char → Option (α × List Char)

/-- `tag(s)` -/
def tag (s : List Char) : Parser Unit := fun inp =>
  if s.isPrefixOf inp then some ((), inp.drop s.length) else none

/-- nom `multispace0`: space, tab, CR, LF -/
def isSpace (c : Char) : Bool := c = ' ' || c = '\t' || c = '\r' || c = '\n'

def skipSpace : List Char → List Char
  | [] => []
  | c :: cs => if isSpace c then skipSpace cs else c :: cs

/-- `multispace0` never fails -/
def ms0 : Parser Unit := fun inp => some ((), skipSpace inp)

/-- longest prefix satisfying `p`, and the rest -/
def spanChars (p : Char → Bool) : List Char → List Char × List Char
  | [] => ([], [])
  | c :: cs => if p c then let r := spanChars p cs; (c :: r.1, r.2) else ([], c :: cs)

/-- `take_while1(p)` -/
def takeWhile1 (p : Char → Bool) : Parser (List Char) := fun inp =>
  let r := spanChars p inp
  if r.1.isEmpty then none else some r

/-- `digit1` -/
def digit1 : Parser (List Char) := takeWhile1 fun c => '0' ≤ c && c ≤ '9'

/-- `take_until("\n")`: everything before the first newline, which must exist (not consumed) -/
def takeUntilNl : Parser (List Char) := fun inp =>
  let r := spanChars (· ≠ '\n') inp
  match r.2 with
  | [] => none
  | _ => some r

theorem skipSpace_length_le (l : List Char) : (skipSpace l).length ≤ l.length := by
  induction l with
  | nil => simp [skipSpace]
  | cons c cs ih => simp only [skipSpace]; split <;> simp <;> omega

theorem spanChars_length (p : Char → Bool) (l : List Char) :
    (spanChars p l).1.length + (spanChars p l).2.length = l.length := by
  induction l with
  | nil => simp [spanChars]
  | cons c cs ih => simp only [spanChars]; split <;> simp <;> omega

end Portus.Lang
