import PortusModel.Lang.Sem
import PortusModel.Lang.Lower
/-!
# The fragment of C01 and the shared definitions of its correctness proof
(decidable hypotheses of DESIGN §5 C01; comparable observations; the simulation relation)
-/
namespace Portus.Lang.Frag
open Portus Portus.Lang Portus.Vm



/-- a pure expression: operators over literals and variables, no assignment, conditional or command -/
def pureE : Expr → Bool
  | .atom _ => true
  | .sexp o l r =>
    (match o with | .bind | .if | .notIf | .ewma | .def => false | _ => true) && pureE l && pureE r
  | _ => false

/-- a statement: an assignment of a pure expression, or of a conditional / ewma over pure operands,
to a name; comments are allowed -/
def stmtOk : Expr → Bool
  | .none => true
  | .sexp .bind (.atom (.name _)) (.sexp .if c v) => pureE c && pureE v
  | .sexp .bind (.atom (.name _)) (.sexp .notIf c v) => pureE c && pureE v
  | .sexp .bind (.atom (.name _)) (.sexp .ewma a v) => pureE a && pureE v
  | .sexp .bind (.atom (.name _)) r => pureE r
  | _ => false

def Stratified (evs : List Event) : Bool := evs.all fun ev => pureE ev.flag && ev.body.all stmtOk

/-- every numeric literal fits the immediate field: `< 2^31`, or `+infinity` (C14: otherwise the
program does not serialize) -/
def litsOkE : Expr → Bool
  | .atom (.num n) => decide (n < 2^31) || decide (n = 2^64 - 1)
  | .sexp _ l r => litsOkE l && litsOkE r
  | _ => true

def LitsOk (evs : List Event) : Bool := evs.all fun ev => litsOkE ev.flag && ev.body.all litsOkE

def lastVal (n : Name) : List (Name × Nat) → Option Nat
  | [] => none
  | (m, v) :: rest => (lastVal n rest).orElse fun _ => if m = n then some v else none

/-- declared variables with *literal* initial values (`LiteralInits`), none of them libccp's legacy
"infinity" sentinel (`NoLegacyInf`), in slot order: report variables first -/
def varDecls (ds : List Decl) (upd : List (Name × Nat)) : Option (List Sem.VarDecl) :=
  let one (d : Decl) : Option Sem.VarDecl :=
    let isRep := "Report.".toList.isPrefixOf d.var
    let init : Option Nat := match lastVal d.var upd with
      | some v => some v
      | none => match d.init with
        | .num (some n) => some n
        | .bool (some b) => some (if b then 1 else 0)
        | _ => none
    match init with
    | some n => if n = 0x3fffffff then none else some { name := d.var, isReport := isRep, vol := d.vol, init := Sem.immVal n }
    | none => none
  do
    let rs ← (ds.filter fun d => "Report.".toList.isPrefixOf d.var).mapM one
    let cs ← (ds.filter fun d => !("Report.".toList.isPrefixOf d.var)).mapM one
    pure (rs ++ cs)

/-- observation of one invocation as both sides can be compared: settings as the `u32` the datapath
callbacks receive -/
inductive IObs where
  | fault (rc : Int)
  | done (setCwnd setRate : Option Nat) (report : Option (List Nat))
deriving Repr, DecidableEq, Inhabited

def ofSem : Sem.InvObs → Option IObs
  | .fault rc => some (.fault rc)
  | .done c r rep => some (.done (c.map fun v => v.toUInt32.toNat) (r.map fun v => v.toUInt32.toNat)
                            (rep.map fun l => l.map (·.toNat)))
  | .outside => none

def ofVm (o : Vm.Obs) : IObs :=
  if o.rc < 0 then .fault o.rc
  else .done (o.setCwnd.map fun v => v.toUInt32.toNat) (o.setRate.map fun v => v.toUInt32.toNat)
         (o.report.map fun p => p.2.map (·.toNat))


/-! ## machine runs without staging: what `ccp_invoke` does once a program is in place -/

/-- `ccp_invoke` with nothing staged or pending: load `Cwnd`/`Rate` from the primitives, run the state machine -/
def vmInvoke (p : Program) (env : Env) (c : Conn) : Conn × Vm.Obs :=
  stateMachine env p
    { c with regs := { c.regs with impl := (c.regs.impl.set 4 (env.prims.sndCwnd.toUInt32.toUInt64)).set 5 env.prims.sndRate } }
    { rc := 0, setCwnd := none, setRate := none, report := none }

def vmRun (p : Program) : Conn → List Env → List Vm.Obs
  | _, [] => []
  | c, env :: rest => let r := vmInvoke p env c; r.2 :: vmRun p r.1 rest

/-! ## the register assignment and the simulation relation -/

/-- which register file a class lives in (both control classes share one array, both report classes too) -/
def fileOf (cls : Nat) : Nat :=
  if cls = 0 ∨ cls = 8 then 0 else if cls = 5 ∨ cls = 6 then 5 else cls

def sameCell (a b : VReg) : Prop := fileOf a.cls = fileOf b.cls ∧ a.idx = b.idx

def primNames : List String :=
  ["Ack.bytes_acked", "Ack.bytes_misordered", "Ack.ecn_bytes", "Ack.ecn_packets", "Ack.lost_pkts_sample",
   "Ack.now", "Ack.packets_acked", "Ack.packets_misordered", "Flow.bytes_in_flight", "Flow.bytes_pending",
   "Flow.packets_in_flight", "Flow.rate_incoming", "Flow.rate_outgoing", "Flow.rtt_sample_us", "Flow.was_timeout"]

def implNames : List String := ["__eventFlag", "__shouldContinue", "__shouldReport", "Micros", "Cwnd", "Rate"]

def isBuiltinName (x : Name) : Bool := primNames.any (·.toList = x) || implNames.any (·.toList = x)

/-- what the proof needs to know about the final scope `ρ` of an accepted program with declarations
`decls` (all of it follows from C13 `compile_scope_slots` and the encoder's index limits) -/
structure RhoOk (ρ : Rho) (decls : List Sem.VarDecl) : Prop where
  prims : ∀ i (h : i < 15), ρ primNames[i].toList = some ⟨4, i⟩
  impls : ∀ i (h : i < 6), ρ implNames[i].toList = some ⟨2, i⟩
  /-- every other bound name lives in a report, control or local cell inside the register files -/
  vars : ∀ x r, ρ x = some r → isBuiltinName x = false →
    (r.cls = 3 ∧ r.idx < 8) ∨ ((r.cls = 0 ∨ r.cls = 8) ∧ r.idx < 110) ∨ ((r.cls = 5 ∨ r.cls = 6) ∧ r.idx < 110)
  /-- distinct names, distinct cells -/
  inj : ∀ x y rx ry, ρ x = some rx → ρ y = some ry → sameCell rx ry → x = y
  /-- the k-th declared report variable sits in report slot k, volatile or not as declared -/
  reports : ∀ k (h : k < (decls.filter (·.isReport)).length),
    ρ (decls.filter (·.isReport))[k].name = some ⟨if (decls.filter (·.isReport))[k].vol then 5 else 6, k⟩
  controls : ∀ k (h : k < (decls.filter (!·.isReport)).length),
    ρ (decls.filter (!·.isReport))[k].name = some ⟨if (decls.filter (!·.isReport))[k].vol then 8 else 0, k⟩
  declNames : ∀ d ∈ decls, isBuiltinName d.name = false
  declNodup : (decls.map (·.name)).Nodup
  /-- declared initial values fit the immediate field (C14) and are not libccp's legacy infinity sentinel -/
  inits : ∀ d ∈ decls, (d.init.toNat < 2^31 ∨ d.init = U32MAX) ∧ d.init.toNat ≠ 0x3fffffff
  /-- names that are neither built-in nor declared are locals -/
  locals : ∀ x r, ρ x = some r → isBuiltinName x = false → (∀ d ∈ decls, d.name ≠ x) → r.cls = 3

/-- the DEF instruction of a declared variable -/
def mkDef (ρ : Rho) (d : Sem.VarDecl) : VInstr :=
  let r := (ρ d.name).getD ⟨99, 0⟩
  { op := 2, ret := r, left := r, right := ⟨1, d.init.toNat⟩ }

/-- the DEF preamble is one DEF per declared variable, in some (register-file) order -/
def DefsFor (ρ : Rho) (decls : List Sem.VarDecl) (defs : List VInstr) : Prop :=
  defs.Perm (decls.map (mkDef ρ))

/-- the machine state `c` represents the source state `s`: every bound name's register holds the
variable's value (for every environment: primitives and the clock are read identically by both),
and the origin of `Micros` agrees -/
def Sim (ρ : Rho) (s : Sem.SrcState) (c : Conn) : Prop :=
  (∀ env x r, ρ x = some r → readReg env c r = Sem.read env s x) ∧ c.t0 = s.t0

/-- every temporary index used by the lowered code exists in libccp (the encoder enforces it) -/
def TmpsOk (is : List VInstr) : Prop :=
  ∀ i ∈ is, (i.ret.cls = 7 → i.ret.idx < 8) ∧ (i.left.cls = 7 → i.left.idx < 8) ∧ (i.right.cls = 7 → i.right.idx < 8)

end Portus.Lang.Frag
