import PortusModel.Lang.Sem
import PortusModel.Lang.Lower
/-!
# The fragment of C01 and the shared definitions of its correctness proof
(decidable hypotheses of DESIGN §5 C01; comparable observations; the simulation relation)
-/
namespace Portus.Lang.Frag
open Portus Portus.Lang Portus.Vm



/-- a pure expression: operators over literals and variables, no assignment, conditional or command -/
def pureE : Expr → Bool
  | .atom _ => true
  | .sexp o l r =>
    (match o with | .bind | .if | .notIf | .ewma | .def => false | _ => true) && pureE l && pureE r
  | _ => false

/-- a statement: an assignment of a pure expression, or of a conditional / ewma over pure operands,
to a name; comments are allowed -/
def stmtOk : Expr → Bool
  | .none => true
  | .sexp .bind (.atom (.name _)) (.sexp .if c v) => pureE c && pureE v
  | .sexp .bind (.atom (.name _)) (.sexp .notIf c v) => pureE c && pureE v
  | .sexp .bind (.atom (.name _)) (.sexp .ewma a v) => pureE a && pureE v
  | .sexp .bind (.atom (.name _)) r => pureE r
  | _ => false

/-- the former fragment of the theorem (no bind inside an expression); now a sub-fragment of `InOracle` below
(`inOracle_of_stratified`), kept for the record and for the non-vacuity statements -/
def Stratified (evs : List Event) : Bool := evs.all fun ev => pureE ev.flag && ev.body.all stmtOk

/-- every numeric literal fits the immediate field: `< 2^31`, or `+infinity` (C14: otherwise the
program does not serialize) -/
def litsOkE : Expr → Bool
  | .atom (.num n) => decide (n < 2^31) || decide (n = 2^64 - 1)
  | .sexp _ l r => litsOkE l && litsOkE r
  | _ => true

def LitsOk (evs : List Event) : Bool := evs.all fun ev => litsOkE ev.flag && ev.body.all litsOkE

def lastVal (n : Name) : List (Name × Nat) → Option Nat
  | [] => none
  | (m, v) :: rest => (lastVal n rest).orElse fun _ => if m = n then some v else none

/-- declared variables with *literal* initial values (`LiteralInits`), none of them libccp's legacy
"infinity" sentinel (`NoLegacyInf`), in slot order: report variables first -/
def varDecls (ds : List Decl) (upd : List (Name × Nat)) : Option (List Sem.VarDecl) :=
  let one (d : Decl) : Option Sem.VarDecl :=
    let isRep := "Report.".toList.isPrefixOf d.var
    let init : Option Nat := match lastVal d.var upd with
      | some v => some v
      | none => match d.init with
        | .num (some n) => some n
        | .bool (some b) => some (if b then 1 else 0)
        | _ => none
    match init with
    | some n => if n = 0x3fffffff then none else some { name := d.var, isReport := isRep, vol := d.vol, init := Sem.immVal n }
    | none => none
  do
    let rs ← (ds.filter fun d => "Report.".toList.isPrefixOf d.var).mapM one
    let cs ← (ds.filter fun d => !("Report.".toList.isPrefixOf d.var)).mapM one
    pure (rs ++ cs)

/-- observation of one invocation as both sides can be compared: settings as the `u32` the datapath
callbacks receive -/
inductive IObs where
  | fault (rc : Int)
  | done (setCwnd setRate : Option Nat) (report : Option (List Nat))
deriving Repr, DecidableEq, Inhabited

def ofSem : Sem.InvObs → Option IObs
  | .fault rc => some (.fault rc)
  | .done c r rep => some (.done (c.map fun v => v.toUInt32.toNat) (r.map fun v => v.toUInt32.toNat)
                            (rep.map fun l => l.map (·.toNat)))
  | .outside => none

def ofVm (o : Vm.Obs) : IObs :=
  if o.rc < 0 then .fault o.rc
  else .done (o.setCwnd.map fun v => v.toUInt32.toNat) (o.setRate.map fun v => v.toUInt32.toNat)
         (o.report.map fun p => p.2.map (·.toNat))


/-! ## machine runs without staging: what `ccp_invoke` does once a program is in place -/

/-- `ccp_invoke` with nothing staged or pending: load `Cwnd`/`Rate` from the primitives, run the state machine -/
def vmInvoke (p : Program) (env : Env) (c : Conn) : Conn × Vm.Obs :=
  stateMachine env p
    { c with regs := { c.regs with impl := (c.regs.impl.set 4 (env.prims.sndCwnd.toUInt32.toUInt64)).set 5 env.prims.sndRate } }
    { rc := 0, setCwnd := none, setRate := none, report := none }

def vmRun (p : Program) : Conn → List Env → List Vm.Obs
  | _, [] => []
  | c, env :: rest => let r := vmInvoke p env c; r.2 :: vmRun p r.1 rest

/-! ## the register assignment and the simulation relation -/

/-- which register file a class lives in (both control classes share one array, both report classes too) -/
def fileOf (cls : Nat) : Nat :=
  if cls = 0 ∨ cls = 8 then 0 else if cls = 5 ∨ cls = 6 then 5 else cls

def sameCell (a b : VReg) : Prop := fileOf a.cls = fileOf b.cls ∧ a.idx = b.idx

def primNames : List String :=
  ["Ack.bytes_acked", "Ack.bytes_misordered", "Ack.ecn_bytes", "Ack.ecn_packets", "Ack.lost_pkts_sample",
   "Ack.now", "Ack.packets_acked", "Ack.packets_misordered", "Flow.bytes_in_flight", "Flow.bytes_pending",
   "Flow.packets_in_flight", "Flow.rate_incoming", "Flow.rate_outgoing", "Flow.rtt_sample_us", "Flow.was_timeout"]

def implNames : List String := ["__eventFlag", "__shouldContinue", "__shouldReport", "Micros", "Cwnd", "Rate"]

def isBuiltinName (x : Name) : Bool := primNames.any (·.toList = x) || implNames.any (·.toList = x)

/-- what the proof needs to know about the final scope `ρ` of an accepted program with declarations
`decls` (all of it follows from C13 `compile_scope_slots` and the encoder's index limits) -/
structure RhoOk (ρ : Rho) (decls : List Sem.VarDecl) : Prop where
  prims : ∀ i (h : i < 15), ρ primNames[i].toList = some ⟨4, i⟩
  impls : ∀ i (h : i < 6), ρ implNames[i].toList = some ⟨2, i⟩
  /-- every other bound name lives in a report, control or local cell inside the register files -/
  vars : ∀ x r, ρ x = some r → isBuiltinName x = false →
    (r.cls = 3 ∧ r.idx < 8) ∨ ((r.cls = 0 ∨ r.cls = 8) ∧ r.idx < 110) ∨ ((r.cls = 5 ∨ r.cls = 6) ∧ r.idx < 110)
  /-- distinct names, distinct cells -/
  inj : ∀ x y rx ry, ρ x = some rx → ρ y = some ry → sameCell rx ry → x = y
  /-- the k-th declared report variable sits in report slot k, volatile or not as declared -/
  reports : ∀ k (h : k < (decls.filter (·.isReport)).length),
    ρ (decls.filter (·.isReport))[k].name = some ⟨if (decls.filter (·.isReport))[k].vol then 5 else 6, k⟩
  controls : ∀ k (h : k < (decls.filter (!·.isReport)).length),
    ρ (decls.filter (!·.isReport))[k].name = some ⟨if (decls.filter (!·.isReport))[k].vol then 8 else 0, k⟩
  declNames : ∀ d ∈ decls, isBuiltinName d.name = false
  declNodup : (decls.map (·.name)).Nodup
  /-- declared initial values fit the immediate field (C14) and are not libccp's legacy infinity sentinel -/
  inits : ∀ d ∈ decls, (d.init.toNat < 2^31 ∨ d.init = U32MAX) ∧ d.init.toNat ≠ 0x3fffffff
  /-- names that are neither built-in nor declared are locals -/
  locals : ∀ x r, ρ x = some r → isBuiltinName x = false → (∀ d ∈ decls, d.name ≠ x) → r.cls = 3

/-- the DEF instruction of a declared variable -/
def mkDef (ρ : Rho) (d : Sem.VarDecl) : VInstr :=
  let r := (ρ d.name).getD ⟨99, 0⟩
  { op := 2, ret := r, left := r, right := ⟨1, d.init.toNat⟩ }

/-- the DEF preamble is one DEF per declared variable, in some (register-file) order -/
def DefsFor (ρ : Rho) (decls : List Sem.VarDecl) (defs : List VInstr) : Prop :=
  defs.Perm (decls.map (mkDef ρ))

/-- the machine state `c` represents the source state `s`: every bound name's register holds the
variable's value (for every environment: primitives and the clock are read identically by both),
and the origin of `Micros` agrees -/
def Sim (ρ : Rho) (s : Sem.SrcState) (c : Conn) : Prop :=
  (∀ env x r, ρ x = some r → readReg env c r = Sem.read env s x) ∧ c.t0 = s.t0

/-- every temporary index used by the lowered code exists in libccp (the encoder enforces it) -/
def TmpsOk (is : List VInstr) : Prop :=
  ∀ i ∈ is, (i.ret.cls = 7 → i.ret.idx < 8) ∧ (i.left.cls = 7 → i.left.idx < 8) ∧ (i.right.cls = 7 → i.right.idx < 8)

/-! ## the fragment of the theorem (and of the oracle `C01.check`): stratified programs, plus hazard-free nested binds

A plain bind `(:= y e)` may also occur *as a value* inside an expression, provided no operator reads, as its left
operand, a variable that its right operand assigns (operand registers are read when the consuming instruction runs),
and the nested target is an ordinary variable (not a built-in register, whose write transforms the value).
So may a guarded bind — `(:= y (if c v))`, `(:= y (!if c v))`, `(:= y (ewma a v))` — under the same discipline: its
result register is the register of `y`, it assigns `y` and what its operands assign, and its two operands must be
hazard-free against each other as at statement level (`stmtOk2`). A statement may also be a bare operator
expression (a pure operator at the top, `valueE` as a whole): evaluated for its nested binds and its faults, its
value dropped. -/

def writesIn : Expr → List Name
  | .sexp .bind (.atom (.name x)) r => x :: writesIn r
  | .sexp _ l r => writesIn l ++ writesIn r
  | _ => []

/-- the variable whose register is the operand's result register, if any -/
def resultName : Expr → Option Name
  | .atom (.name x) => some x
  | .sexp .bind (.atom (.name x)) _ => some x
  | _ => none

def noHazard (l r : Expr) : Bool :=
  match resultName l with
  | some x => !(writesIn r).contains x
  | none => true

/-- usable as a value: operators over atoms and nested plain or guarded binds to ordinary variables, hazard-free -/
def valueE : Expr → Bool
  | .atom _ => true
  | .sexp .bind (.atom (.name x)) (.sexp .if c v) => !isBuiltinName x && valueE c && valueE v && noHazard c v
  | .sexp .bind (.atom (.name x)) (.sexp .notIf c v) => !isBuiltinName x && valueE c && valueE v && noHazard c v
  | .sexp .bind (.atom (.name x)) (.sexp .ewma a v) => !isBuiltinName x && valueE a && valueE v && noHazard a v
  | .sexp .bind (.atom (.name x)) r => !isBuiltinName x && valueE r
  | .sexp o l r =>
    (match o with | .bind | .if | .notIf | .ewma | .def => false | _ => true) && valueE l && valueE r && noHazard l r
  | _ => false

/-- a statement of the fragment: a comment, a (plain or guarded) bind of value expressions, or a *bare* operator
expression over value expressions, evaluated for its nested binds and its faults, its value discarded -/
def stmtOk2 : Expr → Bool
  | .none => true
  | .sexp .bind (.atom (.name _)) (.sexp .if c v) => valueE c && valueE v && noHazard c v
  | .sexp .bind (.atom (.name _)) (.sexp .notIf c v) => valueE c && valueE v && noHazard c v
  | .sexp .bind (.atom (.name _)) (.sexp .ewma a v) => valueE a && valueE v && noHazard a v
  | .sexp .bind (.atom (.name _)) r => valueE r
  | .sexp o l r => (pureOpcode o).isSome && valueE (.sexp o l r)
  | _ => false

/-- the programs the oracle decides -/
def InOracle (evs : List Event) : Bool := evs.all fun ev => pureE ev.flag && ev.body.all stmtOk2

theorem writesIn_pure {e : Expr} (h : pureE e = true) : writesIn e = [] := by
  induction e with
  | atom p => rfl
  | cmd c => simp [pureE] at h
  | none => simp [pureE] at h
  | sexp o l r ihl ihr =>
    simp only [pureE, Bool.and_eq_true] at h
    obtain ⟨⟨ho, hl⟩, hr⟩ := h
    cases o <;> simp_all [writesIn]

theorem valueE_of_pure {e : Expr} (h : pureE e = true) : valueE e = true := by
  induction e with
  | atom p => rfl
  | cmd c => simp [pureE] at h
  | none => simp [pureE] at h
  | sexp o l r ihl ihr =>
    simp only [pureE, Bool.and_eq_true] at h
    obtain ⟨⟨ho, hl⟩, hr⟩ := h
    have hw := writesIn_pure hr
    have hn : noHazard l r = true := by
      unfold noHazard; split <;> simp [hw]
    cases o <;> simp_all [valueE]

theorem noHazard_of_pure {l r : Expr} (hr : pureE r = true) : noHazard l r = true := by
  unfold noHazard; split <;> simp [writesIn_pure hr]

theorem stmtOk2_of_stmtOk {e : Expr} (h : stmtOk e = true) : stmtOk2 e = true := by
  unfold stmtOk at h
  split at h
  · rfl
  · simp only [Bool.and_eq_true] at h
    simp [stmtOk2, valueE_of_pure h.1, valueE_of_pure h.2, noHazard_of_pure h.2]
  · simp only [Bool.and_eq_true] at h
    simp [stmtOk2, valueE_of_pure h.1, valueE_of_pure h.2, noHazard_of_pure h.2]
  · simp only [Bool.and_eq_true] at h
    simp [stmtOk2, valueE_of_pure h.1, valueE_of_pure h.2, noHazard_of_pure h.2]
  · rename_i x r h1 h2 h3
    rw [stmtOk2.eq_5 x r h1 h2 h3]
    exact valueE_of_pure h
  · cases h

theorem inOracle_of_stratified {evs : List Event} (h : Stratified evs = true) : InOracle evs = true := by
  unfold Stratified at h
  unfold InOracle
  simp only [List.all_eq_true, Bool.and_eq_true] at h ⊢
  intro ev hev
  exact ⟨(h ev hev).1, fun e he => stmtOk2_of_stmtOk ((h ev hev).2 e he)⟩

/-! ## inversion lemmas for the fragment and the reference lowering -/

theorem condCode_cases {op : Op} {code : Nat} (h : condCode op = some code) :
    (op = .if ∧ code = 7) ∨ (op = .notIf ∧ code = 13) ∨ (op = .ewma ∧ code = 5) := by
  cases op <;> simp [condCode] at h <;> simp [h]

theorem condCode_ne_bind {op : Op} {code : Nat} (h : condCode op = some code) : op ≠ .bind := by
  rintro rfl; cases h

/-- an expression that is not a conditional / ewma node -/
def NotCond (e : Expr) : Prop :=
  (∀ c v, e = .sexp .if c v → False) ∧ (∀ c v, e = .sexp .notIf c v → False) ∧
  (∀ a v, e = .sexp .ewma a v → False)

theorem notCond_or (e : Expr) : NotCond e ∨ ∃ op a b code, e = .sexp op a b ∧ condCode op = some code := by
  cases e with
  | sexp o a b =>
    cases o <;> first
      | exact .inr ⟨_, _, _, _, rfl, rfl⟩
      | (left; refine ⟨?_, ?_, ?_⟩ <;> (intro c v h; cases h))
  | _ => left; refine ⟨?_, ?_, ?_⟩ <;> (intro c v h; cases h)

/-- the three forms of a value expression that is a node: a plain bind of a value, a guarded bind (conditional /
ewma over two hazard-free values), an operator over two hazard-free values -/
theorem valueE_sexp_cases {o : Op} {l r : Expr} (h : valueE (.sexp o l r) = true) :
    (∃ x, o = .bind ∧ l = .atom (.name x) ∧ isBuiltinName x = false ∧ valueE r = true) ∨
    (∃ x op a b code, o = .bind ∧ l = .atom (.name x) ∧ r = .sexp op a b ∧ condCode op = some code ∧
      isBuiltinName x = false ∧ valueE a = true ∧ valueE b = true ∧ noHazard a b = true) ∨
    (∃ code, pureOpcode o = some code ∧ valueE l = true ∧ valueE r = true ∧ noHazard l r = true) := by
  by_cases hb : ∃ x, o = .bind ∧ l = .atom (.name x)
  · obtain ⟨x, rfl, rfl⟩ := hb
    rcases notCond_or r with ⟨h1, h2, h3⟩ | ⟨op, a, b, code, rfl, hc⟩
    · rw [valueE.eq_5 x r h1 h2 h3] at h
      simp only [Bool.and_eq_true, Bool.not_eq_true'] at h
      exact .inl ⟨x, rfl, rfl, h.1, h.2⟩
    · right; left
      rcases condCode_cases hc with ⟨rfl, rfl⟩ | ⟨rfl, rfl⟩ | ⟨rfl, rfl⟩ <;>
        (simp only [valueE, Bool.and_eq_true, Bool.not_eq_true'] at h
         exact ⟨x, _, a, b, _, rfl, rfl, rfl, rfl, h.1.1.1, h.1.1.2, h.1.2, h.2⟩)
  · right; right
    have hne : ∀ x, o = .bind → l = .atom (.name x) → False := fun x h1 h2 => hb ⟨x, h1, h2⟩
    cases o <;> first
      | (rw [valueE.eq_6 _ _ (fun x _ _ h1 h2 _ => hne x h1 h2) (fun x _ _ h1 h2 _ => hne x h1 h2)
            (fun x _ _ h1 h2 _ => hne x h1 h2) hne] at h; simp at h; done)
      | (simp only [valueE, Bool.and_eq_true, Bool.false_eq_true, false_and, Bool.true_and] at h; done)
      | (simp only [valueE, Bool.and_eq_true, Bool.true_and] at h
         exact ⟨_, rfl, h.1.1, h.1.2, h.2⟩)

theorem valueE_not_cond {e : Expr} (hp : valueE e = true) : NotCond e := by
  refine ⟨?_, ?_, ?_⟩ <;> (intro c v h; subst h; simp [valueE] at hp)

theorem writesIn_op {o : Op} {code : Nat} (ho : pureOpcode o = some code) (l r : Expr) :
    writesIn (.sexp o l r) = writesIn l ++ writesIn r := by
  apply writesIn.eq_2
  intro x hb
  subst hb
  cases ho

/-- a guarded bind assigns its target and what its operands assign -/
theorem writesIn_guard {op : Op} {code : Nat} (hc : condCode op = some code) (x : Name) (a b : Expr) :
    writesIn (.sexp .bind (.atom (.name x)) (.sexp op a b)) = x :: (writesIn a ++ writesIn b) := by
  rw [writesIn, writesIn.eq_2]
  intro y hb _
  exact condCode_ne_bind hc hb

theorem lowerE_bind_inv {ρ : Rho} {x : Name} {r : Expr} {k : Nat} {le : LE} (hn : NotCond r)
    (h : lowerE ρ (.sexp .bind (.atom (.name x)) r) k = some le) :
    ∃ rx cr, ρ x = some rx ∧ lowerE ρ r k = some cr ∧
      le = ⟨cr.instrs ++ [⟨1, rx, rx, cr.reg⟩], rx, cr.k⟩ := by
  rw [lowerE.eq_7 ρ k x r hn.1 hn.2.1 hn.2.2] at h
  split at h
  · rename_i rx cr h1 h2; exact ⟨rx, cr, h1, h2, (Option.some.inj h).symm⟩
  · cases h

/-- the lowering of a guarded bind used as a value -/
theorem lowerE_guard {ρ : Rho} {op : Op} {code : Nat} (hc : condCode op = some code) (x : Name) (a b : Expr)
    (k : Nat) :
    lowerE ρ (.sexp .bind (.atom (.name x)) (.sexp op a b)) k =
      match ρ x, lowerE ρ a k with
      | some rx, some ca =>
        match lowerE ρ b ca.k with
        | some cb => some ⟨ca.instrs ++ cb.instrs ++ [⟨code, rx, ca.reg, cb.reg⟩], rx, cb.k⟩
        | none => none
      | _, _ => none := by
  rcases condCode_cases hc with ⟨rfl, rfl⟩ | ⟨rfl, rfl⟩ | ⟨rfl, rfl⟩ <;> (rw [lowerE]; rfl)

theorem lowerE_guard_inv {ρ : Rho} {op : Op} {code : Nat} (hc : condCode op = some code) {x : Name} {a b : Expr}
    {k : Nat} {le : LE} (h : lowerE ρ (.sexp .bind (.atom (.name x)) (.sexp op a b)) k = some le) :
    ∃ rx ca cb, ρ x = some rx ∧ lowerE ρ a k = some ca ∧ lowerE ρ b ca.k = some cb ∧
      le = ⟨ca.instrs ++ cb.instrs ++ [⟨code, rx, ca.reg, cb.reg⟩], rx, cb.k⟩ := by
  rw [lowerE_guard hc] at h
  split at h
  · rename_i rx ca h1 h2
    split at h
    · rename_i cb h3; exact ⟨rx, ca, cb, h1, h2, h3, (Option.some.inj h).symm⟩
    · cases h
  · cases h

theorem lowerE_op_inv {ρ : Rho} {o : Op} {l r : Expr} {k : Nat} {le : LE}
    (hne : ∀ x, o = .bind → l = .atom (.name x) → False)
    (h : lowerE ρ (.sexp o l r) k = some le) :
    ∃ code cl cr, pureOpcode o = some code ∧ lowerE ρ l k = some cl ∧ lowerE ρ r cl.k = some cr ∧
      le = ⟨cl.instrs ++ cr.instrs ++ [⟨code, vTmp cr.k, cl.reg, cr.reg⟩], vTmp cr.k, cr.k + 1⟩ := by
  rw [lowerE.eq_8 _ _ _ _ _ (fun x _ _ h1 h2 _ => hne x h1 h2) (fun x _ _ h1 h2 _ => hne x h1 h2)
    (fun x _ _ h1 h2 _ => hne x h1 h2) hne] at h
  split at h
  · rename_i code cl ho hl
    split at h
    · rename_i cr hr
      exact ⟨code, cl, cr, ho, hl, hr, (Option.some.inj h).symm⟩
    · cases h
  · cases h

/-- the three ways a lowered node can have come about -/
theorem lowerE_sexp_cases {ρ : Rho} {o : Op} {l r : Expr} {k : Nat} {le : LE}
    (h : lowerE ρ (.sexp o l r) k = some le) :
    (∃ x rx cr, o = .bind ∧ l = .atom (.name x) ∧ ρ x = some rx ∧ lowerE ρ r k = some cr ∧
      le = ⟨cr.instrs ++ [⟨1, rx, rx, cr.reg⟩], rx, cr.k⟩) ∨
    (∃ x op a b code rx ca cb, o = .bind ∧ l = .atom (.name x) ∧ r = .sexp op a b ∧ condCode op = some code ∧
      ρ x = some rx ∧ lowerE ρ a k = some ca ∧ lowerE ρ b ca.k = some cb ∧
      le = ⟨ca.instrs ++ cb.instrs ++ [⟨code, rx, ca.reg, cb.reg⟩], rx, cb.k⟩) ∨
    (∃ code cl cr, pureOpcode o = some code ∧ lowerE ρ l k = some cl ∧ lowerE ρ r cl.k = some cr ∧
      le = ⟨cl.instrs ++ cr.instrs ++ [⟨code, vTmp cr.k, cl.reg, cr.reg⟩], vTmp cr.k, cr.k + 1⟩) := by
  by_cases hb : ∃ x, o = .bind ∧ l = .atom (.name x)
  · obtain ⟨x, rfl, rfl⟩ := hb
    rcases notCond_or r with hn | ⟨op, a, b, code, rfl, hc⟩
    · obtain ⟨rx, cr, h1, h2, h3⟩ := lowerE_bind_inv hn h
      exact .inl ⟨x, rx, cr, rfl, rfl, h1, h2, h3⟩
    · obtain ⟨rx, ca, cb, h1, h2, h3, h4⟩ := lowerE_guard_inv hc h
      exact .inr (.inl ⟨x, op, a, b, code, rx, ca, cb, rfl, rfl, rfl, hc, h1, h2, h3, h4⟩)
  · exact .inr (.inr (lowerE_op_inv (fun x h1 h2 => hb ⟨x, h1, h2⟩) h))

/-- with a pure operator the node is an operator node (the form used on pure expressions) -/
theorem lowerE_sexp_inv {ρ : Rho} {o : Op} {l r : Expr} {k : Nat} {le : LE} {code : Nat}
    (ho : pureOpcode o = some code) (h : lowerE ρ (.sexp o l r) k = some le) :
    ∃ cl cr, lowerE ρ l k = some cl ∧ lowerE ρ r cl.k = some cr ∧
      le = ⟨cl.instrs ++ cr.instrs ++ [⟨code, vTmp cr.k, cl.reg, cr.reg⟩], vTmp cr.k, cr.k + 1⟩ := by
  obtain ⟨code', cl, cr, ho', hl, hr, e⟩ := lowerE_op_inv (fun x hb _ => by subst hb; cases ho) h
  rw [ho] at ho'; cases ho'
  exact ⟨cl, cr, hl, hr, e⟩

/-- a bare operator statement is lowered as the expression it is -/
theorem lowerStmt_bare {ρ : Rho} {o : Op} {code : Nat} (ho : pureOpcode o = some code) (l r : Expr) :
    lowerStmt ρ (.sexp o l r) = (lowerE ρ (.sexp o l r) 0).map (·.instrs) :=
  lowerStmt.eq_6 ρ o l r (fun x _ _ hb _ _ => by subst hb; cases ho) (fun x _ _ hb _ _ => by subst hb; cases ho)
    (fun x _ _ hb _ _ => by subst hb; cases ho) (fun x hb _ => by subst hb; cases ho)

theorem stmtOk2_bare {o : Op} {code : Nat} (ho : pureOpcode o = some code) (l r : Expr) :
    stmtOk2 (.sexp o l r) = valueE (.sexp o l r) := by
  rw [stmtOk2.eq_6 o l r (fun x _ _ hb _ _ => by subst hb; cases ho) (fun x _ _ hb _ _ => by subst hb; cases ho)
    (fun x _ _ hb _ _ => by subst hb; cases ho) (fun x hb _ => by subst hb; cases ho), ho]
  rfl

/-- the forms of a statement of the fragment, coarsely: a comment, a bare operator expression that is a value
expression, or a bind to a name -/
theorem stmtOk2_forms {e : Expr} (h : stmtOk2 e = true) :
    e = .none ∨ (∃ o l r code, e = .sexp o l r ∧ pureOpcode o = some code ∧ valueE (.sexp o l r) = true) ∨
    ∃ x rhs, e = .sexp .bind (.atom (.name x)) rhs := by
  unfold stmtOk2 at h
  split at h
  · exact .inl rfl
  · exact .inr (.inr ⟨_, _, rfl⟩)
  · exact .inr (.inr ⟨_, _, rfl⟩)
  · exact .inr (.inr ⟨_, _, rfl⟩)
  · exact .inr (.inr ⟨_, _, rfl⟩)
  · rename_i o l r _ _ _ _
    rw [Bool.and_eq_true, Option.isSome_iff_exists] at h
    obtain ⟨⟨code, ho⟩, hv⟩ := h
    exact .inr (.inl ⟨o, l, r, code, rfl, ho, hv⟩)
  · cases h

/-- induction on expressions that also gives the hypothesis for the two operands of a right operand that is
itself a node (the operands of the conditional / ewma of a guarded bind) -/
theorem Expr.ind2 {P : Expr → Prop} (atom : ∀ p, P (.atom p)) (cmd : ∀ c, P (.cmd c)) (none : P .none)
    (sexp : ∀ o l r, P l → P r → (∀ op a b, r = .sexp op a b → P a ∧ P b) → P (.sexp o l r)) : ∀ e, P e := by
  have key : ∀ e, P e ∧ (∀ op a b, e = .sexp op a b → P a ∧ P b) := by
    intro e
    induction e with
    | atom p => exact ⟨atom p, fun _ _ _ h => by cases h⟩
    | cmd c => exact ⟨cmd c, fun _ _ _ h => by cases h⟩
    | none => exact ⟨none, fun _ _ _ h => by cases h⟩
    | sexp o l r ihl ihr =>
      refine ⟨sexp o l r ihl.1 ihr.1 ihr.2, ?_⟩
      intro op a b h
      cases h
      exact ⟨ihl.1, ihr.1⟩
  exact fun e => (key e).1

end Portus.Lang.Frag
