import PortusModel.Base.Prim
/-!
# Data types of the language front end and the datapath IR
(`src/lang/ast.rs` `Prim, Op, Command, Expr`; `src/lang/datapath.rs` `Type, Reg, Event, Instr, Bin`;
`src/lang/prog.rs` `Event`)

Names are `List Char` (Rust `String` as its `char`s, code points as `Char`).
-/
namespace Portus.Lang

abbrev Name := List Char

inductive Prim where
  | bool (b : Bool)
  | name (s : Name)
  | num (n : Nat)
deriving Repr, DecidableEq, Inhabited

inductive Op where
  | add | and | bind | div | equiv | gt | lt | max | maxWrap | min | mul | or | sub
  | def
  | «if» | notIf
  | ewma
deriving Repr, DecidableEq, Inhabited

inductive Command where
  | fallthrough | report
deriving Repr, DecidableEq, Inhabited

inductive Expr where
  | atom (p : Prim)
  | cmd (c : Command)
  | sexp (o : Op) (l r : Expr)
  | none
deriving Repr, DecidableEq, Inhabited

/-- source-level event (`prog::Event`) -/
structure Event where
  flag : Expr
  body : List Expr
deriving Repr, DecidableEq, Inhabited

/-- `datapath::Type` -/
inductive Ty where
  | bool (v : Option Bool)
  | name (s : Name)
  | num (v : Option Nat)
  | none
deriving Repr, DecidableEq, Inhabited

/-- `datapath::Reg`; indices are `u8` in Rust -/
inductive Reg where
  | control (i : Nat) (t : Ty) (vol : Bool)
  | immNum (n : Nat)
  | immBool (b : Bool)
  | implicit (i : Nat) (t : Ty)
  | local (i : Nat) (t : Ty)
  | primitive (i : Nat) (t : Ty)
  | report (i : Nat) (t : Ty) (vol : Bool)
  | tmp (i : Nat) (t : Ty)
  | none
deriving Repr, DecidableEq, Inhabited

structure Instr where
  res : Reg
  op : Op
  left : Reg
  right : Reg
deriving Repr, DecidableEq, Inhabited

/-- `datapath::Event` -/
structure EvRec where
  flagIdx : Nat
  numFlag : Nat
  bodyIdx : Nat
  numBody : Nat
deriving Repr, DecidableEq, Inhabited

structure Bin where
  events : List EvRec
  instrs : List Instr
deriving Repr, DecidableEq, Inhabited

/-- `Reg::get_type` (never fails) -/
def Reg.getType : Reg → Ty
  | .immNum n => .num (some n)
  | .immBool b => .bool (some b)
  | .control _ t _ => t
  | .implicit _ t => t
  | .local _ t => t
  | .primitive _ t => t
  | .tmp _ t => t
  | .report _ t _ => t
  | .none => .none

end Portus.Lang
