import PortusModel.Wire.Dp
/-!
# The receive path (`src/ipc/mod.rs`: `Backend::{next, get_next_read}`)

`Rx` is what the transport and the stop flag present to successive loop iterations of
`get_next_read`: a datagram from some sender, a failed `recv`, or the stop flag read as false.
The end of the script counts as a stop (the harness' scripted transport clears the flag there).
Addresses are natural numbers (`T::Addr` is any `Clone + Default + Eq + Hash`; the default is 0).
-/
namespace Portus.Ipc
open Portus Portus.Wire

abbrev Addr := Nat

inductive Rx where
  | dgram (src : Addr) (d : Bytes)
  | recvErr
  | stop
  /-- a marker the runtime model uses for "the next `k` sends fail" (set when `recv` passes it);
  the receive path skips it without a `recv` call of its own -/
  | sf (k : Nat)
deriving Repr, DecidableEq, Inhabited

structure Backend where
  buf : Bytes
  totRead : Nat
  readUntil : Nat
  lastAddr : Addr
deriving Repr, DecidableEq, Inhabited

/-- `Backend::new` over a caller-supplied receive buffer (whatever it contains) -/
def Backend.new (buf : Bytes) : Backend := { buf := buf, totRead := 0, readUntil := 0, lastAddr := 0 }

/-- `recv(&mut buf)`: the datagram (cut to the buffer size) overwrites a prefix of the buffer -/
def recvInto (buf d : Bytes) : Bytes × Nat :=
  let d' := d.take buf.length
  (d' ++ buf.drop d'.length, d'.length)

/-- `get_next_read`: poll the flag, `recv`, skip failures and empty reads. `none` = `Err("Done")`. -/
def getNextRead (b : Backend) : List Rx → Option Nat × Backend × List Rx
  | [] => (none, b, [])
  | .stop :: rest => (none, b, rest)
  | .recvErr :: rest => getNextRead b rest
  | .sf _ :: rest => getNextRead b rest
  | .dgram a d :: rest =>
    let (buf', n) := recvInto b.buf d
    let b' := { b with buf := buf', lastAddr := a }
    if n = 0 then getNextRead b' rest else (some n, b', rest)

/-- parse one message out of `buf[lo..hi]` and advance the cursor (shared tail of both branches) -/
def parseAt (b : Backend) (rx : List Rx) : Out (Option (Msg × Addr) × Backend × List Rx) := do
  let s ← sliceP b.buf b.readUntil b.totRead
  match fromBuf s with
  | .panic => .panic
  | .err => .ok (none, b, rx)
  | .ok (m, n) => .ok (some (m, b.lastAddr), { b with readUntil := b.readUntil + n }, rx)

/-- `Backend::next` (with the leftover slice bounded by `tot_read`, F1) -/
def next (b : Backend) (rx : List Rx) : Out (Option (Msg × Addr) × Backend × List Rx) :=
  if b.readUntil < b.totRead then parseAt b rx
  else
    match getNextRead b rx with
    | (none, b', rx') => .ok (none, b', rx')
    | (some r, b', rx') => parseAt { b' with totRead := r, readUntil := 0 } rx'

/-- call `next` until it returns `None`, collecting what it yields (the `while let` of the runtime) -/
def run : Nat → Backend → List Rx → Out (List (Msg × Addr))
  | 0, _, _ => .ok []
  | fuel + 1, b, rx => do
    let (y, b', rx') ← next b rx
    match y with
    | none => pure []
    | some p => do
      let r ← run fuel b' rx'
      pure (p :: r)

/-- enough fuel for `run`: one step per received byte plus one per script entry -/
def rxFuel : List Rx → Nat
  | [] => 1
  | .dgram _ d :: r => d.length + 1 + rxFuel r
  | _ :: r => 1 + rxFuel r

end Portus.Ipc
