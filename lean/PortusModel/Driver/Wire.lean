import PortusModel.Driver.Util
import PortusModel.Wire.Dp
namespace Portus.Driver
open Portus Portus.Wire

def showMsg (m : Msg) (n : Nat) : String :=
  match m with
  | .cr c => s!"OK CR {c.sid} {c.cwnd} {c.mss} {c.srcIp} {c.srcPort} {c.dstIp} {c.dstPort} " ++
      (match c.alg with | none => "-" | some b => "s:" ++ hexOrDash b) ++ s!" {n}"
  | .ms m => s!"OK MS {m.sid} {m.uid} {m.numFields} " ++
      (if m.fields.isEmpty then "-" else joinWith "," (m.fields.map toString)) ++ s!" {n}"
  | .rdy id => s!"OK RD {id} {n}"
  | .other r => s!"OK OT {r.typ} {r.len} {r.sid} {hexOrDash r.bytes} {n}"

def dec (args : List String) : String :=
  match args with
  | [h] => match fromHex h with
    | some b => showOut (fun (p : Msg × Nat) => showMsg p.1 p.2) (fromBuf b)
    | none => "BADARG"
  | _ => "BADARG"

/-- `DECPAR`: decoding is a function of the bytes: the answers of the buffers decoded alone, and nothing changes when they are
decoded on several threads at once -/
def decpar (args : List String) : String :=
  if args.length < 2 ∨ args.length > 16 then "BADARG" else
  match args.mapM fromHex with
  | some bs => joinWith " || " (bs.map (fun b => showOut (fun (p : Msg × Nat) => showMsg p.1 p.2) (fromBuf b)) ++ ["STABLE"])
  | none => "BADARG"

/-- iterate `fromBuf` over one datagram (fuel = length: each step consumes at least one byte) -/
def decsLoop : Nat → Bytes → List String → List String
  | 0, _, acc => acc.reverse
  | fuel + 1, b, acc =>
    if b.isEmpty then acc.reverse else
    match fromBuf b with
    | .ok (m, n) =>
      if n = 0 then ("STUCK" :: showMsg m n :: acc).reverse
      else decsLoop fuel (b.drop n) (showMsg m n :: acc)
    | .err => ("ERR" :: acc).reverse
    | .panic => ("PANIC" :: acc).reverse

def decs (args : List String) : String :=
  match args with
  | [h] => match fromHex h with
    | some b =>
      let out := decsLoop (b.length + 1) b []
      if out.isEmpty then "EMPTY" else joinWith " | " out
    | none => "BADARG"
  | _ => "BADARG"

def encDp (args : List String) : Option String :=
  match args with
  | ["CR", sid, cwnd, mss, sip, sport, dip, dport, alg] => do
    let v ← [sid, cwnd, mss, sip, sport, dip, dport].mapM String.toNat?
    if v.any (· ≥ 2^32) then none
    let a : Option Bytes ←
      (if alg = "-" then some none
       else if alg.startsWith "s:" then
         (fromHex (let h := (alg.drop 2).toString; if h.isEmpty then "-" else h)).map some
       else none)
    match a with
    | some b => if !validUtf8 b then return "SKIP"
    | none => pure ()
    match v with
    | [sid, cwnd, mss, sip, sport, dip, dport] =>
      some (showOut (fun b => "OK " ++ hexOrDash b)
        (serializeCreate { sid, cwnd, mss, srcIp := sip, srcPort := sport, dstIp := dip, dstPort := dport, alg := a }))
    | _ => none
  | ["MS", sid, uid, nf, fields] => do
    let sid ← sid.toNat?
    let uid ← uid.toNat?
    let nf ← nf.toNat?
    let fs ← natList fields
    if sid ≥ 2^32 ∨ uid ≥ 2^32 ∨ nf ≥ 256 ∨ fs.any (· ≥ 2^64) then none
    some (showOut (fun b => "OK " ++ hexOrDash b)
      (serializeMeasure { sid, uid, numFields := nf, fields := fs }))
  | ["RD", id] => do
    let id ← id.toNat?
    if id ≥ 2^32 then none
    some (showOut (fun b => "OK " ++ hexOrDash b) (serializeReady id))
  | _ => none

/-- split a token list at `;` -/
def splitSemi (toks : List String) : List (List String) :=
  let rec go (ts : List String) (cur : List String) (acc : List (List String)) : List (List String) :=
    match ts with
    | [] => (cur.reverse :: acc).reverse
    | t :: rest => if t = ";" then go rest [] (cur.reverse :: acc) else go rest (t :: cur) acc
  go toks [] []

def rt (args : List String) : String :=
  let rec go (ms : List (List String)) (acc : Bytes) : Except String Bytes :=
    match ms with
    | [] => .ok acc
    | m :: rest =>
      match encDp m with
      | none => .error "BADARG =>"
      | some r =>
        if r.startsWith "OK " then
          match fromHex (r.drop 3).toString with
          | some b => go rest (acc ++ b)
          | none => .error "BADHEX =>"
        else .error (r ++ " =>")
  match go (splitSemi args) [] with
  | .error e => e
  | .ok bytes => s!"OK {hexOrDash bytes} => {decs [hexOrDash bytes]}"

end Portus.Driver
