import PortusModel.Generated.UidOp
/-! `UID`: model-side answers for C17 (kept independent of Props/C17 so it still builds when the
obligation `generated_is_single_rmw` is broken by a code change) -/
namespace Portus.Driver
open Portus.Conc

/-- `UID search`: a two-thread counter-schedule for the *generated* allocation code, if any;
`UID seq <n>`: the uids of `n` sequential allocations -/
def uidCmd (args : List String) : String :=
  match args with
  | ["search"] =>
    match findDuplicate Portus.Generated.allocOps Portus.Generated.retDelta Portus.Generated.counterInit with
    | some (s, out) => s!"DUPLICATE schedule={s} uids={out} ops={repr Portus.Generated.allocOps}"
    | none => s!"NONE ops={repr Portus.Generated.allocOps} ret=+{Portus.Generated.retDelta}"
  | ["seq", n] =>
    match n.toNat? with
    | some n =>
      let w := runSchedule Portus.Generated.allocOps Portus.Generated.retDelta
        (World.init Portus.Generated.counterInit [n]) (List.replicate (n * Portus.Generated.allocOps.length) 0)
      -- uids relative to the first one (the harness process has allocated before)
      let out := w.out.reverse
      match out with
      | [] => "SEQ -"
      | first :: _ => "SEQ " ++ ",".intercalate (out.map fun x => toString (x - first))
    | none => "BADARG"
  | ["stress", t, per] =>
    -- by `C17.uids_unique`: every interleaving of t threads x per allocations returns t*per distinct uids
    match t.toNat?, per.toNat? with
    | some t, some per =>
      -- the harness lets thread k compile a late-failing program at the iterations i with (i + 3k) % 4096 = 7: those consume a
      -- uid (never seen again) and record nothing
      let skipped := (List.range t).foldl (fun acc k => acc + ((List.range per).filter fun i => (i + 3 * k) % 4096 = 7).length) 0
      s!"UNIQUE total={t * per - skipped} distinct={t * per - skipped}"
    | _, _ => "BADARG"
  | ["flow"] => "FLOW install_eq=true clone_eq=true"   -- `C17.scope_uid_is_allocated`, `C17.uid_in_install`; clone is structural
  | _ => "BADARG"

/-- `STOP <run> <handle> <point> <k>`: what the theorems of C18 predict for every stop point: the run returns
`Ok` (C18.stop_returns_ok / run_ignores_after_stop), the transport is closed once after the flows are dropped,
at most one `recv` is in flight after the clear, no callback after the return; a message that fails to decode
while no stop was requested gives `Err` (C18.result_ok_iff_stopped) -/
def stopCmd (args : List String) : String :=
  match args with
  | [run, handle, point, _k] =>
    let run := if run = "inline-early" ∨ run = "inline-raw" then "inline" else if run = "spawn-early" ∨ run = "spawn-raw" then "spawn" else run
    if !(run = "inline" ∨ run = "spawn") ∨ !(handle = "caller" ∨ handle = "internal") ∨
       (handle = "internal" ∧ run ≠ "spawn") then "BADARG"
    else if point = "badmsg" then "RES ERR closes=1 recv_after_clear_le1=1 late_cb=0 latency_ok=1 strong=1"
    else if point = "pre" ∨ point = "mid" ∨ point = "blocked" ∨ point = "flood" ∨ point = "quiet" then
      "RES OK closes=1 recv_after_clear_le1=1 late_cb=0 latency_ok=1 strong=1"
    else "BADARG"
  | _ => "BADARG"

/-- `STOPX <kind> <ctor>`: the stop logic is the same on every transport (C18 theorems); the bundled blocking transports return
from `recv` within their 1 s timeout, so the kill is seen and `wait()` yields Ok -/
def stopxCmd (args : List String) : String :=
  match args with
  | ["unix", c] => if c = "new" ∨ c = "skbuf" ∨ c = "skbufsz" then "RESX OK latency_ok=1" else "BADARG"
  | ["chan", "b"] => "RESX OK latency_ok=1"
  -- datagrams from a peer without a pathname are failed reads: the loop polls the flag after each (C18.stop_poll_ends_reception)
  | ["unixnoise", c] => if c = "burst" ∨ c = "steady" then "RESX OK latency_ok=1" else "BADARG"
  | _ => "BADARG"

end Portus.Driver
