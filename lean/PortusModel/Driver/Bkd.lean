import PortusModel.Driver.Wire
import PortusModel.Ipc.Backend
namespace Portus.Driver
open Portus Portus.Wire Portus.Ipc

def parseRx (t : String) : Option Rx :=
  if t = "E" then some .recvErr
  else if t = "X" then some .stop
  else match t.splitOn ":" with
    | [a, h] => do
      let a ← a.toNat?
      let d ← fromHex h
      some (.dgram a d)
    | _ => none

def parseFill (t : String) : Option UInt8 :=
  if t.startsWith "F:" then
    match fromHexAux (t.drop 2).toString.toList with
    | some [b] => some b
    | _ => none
  else none

/-- `BKDR`: `next()` until it returns `None`; when that was caused by the stop flag (not by undecodable bytes) and script
items remain, the caller resumes (sets the flag again, calls `next()` on the same backend), marking the pause `NONE` -/
def runResume : Nat → Backend → List Rx → List String → Out (List String)
  | 0, _, _, acc => .ok acc
  | fuel + 1, b, rx, acc =>
    match next b rx with
    | .panic => .panic
    | .err => .err
    | .ok (some p, b', rx') => runResume fuel b' rx' (acc ++ [s!"{p.2} {showMsg p.1 0}"])
    | .ok (none, b', rx') =>
      let stopped := if b.readUntil < b.totRead then false else (getNextRead b rx).1.isNone
      if !stopped then .ok (acc ++ ["FAILED"])
      else if rx'.isEmpty then .ok acc else runResume fuel b' rx' (acc ++ ["NONE"])

def bkdr (args : List String) : String :=
  match args with
  | f :: items =>
    match parseFill f, items.mapM parseRx with
    | some fill, some rx =>
      match runResume (2 * rxFuel rx + 2) (Backend.new (List.replicate 1024 fill)) rx [] with
      | .ok ys => joinWith " | " (ys ++ ["END"])
      | .err => "ERR"
      | .panic => "PANIC"
    | _, _ => "BADARG"
  | _ => "BADARG"

def bkd (args : List String) : String :=
  match args with
  | f :: items =>
    match parseFill f, items.mapM parseRx with
    | some fill, some rx =>
      match run (rxFuel rx + 1) (Backend.new (List.replicate 1024 fill)) rx with
      | .ok ys => joinWith " | " (ys.map (fun (p : Msg × Addr) => s!"{p.2} {showMsg p.1 0}") ++ ["END"])
      | .err => "ERR"
      | .panic => "PANIC"
    | _, _ => "BADARG"
  | _ => "BADARG"

/-- `BKDC`: the same loop over the in-process channel transport: a datagram longer than the 1024-byte buffer is refused by the
transport's receive (`C19.fits_recv_whole` / `recvInto`: an error, the datagram is gone), every other one arrives whole -/
def bkdc (args : List String) : String :=
  match args with
  | f :: items =>
    match parseFill f, items.mapM parseRx with
    | some fill, some rx =>
      if rx.any (fun r => match r with | .dgram a _ => a ≠ 0 | _ => true) then "BADARG" else
      let rx := rx.map fun r => match r with
        | .dgram a d => if d.length > 1024 then .recvErr else .dgram a d
        | r => r
      match run (rxFuel rx + 1) (Backend.new (List.replicate 1024 fill)) rx with
      | .ok ys => joinWith " | " (ys.map (fun (p : Msg × Addr) => s!"{p.2} {showMsg p.1 0}") ++ ["END"])
      | .err => "ERR"
      | .panic => "PANIC"
    | _, _ => "BADARG"
  | _ => "BADARG"

end Portus.Driver
