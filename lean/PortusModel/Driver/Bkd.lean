import PortusModel.Driver.Wire
import PortusModel.Ipc.Backend
namespace Portus.Driver
open Portus Portus.Wire Portus.Ipc

def parseRx (t : String) : Option Rx :=
  if t = "E" then some .recvErr
  else if t = "X" then some .stop
  else match t.splitOn ":" with
    | [a, h] => do
      let a ← a.toNat?
      let d ← fromHex h
      some (.dgram a d)
    | _ => none

def parseFill (t : String) : Option UInt8 :=
  if t.startsWith "F:" then
    match fromHexAux (t.drop 2).toString.toList with
    | some [b] => some b
    | _ => none
  else none

def bkd (args : List String) : String :=
  match args with
  | f :: items =>
    match parseFill f, items.mapM parseRx with
    | some fill, some rx =>
      match run (rxFuel rx + 1) (Backend.new (List.replicate 1024 fill)) rx with
      | .ok ys => joinWith " | " (ys.map (fun (p : Msg × Addr) => s!"{p.2} {showMsg p.1 0}") ++ ["END"])
      | .err => "ERR"
      | .panic => "PANIC"
    | _, _ => "BADARG"
  | _ => "BADARG"

end Portus.Driver
