import PortusModel.Props.C19
/-! `XPT` (model side) and `ORC C19`: what the transport model predicts for a run of the harness's sender threads,
and the acceptor `C19.check` on what the real transports delivered -/
namespace Portus.Driver
open Portus Portus.Conc.Xpt

/-- the harness's datagram sizes (`size_of` in harness/src/xpt.rs) -/
def xptSize (seed n s q cap : Nat) : Nat :=
  let min := if n = 1 then 1 else 8
  let span := cap - min + 1
  if q % 17 = 3 then cap else if q % 17 = 5 then min else min + ((seed * 31 + s * 7919 + q * 104729) % span)

def xjoin (sep : String) (l : List String) : String := sep.intercalate l

def xptLens (seed n count cap : Nat) : List (List Nat) :=
  (List.range n).map fun s => (List.range count).map fun q => xptSize seed n s q cap


/-- per sender, in that sender's order: what a drained FIFO transport delivers (theorems `drained_all_once`,
`sentOf_opsOf_filter`): every datagram once, in order, intact, rightly attributed -/
def xptCmd (args : List String) : String :=
  match args with
  | ["over", k, m] =>
    if !(k = "chan" ∨ k = "unix") ∨ !(m = "b" ∨ m = "nb") then "BADARG" else
    -- `recvInto 64` on datagrams of 65, 100 and 10 bytes
    let show1 (n : Nat) : String :=
      match recvInto 64 (k = "chan") ⟨0, 0, List.replicate n 0⟩ with
      | .ok (len, _) => s!"OK:{len}:1"
      | .err => "ERR"
      | .panic => "PANIC"
    "OVER " ++ show1 65 ++ " " ++ show1 100 ++ " " ++ show1 10
  | ["rawaddr", m] => if m = "b" ∨ m = "nb" then "RAWADDR data_ok=1 addr_ok=1 reply_ok=1" else "BADARG"
  | ["rebind", m] => if m = "b" ∨ m = "nb" then "REBIND data_ok=1 addr_ok=1 reply_ok=1" else "BADARG"
  | ["dead", k] => if k = "chan" ∨ k = "unix" then "DEAD live=OK after=ERR" else "BADARG"
  -- a burst at a receiver that drains later: received = exactly the sends that answered Ok (`C19.fifo_from_start` / `drained_all_once` with sent = the accepted sends)
  | ["late", m] => if m = "nb" ∨ m = "nbs" then "LATE match=1" else "BADARG"
  | [kind, mode, n, count, seed, cap] =>
    match n.toNat?, count.toNat?, seed.toNat?, cap.toNat? with
    | some n, some count, some seed, some cap =>
      let bidir := mode.endsWith "d"
      let mode := if bidir then (mode.dropRight 1) else mode
      let skbuf := mode = "bs" ∨ mode = "nbs"
      let mode := if mode = "bs" then "b" else if mode = "nbs" then "nb" else mode
      if !(kind = "chan" ∨ kind = "unix") ∨ !(mode = "b" ∨ mode = "nb") ∨ ((skbuf ∨ bidir) ∧ kind ≠ "unix") ∨ n < 1 ∨ n > 8 ∨ cap < 8 ∨ cap > 60000 ∨ count > 100000
      then "BADARG" else
      -- one admissible delivery order (sender-major); the check compares per sender
      let recs := (List.range n).flatMap fun s => (List.range count).map fun q => s!"{s}:{q}:{xptSize seed n s q cap}:1:1"
      let sent := xjoin ";" ((List.range n).map fun s => s!"{s}={count}")
      "SENT " ++ sent ++ " | RECV " ++ (if recs.isEmpty then "-" else xjoin "," recs) ++ " | " ++
        (if mode = "nb" then "EMPTY ERR fast" else "EMPTY - -") ++ " | RETRIES 0"
    | _, _, _, _ => "BADARG"
  | _ => "BADARG"

def parseXptRx (t : String) : Option C19.Rx :=
  match t.splitOn ":" with
  | [s, q, l, b, a] =>
    match s.toNat?, q.toNat?, l.toNat? with
    | some s, some q, some l => some ⟨s, q, l, b = "1", a = "1"⟩
    | _, _, _ => none
  | _ => none

/-- `ORC C19 <n> <count> <seed> <cap> <mode> @@ <harness answer>` -/
def orcC19 (args : List String) : String :=
  match args with
  | "over" :: "@@" :: obs => if obs.any (· = "PANIC") || obs.length ≠ 4 then "FAIL oversize-panic" else "PASS"
  | "rawaddr" :: "@@" :: obs => if obs = ["RAWADDR", "data_ok=1", "addr_ok=1", "reply_ok=1"] then "PASS" else "FAIL sender-address"
  | "rebind" :: "@@" :: obs => if obs = ["REBIND", "data_ok=1", "addr_ok=1", "reply_ok=1"] then "PASS" else "FAIL sender-address-after-rebind"
  | "late" :: "@@" :: obs => if obs = ["LATE", "match=1"] then "PASS" else "FAIL acked-datagram-lost-or-unacked-delivered"
  | "dead" :: "@@" :: obs => if obs = ["DEAD", "live=OK", "after=ERR"] then "PASS" else "FAIL dead-handle"
  | n :: count :: seed :: cap :: mode :: "@@" :: obs =>
    match n.toNat?, count.toNat?, seed.toNat?, cap.toNat? with
    | some n, some count, some seed, some cap =>
      -- obs: SENT … | RECV <list> | EMPTY x y | RETRIES k
      match obs with
      | "SENT" :: _ :: "|" :: "RECV" :: recs :: "|" :: "EMPTY" :: e1 :: e2 :: _ =>
        let rx := if recs = "-" then some [] else (recs.splitOn ",").mapM parseXptRx
        match rx with
        | none => "FAIL unparsable-observation"
        | some rx =>
          if !C19.check (xptLens seed n count cap) rx then "FAIL delivery"
          else if (mode = "nb" || mode = "nbs" || mode = "nbd" || mode = "nbsd") && !(e1 = "ERR" && e2 = "fast") then "FAIL empty-nonblocking-recv"
          else "PASS"
      | _ => "FAIL unparsable-observation"
    | _, _, _, _ => "BADARG"
  | _ => "BADARG"

end Portus.Driver
