import PortusModel.Driver.Util
import PortusModel.Lang.Compile
namespace Portus.Driver
open Portus Portus.Lang

/-- UTF-8 encoding of one code point (for rendering names as hex) -/
def utf8Enc (c : Nat) : Bytes :=
  if c < 0x80 then [byte c]
  else if c < 0x800 then [byte (0xC0 + c / 64), byte (0x80 + c % 64)]
  else if c < 0x10000 then [byte (0xE0 + c / 4096), byte (0x80 + c / 64 % 64), byte (0x80 + c % 64)]
  else [byte (0xF0 + c / 262144), byte (0x80 + c / 4096 % 64), byte (0x80 + c / 64 % 64), byte (0x80 + c % 64)]

def nameHex (n : Name) : String := hexOrDash (n.flatMap fun c => utf8Enc c.toNat)

def hexToName (h : String) : Option Name := do
  let b ← fromHex h
  let cps ← utf8Decode b
  pure (cps.map Char.ofNat)

def showTy : Ty → String
  | .bool none => "bool?"
  | .bool (some b) => if b then "bool1" else "bool0"
  | .num none => "num?"
  | .num (some n) => s!"num{n}"
  | .name s => "name" ++ nameHex s
  | .none => "none"

def showReg : Reg → String
  | .control i t v => s!"C{i}{if v then "v" else "n"}:{showTy t}"
  | .report i t v => s!"R{i}{if v then "v" else "n"}:{showTy t}"
  | .implicit i t => s!"I{i}:{showTy t}"
  | .local i t => s!"L{i}:{showTy t}"
  | .primitive i t => s!"P{i}:{showTy t}"
  | .tmp i t => s!"T{i}:{showTy t}"
  | .immNum n => s!"N{n}"
  | .immBool b => if b then "B1" else "B0"
  | .none => "X"

def parseNamedUpdates (s : String) : Option (List (Name × Nat)) :=
  if s = "-" then some [] else
  (s.splitOn ";").mapM fun t =>
    match t.splitOn "=" with
    | [n, v] => do
      let n ← hexToName n
      let v ← v.toNat?
      if v < 2^32 then some (n, v) else none
    | _ => none

def parseNames (s : String) : Option (List Name) :=
  if s = "-" then some [] else (s.splitOn ";").mapM hexToName

def cmp (args : List String) : String :=
  match args.take 3 with
  | [src, upd, names] =>
    match fromHex src, parseNamedUpdates upd, parseNames names with
    | some src, some upd, some names =>
      match compileAndSerializeBytes 1 src upd with
      | .ok (img, sc) =>
        let regs := names.map fun n => match sc.get n with | some r => showReg r | none => "?"
        s!"OK {hexOrDash img} {if regs.isEmpty then "-" else joinWith ";" regs}"
      | .err => "ERR"
      | .panic => "PANIC"
    | _, _, _ => "BADARG"
  | _ => "BADARG"

def showOp : Op → String
  | .add => "Add" | .and => "And" | .bind => "Bind" | .div => "Div" | .equiv => "Equiv" | .gt => "Gt"
  | .lt => "Lt" | .max => "Max" | .maxWrap => "MaxWrap" | .min => "Min" | .mul => "Mul" | .or => "Or"
  | .sub => "Sub" | .def => "Def" | .if => "If" | .notIf => "NotIf" | .ewma => "Ewma"

def showExpr : Expr → String
  | .atom (.bool b) => s!"Atom(Bool({b}))"
  | .atom (.name n) => "Atom(Name(\"" ++ (let h := nameHex n; if h = "-" then "" else h) ++ "\"))"
  | .atom (.num n) => s!"Atom(Num({n}))"
  | .cmd .fallthrough => "Cmd(Fallthrough)"
  | .cmd .report => "Cmd(Report)"
  | .sexp o l r => s!"Sexp({showOp o},{showExpr l},{showExpr r})"
  | .none => "None"

def showEvent (e : Event) : String :=
  "Event{flag:" ++ showExpr e.flag ++ ",body:[" ++ joinWith "," (e.body.map showExpr) ++ "]}"

def ast (args : List String) : String :=
  match args with
  | [src] =>
    match fromHex src with
    | none => "BADARG"
    | some b =>
      match utf8Decode b with
      | none => "SKIP"
      | some cps =>
        match newWithScope 1 (cps.map Char.ofNat) with
        | .ok (evs, _) => "OK Prog([" ++ joinWith "," (evs.map showEvent) ++ "])"
        | .err => "ERR"
        | .panic => "PANIC"
  | _ => "BADARG"

/-- `CMPX <srchex>`: the two-step public route (`Prog::new_with_scope`, `Bin::compile_prog`, `Bin::serialize`): with the returned
scope (R1), a second time against the scope the first compilation left behind (R2), against `Scope::default()` (R3) -/
def cmpx (args : List String) : String :=
  match args with
  | [src] =>
    match fromHex src with
    | none => "BADARG"
    | some b =>
      match utf8Decode b with
      | none => "NOTUTF8"
      | some cps =>
        let showR (r : Out Bytes) : String := match r with
          | .ok img => s!"OK {hexOrDash img}"
          | .err => "ERR"
          | .panic => "PANIC"
        let ser (r : Out (Bin × Scope)) : Out Bytes := match r with
          | .ok (bin, _) => bin.serialize
          | .err => .err
          | .panic => .panic
        match newWithScope 1 (cps.map Char.ofNat) with
        | .err => "R1 ERR | R2 ERR | R3 ERR | R4 ERR"
        | .panic => "PANIC"
        | .ok (evs, sc) =>
          let c1 := compileProg evs sc
          let sc1 := match c1 with | .ok (_, s) => s | _ => sc
          let c2 := compileProg evs sc1
          let c3 := compileProg evs (Scope.new 1)
          -- R4: another program (harness constant CMPX_SECOND) against the scope the first compilation left behind
          let second := "(def (Report (zzq 0))) (when true (:= zzfresh (+ Cwnd 1)) (:= zzother zzfresh) (:= Rate (+ zzother zzfresh)))".toList
          let c4 : Out (Bin × Scope) := match parseSource second with
            | some (_, evs2) => compileProg evs2 sc1
            | none => .err
          let rs := [ser c1, ser c2, ser c3, ser c4]
          if rs.any (fun r => match r with | .panic => true | _ => false) || [c1, c2, c3].any (fun r => match r with | .panic => true | _ => false)
          then "PANIC"
          else
            let r2 := match c1 with | .ok _ => showR (ser c2) | _ => "-"
            let r4 := match c1 with | .ok _ => showR (ser c4) | _ => "-"
            s!"R1 {showR (ser c1)} | R2 {r2} | R3 {showR (ser c3)} | R4 {r4}"
  | _ => "BADARG"

/-- `CMPPAR`: compilation is a function of the source (the uid apart): the answers of the sources compiled alone, and nothing
changes when they are compiled on several threads at once -/
def cmppar (args : List String) : String :=
  if args.length < 2 ∨ args.length > 32 then "BADARG" else
  match args.mapM fromHex with
  | none => "BADARG"
  | some bs =>
    let one (b : Bytes) : String := match compileAndSerializeBytes 1 b [] with
      | .ok (img, _) => s!"OK {hexOrDash img}"
      | .err => "ERR"
      | .panic => "PANIC"
    joinWith " || " (bs.map one ++ ["STABLE"])

end Portus.Driver
