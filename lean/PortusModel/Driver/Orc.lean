import PortusModel.Driver.Wire
import PortusModel.Props.C04
/-! `ORC <id> Cnn <input> <observed…>`: evaluate the property oracle `Cnn.check` on behaviour observed
from the implementation. Answers `PASS` or `FAIL`. -/
namespace Portus.Driver
open Portus Portus.Wire

def parseAlg (s : String) : Option (Option Bytes) :=
  if s = "-" then some none
  else if s.startsWith "s:" then
    (fromHex (let h := (s.drop 2).toString; if h.isEmpty then "-" else h)).map some
  else none

/-- parse one rendered decode result (the format of `showMsg`) -/
def parseDecResult (toks : List String) : Option (Out (Msg × Nat)) :=
  match toks with
  | ["ERR"] => some .err
  | ["PANIC"] => some .panic
  | ["ABORT"] => some .panic
  | ["OK", "CR", sid, cwnd, mss, sip, sport, dip, dport, alg, n] => do
    let v ← [sid, cwnd, mss, sip, sport, dip, dport, n].mapM String.toNat?
    let a ← parseAlg alg
    match v with
    | [sid, cwnd, mss, sip, sport, dip, dport, n] =>
      some (.ok (.cr { sid, cwnd, mss, srcIp := sip, srcPort := sport, dstIp := dip, dstPort := dport, alg := a }, n))
    | _ => none
  | ["OK", "MS", sid, uid, nf, fields, n] => do
    let sid ← sid.toNat?
    let uid ← uid.toNat?
    let nf ← nf.toNat?
    let fs ← natList fields
    let n ← n.toNat?
    some (.ok (.ms { sid, uid, numFields := nf, fields := fs }, n))
  | ["OK", "RD", id, n] => do
    let id ← id.toNat?
    let n ← n.toNat?
    some (.ok (.rdy id, n))
  | ["OK", "OT", typ, len, sid, bytes, n] => do
    let typ ← typ.toNat?
    let len ← len.toNat?
    let sid ← sid.toNat?
    let b ← fromHex bytes
    let n ← n.toNat?
    some (.ok (.other { typ, len, sid, bytes := b }, n))
  | _ => none

def passFail (b : Bool) : String := if b then "PASS" else "FAIL"

def orcC04 (args : List String) : String :=
  match args with
  | h :: res => match fromHex h, parseDecResult res with
    | some b, some r => passFail (C04.check b r)
    | _, _ => "FAIL unparsable-observation"
  | _ => "BADARG"

end Portus.Driver
