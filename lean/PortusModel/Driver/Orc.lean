import PortusModel.Driver.Wire
import PortusModel.Props.C04
import PortusModel.Props.C07
import PortusModel.Props.C08
import PortusModel.Driver.Bkd
import PortusModel.Driver.Ctl
import PortusModel.Props.C06
import PortusModel.Props.C10
import PortusModel.Props.C13
import PortusModel.Props.C14
import PortusModel.Props.C03
import PortusModel.Rt.Obs
import PortusModel.Props.C01
import PortusModel.Props.C01Sim
import PortusModel.Driver.Vm
import PortusModel.Driver.Lang
/-! `ORC <id> Cnn <input> <observed…>`: evaluate the property oracle `Cnn.check` on behaviour observed
from the implementation. Answers `PASS` or `FAIL`. -/
namespace Portus.Driver
open Portus Portus.Wire

def parseAlg (s : String) : Option (Option Bytes) :=
  if s = "-" then some none
  else if s.startsWith "s:" then
    (fromHex (let h := (s.drop 2).toString; if h.isEmpty then "-" else h)).map some
  else none

/-- parse one rendered decode result (the format of `showMsg`) -/
def parseDecResult (toks : List String) : Option (Out (Msg × Nat)) :=
  match toks with
  | ["ERR"] => some .err
  | ["PANIC"] => some .panic
  | ["ABORT"] => some .panic
  | ["OK", "CR", sid, cwnd, mss, sip, sport, dip, dport, alg, n] => do
    let v ← [sid, cwnd, mss, sip, sport, dip, dport, n].mapM String.toNat?
    let a ← parseAlg alg
    match v with
    | [sid, cwnd, mss, sip, sport, dip, dport, n] =>
      some (.ok (.cr { sid, cwnd, mss, srcIp := sip, srcPort := sport, dstIp := dip, dstPort := dport, alg := a }, n))
    | _ => none
  | ["OK", "MS", sid, uid, nf, fields, n] => do
    let sid ← sid.toNat?
    let uid ← uid.toNat?
    let nf ← nf.toNat?
    let fs ← natList fields
    let n ← n.toNat?
    some (.ok (.ms { sid, uid, numFields := nf, fields := fs }, n))
  | ["OK", "RD", id, n] => do
    let id ← id.toNat?
    let n ← n.toNat?
    some (.ok (.rdy id, n))
  | ["OK", "OT", typ, len, sid, bytes, n] => do
    let typ ← typ.toNat?
    let len ← len.toNat?
    let sid ← sid.toNat?
    let b ← fromHex bytes
    let n ← n.toNat?
    some (.ok (.other { typ, len, sid, bytes := b }, n))
  | _ => none

def passFail (b : Bool) : String := if b then "PASS" else "FAIL"

def orcC04 (args : List String) : String :=
  match args with
  | h :: res => match fromHex h, parseDecResult res with
    | some b, some r => passFail (C04.check b r)
    | _, _ => "FAIL unparsable-observation"
  | _ => "BADARG"

/-- split a token list at a separator token -/
def splitAt (sep : String) (toks : List String) : List (List String) :=
  let rec go (ts : List String) (cur : List String) (acc : List (List String)) : List (List String) :=
    match ts with
    | [] => (cur.reverse :: acc).reverse
    | t :: rest => if t = sep then go rest [] (cur.reverse :: acc) else go rest (t :: cur) acc
  go toks [] []

/-- a message given in the `ENC` argument syntax -/
def parseMsgSpec (toks : List String) : Option Msg :=
  match toks with
  | ["CR", sid, cwnd, mss, sip, sport, dip, dport, alg] => do
    let v ← [sid, cwnd, mss, sip, sport, dip, dport].mapM String.toNat?
    let a ← parseAlg alg
    match v with
    | [sid, cwnd, mss, sip, sport, dip, dport] =>
      some (.cr { sid, cwnd, mss, srcIp := sip, srcPort := sport, dstIp := dip, dstPort := dport, alg := a })
    | _ => none
  | ["MS", sid, uid, nf, fields] => do
    some (.ms { sid := ← sid.toNat?, uid := ← uid.toNat?, numFields := ← nf.toNat?, fields := ← natList fields })
  | ["RD", id] => do some (.rdy (← id.toNat?))
  | _ => none

def parseEncResult (toks : List String) : Option (Out Bytes) :=
  match toks with
  | ["OK", h] => (fromHex h).map .ok
  | ["ERR"] => some .err
  | ["PANIC"] => some .panic
  | ["ABORT"] => some .panic
  | _ => none

/-- the `DECS` rendering: results separated by `|` -/
def parseDecsResult (toks : List String) : Option (Out (List (Msg × Nat))) :=
  if toks = ["EMPTY"] ∨ toks = [] then some (.ok []) else
  let rec go (parts : List (List String)) (acc : List (Msg × Nat)) : Option (Out (List (Msg × Nat))) :=
    match parts with
    | [] => some (.ok acc.reverse)
    | p :: rest =>
      match parseDecResult p with
      | some (.ok x) => go rest (x :: acc)
      | some .err => some .err
      | some .panic => some .panic
      | none => none
  go (splitAt "|" toks) []

def orcC07 (args : List String) : String :=
  match splitAt "@@" args with
  | [spec, obs] =>
    let obs := if obs = ["PANIC"] ∨ obs = ["ABORT"] then ["PANIC", "=>", "PANIC"] else obs
    match splitAt "=>" obs with
    | [e, d] =>
      match (splitAt ";" spec).mapM parseMsgSpec, parseEncResult e, parseDecsResult d with
      | some ms, some enc, some dec => passFail (C07.check ms enc dec)
      | _, _, _ => "FAIL unparsable-observation"
    | _ => "FAIL unparsable-observation"
  | _ => "BADARG"

/-- the `BKD` rendering: `<addr> <decoded>` separated by `|`, terminated by `END` -/
def parseYields (toks : List String) : Option (Out (List (Msg × Nat))) :=
  if toks = ["PANIC"] ∨ toks = ["ABORT"] then some .panic else
  let rec go (parts : List (List String)) (acc : List (Msg × Nat)) : Option (Out (List (Msg × Nat))) :=
    match parts with
    | [["END"]] => some (.ok acc.reverse)
    | (a :: rest) :: more =>
      match a.toNat?, parseDecResult rest with
      | some a, some (.ok (m, _)) => go more ((m, a) :: acc)
      | _, _ => none
    | _ => none
  go (splitAt "|" toks) []

def orcC08 (args : List String) : String :=
  match splitAt "@@" args with
  | [_fill :: items, obs] =>
    match items.mapM parseRx, parseYields obs with
    | some rx, some ys => passFail (C08.check rx ys)
    | _, _ => "FAIL unparsable-observation"
  | _ => "BADARG"

def orcC06 (args : List String) : String :=
  match splitAt "@@" args with
  | [spec, obs] =>
    match parseCtlSpec spec, parseEncResult obs with
    | some s, some r =>
      let sp : C06.Spec := match s with | .cp m => .cp m | .uf m => .uf m | .ins m => .ins m
      passFail (C06.check sp r)
    | _, _ => "FAIL unparsable-observation"
  | _ => "BADARG"

def orcC10 (args : List String) : String :=
  match args with
  | "OK" :: _ => passFail (C10.check (.ok ()))
  | ["ERR"] => passFail (C10.check .err)
  | ["PANIC"] => passFail (C10.check .panic)
  | ["ABORT"] => passFail (C10.check .panic)
  | _ => "FAIL unparsable-observation"

/-- inverse of `showTy` -/
def parseTy (s : String) : Option Lang.Ty :=
  if s = "bool?" then some (.bool none) else if s = "bool1" then some (.bool (some true))
  else if s = "bool0" then some (.bool (some false)) else if s = "num?" then some (.num none)
  else if s = "none" then some .none
  else if s.startsWith "num" then (s.drop 3).toString.toNat?.map fun n => .num (some n)
  else if s.startsWith "name" then (hexToName (let h := (s.drop 4).toString; if h.isEmpty then "-" else h)).map .name
  else none

/-- inverse of `showReg` -/
def parseRegFull (s : String) : Option Lang.Reg :=
  match s.splitOn ":" with
  | [r] => parseReg r
  | [r, t] => do
    let t ← parseTy t
    match ← parseReg r with
    | .control i _ v => some (.control i t v)
    | .report i _ v => some (.report i t v)
    | .implicit i _ => some (.implicit i t)
    | .local i _ => some (.local i t)
    | .primitive i _ => some (.primitive i t)
    | .tmp i _ => some (.tmp i t)
    | x => some x
  | _ => none

def orcC13 (args : List String) : String :=
  match splitAt "@@" args with
  | [[src, upd, names], obs] =>
    match obs with
    | ["OK", _img, regs] =>
      match fromHex src, parseNamedUpdates upd, parseNames names with
      | some srcb, some upd, some names =>
        match utf8Decode srcb with
        | none => "PASS"
        | some cps =>
          let rs := if regs = "-" then [] else regs.splitOn ";"
          if rs.length ≠ names.length then "FAIL scope-listing-length" else
          match rs.mapM (fun r => if r = "?" then some none else (parseRegFull r).map some) with
          | some os => passFail (C13.check (cps.map Char.ofNat) upd (names.zip os))
          | none => "FAIL unparsable-observation"
      | _, _, _ => "BADARG"
    | ["ERR"] => "PASS"
    | _ => "FAIL"
  | _ => "BADARG"

def cmpObsImage (obs : List String) : Option (Out Bytes) :=
  match obs with
  | "OK" :: img :: _ => (fromHex img).map .ok
  | ["ERR"] => some .err
  | ["PANIC"] => some .panic
  | ["ABORT"] => some .panic
  | _ => none

def orcC14 (args : List String) : String :=
  match splitAt "@@" args with
  | [[pos, digits], obs] =>
    match cmpObsImage obs with
    | none => "FAIL unparsable-observation"
    | some o =>
      let ds := digits.toList
      if ds.isEmpty ∨ !ds.all Lang.isAsciiDigit then "BADARG" else
      match pos with
      | "operand" => passFail (C14.check .operand (C14.numeralValue ds) o)
      | "definition" => passFail (C14.check .definition (C14.numeralValue ds) o)
      | "override" => passFail (C14.check .override (some (Lang.digitsVal ds)) o)
      | _ => "BADARG"
  | _ => "BADARG"

def orcC03 (args : List String) : String :=
  match splitAt "@@" args with
  | [[src, upd], obs] =>
    match cmpObsImage obs, fromHex src, parseNamedUpdates upd with
    | some o, some srcb, some upd =>
      match o with
      | .panic => "FAIL"
      | .err => "PASS"
      | .ok _ =>
        match utf8Decode srcb with
        | none => "PASS"
        | some cps =>
          match Lang.parseSource (cps.map Char.ofNat) with
          | none => "PASS"
          | some (ds, evs) =>
            match Lang.declareAll (Lang.Scope.new 1) ds with
            | .ok sc0 =>
              passFail (C03.check (C03.expectedDefs (Lang.defInstrs (Lang.applyUpdates sc0 upd).named)) evs.length o)
            | _ => "PASS"
    | _, _, _ => "FAIL unparsable-observation"
  | _ => "BADARG"

def parseTrace (toks : List String) : Option (List Rt.Obs) :=
  if toks = ["PANIC"] ∨ toks = ["ABORT"] then some [.res "PANIC"] else
  (splitAt "|" toks).mapM Rt.parseObs

def orcTrace (f : List Rt.Obs → Bool) (args : List String) : String :=
  match parseTrace args with
  | some t => passFail (f t)
  | none => "FAIL unparsable-observation"

def orcC05 (args : List String) : String :=
  match splitAt "@@" args with
  | [[n], tr] =>
    match n.toNat? with
    | some n => orcTrace (Rt.checkC05 n) tr
    | none => "BADARG"
  | _ => "BADARG"

/-- the inputs (clock + primitives) of the `I` ops of a VM script -/
def vmInputs (ops : List (List String)) : Option (List Vm.Env) :=
  let rec go (ops : List (List String)) (now : Vm.Val) (acc : List Vm.Env) : Option (List Vm.Env) :=
    match ops with
    | [] => some acc.reverse
    | ["T", n] :: rest => (u64? n).bind fun n => go rest (UInt64.ofNat n) acc
    | ["I", _, cwnd, rate, ps] :: rest =>
      match u64? cwnd, u64? rate, (ps.splitOn ",").mapM u64? with
      | some c, some r, some ps => go rest now ({ now := now, timeZero := 0, prims := mkPrims c r ps } :: acc)
      | _, _, _ => none
    | _ :: rest => go rest now acc
  go ops 0 []

def parseIObs (toks : List String) : Option Lang.Frag.IObs :=
  match toks with
  | ["I", rc, c, r, sent] => do
    let rcv : Int ← rc.toInt?
    if rcv < 0 then some (.fault rcv) else
    let cv ← (if c = "c=-" then some none else ((c.drop 2).toString.toNat?).map some)
    let rv ← (if r = "r=-" then some none else ((r.drop 2).toString.toNat?).map some)
    let rep ← (if sent = "-" then some none else do
      let b ← fromHex sent
      let n := rd32 (b.drop 12)
      some (some ((List.range n).map fun i => rd64 (b.drop (16 + 8 * i)))))
    some (.done cv rv rep)
  | _ => none

def orcC01 (args : List String) : String :=
  match splitAt "@@" args with
  | [[src, upd], ops, obs] =>
    match fromHex src, parseNamedUpdates upd, vmInputs (splitSemi ops) with
    | some srcb, some upd, some inputs =>
      match utf8Decode srcb with
      | none => "PASS"
      | some cps =>
        let parts := (splitAt "|" obs).filter fun p => p.head? = some "I"
        match parts.mapM parseIObs with
        | some os =>
          let frag := C01.fragment (cps.map Char.ofNat) upd inputs
          -- "in-theorem": the program also meets every hypothesis of `C01.check_accepts_compiled` (uid 7 as installed by the scripts)
          let frag := if frag = "in-fragment" && C01.inTheorem 7 (cps.map Char.ofNat) upd then "in-theorem" else frag
          passFail (C01.check (cps.map Char.ofNat) upd inputs os) ++ " " ++ frag
        | none => "FAIL unparsable-observation"
    | _, _, _ => "BADARG"
  | _ => "BADARG"

/-- C20: two layouts (or two compilations) of one program must have the same outcome: both rejected, or
byte-identical images and identical name-to-register listings -/
def orcC20 (args : List String) : String :=
  match splitAt "@@" args with
  | [a, b] => passFail (a == b && a != ["PANIC"] && a != ["ABORT"])
  | _ => "BADARG"

end Portus.Driver
