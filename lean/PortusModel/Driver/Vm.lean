import PortusModel.Driver.Util
import PortusModel.Driver.Wire
import PortusModel.Vm.Datapath
import PortusModel.Lang.Lower
import PortusModel.Base.Utf8
/-! `VM`: the libccp model behind the same line protocol as /verif/harness/cvm/drv.c -/
namespace Portus.Driver
open Portus Portus.Vm

def u64? (s : String) : Option Nat := do
  if s.isEmpty ∨ !s.all Char.isDigit then none
  let n ← s.toNat?
  if n < 2^64 then some n else none

def showOptU32 (o : Option Val) : String :=
  match o with
  | some v => toString v.toUInt32.toNat
  | none => "-"

/-- build `struct ccp_primitives` from the 15 values (portus/libccp register order) with C conversions -/
def mkPrims (cwnd rate : Nat) (ps : List Nat) : Prims :=
  let conv (i : Nat) (v : Nat) : Val :=
    if i = 11 ∨ i = 12 ∨ i = 13 then UInt64.ofNat v
    else if i = 14 then (if v % 2^64 != 0 then 1 else 0)
    else UInt64.ofNat (v % 2^32)
  { vals := ps.zipIdx.map fun p => conv p.2 p.1, sndCwnd := UInt64.ofNat (cwnd % 2^32), sndRate := UInt64.ofNat rate }

structure VmSt where
  dp : Dp
  now : Val

def vmOp (st : VmSt) (toks : List String) : VmSt × String :=
  match toks with
  | ["T", n] =>
    match u64? n with
    | some n => ({ st with now := UInt64.ofNat n }, "T")
    | none => (st, "BAD")
  | ["M", h] =>
    match fromHex h with
    | some b => let r := readMsg st.dp b; ({ st with dp := r.1 }, s!"M {r.2} -")
    | none => (st, "BAD")
  | ["S", cwnd, mss, sip, sport, dip, dport, name] =>
    match [cwnd, mss, sip, sport, dip, dport].mapM u64?, fromHex name with
    | some [cwnd, mss, sip, sport, dip, dport], some nm =>
      if nm.length > 64 then (st, "BAD") else
      match connStart st.dp with
      | none => (st, "S NULL -")
      | some (dp, sid) =>
        let msg := Libccp.writeCreate sid (cwnd % 2^32) (mss % 2^32) (sip % 2^32) (sport % 2^32) (dip % 2^32)
          (dport % 2^32) (nm ++ zeros (64 - nm.length))
        ({ st with dp := dp }, s!"S {sid} {toHex msg}")
    | _, _ => (st, "BAD")
  | ["I", sid, cwnd, rate, ps] =>
    match u64? sid, u64? cwnd, u64? rate, (ps.splitOn ",").mapM u64? with
    | some sid, some cwnd, some rate, some ps =>
      if sid > 65535 ∨ ps.length ≠ 15 then (st, "BAD") else
      match invoke st.dp sid st.now (mkPrims cwnd rate ps) with
      | none => (st, "I NOCONN")
      | some (dp, o) =>
        let sent := match o.report with
          | some (uid, fields) => toHex (Libccp.writeMeasure sid uid (fields.map fun (v : Val) => v.toNat))
          | none => "-"
        ({ st with dp := dp }, s!"I {o.rc} c={showOptU32 o.setCwnd} r={showOptU32 o.setRate} {sent}")
    | _, _, _, _ => (st, "BAD")
  | ["F", sid] =>
    match u64? sid with
    | some sid =>
      if sid > 65535 then (st, "BAD") else
      match getConn st.dp sid with
      | none => (st, "F -")
      | some _ =>
        ({ st with dp := { st.dp with conns := st.dp.conns.set (sid - 1) none } },
          "F " ++ toHex (Libccp.writeMeasure sid 0 []))
    | none => (st, "BAD")
  | _ => (st, "BAD")

def vmCmd (args : List String) : String :=
  let ops := splitSemi args
  let ops := if args.isEmpty then [] else ops
  let rec go (st : VmSt) (ops : List (List String)) (acc : List String) : List String :=
    match ops with
    | [] => acc.reverse
    | o :: rest => let r := vmOp st o; go r.1 rest (r.2 :: acc)
  joinWith " | " ("INIT 0 05000c000000000001000000" :: go { dp := Dp.init, now := 0 } ops [])

end Portus.Driver

namespace Portus.Driver
open Portus Portus.Lang

/-- `LOW <srchex>`: does the model compiler's output equal the reference lowering? (self-test of the
C01 proof split; not a correspondence with the implementation) -/
def lowCmd (args : List String) : String :=
  match args with
  | [src] =>
    match (fromHex src).bind utf8Decode with
    | none => "NA"
    | some cps =>
      let s := cps.map Char.ofNat
      match parseSource s with
      | none => "NA-noparse"
      | some (ds, evs) =>
        match declareAll (Scope.new 1) ds, compile 1 s [] with
        | .ok sc0, .ok (bin, scF) =>
          let ρ : Rho := fun n => (scF.get n).map toVReg
          match lowerProg ρ ((defInstrs sc0.named).map toVInstr) evs with
          | some lp =>
            if lp.instrs = bin.instrs.map toVInstr ∧ lp.exprs = bin.events.map (fun e =>
                ({ condStart := e.flagIdx, numCond := e.numFlag, eventStart := e.bodyIdx, numEvent := e.numBody } : Libccp.Expr))
            then "SAME" else "DIFF"
          | none => "NOLOWER"
        | _, _ => "NA-nocompile"
  | _ => "BADARG"

end Portus.Driver
