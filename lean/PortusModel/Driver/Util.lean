import PortusModel.Base.Bytes
/-! Shared helpers of the line-protocol driver (not part of the model the theorems speak about). -/
namespace Portus.Driver
open Portus

def hexOrDash (b : Bytes) : String := if b.isEmpty then "-" else toHex b

def showOut {α} (f : α → String) : Out α → String
  | .ok a => f a
  | .err => "ERR"
  | .panic => "PANIC"

def joinWith (sep : String) (l : List String) : String := sep.intercalate l

def natList (s : String) : Option (List Nat) :=
  if s = "-" then some [] else (s.splitOn ",").mapM String.toNat?

end Portus.Driver
