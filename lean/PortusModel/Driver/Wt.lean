import PortusModel.Lemmas.Accept2
import PortusModel.Driver.Util
/-! `WT <srchex>`: the declarative well-typedness check of C20 (`Typing.WellTyped`, theorem `well_typed_accepted`) on a
source text: `WT 1` (well typed: the theorem says the compiler accepts it), `WT 0`, `WT noparse`, `WT notutf8` -/
namespace Portus.Driver
open Portus Portus.Lang

def wtCmd (args : List String) : String :=
  match args with
  | [src] =>
    match fromHex src with
    | none => "BADARG"
    | some b =>
      match utf8Decode b with
      | none => "WT notutf8"
      | some cps =>
        match Typing.wtSrc (cps.map Char.ofNat) with
        | none => "WT noparse"
        | some true => "WT 1"
        | some false => "WT 0"
  | _ => "BADARG"

end Portus.Driver
