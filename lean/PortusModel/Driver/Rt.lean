import PortusModel.Driver.Lang
import PortusModel.Driver.Wire
import PortusModel.Rt.Run
import PortusModel.Conc.Own
/-! `RUN`: the runtime model driven by the protocol of /verif/harness/RUN_PROTOCOL.md -/
namespace Portus.Driver
open Portus Portus.Lang Portus.Wire Portus.Ipc Portus.Rt

inductive Cmd where
  | sp (pname : String) (upd : Option (List (Name × Nat)))
  | uf (upd : List (Name × Nat))
  | gf (fieldHex : String) (field : Name)
  | gfp (pname : String) (fieldHex : String) (field : Name)
  /-- the flow compiles the program's text ITSELF (`lang::compile(src, overrides)`, the documented way to obtain a scope) and keeps
  the scope as `<pname>_c` -/
  | cu (pname : String) (upd : List (Name × Nat))
  /-- the flow clears the runtime's stop flag from inside the callback. The loop polls the flag only before a `recv`
  (`get_next_read`), so for the model this is a log line; the generator puts the `X` item right after the datagram in which the
  request is made (`C18.dispatch_after_stop_bounded`: the rest of the current datagram is still dispatched, then the run ends `Ok`) -/
  | st

structure AlgSpec where
  nameHex : String
  name : Bytes
  inst : Bool
  progs : List (String × Bytes)
  nf : List Cmd
  or_ : List Cmd

def decDigits (s : String) : Option Nat :=
  if s.isEmpty ∨ !s.all Char.isDigit then none else s.toNat?

def parseUpd (s : String) : Option (List (Name × Nat)) :=
  (s.splitOn ";").mapM fun t =>
    match t.splitOn "=" with
    | [n, v] => do
      let n ← hexToName n
      let v ← decDigits v
      if v < 2^32 then some (n, v) else none
    | _ => none

def parseCmd (s : String) : Option Cmd :=
  match s.splitOn ":" with
  | ["sp", p, u] => if u = "-" then some (.sp p none) else (parseUpd u).map fun l => .sp p (some l)
  | ["uf", u] => if u = "-" then some (.uf []) else (parseUpd u).map .uf
  | ["st"] => some .st
  | ["gf", h] => (hexToName h).map fun n => .gf h n
  | ["gfp", p, h] => (hexToName h).map fun n => .gfp p h n
  | ["cu", p, u] => if u = "-" then some (.cu p []) else (parseUpd u).map fun l => .cu p l
  | _ => none

def parseCmds (s : String) : Option (List Cmd) :=
  if s = "-" then some [] else (s.splitOn ",").mapM parseCmd

def parseProgs (s : String) : Option (List (String × Bytes)) :=
  if s = "-" then some [] else
  (s.splitOn ",").mapM fun t =>
    match t.splitOn "=" with
    | [n, h] => do
      let b ← fromHex h
      if (utf8Decode b).isNone then none
      some (n, b)
    | _ => none

def parseAlgs : List String → Option (List AlgSpec × List String)
  | "ALG" :: nm :: inst :: "PROGS" :: ps :: "NF" :: nf :: "OR" :: or_ :: rest => do
    let name ← fromHex nm
    if (utf8Decode name).isNone then none
    let inst ← (if inst = "1" then some true else if inst = "0" then some false else none)
    let ps ← parseProgs ps
    let nf ← parseCmds nf
    let or_ ← parseCmds or_
    let (more, rest') ← parseAlgs rest
    some ({ nameHex := if name.isEmpty then "-" else toHex name, name, inst, progs := ps, nf, or_ } :: more, rest')
  | "SCRIPT" :: rest => some ([], rest)
  | _ => none

/-! ## script -/

inductive MsgSpec where
  | raw (b : Bytes)
  | ms (sid : Nat) (uid : Nat ⊕ String) (vals : List Nat) (count : Option Nat := none)

inductive Item where
  | dgram (addr : Nat) (msgs : List MsgSpec)
  | e | x | sf (k : Nat)

def le32b (n : Nat) : Bytes := le32 n

def parseMsgSpecS (s : String) : Option MsgSpec :=
  match s.splitOn "." with
  | ["CR", sid, cwnd, mss, sip, sport, dip, dport, alg] => do
    let v ← [sid, cwnd, mss, sip, sport, dip, dport].mapM decDigits
    if v.any (· ≥ 2^32) then none
    let name ← fromHex alg
    if name.length > 64 then none
    match v with
    | [sid, cwnd, mss, sip, sport, dip, dport] =>
      some (.raw (serializeHeader 0 96 sid ++ le32 cwnd ++ le32 mss ++ le32 sip ++ le32 sport ++ le32 dip
        ++ le32 dport ++ name ++ zeros (64 - name.length)))
    | _ => none
  | "MS" :: sid :: rest => do
    -- uid may itself contain no dots; `u:p` has a colon which the caller has protected
    match rest with
    | [uid, vals] =>
      let sid ← decDigits sid
      if sid ≥ 2^32 then none
      let vs ← (if vals = "-" then some [] else (vals.splitOn ";").mapM decDigits)
      if vs.any (· ≥ 2^64) then none
      if 16 + 8 * vs.length > 65535 then none
      let u : Nat ⊕ String ← (if uid.startsWith "u:" then some (.inr (uid.drop 2).toString)
                              else (decDigits uid).bind fun n => if n < 2^32 then some (.inl n) else none)
      some (.ms sid u vs)
    | _ => none
  | "MC" :: sid :: rest => do
    -- a well-framed measurement with an explicit count word
    match rest with
    | [uid, count, vals] =>
      let sid ← decDigits sid
      if sid ≥ 2^32 then none
      let cnt ← decDigits count
      if cnt ≥ 2^32 then none
      let vs ← (if vals = "-" then some [] else (vals.splitOn ";").mapM decDigits)
      if vs.any (· ≥ 2^64) then none
      if 16 + 8 * vs.length > 65535 then none
      let u : Nat ⊕ String ← (if uid.startsWith "u:" then some (.inr (uid.drop 2).toString)
                              else (decDigits uid).bind fun n => if n < 2^32 then some (.inl n) else none)
      some (.ms sid u vs (some cnt))
    | _ => none
  | ["RD", id] => do
    let id ← decDigits id
    if id ≥ 2^32 then none
    some (.raw (serializeHeader 5 12 0 ++ le32 id))
  | ["RAW", h] => (fromHex h).map .raw
  | _ => none

def parseItem (s : String) : Option Item :=
  if s = "E" then some .e
  else if s = "X" then some .x
  else if s.startsWith "SF" then (decDigits (s.drop 2).toString).map .sf
  else
    -- `<addr>:<msgs>`; msgs may contain `u:` so split only at the first colon
    match s.splitOn ":" with
    | a :: rest@(_ :: _) => do
      let a ← decDigits a
      if a ≥ 2^32 then none
      let body := ":".intercalate rest
      if body.isEmpty then none
      let ms ← (body.splitOn "+").mapM parseMsgSpecS
      some (.dgram a ms)
    | _ => none

def renderMsg (known : String → Option Nat) : MsgSpec → Bytes
  | .raw b => b
  | .ms sid uid vals cnt =>
    let u := match uid with
      | .inl n => n
      | .inr p => (known p).getD 0
    serializeHeader 1 (16 + 8 * vals.length) sid ++ le32 u ++ le32 (cnt.getD vals.length) ++ vals.flatMap le64

def renderItem (known : String → Option Nat) : Item → Rx
  | .dgram a ms => .dgram a (ms.flatMap (renderMsg known))
  | .e => .recvErr
  | .x => .stop
  | .sf k => .sf k

/-! ## policy -/

structure UState where
  alg : Nat
  cur : Option Scope
  byProg : List (String × Scope)

def errKind : GetErr → String
  | .stale => "stale" | .notFound => "notfound" | .invalidType => "invalidtype" | .invalidReport => "invalidreport"

/-- the uid the model gives to the scope a flow compiles itself for the `k`-th registered program (the real uid is whatever the
counter says; the traces only ever show uids by name) -/
def cuUid (k : Nat) : Nat := 5000 + k

def showUid (progs : List ProgInfo) (uid : Nat) : String :=
  match progs.find? fun p => p.scope.uid = uid with
  | some p => "u:" ++ p.pname
  | none =>
    match (if uid ≥ 5000 then progs[uid - 5000]? else none) with
    | some p => "u:" ++ p.pname ++ "_c"
    | none => s!"?{uid}"

def showGet (r : Except GetErr Nat) : String :=
  match r with
  | .ok v => s!"OK {v}"
  | .error e => "ERR " ++ errKind e

/-- the flow of the harness: runs its command list, logging each result -/
def interp (srcs : List (String × Bytes)) (progs : List ProgInfo) (report : Option (Nat × List Nat)) : List Cmd → UState → UProg UState
  | [], s => .done s
  | .cu p upd :: rest, s =>
    let r : Option Scope := do
      let src ← srcs.lookup p
      let k ← progs.findIdx? (·.pname = p)
      let cps ← utf8Decode src
      match compile (cuUid k) (cps.map Char.ofNat) upd with
      | .ok (_, sc) => some sc
      | _ => none
    match r with
    | some sc => .log s!"CU {p} OK" (interp srcs progs report rest { s with byProg := (p ++ "_c", sc) :: s.byProg.filter (·.1 ≠ p ++ "_c") })
    | none => .log s!"CU {p} ERR" (interp srcs progs report rest s)
  | .sp p upd :: rest, s =>
    .setProgram p upd fun r =>
      match r with
      | some sc => .log s!"SP {p} OK {showUid progs sc.uid}"
          (interp srcs progs report rest { s with cur := some sc, byProg := (p, sc) :: s.byProg.filter (·.1 ≠ p) })
      | none => .log s!"SP {p} ERR" (interp srcs progs report rest s)
  | .st :: rest, s => .log "ST" (interp srcs progs report rest s)
  | .uf upd :: rest, s =>
    match s.cur with
    | none => .log "UF NOSCOPE" (interp srcs progs report rest s)
    | some sc => .updateField sc upd fun ok => .log (if ok then "UF OK" else "UF ERR") (interp srcs progs report rest s)
  | .gf h f :: rest, s =>
    match report with
    | none => .log s!"GF {h} NOREPORT" (interp srcs progs report rest s)
    | some (uid, fields) =>
      match s.cur with
      | none => .log s!"GF {h} NOSCOPE" (interp srcs progs report rest s)
      | some sc => .log s!"GF {h} {showGet (getField uid fields f sc)}" (interp srcs progs report rest s)
  | .gfp p h f :: rest, s =>
    match report with
    | none => .log s!"GFP {p} {h} NOREPORT" (interp srcs progs report rest s)
    | some (uid, fields) =>
      match s.byProg.lookup p with
      | none => .log s!"GFP {p} {h} NOSCOPE" (interp srcs progs report rest s)
      | some sc => .log s!"GFP {p} {h} {showGet (getField uid fields f sc)}" (interp srcs progs report rest s)

def mkPolicy (algs : List AlgSpec) (srcs : List (String × Bytes)) (progs : List ProgInfo) : Policy UState :=
  { newFlow := fun alg _ _ =>
      interp srcs progs none ((algs[alg]?.map (·.nf)).getD []) { alg := alg, cur := none, byProg := [] }
    onReport := fun s _ uid fields =>
      interp srcs progs (some (uid, fields)) ((algs[s.alg]?.map (·.or_)).getD []) s
    onClose := fun s => .done s }

/-! ## configuration: compile the programs as `run_inner` does -/

/-- union of the programs of all algorithms with an instance; on a name collision the algorithm
given earlier wins (the `HashMap` is filled from the outermost registration inwards); sorted by name -/
def collectProgs (algs : List AlgSpec) : List (String × Bytes) :=
  let all := (algs.filter (·.inst)).flatMap fun a =>
    -- inside one PROGS list the last entry for a name wins
    a.progs.reverse.foldl (fun acc p => if acc.any (·.1 = p.1) then acc else p :: acc) []
  let dedup := all.foldl (fun acc p => if acc.any (·.1 = p.1) then acc else acc ++ [p]) []
  dedup.mergeSort fun a b => a.1 ≤ b.1

def buildProgs : List (String × Bytes) → Nat → Option (List ProgInfo)
  | [], _ => some []
  | (n, src) :: rest, uid =>
    match utf8Decode src with
    | none => none
    | some cps =>
      match compile uid (cps.map Char.ofNat) [] with
      | .ok (bin, sc) =>
        match serializeInstall { sid := 0, uid := sc.uid, numEvents := bin.events.length,
                                 numInstrs := bin.instrs.length, bin := bin } with
        | .ok b => (buildProgs rest (uid + 1)).map fun ps => { pname := n, scope := sc, install := b } :: ps
        | _ => none
      | _ => none

/-! ## rendering -/

def showEv (algs : List AlgSpec) (progs : List ProgInfo) : Ev → String
  | .tx a b =>
    let typ := rd16 b
    if typ = 2 ∧ b.length ≥ 20 then s!"TX {a} IN {showUid progs (rd32 (b.drop 8))}"
    else if typ = 4 ∧ b.length ≥ 16 then
      s!"TX {a} CP {rd32 (b.drop 4)} {showUid progs (rd32 (b.drop 8))} {hexOrDash (b.drop 16)}"
    else if typ = 3 ∧ b.length ≥ 12 then s!"TX {a} UF {rd32 (b.drop 4)} {hexOrDash (b.drop 12)}"
    else s!"TX {a} OT {hexOrDash b}"
  | .rx a n => s!"RX {a} {n}"
  | .txFail a => s!"TXFAIL {a}"
  | .newFlow n alg i h =>
    s!"NF {n} {(algs[alg]?.map (·.nameHex)).getD "?"} - {i.sid} {i.cwnd} {i.mss} {i.srcIp} {i.srcPort} {i.dstIp} {i.dstPort} h={h}"
  | .report n sid uid _ => s!"RP {n} {sid} {showUid progs uid}"
  | .closed n => s!"CL {n}"
  | .dropped n => s!"DR {n}"
  | .log _ m => m

/-- the harness sorts every maximal run of consecutive `DR` events by flow number -/
def sortDrRuns (evs : List Ev) : List Ev :=
  let rec go (l : List Ev) (run : List Nat) (acc : List Ev) : List Ev :=
    match l with
    | [] => acc ++ run.mergeSort.map Ev.dropped
    | .dropped n :: rest => go rest (n :: run) acc
    | e :: rest => go rest [] (acc ++ run.mergeSort.map Ev.dropped ++ [e])
  go evs [] []

/-- which programs' installs have been observed on the send side so far -/
def knownUid (progs : List ProgInfo) (trace : List Ev) (p : String) : Option Nat :=
  match progs.find? (·.pname = p) with
  | none =>
    -- `<q>_c`: the scope a flow compiled itself for program `q` (known once a `CU q OK` has been logged)
    match progs.findIdx? (fun pi => pi.pname ++ "_c" = p) with
    | some k =>
      let q := (progs[k]?.map (·.pname)).getD ""
      if trace.any (fun e => match e with | .log _ m => m = s!"CU {q} OK" | _ => false) then some (cuUid k) else none
    | none => none
  | some pi =>
    if trace.any (fun e => match e with
        | .tx _ b => rd16 b = 2 ∧ b.length ≥ 20 ∧ rd32 (b.drop 8) = pi.scope.uid
        | _ => false) then some pi.scope.uid else none

def runDriver (algs : List AlgSpec) (progs : List ProgInfo) (cfg : Cfg) (pol : Policy UState) :
    Nat → Backend → List Item → St UState → List Ev → Out (List Ev × Res)
  | 0, _, _, st, acc => .ok (acc ++ shutdown st, .ok)
  | fuel + 1, b, items, st, acc =>
    let rx := items.map (renderItem (knownUid progs acc))
    match loopStep cfg pol b rx st with
    | .panic => .panic
    | .err => .err
    | .ok (.finished r st' evs) => .ok (acc ++ evs ++ shutdown st', r)
    | .ok (.more b' rx' st' evs) =>
      runDriver algs progs cfg pol fuel b' (items.drop (rx.length - rx'.length)) st' (acc ++ evs)

def runCmd (args : List String) : String :=
  match parseAlgs args with
  | none => "BADARG"
  | some (algs, script) =>
    if algs.isEmpty ∨ algs.length > 5 then "BADARG" else
    if (algs.head?.map (·.inst)) ≠ some true then "BADARG" else
    match script.mapM parseItem with
    | none => "BADARG"
    | some items =>
      match buildProgs (collectProgs algs) 1 with
      | none => "RES ERR closes=1 strong=1 late=NONE"
      | some progs =>
        let cfg : Cfg := { algs := algs.map fun a => { name := a.name, hasInstance := a.inst }, progs := progs }
        let pol := mkPolicy algs (collectProgs algs) progs
        let fuel := items.length + 2 + (items.foldl (fun n i => match i with
          | .dgram _ ms => n + (ms.flatMap (renderMsg fun _ => none)).length | _ => n) 0)
        match runDriver algs progs cfg pol fuel (Backend.new (List.replicate 1024 0)) items St.init [] with
        | .panic => "RES PANIC closes=1 strong=1 late=NONE"
        | .err => "RES MODELERR"
        | .ok (evs, r) =>
          -- every third case (by script length) the harness keeps a COPY of the first flow's handle outside the runtime: the weak
          -- reference it holds makes `Rc::get_mut` in `Backend::drop` fail, so `Ipc::close` is skipped (closes=0), and using the
          -- handle after the run gives an error (C19.dead_handle_is_err)
          let parked := script.length % 3 = 0 ∧ evs.any (fun e => match e with | .newFlow .. => true | _ => false)
          joinWith " | " ((sortDrRuns evs).map (showEv algs progs) ++
            -- reference counts from the ownership model (`Conc/Own`, theorems `C18.stop_handle_balanced`, `close_called_once`,
            -- `dead_handle_cannot_send`): the caller holds one handle on the flag
            (let w := Conc.Own.runOps 1 (if parked then [.newHandle, .park] else [.newHandle])
             [s!"RES {if r == .ok then "OK" else "ERR"} closes={w.closes} strong={w.flag} late={if parked then (if Conc.Own.sendOk w then "OK" else "ERR") else "NONE"}"]))

/-- `RUNBIG <n>`: the harness plays readies from the addresses `1..n` (n > 65536) before the part of the history that matters. A
ready from an address that owns no flow causes no callback and leaves every other address as it was
(`C09.spec_ready_discards_only_own`, `C09.spec_other_addresses_untouched`, lifted to the runtime by `C02.history_refines_flat_map`), so
the callbacks of that history are those of the history WITHOUT the readies of the addresses `2..n-1` - which is what the model runs. -/
def runBig (args : List String) : String :=
  match args with
  | [n] =>
    match n.toNat? with
    | some k =>
      if k < 2 ∨ k > 200000 then "BADARG" else
      let toks := "ALG - 1 PROGS - NF - OR - SCRIPT".splitOn " " ++
        ["1:RD.1", s!"{k}:RD.1", "1:CR.1.10.1460.1.2.3.4.-", s!"{k}:CR.1.10.1460.1.2.3.4.-", "1:MS.1.5.7;8", s!"{k}:MS.1.5.9;10",
         s!"{k}:RD.1", "1:MS.1.5.11", s!"{k}:MS.1.5.12", "1:MS.1.5.-"]
      let parts := (runCmd toks).splitOn " | "
      joinWith " | " (parts.filterMap fun p =>
        match p.splitOn " " with
        | "NF" :: _ => some p
        | "RP" :: _ => some p
        | "CL" :: _ => some p
        | "DR" :: _ => some p
        | "RES" :: r :: _ => some s!"RES {r}"
        | _ => none)
    | none => "BADARG"
  | _ => "BADARG"

end Portus.Driver
