import PortusModel.Driver.Util
import PortusModel.Wire.Ctl
namespace Portus.Driver
open Portus Portus.Wire Portus.Lang

def u8? (s : String) : Option Nat := do
  let n ← s.toNat?
  if n < 256 then some n else none

/-- register spec: `C3v C3n R0v R0n I4 L1 P13 T0 N123 B1 X` (types are irrelevant to encoding) -/
def parseReg (s : String) : Option Reg :=
  match s.toList with
  | 'C' :: rest =>
    let vol := rest.getLast? = some 'v'
    (u8? (String.ofList (rest.filter Char.isDigit))).map fun i => Reg.control i .none vol
  | 'R' :: rest =>
    let vol := rest.getLast? = some 'v'
    (u8? (String.ofList (rest.filter Char.isDigit))).map fun i => Reg.report i .none vol
  | 'I' :: rest => (u8? (String.ofList rest)).map fun i => Reg.implicit i .none
  | 'L' :: rest => (u8? (String.ofList rest)).map fun i => Reg.local i .none
  | 'P' :: rest => (u8? (String.ofList rest)).map fun i => Reg.primitive i .none
  | 'T' :: rest => (u8? (String.ofList rest)).map fun i => Reg.tmp i .none
  | 'N' :: rest => do
    let n ← (String.ofList rest).toNat?
    if n < 2^64 then some (Reg.immNum n) else none
  | ['B', c] => some (Reg.immBool (c = '1'))
  | ['X'] => some Reg.none
  | _ => none

def parseUpdates (s : String) : Option (List (Reg × Nat)) :=
  if s = "-" then some [] else
  (s.splitOn ",").mapM fun t =>
    match t.splitOn "=" with
    | [r, v] => do
      let r ← parseReg r
      let v ← v.toNat?
      if v < 2^64 then some (r, v) else none
    | _ => none

def parseOp (s : String) : Option Op :=
  match s with
  | "Add" => some .add | "Bind" => some .bind | "Def" => some .def | "Div" => some .div
  | "Equiv" => some .equiv | "Ewma" => some .ewma | "Gt" => some .gt | "If" => some .if
  | "Lt" => some .lt | "Max" => some .max | "MaxWrap" => some .maxWrap | "Min" => some .min
  | "Mul" => some .mul | "NotIf" => some .notIf | "Sub" => some .sub
  | _ => none

def u32? (s : String) : Option Nat := do
  let n ← s.toNat?
  if n < 2^32 then some n else none

def parseEvents (s : String) : Option (List EvRec) :=
  if s = "-" then some [] else
  (s.splitOn ",").mapM fun t =>
    match (t.splitOn ".").mapM u32? with
    | some [a, b, c, d] => some { flagIdx := a, numFlag := b, bodyIdx := c, numBody := d }
    | _ => none

def parseInstrs (s : String) : Option (List Instr) :=
  if s = "-" then some [] else
  (s.splitOn ",").mapM fun t =>
    match t.splitOn ":" with
    | [o, a, b, c] => do
      some { op := ← parseOp o, res := ← parseReg a, left := ← parseReg b, right := ← parseReg c }
    | _ => none

inductive CtlSpec where
  | cp (m : ChangeProg) | uf (m : UpdateField) | ins (m : Install)

def parseCtlSpec (args : List String) : Option CtlSpec :=
  match args with
  | ["CP", sid, uid, nf, ups] => do
    some (.cp { sid := ← u32? sid, uid := ← u32? uid, numFields := ← u32? nf, fields := ← parseUpdates ups })
  | ["UF", sid, nf, ups] => do
    some (.uf { sid := ← u32? sid, numFields := ← u8? nf, fields := ← parseUpdates ups })
  | ["IN", sid, uid, ne, ni, evs, is] => do
    some (.ins { sid := ← u32? sid, uid := ← u32? uid, numEvents := ← u32? ne, numInstrs := ← u32? ni,
                 bin := { events := ← parseEvents evs, instrs := ← parseInstrs is } })
  | _ => none

def CtlSpec.serialize : CtlSpec → Out Bytes
  | .cp m => serializeChangeProg m
  | .uf m => serializeUpdateField m
  | .ins m => serializeInstall m

def encCtl (args : List String) : Option String :=
  (parseCtlSpec args).map fun s => showOut (fun b => "OK " ++ hexOrDash b) s.serialize

end Portus.Driver
