/-!
# Who owns the stop flag and the socket (`src/run.rs` `RunBuilder::{with_stop_handle, stop_handle, run}`, `run_inner`;
`src/ipc/mod.rs` `Backend::{new, sender}`, `impl Drop for Backend`, `BackendSender`)

A reference-count model of the two shared objects of a run:

* the stop flag `Arc<AtomicBool>`: the caller's handle(s); `with_stop_handle` turns one `Arc` into a raw pointer
  (`Arc::into_raw`: the count is unchanged, the builder now owns that unit), `stop_handle()` turns it back (`Arc::from_raw`: unchanged);
  `run_inner` clones it into the `Backend` (+1); on return the `Backend`'s clone and then `run_inner`'s own are dropped;
* the socket `Rc<T>` created by `Backend::new` (strong = 1) with one `Weak<T>` per live `BackendSender` — one inside every
  `Datapath` handle (`b.sender(addr)`), one more per copy of a handle. `impl Drop for Backend` calls `Ipc::close` iff
  `Rc::get_mut` succeeds, i.e. iff there is no other strong AND no weak reference left; then the `Rc` itself is dropped.

`run_inner` declares `b` (the backend) BEFORE `dp_to_flowmap`, so on return the flow map — with every handle the flows own —
is dropped first and the backend last. Operations during the loop only create and drop handles.
-/
namespace Portus.Conc.Own

structure W where
  /-- strong count of the stop flag -/
  flag : Nat
  /-- strong count of the socket `Rc` (0 = the socket has been dropped) -/
  sockStrong : Nat
  /-- live `Weak<T>`: handles inside flows (`inFlows`) and copies kept elsewhere by user code (`outside`) -/
  inFlows : Nat
  outside : Nat
  /-- calls of `Ipc::close` -/
  closes : Nat
deriving Repr, DecidableEq, Inhabited

/-- what user code and the dispatch loop can do to the counts while the loop runs -/
inductive Op where
  /-- a flow is created: `b.sender(addr)` inside its `Datapath` -/
  | newHandle
  /-- a flow copies its handle and keeps the copy inside itself -/
  | cloneInside
  /-- a flow (or one of the copies it holds) is dropped: close, re-create, ready -/
  | dropInside
  /-- user code moves a copy of a handle somewhere that outlives the runtime -/
  | park
  | dropOutside
deriving Repr, DecidableEq, Inhabited

def apply (w : W) : Op → W
  | .newHandle => { w with inFlows := w.inFlows + 1 }
  | .cloneInside => if w.inFlows = 0 then w else { w with inFlows := w.inFlows + 1 }
  | .dropInside => { w with inFlows := w.inFlows - 1 }
  | .park => if w.inFlows = 0 then w else { w with outside := w.outside + 1 }
  | .dropOutside => { w with outside := w.outside - 1 }

/-- the caller holds `c` handles on the flag and gives a clone of one to the builder: `with_stop_handle(h.clone())`
(`clone` +1, `into_raw` ±0); `run()` takes it back (`from_raw` ±0) and `run_inner` builds the backend: flag cloned (+1),
socket `Rc::new` (strong 1) -/
def start (c : Nat) : W := { flag := c + 1 + 1, sockStrong := 1, inFlows := 0, outside := 0, closes := 0 }

/-- `impl Drop for Backend`, then its fields: close iff exclusive, drop the `Rc`, drop the flag clone -/
def dropBackend (w : W) : W :=
  { w with closes := if w.sockStrong = 1 ∧ w.inFlows + w.outside = 0 then w.closes + 1 else w.closes,
           sockStrong := w.sockStrong - 1, flag := w.flag - 1 }

/-- return from `run_inner`: the flow map (every handle inside a flow) is dropped first, then the backend, then
`run_inner`'s own `Arc` (its parameter) -/
def finish (w : W) : W :=
  let w1 := { w with inFlows := 0 }
  let w2 := dropBackend w1
  { w2 with flag := w2.flag - 1 }

def runOps (c : Nat) (ops : List Op) : W := finish (ops.foldl apply (start c))

/-- `BackendSender::send_msg` on a handle: `Weak::upgrade` succeeds iff the socket is still alive -/
def sendOk (w : W) : Bool := w.sockStrong > 0

end Portus.Conc.Own
