import PortusModel.Base.Out
/-!
# A datagram transport as portus uses it (`ipc::chan`, `ipc::unix`): model for C19

Both bundled transports are, for the receiver, one FIFO of whole datagrams: crossbeam's unbounded channel of owned
`Vec<u8>` (`chan`), the receive queue of a `SOCK_DGRAM` Unix socket (`unix`; the kernel queues whole datagrams in
arrival order and blocks the sender rather than dropping). A `send` appends one datagram (with the sender's identity:
the bound path on `unix`; on `chan` the identity travels only inside the payload), a `recv` removes the head or, with
nothing pending, returns an error (after the read timeout when blocking, at once when non-blocking) and changes nothing.

Thread interleavings are schedules: a list saying, at each step, which sender sends its next datagram or that the
receiver receives. Every theorem quantifies over all schedules.
-/
namespace Portus.Conc.Xpt
open Portus

abbrev Bytes := List Nat

structure Dgram where
  sender : Nat
  seq : Nat
  bytes : Bytes
deriving Repr, DecidableEq, Inhabited

inductive Op where
  | send (d : Dgram)
  | recv
deriving Repr, DecidableEq, Inhabited

inductive Ev where
  | got (d : Dgram)        -- a receive returned this datagram (bytes, length, and on unix the sender's address)
  | empty                  -- a receive with nothing pending: an error, not a datagram
deriving Repr, DecidableEq, Inhabited

structure St where
  queue : List Dgram := []
  trace : List Ev := []
deriving Repr, DecidableEq, Inhabited

def step (s : St) : Op → St
  | .send d => { s with queue := s.queue ++ [d] }
  | .recv =>
    match s.queue with
    | [] => { s with trace := s.trace ++ [.empty] }
    | d :: q => { queue := q, trace := s.trace ++ [.got d] }

def run (s : St) (ops : List Op) : St := ops.foldl step s

def sentOf : List Op → List Dgram
  | [] => []
  | .send d :: r => d :: sentOf r
  | .recv :: r => sentOf r

def delivered : List Ev → List Dgram
  | [] => []
  | .got d :: r => d :: delivered r
  | .empty :: r => delivered r

/-- receive until the queue is empty (what the receiver does once all senders are done) -/
def drain (s : St) : St := { queue := [], trace := s.trace ++ s.queue.map Ev.got }

/-! ## a receive into a caller buffer of `cap` bytes -/

/-- a datagram that fits is returned whole with its length, on both transports. One that does not fit: `unix`
(`recv_from`) truncates it to the buffer; `chan` refuses it with an error and drops it (before the repair F13 the
unchecked `msg[..buf.len()].copy_from_slice(&buf)` was a slice panic). -/
def recvInto (cap : Nat) (chan : Bool) (d : Dgram) : Out (Nat × Bytes) :=
  if d.bytes.length ≤ cap then .ok (d.bytes.length, d.bytes)
  else if chan then .err else .ok (cap, d.bytes.take cap)

/-! ## the send handle (`BackendSender`): a weak reference to the socket -/

/-- `BackendSender::send_msg`: `Weak::upgrade(..).ok_or_else(..)?` then `send` -/
def sendMsg (alive : Bool) (sendResult : Out Unit) : Out Unit :=
  if alive then sendResult else .err

/-! ## schedules -/

/-- a schedule step: `some s` = sender `s` sends its next datagram, `none` = the receiver receives -/
abbrev Sched := List (Option Nat)

/-- number of `some s` in a schedule prefix -/
def countOf (s : Nat) : Sched → Nat
  | [] => 0
  | some t :: r => (if t = s then 1 else 0) + countOf s r
  | none :: r => countOf s r

/-- the operations a schedule denotes, given each sender's payload function; `done s` = how many datagrams
sender `s` had already sent -/
def opsOf (pay : Nat → Nat → Bytes) : (Nat → Nat) → Sched → List Op
  | _, [] => []
  | done, some s :: r =>
    .send ⟨s, done s, pay s (done s)⟩ :: opsOf pay (fun t => if t = s then done s + 1 else done t) r
  | done, none :: r => .recv :: opsOf pay done r

end Portus.Conc.Xpt
