/-!
# Concurrent uid allocation (`get_next_uid!`): threads as sequences of atomic operations

One *allocation* is a list of atomic operations on one shared `u32` counter; each operation is
executed atomically (sequential consistency of `AtomicU32` is assumed, DESIGN §5 C17); a *schedule*
is any interleaving: a list of thread ids saying whose next operation runs.
-/
namespace Portus.Conc

inductive AOp where
  /-- `fetch_add(k)`: read the counter into the thread's register and add `k`, atomically -/
  | fetchAdd (k : Nat)
  /-- `load()` -/
  | load
  /-- `store(reg + d)` -/
  | store (d : Nat)
  /-- something the translator did not recognise -/
  | unknown
deriving Repr, DecidableEq, Inhabited

structure Thread where
  /-- operations left in the allocation in progress -/
  pc : List AOp
  /-- last value read -/
  reg : Nat
  /-- allocations still to perform after the current one -/
  todo : Nat
deriving Repr, DecidableEq, Inhabited

structure World where
  counter : Nat
  threads : List Thread
  /-- uids returned so far, most recent first -/
  out : List Nat
deriving Repr, DecidableEq, Inhabited

def M : Nat := 2^32

/-- one atomic step of thread `t` under allocation code `ops` returning `reg + ret` -/
def stepThread (ops : List AOp) (ret : Nat) (w : World) (i : Nat) : World :=
  match w.threads[i]? with
  | none => w
  | some t =>
    -- start the next allocation if the current one is finished
    let t := if t.pc.isEmpty ∧ t.todo > 0 then { t with pc := ops, todo := t.todo - 1 } else t
    match t.pc with
    | [] => w
    | op :: rest =>
      let (counter, reg) := match op with
        | .fetchAdd k => ((w.counter + k) % M, w.counter)
        | .load => (w.counter, w.counter)
        | .store d => ((t.reg + d) % M, t.reg)
        | .unknown => (w.counter, t.reg)
      let t' := { t with pc := rest, reg := reg }
      let out := if rest.isEmpty then ((reg + ret) % M) :: w.out else w.out
      { counter := counter, threads := w.threads.set i t', out := out }

def runSchedule (ops : List AOp) (ret : Nat) : World → List Nat → World
  | w, [] => w
  | w, i :: rest => runSchedule ops ret (stepThread ops ret w i) rest

def World.init (c0 : Nat) (allocs : List Nat) : World :=
  { counter := c0, threads := allocs.map fun n => { pc := [], reg := 0, todo := n }, out := [] }

/-- all interleavings of two threads doing one allocation each (for the counter-example search) -/
def interleavings : Nat → Nat → List (List Nat)
  | 0, 0 => [[]]
  | a + 1, 0 => (interleavings a 0).map (0 :: ·)
  | 0, b + 1 => (interleavings 0 b).map (1 :: ·)
  | a + 1, b + 1 => (interleavings a (b + 1)).map (0 :: ·) ++ (interleavings (a + 1) b).map (1 :: ·)

/-- search for a 2-thread schedule on which two allocations return the same uid -/
def findDuplicate (ops : List AOp) (ret c0 : Nat) : Option (List Nat × List Nat) :=
  ((interleavings ops.length ops.length).filterMap fun s =>
    let w := runSchedule ops ret (World.init c0 [1, 1]) s
    if w.out.length = 2 ∧ !w.out.Nodup then some (s, w.out) else none).head?

end Portus.Conc
