import PortusModel.Wire.Dp
/-! Helper lemmas about the decoder (`Wire/Dp`), used by Props/C04, C07, C08, C16. -/
namespace Portus.Wire
open Portus

theorem deserialize_no_panic (buf : Bytes) : deserialize buf ≠ .panic := by
  unfold deserialize
  split
  · simp
  · dsimp only
    split
    · simp
    · split
      · simp
      · split
        · simp
        · have hh : (8:Nat) ≤ rd16 (buf.drop 2) ∧ rd16 (buf.drop 2) ≤ buf.length := by omega
          simp [sliceP_ok _ _ _ hh]

/-- What a successful `deserialize` establishes. -/
theorem deserialize_ok {buf : Bytes} {r : Raw} (h : deserialize buf = .ok r) :
    8 ≤ buf.length ∧ r.typ = rd16 buf ∧ r.typ ≤ 255 ∧ r.len = rd16 (buf.drop 2) ∧ 8 ≤ r.len ∧ r.len ≤ buf.length ∧
    r.sid = rd32 (buf.drop 4) ∧ r.bytes = (buf.drop 8).take (r.len - 8) := by
  unfold deserialize at h
  split at h
  · simp at h
  · dsimp only at h
    split at h
    · simp at h
    · split at h
      · simp at h
      · split at h
        · simp at h
        · have hh : (8:Nat) ≤ rd16 (buf.drop 2) ∧ rd16 (buf.drop 2) ≤ buf.length := by omega
          simp [sliceP_ok _ _ _ hh] at h
          subst h
          simp
          omega

theorem deserialize_bytes_length {buf : Bytes} {r : Raw} (h : deserialize buf = .ok r) :
    r.bytes.length = r.len - 8 := by
  obtain ⟨_, _, _, _, _, _, _, hb⟩ := deserialize_ok h
  rw [hb]; simp; omega

theorem u32At_ok (u : Bytes) (k : Nat) (h : 4 * k + 4 ≤ u.length) :
    u32At u k = .ok (rd32 (u.drop (4 * k))) := by simp [u32At, h]

theorem deserializeFields_no_panic (fuel : Nat) (b : Bytes) : deserializeFields fuel b ≠ .panic := by
  induction fuel generalizing b with
  | zero => simp [deserializeFields]
  | succ n ih =>
    unfold deserializeFields
    split
    · simp
    · split
      · simp
      · have := ih (b.drop 8)
        cases h : deserializeFields n (b.drop 8) <;> simp_all

end Portus.Wire

namespace Portus.Wire
open Portus

theorem getU32s_create (m : Raw) (h : m.typ = CREATE) :
    getU32s m = if m.bytes.length < 24 then .err else .ok (m.bytes.take 24) := by
  unfold getU32s
  simp only [h, CREATE, MEASURE, UPDATE_FIELD, READY]
  simp
  split
  · rfl
  · rw [sliceP_ok _ _ _ (by omega)]; simp

theorem getU32s_measure (m : Raw) (h : m.typ = MEASURE) :
    getU32s m = if m.bytes.length < 8 then .err else .ok (m.bytes.take 8) := by
  unfold getU32s
  simp only [h, CREATE, MEASURE, UPDATE_FIELD, READY]
  simp
  split
  · rfl
  · rw [sliceP_ok _ _ _ (by omega)]; simp

theorem getU32s_ready (m : Raw) (h : m.typ = READY) :
    getU32s m = if m.bytes.length < 4 then .err else .ok (m.bytes.take 4) := by
  unfold getU32s
  simp only [h, CREATE, MEASURE, UPDATE_FIELD, READY]
  simp
  split
  · rfl
  · rw [sliceP_ok _ _ _ (by omega)]; simp

theorem getBytes_create (m : Raw) (h : m.typ = CREATE) :
    getBytes m = if 24 ≤ m.bytes.length then .ok (m.bytes.drop 24) else .err := by
  simp [getBytes, h]

theorem getBytes_measure (m : Raw) (h : m.typ = MEASURE) :
    getBytes m = if 8 ≤ m.bytes.length then .ok (m.bytes.drop 8) else .err := by
  simp [getBytes, h, MEASURE, CREATE]

/-- The algorithm name as the specification reads it from the name block:
bytes up to the first NUL; an empty name or a block without NUL is "no name". -/
def algSpec (b : Bytes) : Option Bytes :=
  match nulPos b with
  | none => none
  | some 0 => none
  | some e => some (b.take e)

theorem nulPos_le {b : Bytes} {e : Nat} (h : nulPos b = some e) : e < b.length := by
  induction b generalizing e with
  | nil => simp [nulPos] at h
  | cons x xs ih =>
    unfold nulPos at h
    split at h
    · injection h with h; subst h; simp
    · cases hx : nulPos xs with
      | none => simp [hx] at h
      | some k =>
        simp [hx] at h; subst h
        have := ih hx
        simp; omega

end Portus.Wire

namespace Portus.Wire
open Portus

/-- `createFromRaw` in closed form. -/
theorem createFromRaw_eq (m : Raw) (h : m.typ = CREATE) :
    createFromRaw m =
      if m.bytes.length < 88 then .err
      else match nulPos (m.bytes.drop 24) with
        | some (e+1) =>
          if validUtf8 ((m.bytes.drop 24).take (e+1)) then
            .ok { sid := m.sid, cwnd := rd32 m.bytes, mss := rd32 (m.bytes.drop 4),
                  srcIp := rd32 (m.bytes.drop 8), srcPort := rd32 (m.bytes.drop 12),
                  dstIp := rd32 (m.bytes.drop 16), dstPort := rd32 (m.bytes.drop 20),
                  alg := some ((m.bytes.drop 24).take (e+1)) }
          else .err
        | _ =>
            .ok { sid := m.sid, cwnd := rd32 m.bytes, mss := rd32 (m.bytes.drop 4),
                  srcIp := rd32 (m.bytes.drop 8), srcPort := rd32 (m.bytes.drop 12),
                  dstIp := rd32 (m.bytes.drop 16), dstPort := rd32 (m.bytes.drop 20),
                  alg := none } := by
  unfold createFromRaw
  rw [getU32s_create m h, getBytes_create m h]
  by_cases h24 : m.bytes.length < 24
  · have : m.bytes.length < 88 := by omega
    simp [h24, this]
  · have h24' : 24 ≤ m.bytes.length := by omega
    simp only [h24, h24', if_true, if_false, Out.bind_ok]
    by_cases h88 : m.bytes.length < 88
    · have : (m.bytes.drop 24).length < 64 := by simp; omega
      rw [if_pos this, if_pos h88]
    · have h64 : ¬ (m.bytes.drop 24).length < 64 := by simp; omega
      rw [if_neg h64, if_neg h88]
      have hu : ∀ k, k < 6 → u32At (m.bytes.take 24) k = .ok (rd32 (m.bytes.drop (4*k))) := by
        intro k hk
        rw [u32At_ok _ _ (by simp; omega)]
        congr 1
        rw [List.drop_take]
        exact rd32_take _ _ (by omega)
      have h0 := hu 0 (by omega); have h1 := hu 1 (by omega); have h2 := hu 2 (by omega)
      have h3 := hu 3 (by omega); have h4 := hu 4 (by omega); have h5 := hu 5 (by omega)
      simp only [Nat.mul_zero, List.drop_zero] at h0
      cases hn : nulPos (m.bytes.drop 24) with
      | none => simp [h0, h1, h2, h3, h4, h5]
      | some e =>
        cases e with
        | zero => simp [h0, h1, h2, h3, h4, h5]
        | succ e =>
          have hl := nulPos_le hn
          simp only
          rw [sliceP_ok _ _ _ (by omega)]
          simp only [Out.bind_ok, List.drop_zero, Nat.sub_zero]
          split <;> simp [h0, h1, h2, h3, h4, h5]

end Portus.Wire

namespace Portus.Wire
open Portus

/-- The measurement values as the specification reads them: consecutive little-endian words. -/
def fieldsSpec (b : Bytes) : List Nat :=
  (List.range (b.length / 8)).map fun i => rd64 (b.drop (8 * i))

theorem fieldsSpec_step (b : Bytes) (h : 8 ≤ b.length) :
    fieldsSpec b = rd64 b :: fieldsSpec (b.drop 8) := by
  unfold fieldsSpec
  have hl : b.length / 8 = (b.drop 8).length / 8 + 1 := by simp; omega
  rw [hl, List.range_succ_eq_map]
  simp [List.map_map, Function.comp_def, Nat.mul_add, Nat.add_comm]

theorem deserializeFields_eq (fuel : Nat) (b : Bytes) (hf : b.length / 8 < fuel) :
    deserializeFields fuel b = if b.length % 8 = 0 then .ok (fieldsSpec b) else .err := by
  induction fuel generalizing b with
  | zero => omega
  | succ n ih =>
    unfold deserializeFields
    by_cases h0 : b.length = 0
    · have : b = [] := List.eq_nil_of_length_eq_zero h0
      subst this; simp [fieldsSpec]
    · rw [if_neg h0]
      by_cases h8 : b.length < 8
      · rw [if_pos h8, if_neg (by omega)]
      · rw [if_neg h8]
        have := ih (b.drop 8) (by simp; omega)
        rw [this]
        have hm : (b.drop 8).length % 8 = b.length % 8 := by simp; omega
        rw [hm]
        split
        · simp [fieldsSpec_step b (by omega)]
        · simp

theorem measureFromRaw_eq (m : Raw) (h : m.typ = MEASURE) :
    measureFromRaw m =
      if m.bytes.length < 8 then .err
      else if rd32 (m.bytes.drop 4) > 255 then .err
      else if (m.bytes.length - 8) % 8 = 0 then
        .ok { sid := m.sid, uid := rd32 m.bytes, numFields := rd32 (m.bytes.drop 4),
              fields := fieldsSpec (m.bytes.drop 8) }
      else .err := by
  unfold measureFromRaw
  rw [getU32s_measure m h, getBytes_measure m h]
  by_cases h8 : m.bytes.length < 8
  · simp [h8]
  · have h8' : 8 ≤ m.bytes.length := by omega
    simp only [h8, h8', if_true, if_false, Out.bind_ok]
    rw [u32At_ok _ 0 (by simp; omega), u32At_ok _ 1 (by simp; omega)]
    simp only [Out.bind_ok, Nat.mul_zero, List.drop_zero, Nat.mul_one]
    rw [List.drop_take, rd32_take _ _ (by omega), rd32_take _ _ (by omega)]
    split
    · rfl
    · rw [deserializeFields_eq _ _ (by omega)]
      simp only [List.length_drop]
      split <;> simp

theorem readyFromRaw_eq (m : Raw) (h : m.typ = READY) :
    readyFromRaw m = if m.bytes.length < 4 then .err else .ok (rd32 m.bytes) := by
  unfold readyFromRaw
  rw [getU32s_ready m h]
  split
  · rfl
  · simp only [Out.bind_ok]
    rw [u32At_ok _ 0 (by simp; omega)]
    simp [rd32_take]

theorem fromRaw_no_panic (m : Raw) : fromRaw m ≠ .panic := by
  unfold fromRaw
  split
  · rename_i h; rw [createFromRaw_eq m h]
    split
    · simp
    · split
      · split <;> simp
      · simp
  · split
    · rename_i h; rw [measureFromRaw_eq m h]
      split
      · simp
      · split
        · simp
        · split <;> simp
    · split
      · rename_i h; rw [readyFromRaw_eq m h]
        split <;> simp
      · simp

theorem fromBuf_no_panic (buf : Bytes) : fromBuf buf ≠ .panic := by
  unfold fromBuf
  split
  · rename_i h; exact absurd h (deserialize_no_panic buf)
  · have := fromRaw_no_panic ⟨255, 0, 0, buf⟩
    cases h : fromRaw ⟨255, 0, 0, buf⟩ <;> simp_all
  · rename_i r _
    have := fromRaw_no_panic r
    cases h : fromRaw r <;> simp_all

/-- The undecodable-header fallback always yields `Other`. -/
theorem fromRaw_fallback (buf : Bytes) :
    fromRaw ⟨255, 0, 0, buf⟩ = .ok (.other ⟨255, 0, 0, buf⟩) := by
  simp [fromRaw, CREATE, MEASURE, READY]

/-- `fromBuf` in closed form. -/
theorem fromBuf_eq (buf : Bytes) :
    fromBuf buf = match deserialize buf with
      | .panic => .panic
      | .err => .ok (.other ⟨255, 0, 0, buf⟩, buf.length)
      | .ok r => (fromRaw r >>= fun m => pure (m, r.len)) := by
  unfold fromBuf
  split <;> simp_all [fromRaw_fallback]

end Portus.Wire
