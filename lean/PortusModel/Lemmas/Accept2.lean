import PortusModel.Lemmas.AcceptValue
/-!
# C20, acceptance (continued): the declaration pass, the `def` preamble, the main theorem

`WellTyped` lets through assignments – plain or guarded (`if` / `!if` / `ewma` into a declared variable) –
used as values inside expressions and inside `when` conditions (`Typing.typeOfG`, `Typing.typeOfV`,
`Typing.checkCondV`); the former check (`WellTypedStratified`) is its restriction to stratified programs
(`wellTyped_eq`, `wellTyped_mono`).
-/
namespace Portus.Lang.Typing
open Portus Portus.Lang

/-! ## `lookup` -/

theorem lookup_append (x : Name) (a b : Env) :
    lookup x (a ++ b) = match lookup x a with
      | some kt => some kt
      | none => lookup x b := by
  induction a with
  | nil => rfl
  | cons p rest ih =>
    obtain ⟨y, kt⟩ := p
    simp only [List.cons_append, lookup_cons]
    split
    · rfl
    · exact ih

theorem lookup_mem {x : Name} {kt : Kind × Ty} {Γ : Env} (h : lookup x Γ = some kt) : (x, kt) ∈ Γ := by
  induction Γ with
  | nil => cases h
  | cons p rest ih =>
    obtain ⟨y, kt'⟩ := p
    rw [lookup_cons] at h
    split at h
    · rename_i e; subst e; cases h; exact List.mem_cons_self
    · exact List.mem_cons_of_mem _ (ih h)

theorem lookup_declEnv_some {x : Name} {kt : Kind × Ty} {ds : List Decl} (h : lookup x (declEnv ds) = some kt) :
    ∃ d ∈ ds, d.var = x ∧ kt = (Kind.var, (declTy d.init).getD Ty.num) := by
  obtain ⟨d, hd, e⟩ := List.mem_map.mp (lookup_mem h)
  simp only [Prod.mk.injEq] at e
  exact ⟨d, hd, e.1, e.2.symm⟩

theorem lookup_declEnv_none {x : Name} {ds : List Decl} (h : lookup x (declEnv ds) = none) :
    ∀ d ∈ ds, d.var ≠ x := by
  induction ds with
  | nil => intro d hd; cases hd
  | cons d0 rest ih =>
    simp only [declEnv, List.map_cons, lookup_cons] at h
    split at h
    · cases h
    · rename_i hne
      intro d hd
      rcases List.mem_cons.mp hd with rfl | hd
      · exact hne
      · exact ih h d hd

/-! ## Closed facts about the built-in tables -/

def tyLit : Lang.Ty → Bool
  | .num (some n) => litOk n
  | _ => true

/-- what the `def` preamble needs of a bound register -/
def DefOk (r : Reg) : Prop := regOk r = true ∧ tyLit r.getType = true

theorem builtinEnv_regs : ∀ p ∈ builtinEnv,
    ∃ r, regGet p.1 builtinNamed = some r ∧ kindOk p.2.1 r = true ∧ tyMatch p.2.2 r.getType = true := by
  decide +kernel

theorem builtinNamed_known : ∀ y ∈ regNames builtinNamed,
    (lookup y builtinEnv).isSome = true ∧ Frag.isBuiltinName y = true := by
  decide +kernel

theorem builtinNamed_defOk : ∀ p ∈ builtinNamed, regOk p.2 = true ∧ tyLit p.2.getType = true := by
  decide +kernel

theorem builtinEnv_noLocals : numLocals builtinEnv = 0 := by decide +kernel

theorem builtinEnv_flag : (lookup flagName builtinEnv).isSome = true := by decide +kernel

/-! ## The declaration pass -/

theorem declTy_match {t : Lang.Ty} (h : (declTy t).isSome = true) :
    tyMatch ((declTy t).getD Ty.num) t = true ∧ tyLit t = true := by
  cases t with
  | num v =>
    cases v with
    | none => cases h
    | some n =>
      by_cases hl : litOk n = true
      · have e : declTy (.num (some n)) = some .num := by simp only [declTy, hl, if_true]
        rw [e]; exact ⟨rfl, hl⟩
      · have e : declTy (.num (some n)) = none := by simp only [declTy, hl]; rfl
        rw [e] at h; cases h
  | bool v =>
    cases v with
    | none => cases h
    | some b => exact ⟨rfl, rfl⟩
  | name s => cases h
  | none => cases h

theorem builtin_fresh {x : Name} (h : Frag.isBuiltinName x = false) : regGet x builtinNamed = none := by
  rw [regGet_eq_none_iff]
  intro hm
  rw [(builtinNamed_known x hm).2] at h
  cases h

structure DeclsOk (ds : List Decl) : Prop where
  all : ∀ d ∈ ds, declOk d = true
  nodup : (ds.map (·.var)).Nodup
  reports : (reportsOf ds).length ≤ 16
  controls : (controlsOf ds).length ≤ 16

theorem declsOk_iff {ds : List Decl} (h : declsOk ds = true) : DeclsOk ds := by
  simp only [declsOk, Bool.and_eq_true, List.all_eq_true, decide_eq_true_eq, maxReports, maxControls] at h
  exact ⟨h.1.1.1, h.1.1.2, of_decide_eq_true h.1.2, of_decide_eq_true h.2⟩

/-- what the proof needs of the scope the events are compiled in -/
structure Start (Γ : Env) (sc : Scope) : Prop where
  inv : Inv Γ sc
  nodup : NamesNodup sc
  defOk : ∀ x r, sc.get x = some r → DefOk r
  /-- room for the locals (`numLocals Γ = 0` at the start) -/
  nle : numLocals Γ ≤ 6

theorem numLocals_initEnv (ds : List Decl) : numLocals (initEnv ds) = 0 := by
  unfold initEnv numLocals
  rw [List.countP_append]
  have h1 : List.countP (fun e => decide (e.2.1 = Kind.loc)) (declEnv ds) = 0 := by
    rw [List.countP_eq_zero]
    intro p hp
    obtain ⟨d, _, rfl⟩ := List.mem_map.mp hp
    simp
  have h2 : List.countP (fun e => decide (e.2.1 = Kind.loc)) builtinEnv = 0 := builtinEnv_noLocals
  rw [h1, h2]

/-- **The declaration pass** of a program with well-formed declarations is accepted, and its scope
agrees with the initial typing environment. -/
theorem declare_start (uid : Nat) {ds : List Decl} (hd : DeclsOk ds) :
    ∃ sc0, declareAll (Scope.new uid) ds = .ok sc0 ∧ Start (initEnv ds) sc0 := by
  have hfresh : ∀ d ∈ ds, (Scope.new uid).get d.var = none := by
    intro d hd'
    have := hd.all d hd'
    simp only [declOk, Bool.and_eq_true, Bool.not_eq_true'] at this
    rw [Scope.new_get]
    exact builtin_fresh this.1.2
  obtain ⟨sc0, h0⟩ := (C13.declareAll_ok_iff ds (Scope.new uid) ⟨rfl, rfl⟩).mpr
    ⟨by have := hd.reports; omega, by have := hd.controls; omega⟩
  obtain ⟨ha, hb, ⟨_, _, hnl, _⟩, hkeep, honly⟩ := C13.report_slots uid ds sc0 hd.nodup hfresh h0
  -- every declared variable sits in a report / control register inside the encoder's range
  have hslot : ∀ d ∈ ds, ∃ r, sc0.get d.var = some r ∧ kindOk .var r = true ∧ r.getType = d.init := by
    intro d hd'
    by_cases hp : "Report.".toList.isPrefixOf d.var = true
    · obtain ⟨k, hk, rfl⟩ := List.mem_iff_getElem.mp
        (show d ∈ reportsOf ds from List.mem_filter.mpr ⟨hd', hp⟩)
      refine ⟨_, ha k hk, ?_, rfl⟩
      have := hd.reports
      simp only [kindOk, decide_eq_true_eq]; omega
    · obtain ⟨k, hk, rfl⟩ := List.mem_iff_getElem.mp
        (show d ∈ controlsOf ds from List.mem_filter.mpr
          ⟨hd', by rw [Bool.not_eq_true] at hp; rw [hp]; rfl⟩)
      refine ⟨_, hb k hk, ?_, rfl⟩
      have := hd.controls
      simp only [kindOk, decide_eq_true_eq]; omega
  have hlit : ∀ d ∈ ds, (declTy d.init).isSome = true := by
    intro d hd'
    have := hd.all d hd'
    simp only [declOk, Bool.and_eq_true] at this
    exact this.1.1
  refine ⟨sc0, h0, ⟨?_, ?_, ?_, ?_⟩, declareAll_namesNodup hd.nodup hfresh h0, ?_,
    by rw [numLocals_initEnv]; omega⟩
  · -- fwd
    intro x k τ hx
    unfold initEnv at hx
    rw [lookup_append] at hx
    cases hl : lookup x (declEnv ds) with
    | some kt =>
      rw [hl] at hx
      simp only [Option.some.injEq] at hx
      subst hx
      obtain ⟨d, hd', rfl, e⟩ := lookup_declEnv_some hl
      simp only [Prod.mk.injEq] at e
      obtain ⟨rfl, rfl⟩ := e
      obtain ⟨r, h1, h2, h3⟩ := hslot d hd'
      exact ⟨r, h1, h2, by rw [h3]; exact (declTy_match (hlit d hd')).1⟩
    | none =>
      rw [hl] at hx
      simp only at hx
      obtain ⟨r, h1, h2, h3⟩ := builtinEnv_regs _ (lookup_mem hx)
      exact ⟨r, hkeep x r (by rw [Scope.new_get]; exact h1), h2, h3⟩
  · -- bwd
    intro x hx
    unfold initEnv at hx
    rw [lookup_append] at hx
    cases hl : lookup x (declEnv ds) with
    | some kt => rw [hl] at hx; cases hx
    | none =>
      rw [hl] at hx
      simp only at hx
      cases hg : sc0.get x with
      | none => exact hg
      | some r =>
        exfalso
        rcases honly x r hg with hb' | ⟨d, hd', e⟩
        · rw [Scope.new_get] at hb'
          have hm : x ∈ regNames builtinNamed := List.mem_map.mpr ⟨_, regGet_some_mem hb', rfl⟩
          have := (builtinNamed_known x hm).1
          rw [hx] at this; cases this
        · exact lookup_declEnv_none hl d hd' e
  · -- no locals yet
    rw [hnl, numLocals_initEnv]
  · -- the flag register
    unfold initEnv
    rw [lookup_append]
    cases hl : lookup flagName (declEnv ds) with
    | some kt => rfl
    | none => exact builtinEnv_flag
  · -- the `def` preamble
    intro x r hg
    rcases honly x r hg with hb' | ⟨d, hd', rfl⟩
    · rw [Scope.new_get] at hb'
      exact builtinNamed_defOk _ (regGet_some_mem hb')
    · obtain ⟨r', h1, h2, h3⟩ := hslot d hd'
      rw [h1] at hg
      simp only [Option.some.injEq] at hg
      subst hg
      exact ⟨kindOk_regOk h2, by rw [h3]; exact (declTy_match (hlit d hd')).2⟩

/-! ## The `def` preamble -/

theorem defInstrs_ok {l : List (Name × Reg)} (h : ∀ p ∈ l, DefOk p.2) :
    ∀ i ∈ defInstrs l, instrOk i = true := by
  induction l with
  | nil => intro i hi; cases hi
  | cons p rest ih =>
    obtain ⟨n, reg⟩ := p
    have hp : DefOk reg := h (n, reg) List.mem_cons_self
    have ih' := ih (fun q hq => h q (List.mem_cons_of_mem _ hq))
    unfold defInstrs
    split
    all_goals first
      | exact ih'
      | (intro i hi
         rcases List.mem_cons.mp hi with rfl | hi
         · simp only [instrOk, Bool.and_eq_true]
           first
             | exact ⟨⟨⟨rfl, hp.1⟩, hp.1⟩, regOk_immNum hp.2⟩
             | exact ⟨⟨⟨rfl, hp.1⟩, hp.1⟩, rfl⟩
         · exact ih' i hi)

theorem Start.defs {Γ : Env} {sc : Scope} (hs : Start Γ sc) : ∀ i ∈ defInstrs sc.named, instrOk i = true :=
  defInstrs_ok fun p hp => hs.defOk p.1 p.2 (hs.nodup.get_of_mem hp)

/-! ## Compile-time overrides -/

def UpdOk (Γ : Env) (upd : List (Name × Nat)) : Prop :=
  ∀ p ∈ upd, litOk p.2 = true ∧
    ∀ k τ, lookup p.1 Γ = some (k, τ) → k = Kind.prim ∨ k = Kind.impl ∨ τ = Ty.num

theorem updOk_iff {ds : List Decl} {upd : List (Name × Nat)} (h : updOk ds upd = true) :
    UpdOk (initEnv ds) upd := by
  simp only [updOk, List.all_eq_true, Bool.and_eq_true] at h
  intro p hp
  refine ⟨(h p hp).1, ?_⟩
  intro k τ hl
  have := (h p hp).2
  rw [hl] at this
  simp only [Bool.or_eq_true, decide_eq_true_eq] at this
  rcases this with (h1 | h1) | h1
  · exact Or.inl h1
  · exact Or.inr (Or.inl h1)
  · exact Or.inr (Or.inr h1)

theorem override_ok {k : Kind} {τ : Ty} {r : Reg} (v : Nat) (hk : kindOk k r = true)
    (ht : tyMatch τ r.getType = true) (h : k = Kind.prim ∨ k = Kind.impl ∨ τ = Ty.num) :
    kindOk k (r.override v) = true ∧ tyMatch τ (r.override v).getType = true := by
  cases k <;> cases r <;> simp only [kindOk, Bool.false_eq_true] at hk <;>
    simp only [Reg.override, kindOk, Reg.getType] at ht ⊢
  · exact ⟨hk, ht⟩
  · exact ⟨hk, ht⟩
  all_goals
    rcases h with h | h | h
    · cases h
    · cases h
    · subst h; exact ⟨hk, rfl⟩

theorem override_defOk {r : Reg} {v : Nat} (h : DefOk r) (hv : litOk v = true) : DefOk (r.override v) := by
  obtain ⟨h1, h2⟩ := h
  cases r <;> simp only [Reg.override] <;> first | exact ⟨h1, h2⟩ | exact ⟨h1, hv⟩

theorem applyUpdates_get_some {sc : Scope} {upd : List (Name × Nat)} {n : Name} {r : Reg}
    (h : sc.get n = some r) :
    (applyUpdates sc upd).get n = some r ∨ ∃ v, (n, v) ∈ upd ∧ (applyUpdates sc upd).get n = some (r.override v) := by
  rw [applyUpdates_get, h]
  unfold overrideSpec
  cases hl : lastVal n upd with
  | none => exact Or.inl rfl
  | some v => exact Or.inr ⟨v, lastVal_some_mem hl, rfl⟩

theorem applyUpdates_get_none {sc : Scope} {upd : List (Name × Nat)} {n : Name} (h : sc.get n = none) :
    (applyUpdates sc upd).get n = none := by
  rw [applyUpdates_get, h]
  unfold overrideSpec
  cases lastVal n upd <;> rfl

theorem Start.applyUpdates {Γ : Env} {sc : Scope} {upd : List (Name × Nat)} (hs : Start Γ sc)
    (hu : UpdOk Γ upd) : Start Γ (applyUpdates sc upd) := by
  refine ⟨⟨?_, ?_, ?_, hs.inv.flag⟩, (applyUpdates_reach sc upd).namesNodup hs.nodup, ?_, hs.nle⟩
  · intro x k τ hx
    obtain ⟨r, h1, h2, h3⟩ := hs.inv.fwd x k τ hx
    rcases applyUpdates_get_some (upd := upd) (show sc.get x = some r from h1) with e | ⟨v, hm, e⟩
    · exact ⟨r, e, h2, h3⟩
    · obtain ⟨o1, o2⟩ := override_ok v h2 h3 ((hu _ hm).2 k τ hx)
      exact ⟨_, e, o1, o2⟩
  · intro x hx
    exact applyUpdates_get_none (show sc.get x = none from hs.inv.bwd x hx)
  · rw [(applyUpdates_counters sc upd).2.2.2.1]
    exact hs.inv.nloc
  · intro x r' hg
    cases h0 : sc.get x with
    | none => rw [applyUpdates_get_none h0] at hg; cases hg
    | some r =>
      rcases applyUpdates_get_some (upd := upd) h0 with e | ⟨v, hm, e⟩
      · rw [e] at hg
        simp only [Option.some.injEq] at hg
        subst hg
        exact hs.defOk x r h0
      · rw [e] at hg
        simp only [Option.some.injEq] at hg
        subst hg
        exact override_defOk (hs.defOk x r h0) (hu _ hm).1

/-! ## The main theorem -/

theorem accepted_of_start {Γ : Env} {sc : Scope} {evs : List Event} (hs : Start Γ sc)
    (hc : (checkEventsV Γ evs).isSome = true) (hl : Frag.LitsOk evs = true) :
    ∃ bin sc' img, compileProg evs sc = .ok (bin, sc') ∧ bin.serialize = .ok img := by
  obtain ⟨Γ', hc⟩ := Option.isSome_iff_exists.mp hc
  obtain ⟨cp, e, _, hin⟩ := compile_eventsV evs Γ sc (defInstrs sc.named).length hs.inv hs.nle hc hl
  have hall : ∀ i ∈ defInstrs sc.named ++ cp.instrs, instrOk i = true := by
    intro i hi
    rcases List.mem_append.mp hi with h | h
    · exact hs.defs i h
    · exact hin i h
  obtain ⟨b, eb⟩ := instrs_ser hall
  refine ⟨{ events := cp.events, instrs := defInstrs sc.named ++ cp.instrs }, cp.sc,
    cp.events.flatMap EvRec.serialize ++ b, ?_, ?_⟩
  · unfold compileProg
    simp only
    rw [e]
    rfl
  · unfold Bin.serialize
    simp only
    rw [eb]
    rfl

theorem compile_eq {uid : Nat} {src : List Char} {ds : List Decl} {evs : List Event} {sc0 : Scope}
    (upd : List (Name × Nat)) (hp : parseSource src = some (ds, evs))
    (h0 : declareAll (Scope.new uid) ds = .ok sc0) :
    compile uid src upd = compileProg evs (applyUpdates sc0 upd) := by
  unfold compile newWithScope
  rw [hp]
  simp only [h0, Out.bind_ok, Out.pure_eq]

/-- **C20, acceptance, with compile-time overrides.** -/
theorem well_typed_accepted_upd (uid : Nat) (src : List Char) (ds : List Decl) (evs : List Event)
    (upd : List (Name × Nat))
    (hp : parseSource src = some (ds, evs)) (hwt : WellTyped ds evs = true) (hu : updOk ds upd = true) :
    ∃ bin sc img, compile uid src upd = .ok (bin, sc) ∧ bin.serialize = .ok img := by
  simp only [WellTyped, Bool.and_eq_true] at hwt
  obtain ⟨⟨hd, hl⟩, hc⟩ := hwt
  obtain ⟨sc0, h0, hs⟩ := declare_start uid (declsOk_iff hd)
  rw [compile_eq upd hp h0]
  exact accepted_of_start (hs.applyUpdates (updOk_iff hu)) hc hl

/-- **C20, acceptance.** Every program of the grammar that is well typed and within the register
limits is accepted by the compiler, and its image by the serializer. -/
theorem well_typed_accepted (uid : Nat) (src : List Char) (ds : List Decl) (evs : List Event)
    (hp : parseSource src = some (ds, evs)) (hwt : WellTyped ds evs = true) :
    ∃ bin sc img, compile uid src [] = .ok (bin, sc) ∧ bin.serialize = .ok img :=
  well_typed_accepted_upd uid src ds evs [] hp hwt rfl

/-- the same for the entry point `compile_and_serialize` -/
theorem well_typed_image (uid : Nat) (src : List Char) (ds : List Decl) (evs : List Event)
    (upd : List (Name × Nat))
    (hp : parseSource src = some (ds, evs)) (hwt : WellTyped ds evs = true) (hu : updOk ds upd = true) :
    ∃ img sc, compileAndSerialize uid src upd = .ok (img, sc) := by
  obtain ⟨bin, sc, img, h1, h2⟩ := well_typed_accepted_upd uid src ds evs upd hp hwt hu
  refine ⟨img, sc, ?_⟩
  unfold compileAndSerialize
  rw [h1, Out.bind_ok]
  simp only
  rw [h2]
  rfl

/-- in the former check the `Stratified` conjunct excludes nothing: it follows from the typing conjunct -/
theorem wellTypedStratified_eq (ds : List Decl) (evs : List Event) :
    WellTypedStratified ds evs =
      (declsOk ds && Frag.LitsOk evs && (checkEvents (initEnv ds) evs).isSome) := by
  unfold WellTypedStratified
  cases h : checkEvents (initEnv ds) evs with
  | none => simp
  | some Γ' => rw [checkEvents_stratified evs _ h]; simp

/-- **characterisation of the former check**: it is the extended check restricted to stratified
programs (no assignment inside an expression) -/
theorem wellTyped_eq (ds : List Decl) (evs : List Event) :
    WellTypedStratified ds evs = (WellTyped ds evs && Frag.Stratified evs) := by
  unfold WellTypedStratified WellTyped
  cases hs : Frag.Stratified evs with
  | false => simp
  | true => rw [checkEventsV_stratified evs hs]; simp

/-- every program that passed the former check passes the extended one -/
theorem wellTyped_mono (ds : List Decl) (evs : List Event) (h : WellTypedStratified ds evs = true) :
    WellTyped ds evs = true := by
  rw [wellTyped_eq, Bool.and_eq_true] at h
  exact h.1

/-- the check applied to source text: `none` = does not parse -/
def wtSrc (src : List Char) : Option Bool := (parseSource src).map fun p => WellTyped p.1 p.2

/-- source-level form: text that parses and passes the check is compiled and serialized -/
theorem wtSrc_accepted (uid : Nat) (src : List Char) (h : wtSrc src = some true) :
    ∃ bin sc img, compile uid src [] = .ok (bin, sc) ∧ bin.serialize = .ok img := by
  unfold wtSrc at h
  cases hp : parseSource src with
  | none => rw [hp] at h; cases h
  | some p =>
    rw [hp] at h
    simp only [Option.map_some, Option.some.injEq] at h
    exact well_typed_accepted uid src p.1 p.2 hp h

/-! ## Non-vacuity (kernel-checked: the whole pipeline parse → check is evaluated by `decide +kernel`) -/

/-- `C13.exSrc` is well typed … -/
theorem exSrc_wellTyped : wtSrc C13.exSrc = some true := by decide +kernel

/-- … hence accepted, by the theorem (not by running the compiler) -/
theorem exSrc_accepted : ∃ bin sc img, compile 3 C13.exSrc [] = .ok (bin, sc) ∧ bin.serialize = .ok img :=
  wtSrc_accepted 3 _ exSrc_wellTyped

/-- a richer program: three events, a comment, a volatile Report variable, Bool and Num variables
(Report and control), `ewma`, `if`, `!if`, two locals (one Num, one Bool) used in later events,
assignments to `Cwnd`, `Rate`, `Micros`, `(report)`, `(fallthrough)`, all three operator families.
(Kernel evaluation of the *parser* dominates: ≈ 35 s for these 382 characters.) -/
def richSrc : List Char :=
  ("(def (Report (volatile acked 0) (loss false)) (cap 9) (tmo false))" ++
   "(when true # c\n (:= Report.acked (ewma 2 Ack.bytes_acked)) (:= s (+ cap 1)) (:= big (> Cwnd s))" ++
   " (:= cap (if big Cwnd)) (:= Report.loss (!if tmo big)) (fallthrough))" ++
   "(when (&& big (< s Micros)) (:= Cwnd (min Cwnd cap)) (:= Micros 0) (report))" ++
   "(when (|| tmo Flow.was_timeout) (:= tmo true) (:= Rate (/ Rate 2)) (report))").toList

theorem richSrc_wellTyped : wtSrc richSrc = some true := by decide +kernel

theorem richSrc_accepted : ∃ bin sc img, compile 0 richSrc [] = .ok (bin, sc) ∧ bin.serialize = .ok img :=
  wtSrc_accepted 0 _ richSrc_wellTyped

-- tests (`#guard`: evaluated by the compiler, not the kernel): a longer program in the style of the
-- portus examples, and override lists for `richSrc`
#guard wtSrc
  ("(def (Report (volatile acked 0) (rtt 0) (loss false)) (cwndcap 100) (inTimeout false) (alpha 2))
    (when true
      # a comment
      (:= Report.acked (+ Report.acked Ack.bytes_acked))
      (:= Report.rtt (ewma alpha Flow.rtt_sample_us))
      (:= s (max Report.rtt 1))
      (:= big (> Cwnd cwndcap))
      (:= cwndcap (if big Cwnd))
      (:= Report.loss (!if (|| Flow.was_timeout inTimeout) false))
      (fallthrough))
    (when (&& (> Micros s) (== Ack.lost_pkts_sample 0))
      (:= Cwnd (min (+ Cwnd Report.acked) cwndcap))
      (:= Micros 0)
      (report))
    (when (|| Flow.was_timeout (> Ack.lost_pkts_sample 0))
      (:= inTimeout true)
      (:= Rate (/ Rate 2))
      (report))").toList == some true
#guard ((parseSource richSrc).map fun p => updOk p.1 [("cap".toList, 200), ("nosuch".toList, 1)]) == some true
#guard ((parseSource richSrc).map fun p => updOk p.1 [("Report.loss".toList, 1)]) == some false
#guard ((parseSource richSrc).map fun p => updOk p.1 [("cap".toList, 2147483648)]) == some false

/-! ### Assignments used as values (kernel-checked) -/

/-- the former check applied to source text -/
def wtSrcStratified (src : List Char) : Option Bool :=
  (parseSource src).map fun p => WellTypedStratified p.1 p.2

/-- membership in the fragment of the semantic theorem C01 (`Frag.InOracle`: hazard-free nestings) -/
def inOracleSrc (src : List Char) : Option Bool := (parseSource src).map fun p => Frag.InOracle p.2

/-- a plain assignment used as a value inside an expression (to a declared variable) -/
def nestedSrc : List Char :=
  ("(def (Report (out 0) (saved 0)))" ++
   "(when true (:= Report.out (+ (* Ack.bytes_acked 2) (+ (:= Report.saved Ack.packets_acked) 1))))").toList

/-- it is well typed (the former check refused it) … -/
theorem nestedSrc_wellTyped : wtSrc nestedSrc = some true ∧ wtSrcStratified nestedSrc = some false := by
  decide +kernel

/-- … hence accepted, by the theorem -/
theorem nestedSrc_accepted : ∃ bin sc img, compile 0 nestedSrc [] = .ok (bin, sc) ∧ bin.serialize = .ok img :=
  wtSrc_accepted 0 _ nestedSrc_wellTyped.1

/-- a nested assignment that creates a **new local** (`x`, of type Num, read by the next statement
and by the condition of the next event) -/
def nestedLocalSrc : List Char :=
  ("(def (Report (out 0)))" ++
   "(when true (:= Report.out (+ (:= x 1) 2)) (:= Report.out (+ x 1)))" ++
   "(when (> x 0) (report))").toList

theorem nestedLocalSrc_wellTyped : wtSrc nestedLocalSrc = some true := by decide +kernel

theorem nestedLocalSrc_accepted :
    ∃ bin sc img, compile 0 nestedLocalSrc [] = .ok (bin, sc) ∧ bin.serialize = .ok img :=
  wtSrc_accepted 0 _ nestedLocalSrc_wellTyped

/-- **hazardous nestings are accepted**: both operands of `+` assign the variable the statement
assigns (outside `Frag.InOracle`, the fragment of the semantic theorem); first with a declared
variable, then with a local that the *inner* assignment creates and the outer one re-types. No hazard
condition is needed for acceptance, and `WellTyped` has none. -/
def hazardSrc : List Char :=
  ("(def (Report (x 0)))" ++
   "(when true (:= Report.x (+ (:= Report.x 1) (:= Report.x 2))) (:= y (+ (:= y 1) (:= y 2))))").toList

theorem hazardSrc_wellTyped : wtSrc hazardSrc = some true ∧ inOracleSrc hazardSrc = some false := by
  decide +kernel

theorem hazardSrc_accepted : ∃ bin sc img, compile 0 hazardSrc [] = .ok (bin, sc) ∧ bin.serialize = .ok img :=
  wtSrc_accepted 0 _ hazardSrc_wellTyped.1

/-! ### Guarded assignments used as values, assignments inside conditions (kernel-checked) -/

/-- a **guarded assignment used as a value**: `(:= Report.b (if c 5))` as an operand of `+`; then an `ewma`
and a `!if` assignment as the two operands of one operator (the second reads what the first assigned),
the latter into a control variable -/
def guardedValueSrc : List Char :=
  ("(def (Report (a 0) (b 0)) (c 1))" ++
   "(when true (:= Report.a (+ 1 (:= Report.b (if (> Ack.bytes_acked 0) 5))))" ++
   " (:= Report.a (+ (:= Report.b (ewma 2 Ack.bytes_acked)) (:= c (!if (> Report.b 3) Cwnd)))))").toList

/-- it is well typed (the former check refused it; it is inside the fragment of the semantic theorem since
guarded assignments are admitted as values: no operator here reads, as its left operand, a variable its right
operand assigns) … -/
theorem guardedValueSrc_wellTyped :
    wtSrc guardedValueSrc = some true ∧ wtSrcStratified guardedValueSrc = some false ∧
      inOracleSrc guardedValueSrc = some true := by
  decide +kernel

/-- … hence accepted, by the theorem -/
theorem guardedValueSrc_accepted :
    ∃ bin sc img, compile 0 guardedValueSrc [] = .ok (bin, sc) ∧ bin.serialize = .ok img :=
  wtSrc_accepted 0 _ guardedValueSrc_wellTyped.1

/-- guarded assignments nest: one inside the condition operand of another, one as the value operand
of another -/
def guardedNestSrc : List Char :=
  ("(def (Report (a 0) (b 0)))" ++
   "(when true (:= Report.a (if (> (:= Report.b (ewma 2 Ack.bytes_acked)) 0) (:= Report.b (!if false 1)))))").toList

theorem guardedNestSrc_wellTyped : wtSrc guardedNestSrc = some true := by decide +kernel

theorem guardedNestSrc_accepted :
    ∃ bin sc img, compile 0 guardedNestSrc [] = .ok (bin, sc) ∧ bin.serialize = .ok img :=
  wtSrc_accepted 0 _ guardedNestSrc_wellTyped

/-- an **assignment inside a `when` condition**, to a declared Bool variable; the top node of the
condition is an operator -/
def condBindSrc : List Char :=
  ("(def (Report (a 0)) (flagvar false))" ++
   "(when (&& (:= flagvar (> Ack.bytes_acked 0)) true) (:= Report.a 1) (report))").toList

theorem condBindSrc_wellTyped : wtSrc condBindSrc = some true ∧ wtSrcStratified condBindSrc = some false := by
  decide +kernel

theorem condBindSrc_accepted :
    ∃ bin sc img, compile 0 condBindSrc [] = .ok (bin, sc) ∧ bin.serialize = .ok img :=
  wtSrc_accepted 0 _ condBindSrc_wellTyped.1

/-- a condition that **creates a local** (`x`), read by the body of the same event and by the condition
of the next one: the environment is threaded through the condition into the body; and a guarded
assignment inside a condition -/
def condLocalSrc : List Char :=
  ("(def (Report (a 0) (f false)))" ++
   "(when (> (:= x 1) 0) (:= Report.a x) (report))" ++
   "(when (|| (:= Report.f (if (< x 5) true)) false) (report))").toList

theorem condLocalSrc_wellTyped : wtSrc condLocalSrc = some true := by decide +kernel

theorem condLocalSrc_accepted :
    ∃ bin sc img, compile 0 condLocalSrc [] = .ok (bin, sc) ∧ bin.serialize = .ok img :=
  wtSrc_accepted 0 _ condLocalSrc_wellTyped

-- tests (`#guard`): more nestings the check lets through
#guard wtSrc "(def (Report (b 0))) (when true (:= a (:= b2 1)) (:= Report.b (+ a b2)))".toList == some true
#guard wtSrc "(def (Report (b 0))) (when true (:= Report.b (if (> (:= x 1) 0) x)))".toList == some true
#guard wtSrc "(def (Report (b 0))) (when true (:= Report.b (ewma (:= x 1) (:= y (+ x 2)))))".toList == some true
#guard wtSrc "(def (Report (b 0))) (when true (:= c (+ (:= Cwnd 5) 1)))".toList == some true
#guard wtSrc "(def (Report (b 0))) (when true (:= x (+ (:= x 1) x)))".toList == some true
-- six locals are fine, the seventh is not, wherever it is created
#guard wtSrc ("(def (Report (b 0))) (when true " ++
  "(:= a (+ (:= l1 1) (+ (:= l2 1) (+ (:= l3 1) (+ (:= l4 1) (:= l5 1)))))))").toList == some true
#guard wtSrc ("(def (Report (b 0))) (when true " ++
  "(:= a (+ (:= l1 1) (+ (:= l2 1) (+ (:= l3 1) (+ (:= l4 1) (+ (:= l5 1) (:= l6 1))))))))").toList == some false
-- literals inside nested assignments are checked; primitives stay read-only; a name must be
-- assigned before it is read, also inside one expression (operands left to right)
#guard wtSrc "(def (Report (b 0))) (when true (:= Report.b (+ (:= x 2147483648) 0)))".toList == some false
#guard wtSrc "(def (Report (b 0))) (when true (:= c (+ (:= Ack.now 5) 1)))".toList == some false
#guard wtSrc "(def (Report (b 0))) (when true (:= x (+ x (:= x 1))))".toList == some false

-- tests (`#guard`): guarded assignments as values and assignments in conditions
#guard wtSrc "(def (Report (a 0) (b 0))) (when true (:= Report.a (:= Report.b (if true 1))))".toList == some true
#guard wtSrc "(def (Report (a 0) (b 0))) (when true (:= Report.a (- (:= Report.b (if true (:= y 1))) y)))".toList == some true
#guard wtSrc "(def (Report (a 0) (b true))) (when true (:= Report.a (if (:= Report.b (if true 1)) 1)))".toList == some true
#guard wtSrc "(def (Report (a 0) (b true))) (when true (:= Report.a (if (:= Report.b (ewma 1 1)) 1)))".toList == some true
#guard wtSrc "(def (Report (a 0) (b true))) (when true (:= Report.a (+ (:= Report.b (ewma 1 1)) 1)))".toList == some false
#guard wtSrc "(def (Report (a 0))) (when (> (:= x (:= y 1)) 0) (:= Report.a (+ x y)))".toList == some true
#guard wtSrc "(def (Report (a 0))) (when (== (:= Report.a (ewma 2 Ack.now)) 0) (report))".toList == some true
-- the eight temporaries of a condition, nested assignments included; the six locals, wherever created
#guard wtSrc ("(def (Report (a 0))) (when (> (:= x " ++
      "(+ 1 (+ 1 (+ 1 (+ 1 (+ 1 (+ 1 (+ 1 1)))))))) 0) (report))").toList == some true
#guard wtSrc ("(def (Report (a 0))) (when (> (:= x " ++
      "(+ 1 (+ 1 (+ 1 (+ 1 (+ 1 (+ 1 (+ 1 (+ 1 1))))))))) 0) (report))").toList == some false
#guard wtSrc ("(def (Report (b 0))) (when (> (+ (:= l1 1) (+ (:= l2 1) (+ (:= l3 1) (:= l4 1)))) 0) " ++
  "(:= l5 1) (:= l6 1))").toList == some true
#guard wtSrc ("(def (Report (b 0))) (when (> (+ (:= l1 1) (+ (:= l2 1) (+ (:= l3 1) (:= l4 1)))) 0) " ++
  "(:= l5 1) (:= l6 1) (:= l7 1))").toList == some false
-- literals inside conditions and guarded operands are checked
#guard wtSrc "(def (Report (a 0))) (when (> (:= x 2147483648) 0) (report))".toList == some false
#guard wtSrc "(def (Report (a 0) (b 0))) (when true (:= Report.a (+ 1 (:= Report.b (if true 2147483648)))))".toList == some false

/-! ### Ill-typed programs are refused by the check (and, here, by the compiler or the encoder) -/

/-- a Bool operand of `+` -/
theorem ill_operand :
    wtSrc "(def (Report (acked 0))) (when true (:= Report.acked (+ true 1)))".toList = some false := by
  decide +kernel

/-- a 17th Report variable -/
theorem ill_17_reports :
    wtSrc ("(def (Report (a 0) (b 0) (c 0) (d 0) (e 0) (f0 0) (g 0) (h 0) (i 0) (j 0) (k 0) (l 0) (m 0) (n 0)" ++
      " (o 0) (p 0) (q 0))) (when true (report))").toList = some false := by
  decide +kernel

/-- nine operator nodes in one statement (eight are fine: tests below) -/
theorem ill_9_operators :
    wtSrc ("(def (Report (a 0))) (when true (:= Report.a " ++
      "(+ 1 (+ 1 (+ 1 (+ 1 (+ 1 (+ 1 (+ 1 (+ 1 (+ 1 1)))))))))))").toList = some false := by
  decide +kernel

-- tests (evaluated by the compiler, not the kernel)
#guard wtSrc ("(def (Report (a 0))) (when true (:= Report.a " ++
      "(+ 1 (+ 1 (+ 1 (+ 1 (+ 1 (+ 1 (+ 1 (+ 1 1))))))))))").toList == some true
#guard wtSrc "(def (Report (a 0))) (when true (:= a 1) (:= b 1) (:= c 1) (:= d 1) (:= e 1) (:= f0 1))".toList == some true
#guard wtSrc "(def (Report (a 0))) (when true (:= a 1) (:= b 1) (:= c 1) (:= d 1) (:= e 1) (:= f0 1) (:= g 1))".toList == some false
#guard wtSrc "(def (Report (a 0))) (when true (:= Report.a 2147483648))".toList == some false
#guard wtSrc "(def (Report (a 0))) (when true (:= Report.a +infinity))".toList == some true
#guard wtSrc "(def (Report (a 0))) (when true (:= Report.a zz))".toList == some false
#guard wtSrc "(def (Report (a 0)) (Cwnd 1)) (when true (report))".toList == some false
#guard wtSrc "(def (Report (a 0)) (b 1) (b 2)) (when true (report))".toList == some false

/-! ## Findings: programs that are well typed by a natural reading of the grammar and are REJECTED

Each restriction below is explicit and named in `Typing.lean`; each example is the model compiler's
verdict, kernel-checked. -/

def rejected (src : String) : Bool := compile 7 src.toList [] == .err

/-- compiled *and* serialized (used in tests only; acceptance claims are made through the theorem) -/
def accepted (src : String) : Bool :=
  match compileAndSerialize 7 src.toList [] with
  | .ok _ => true
  | _ => false

/-- **`noBareBoolCondition`.** A `when` whose condition is a Bool *variable* (declared, local or the
primitive `Flow.was_timeout`) is rejected by `compile_flag` (the flag block must end in a temporary
or be a literal); the same condition written as an operator node is accepted. -/
theorem finding_bare_bool_condition :
    rejected "(def (Report (acked 0)) (flag true)) (when flag (report))" = true ∧
    rejected "(def (Report (acked 0))) (when Flow.was_timeout (report))" = true := by
  decide +kernel

#guard wtSrc "(def (Report (acked 0)) (flag true)) (when flag (report))".toList == some false
#guard wtSrc "(def (Report (acked 0)) (flag true)) (when (&& flag true) (report))".toList == some true
#guard wtSrc "(def (Report (acked 0))) (when (|| Flow.was_timeout false) (report))".toList == some true

/-- **`guardedTargetDeclared`.** `if`, `!if` and `ewma` can only be assigned to a declared (Report /
control) variable: the `Op::Bind` arm rejects `Cwnd`, `Rate`, `Micros` and locals as targets (even a
local that already exists), so e.g. `(:= Rate (ewma 2 Flow.rate_outgoing))` does not compile. -/
theorem finding_guarded_target :
    rejected "(def (Report (acked 0))) (when true (:= Cwnd (if true 1)))" = true ∧
    rejected "(def (Report (acked 0))) (when true (:= Rate (ewma 2 Flow.rate_outgoing)))" = true ∧
    rejected "(def (Report (acked 0))) (when true (:= x 1) (:= x (if true 2)))" = true := by
  decide +kernel

#guard wtSrc "(def (Report (acked 0))) (when true (:= Rate (ewma 2 Flow.rate_outgoing)))".toList == some false
#guard wtSrc "(def (Report (acked 0))) (when true (:= Report.acked (ewma 2 Flow.rate_outgoing)))".toList == some true

/-- **`knownTargetType`.** The value of `(:= x e)` inside an expression, `x` already known, has the
type *recorded for `x`*, not the type of `e` (the compiler's value of a bind is the register of the
target, and it does not compare the two types). With `n : Num`, the statement `(:= Report.n true)` is
accepted, but its value is not a Bool: `(&& (:= Report.n true) true)` is rejected – and
`(+ (:= Report.n true) 1)` is accepted. The check mirrors both. -/
theorem finding_known_target_type :
    rejected "(def (Report (n 0))) (when true (:= b (&& (:= Report.n true) true)))" = true ∧
    wtSrc "(def (Report (n 0))) (when true (:= b (&& (:= Report.n true) true)))".toList = some false ∧
    wtSrc "(def (Report (n 0))) (when true (:= b (+ (:= Report.n true) 1)))".toList = some true := by
  decide +kernel

#guard accepted "(def (Report (n 0))) (when true (:= b (+ (:= Report.n true) 1)))"

/-- the rule `setTy` of `bindValue` is forced by the compiler: in `(:= x (> (:= x 1) 0))` the inner
assignment creates the local `x : Num`, the outer one re-types *the same local* to Bool; afterwards
`(+ x 1)` is rejected and `(&& x true)` accepted. -/
theorem nested_retyping :
    rejected "(def (Report (a 0))) (when true (:= x (> (:= x 1) 0)) (:= y (+ x 1)))" = true ∧
    wtSrc "(def (Report (a 0))) (when true (:= x (> (:= x 1) 0)) (:= y (+ x 1)))".toList = some false ∧
    wtSrc "(def (Report (a 0))) (when true (:= x (> (:= x 1) 0)) (:= y (&& x true)))".toList = some true := by
  decide +kernel

#guard accepted "(def (Report (a 0))) (when true (:= x (> (:= x 1) 0)) (:= y (&& x true)))"

/-- **the placeholder of a guarded form has one consumer.** `(if c v)`, `(!if c v)`, `(ewma a v)` compile to
an instruction without result register and yield `Reg::None`; only the `Op::Bind` arm with a Report /
control register on its left accepts that (`bindGuarded`, `guardedTargetDeclared`). A bare guarded form
as an operand, or a guarded assignment to `Cwnd` / a local used as a value, is rejected – by the
compiler and by the check; the guarded assignment to a declared variable is a value. -/
theorem finding_placeholder_operand :
    rejected "(def (Report (a 0))) (when true (:= Report.a (+ 1 (if true 5))))" = true ∧
    rejected "(def (Report (a 0))) (when true (:= Report.a (+ 1 (:= Cwnd (if true 5)))))" = true ∧
    rejected "(def (Report (a 0))) (when true (:= Report.a (+ 1 (:= x (if true 5)))))" = true ∧
    wtSrc "(def (Report (a 0))) (when true (:= Report.a (+ 1 (if true 5))))".toList = some false ∧
    wtSrc "(def (Report (a 0))) (when true (:= Report.a (+ 1 (:= Cwnd (if true 5)))))".toList = some false ∧
    wtSrc "(def (Report (a 0))) (when true (:= Report.a (+ 1 (:= Report.a (if true 5)))))".toList = some true := by
  decide +kernel

#guard wtSrc "(def (Report (a 0))) (when true (:= Report.a (+ 1 (:= x (if true 5)))))".toList == some false
#guard accepted "(def (Report (a 0))) (when true (:= Report.a (+ 1 (:= Report.a (if true 5)))))"

/-- **`noBindCondition`.** A `when` condition whose *top node* is an assignment is rejected by
`compile_flag`: the value of the flag block is then the register of the target, not a temporary, and
there is no last instruction whose result could be redirected to `__eventFlag`. The same assignment
*below* the top operator is accepted (`condBindSrc` above); so is one wrapped as `(&& … true)`. A
guarded form at the top is no value at all. The check mirrors all three. -/
theorem finding_bind_condition :
    rejected "(def (Report (a 0)) (flagvar false)) (when (:= flagvar (> Ack.bytes_acked 0)) (report))" = true ∧
    wtSrc "(def (Report (a 0)) (flagvar false)) (when (:= flagvar (> Ack.bytes_acked 0)) (report))".toList
      = some false ∧
    rejected "(def (Report (a 0))) (when (if true true) (report))" = true ∧
    wtSrc "(def (Report (a 0))) (when (if true true) (report))".toList = some false := by
  decide +kernel

#guard accepted "(def (Report (a 0)) (flagvar false)) (when (&& (:= flagvar (> Ack.bytes_acked 0)) true) (report))"
#guard wtSrc "(def (Report (a 0)) (flagvar false)) (when (&& (:= flagvar (> Ack.bytes_acked 0)) true) (report))".toList == some true

/- formerly refused by the check, now let through (and accepted, by the theorem): a conditional / ewma
assignment used as a value, an assignment inside a `when` condition. -/
#guard wtSrc "(def (Report (b 0))) (when true (:= Report.b (+ (:= Report.b (if true 1)) 1)))".toList == some true
#guard accepted "(def (Report (b 0))) (when true (:= Report.b (+ (:= Report.b (if true 1)) 1)))"
#guard wtSrc "(def (Report (b 0))) (when (> (:= x 1) 0) (report))".toList == some true
#guard accepted "(def (Report (b 0))) (when (> (:= x 1) 0) (report))"

/- not restrictions of the compiler but of the check (it is sufficient, not necessary): the compiler
also accepts the copy of a never-assigned name (both locals stay *untyped* – usable as the right-hand
side of another copy only – until something assigns them), and it does not look at the operand types of
`if` / `!if` / `ewma` (`guardOk`: it only wants two values); the check refuses both. -/
#guard wtSrc "(def (Report (b 0))) (when true (:= x (:= y x)))".toList == some false
#guard accepted "(def (Report (b 0))) (when true (:= x (:= y x)))"
#guard wtSrc "(def (Report (a 0))) (when true (:= Report.a (if 1 1)))".toList == some false
#guard accepted "(def (Report (a 0))) (when true (:= Report.a (if 1 1)))"

/-- **`notReadOnly`** (expected): primitives cannot be assigned. -/
theorem primitives_read_only : rejected "(def (Report (acked 0))) (when true (:= Ack.now 1))" = true := by
  decide +kernel

/- not a restriction of the check but worth recording: the compiler does **not** compare the type
of an assigned variable with the type of the value (`(:= Report.acked true)` with `acked : Num` is
accepted), and the check mirrors that. -/
#guard wtSrc "(def (Report (acked 0))) (when true (:= Report.acked true))".toList == some true
#guard !rejected "(def (Report (acked 0))) (when true (:= Report.acked true))"

end Portus.Lang.Typing
