import PortusModel.Lemmas.WireDec
/-! Encoder/decoder round-trip lemmas (used by Props/C07, C08). -/
namespace Portus.Wire
open Portus

@[simp] theorem serializeHeader_length (t l s : Nat) : (serializeHeader t l s).length = 8 := by
  simp [serializeHeader]

/-- Decoding the header of `header ++ body ++ rest` when the declared length is honest. -/
theorem deserialize_header_body (typ len sid : Nat) (body rest : Bytes)
    (ht : typ ≤ 255) (hs : sid < 2^32) (hl : len ≤ 65535) (hb : body.length + 8 = len) :
    deserialize (serializeHeader typ len sid ++ body ++ rest) =
      .ok { typ := typ, len := len, sid := sid, bytes := body } := by
  have e1 : rd16 (serializeHeader typ len sid ++ body ++ rest) = typ := by
    simp only [serializeHeader, List.append_assoc]
    rw [rd16_le16_append]; omega
  have e2 : rd16 ((serializeHeader typ len sid ++ body ++ rest).drop 2) = len := by
    have : (serializeHeader typ len sid ++ body ++ rest).drop 2
        = le16 len ++ (le32 sid ++ body ++ rest) := by
      simp [serializeHeader, le16]
    rw [this, rd16_le16_append]; omega
  have e3 : rd32 ((serializeHeader typ len sid ++ body ++ rest).drop 4) = sid := by
    have : (serializeHeader typ len sid ++ body ++ rest).drop 4 = le32 sid ++ (body ++ rest) := by
      simp [serializeHeader, le16]
    rw [this, rd32_le32_append]; omega
  have e4 : (serializeHeader typ len sid ++ body ++ rest).drop 8 = body ++ rest := by
    simp [serializeHeader, le16, le32]
  unfold deserialize
  have hlen : (serializeHeader typ len sid ++ body ++ rest).length = 8 + body.length + rest.length := by
    simp; omega
  rw [if_neg (by omega)]
  simp only [e1, e2, e3]
  rw [if_neg (by omega), if_neg (by omega), if_neg (by omega)]
  rw [sliceP_ok _ _ _ (by omega), e4]
  have : len - 8 = body.length := by omega
  simp [this]

theorem nulPos_append_zero (name : Bytes) (tail : Bytes) (h : ∀ x ∈ name, x ≠ 0) :
    nulPos (name ++ 0 :: tail) = some name.length := by
  induction name with
  | nil => simp [nulPos]
  | cons x xs ih =>
    have hx : x ≠ 0 := h x (by simp)
    have := ih (fun y hy => h y (by simp [hy]))
    simp [nulPos, hx, this]

theorem fieldsSpec_flatMap (fields : List Nat) (h : ∀ f ∈ fields, f < 2^64) (rest : Bytes)
    (hr : rest.length < 8) :
    fieldsSpec (fields.flatMap le64 ++ rest) = fields := by
  induction fields with
  | nil =>
    have : rest.length / 8 = 0 := by omega
    simp [fieldsSpec, this]
  | cons f fs ih =>
    have hlen : 8 ≤ ((f :: fs).flatMap le64 ++ rest).length := by simp
    rw [fieldsSpec_step _ hlen]
    have hd : ((f :: fs).flatMap le64 ++ rest).drop 8 = fs.flatMap le64 ++ rest := by
      simp [le64, le32]
    rw [hd, ih (fun g hg => h g (by simp [hg]))]
    have : rd64 ((f :: fs).flatMap le64 ++ rest) = f := by
      have hf := h f (by simp)
      simp only [List.flatMap_cons, List.append_assoc]
      rw [rd64_le64_append]; omega
    rw [this]

theorem flatMap_le64_length (fields : List Nat) : (fields.flatMap le64).length = 8 * fields.length := by
  induction fields with
  | nil => rfl
  | cons f fs ih => simp [ih]; omega

end Portus.Wire
