import PortusModel.Wire.Ctl
import PortusModel.Wire.LibccpRead
import PortusModel.Lemmas.WireEnc
/-! libccp's reader applied to portus' control-message encodings (used by Props/C06, C11). -/
namespace Portus.Wire
open Portus Portus.Lang

theorem classIdx_bounds {r : Reg} {c i : Nat} (h : r.classIdx = .ok (c, i)) : c ≤ 8 ∧ i < 2^32 := by
  cases r with
  | control j t vol =>
    simp only [Reg.classIdx] at h
    split at h
    · cases h
    · simp at h; obtain ⟨rfl, rfl⟩ := h; split <;> omega
  | immNum n =>
    simp only [Reg.classIdx] at h
    split at h
    · simp at h; obtain ⟨rfl, rfl⟩ := h; omega
    · cases h
  | immBool b =>
    simp only [Reg.classIdx] at h
    simp at h; obtain ⟨rfl, rfl⟩ := h; split <;> omega
  | implicit j t =>
    simp only [Reg.classIdx] at h
    split at h
    · cases h
    · simp at h; obtain ⟨rfl, rfl⟩ := h; omega
  | «local» j t =>
    simp only [Reg.classIdx] at h
    split at h
    · cases h
    · simp at h; obtain ⟨rfl, rfl⟩ := h; omega
  | primitive j t =>
    simp only [Reg.classIdx] at h
    split at h
    · cases h
    · simp at h; obtain ⟨rfl, rfl⟩ := h; omega
  | report j t vol =>
    simp only [Reg.classIdx] at h
    split at h
    · cases h
    · simp at h; obtain ⟨rfl, rfl⟩ := h; split <;> omega
  | tmp j t =>
    simp only [Reg.classIdx] at h
    split at h
    · cases h
    · simp at h; obtain ⟨rfl, rfl⟩ := h; omega
  | none => simp [Reg.classIdx, unreachableP] at h

theorem Reg.serialize_eq {r : Reg} {c i : Nat} (h : r.classIdx = .ok (c, i)) :
    r.serialize = .ok (byte c :: le32 i) := by
  simp [Reg.serialize, h]

theorem Reg.serialize_ok {r : Reg} {b : Bytes} (h : r.serialize = .ok b) :
    ∃ c i, r.classIdx = .ok (c, i) ∧ b = byte c :: le32 i := by
  unfold Reg.serialize at h
  cases hc : r.classIdx with
  | ok p => obtain ⟨c, i⟩ := p; simp [hc] at h; exact ⟨c, i, rfl, h.symm⟩
  | err => simp [hc] at h
  | panic => simp [hc] at h

/-- reading one 5-byte register at the front of a buffer -/
theorem read_reg_bytes (c i : Nat) (rest : Bytes) (hc : c ≤ 8) (hi : i < 2^32) :
    bAt (byte c :: le32 i ++ rest) 0 = c ∧ rd32 ((byte c :: le32 i ++ rest).drop 1) = i ∧
    (byte c :: le32 i ++ rest).drop 5 = rest := by
  refine ⟨?_, ?_, ?_⟩
  · simp [byte_toNat]; omega
  · simp only [List.cons_append, List.drop_succ_cons, List.drop_zero]
    rw [rd32_le32_append]; omega
  · simp [le32]

/-- libccp's update records `us` are exactly the (class, index, value) triples of `fields` -/
def updsMatch : List (Reg × Nat) → List Libccp.Upd → Prop
  | [], [] => True
  | (r, v) :: ps, u :: us => r.classIdx = .ok (u.cls, u.idx) ∧ u.val = v ∧ updsMatch ps us
  | _, _ => False

theorem readUpds_serializeUpdates (fields : List (Reg × Nat)) (b rest : Bytes)
    (hv : ∀ p ∈ fields, p.2 < 2^64) (h : serializeUpdates fields = .ok b) :
    b.length = 13 * fields.length ∧
    updsMatch fields (Libccp.readUpds fields.length (b ++ rest)) := by
  induction fields generalizing b with
  | nil => simp [serializeUpdates] at h; subst h; simp [Libccp.readUpds, updsMatch]
  | cons p ps ih =>
    obtain ⟨r, v⟩ := p
    simp only [serializeUpdates] at h
    cases hr : r.serialize with
    | err => simp [hr] at h
    | panic => simp [hr] at h
    | ok rb =>
      cases ht : serializeUpdates ps with
      | err => simp [hr, ht] at h
      | panic => simp [hr, ht] at h
      | ok tail =>
        simp [hr, ht] at h
        subst h
        obtain ⟨c, i, hci, hrb⟩ := Reg.serialize_ok hr
        subst hrb
        obtain ⟨hc, hi⟩ := classIdx_bounds hci
        have hv' : v < 2^64 := hv (r, v) (by simp)
        obtain ⟨ihl, ihr⟩ := ih tail (fun q hq => hv q (by simp [hq])) ht
        refine ⟨by simp [ihl]; omega, ?_⟩
        have e : (byte c :: le32 i ++ (le64 v ++ tail)) ++ rest
            = byte c :: le32 i ++ (le64 v ++ (tail ++ rest)) := by simp [List.append_assoc]
        obtain ⟨r1, r2, r3⟩ := read_reg_bytes c i (le64 v ++ (tail ++ rest)) hc hi
        have d13 : (byte c :: le32 i ++ (le64 v ++ (tail ++ rest))).drop 13 = tail ++ rest := by
          simp [le32, le64]
        simp only [List.length_cons, Libccp.readUpds, updsMatch]
        rw [e, r1, r2, r3, d13, rd64_le64_append]
        exact ⟨hci, by omega, ihr⟩

end Portus.Wire

namespace Portus.Wire
open Portus Portus.Lang

def evToLibccp (e : EvRec) : Libccp.Expr :=
  { condStart := e.flagIdx, numCond := e.numFlag, eventStart := e.bodyIdx, numEvent := e.numBody }

def evInRange (e : EvRec) : Prop :=
  e.flagIdx < 2^32 ∧ e.numFlag < 2^32 ∧ e.bodyIdx < 2^32 ∧ e.numBody < 2^32

theorem events_bytes_length (evs : List EvRec) : (evs.flatMap EvRec.serialize).length = 16 * evs.length := by
  induction evs with
  | nil => rfl
  | cons e es ih => simp [EvRec.serialize, ih]; omega

theorem readExprs_serialize (evs : List EvRec) (rest : Bytes) (h : ∀ e ∈ evs, evInRange e) :
    Libccp.readExprs evs.length (evs.flatMap EvRec.serialize ++ rest) = evs.map evToLibccp := by
  induction evs with
  | nil => rfl
  | cons e es ih =>
    obtain ⟨h1, h2, h3, h4⟩ := h e (by simp)
    have ih' := ih (fun x hx => h x (by simp [hx]))
    simp only [List.flatMap_cons, List.length_cons, Libccp.readExprs, List.map_cons, EvRec.serialize,
      List.append_assoc]
    have d4 : (le32 e.flagIdx ++ (le32 e.numFlag ++ (le32 e.bodyIdx ++ (le32 e.numBody ++
        (es.flatMap EvRec.serialize ++ rest))))).drop 4 = le32 e.numFlag ++ (le32 e.bodyIdx ++ (le32 e.numBody ++
        (es.flatMap EvRec.serialize ++ rest))) := by simp [le32]
    have d8 : (le32 e.flagIdx ++ (le32 e.numFlag ++ (le32 e.bodyIdx ++ (le32 e.numBody ++
        (es.flatMap EvRec.serialize ++ rest))))).drop 8 = le32 e.bodyIdx ++ (le32 e.numBody ++
        (es.flatMap EvRec.serialize ++ rest)) := by simp [le32]
    have d12 : (le32 e.flagIdx ++ (le32 e.numFlag ++ (le32 e.bodyIdx ++ (le32 e.numBody ++
        (es.flatMap EvRec.serialize ++ rest))))).drop 12 = le32 e.numBody ++
        (es.flatMap EvRec.serialize ++ rest) := by simp [le32]
    have d16 : (le32 e.flagIdx ++ (le32 e.numFlag ++ (le32 e.bodyIdx ++ (le32 e.numBody ++
        (es.flatMap EvRec.serialize ++ rest))))).drop 16 = es.flatMap EvRec.serialize ++ rest := by
      simp [le32]
    rw [d4, d8, d12, d16, ih']
    simp only [rd32_le32_append, evToLibccp]
    congr 2 <;> omega

/-- libccp's instruction record `m` is exactly the encoding of `i` -/
def instrMatch (i : Instr) (m : Libccp.InstrMsg) : Prop :=
  serializeOp i.op = .ok m.opcode ∧ i.res.classIdx = .ok (m.resT, m.resI) ∧
  i.left.classIdx = .ok (m.leftT, m.leftI) ∧ i.right.classIdx = .ok (m.rightT, m.rightI)

def instrsMatch : List Instr → List Libccp.InstrMsg → Prop
  | [], [] => True
  | i :: is, m :: ms => instrMatch i m ∧ instrsMatch is ms
  | _, _ => False

theorem serializeOp_bound {o : Op} {c : Nat} (h : serializeOp o = .ok c) : c ≤ 14 := by
  cases o <;> simp [serializeOp, unreachableP] at h <;> omega

theorem Instr.serialize_ok {i : Instr} {b : Bytes} (h : i.serialize = .ok b) :
    ∃ o c1 i1 c2 i2 c3 i3, serializeOp i.op = .ok o ∧ i.res.classIdx = .ok (c1, i1) ∧
      i.left.classIdx = .ok (c2, i2) ∧ i.right.classIdx = .ok (c3, i3) ∧
      b = byte o :: ((byte c1 :: le32 i1) ++ (byte c2 :: le32 i2) ++ (byte c3 :: le32 i3)) := by
  unfold Instr.serialize at h
  cases ho : serializeOp i.op <;> cases h1 : i.res.serialize <;> cases h2 : i.left.serialize <;>
    cases h3 : i.right.serialize <;> simp [ho, h1, h2, h3] at h
  rename_i o a b' c
  obtain ⟨c1, i1, e1, rfl⟩ := Reg.serialize_ok h1
  obtain ⟨c2, i2, e2, rfl⟩ := Reg.serialize_ok h2
  obtain ⟨c3, i3, e3, rfl⟩ := Reg.serialize_ok h3
  exact ⟨o, c1, i1, c2, i2, c3, i3, rfl, e1, e2, e3, h.symm⟩

theorem readInstrs_serialize (is : List Instr) (b rest : Bytes) (h : serializeInstrs is = .ok b) :
    b.length = 16 * is.length ∧ instrsMatch is (Libccp.readInstrs is.length (b ++ rest)) := by
  induction is generalizing b with
  | nil => simp [serializeInstrs] at h; subst h; simp [Libccp.readInstrs, instrsMatch]
  | cons i is ih =>
    simp only [serializeInstrs] at h
    cases hi : i.serialize with
    | err => simp [hi] at h
    | panic => simp [hi] at h
    | ok ib =>
      cases ht : serializeInstrs is with
      | err => simp [hi, ht] at h
      | panic => simp [hi, ht] at h
      | ok tail =>
        simp [hi, ht] at h
        subst h
        obtain ⟨o, c1, i1, c2, i2, c3, i3, eo, e1, e2, e3, rfl⟩ := Instr.serialize_ok hi
        obtain ⟨ihl, ihr⟩ := ih tail ht
        have ho := serializeOp_bound eo
        obtain ⟨b1, j1⟩ := classIdx_bounds e1
        obtain ⟨b2, j2⟩ := classIdx_bounds e2
        obtain ⟨b3, j3⟩ := classIdx_bounds e3
        refine ⟨by simp [ihl]; omega, ?_⟩
        simp only [List.length_cons, Libccp.readInstrs, instrsMatch, instrMatch]
        -- normal form of the record followed by the rest
        have e : (byte o :: (byte c1 :: le32 i1 ++ (byte c2 :: le32 i2) ++ (byte c3 :: le32 i3)) ++ tail) ++ rest
            = byte o :: byte c1 :: (le32 i1 ++ (byte c2 :: (le32 i2 ++ (byte c3 :: (le32 i3 ++ (tail ++ rest)))))) := by
          simp [List.append_assoc]
        rw [e]
        have q0 : bAt (byte o :: byte c1 :: (le32 i1 ++ (byte c2 :: (le32 i2 ++ (byte c3 :: (le32 i3 ++ (tail ++ rest))))))) 0 = o := by
          simp [byte_toNat]; omega
        have q1 : bAt (byte o :: byte c1 :: (le32 i1 ++ (byte c2 :: (le32 i2 ++ (byte c3 :: (le32 i3 ++ (tail ++ rest))))))) 1 = c1 := by
          simp [byte_toNat]; omega
        have q6 : bAt (byte o :: byte c1 :: (le32 i1 ++ (byte c2 :: (le32 i2 ++ (byte c3 :: (le32 i3 ++ (tail ++ rest))))))) 6 = c2 := by
          simp [le32, byte_toNat]; omega
        have q11 : bAt (byte o :: byte c1 :: (le32 i1 ++ (byte c2 :: (le32 i2 ++ (byte c3 :: (le32 i3 ++ (tail ++ rest))))))) 11 = c3 := by
          simp [le32, byte_toNat]; omega
        have d2 : (byte o :: byte c1 :: (le32 i1 ++ (byte c2 :: (le32 i2 ++ (byte c3 :: (le32 i3 ++ (tail ++ rest))))))).drop 2
            = le32 i1 ++ (byte c2 :: (le32 i2 ++ (byte c3 :: (le32 i3 ++ (tail ++ rest))))) := by simp
        have d7 : (byte o :: byte c1 :: (le32 i1 ++ (byte c2 :: (le32 i2 ++ (byte c3 :: (le32 i3 ++ (tail ++ rest))))))).drop 7
            = le32 i2 ++ (byte c3 :: (le32 i3 ++ (tail ++ rest))) := by simp [le32]
        have d12 : (byte o :: byte c1 :: (le32 i1 ++ (byte c2 :: (le32 i2 ++ (byte c3 :: (le32 i3 ++ (tail ++ rest))))))).drop 12
            = le32 i3 ++ (tail ++ rest) := by simp [le32]
        have d16 : (byte o :: byte c1 :: (le32 i1 ++ (byte c2 :: (le32 i2 ++ (byte c3 :: (le32 i3 ++ (tail ++ rest))))))).drop 16
            = tail ++ rest := by simp [le32]
        rw [q0, q1, q6, q11, d2, d7, d12, d16]
        simp only [rd32_le32_append]
        have m1 : i1 % 4294967296 = i1 := by omega
        have m2 : i2 % 4294967296 = i2 := by omega
        have m3 : i3 % 4294967296 = i3 := by omega
        rw [m1, m2, m3]
        exact ⟨⟨eo, e1, e2, e3⟩, ihr⟩

end Portus.Wire
