import PortusModel.Lang.Compile
/-!
# Lemmas about the register file, `Scope` and the scope-threading of the compiler
(used by `Props/C13`)

* the algebra of `regGet` / `regInsert` / `regSet` (no sortedness assumption);
* the closed table of built-in registers (`builtinTable`, `Scope.new_named`);
* `Reg.setTy`, `Reg.slot`: recorded type vs. class / index / volatility;
* `newReport` / `newControl` / `newLocal` / `updateType` as functions on `Scope.get`;
* the two folds of `declareAll` (`foldl_newReport`, `foldl_newControl`, `declareAll_ok`);
* `applyUpdates` (`lastVal`, `overrideSpec`, `applyUpdates_get`);
* `Step` / `Reach`: the scope transitions the compiler can make, and what they preserve
  (`LocalsInv`, slots, `NameInv`), then `compileExpr_reach` … `compileProg_reach`;
* the parser never delivers an initial type that is a name (`parseSource_init`);
* distinct names in the register file (`NamesNodup`);
* `Known`: the registers of the emitted instructions are bound in the scope
  (`compileExpr_known` … `compileProg_known`).
-/
namespace Portus.Lang
open Portus

/-! ## `strLt` -/

theorem strLt_irrefl (s : List Char) : strLt s s = false := by
  induction s with
  | nil => rfl
  | cons a as ih => simp [strLt, ih]

theorem ne_of_strLt {s n : List Char} (h : strLt s n = true) : s ≠ n := by
  intro e; subst e; rw [strLt_irrefl] at h; cases h

/-! ## `regGet`, `regInsert`, `regSet` -/

@[simp] theorem regGet_nil (n : Name) : regGet n [] = none := rfl

theorem regGet_cons (n s : Name) (x : Reg) (l : List (Name × Reg)) :
    regGet n ((s, x) :: l) = if s = n then some x else regGet n l := rfl

/-- a freshly inserted entry is the one `get` finds, whatever the file contained (it is put in
front of any older entry of the same name) -/
theorem regGet_regInsert_self (n : Name) (r : Reg) (l : List (Name × Reg)) :
    regGet n (regInsert n r l) = some r := by
  induction l with
  | nil => simp [regInsert, regGet_cons]
  | cons p rest ih =>
    obtain ⟨s, x⟩ := p
    unfold regInsert
    split
    · rename_i h
      rw [regGet_cons, if_neg (ne_of_strLt h), ih]
    · rw [regGet_cons, if_pos rfl]

theorem regGet_regInsert_ne {m n : Name} (h : m ≠ n) (r : Reg) (l : List (Name × Reg)) :
    regGet m (regInsert n r l) = regGet m l := by
  induction l with
  | nil => simp [regInsert, regGet_cons, Ne.symm h]
  | cons p rest ih =>
    obtain ⟨s, x⟩ := p
    unfold regInsert
    split
    · rw [regGet_cons, regGet_cons, ih]
    · rw [regGet_cons, if_neg (Ne.symm h)]

theorem regGet_regInsert (m n : Name) (r : Reg) (l : List (Name × Reg)) :
    regGet m (regInsert n r l) = if m = n then some r else regGet m l := by
  split
  · rename_i h; subst h; exact regGet_regInsert_self _ _ _
  · rename_i h; exact regGet_regInsert_ne h _ _

theorem regGet_regSet_self (n : Name) (r : Reg) (l : List (Name × Reg)) :
    regGet n (regSet n r l) = if (regGet n l).isSome then some r else none := by
  induction l with
  | nil => rfl
  | cons p rest ih =>
    obtain ⟨s, x⟩ := p
    unfold regSet
    split
    · rename_i h; simp [regGet_cons, h]
    · rename_i h; simp only [regGet_cons, if_neg h, ih]

theorem regGet_regSet_ne {m n : Name} (h : m ≠ n) (r : Reg) (l : List (Name × Reg)) :
    regGet m (regSet n r l) = regGet m l := by
  induction l with
  | nil => rfl
  | cons p rest ih =>
    obtain ⟨s, x⟩ := p
    unfold regSet
    split
    · rename_i hs
      have : s ≠ m := fun e => h (e.symm.trans hs)
      rw [regGet_cons, regGet_cons, if_neg this, if_neg this]
    · rw [regGet_cons, regGet_cons, ih]

theorem regGet_regSet (m n : Name) (r : Reg) (l : List (Name × Reg)) :
    regGet m (regSet n r l) = if m = n then (if (regGet n l).isSome then some r else none) else regGet m l := by
  split
  · rename_i h; subst h; exact regGet_regSet_self _ _ _
  · rename_i h; exact regGet_regSet_ne h _ _

theorem regSet_length (n : Name) (r : Reg) (l : List (Name × Reg)) : (regSet n r l).length = l.length := by
  induction l with
  | nil => rfl
  | cons p rest ih =>
    obtain ⟨s, x⟩ := p
    unfold regSet
    split <;> simp [ih]

theorem regInsert_length (n : Name) (r : Reg) (l : List (Name × Reg)) :
    (regInsert n r l).length = l.length + 1 := by
  induction l with
  | nil => rfl
  | cons p rest ih =>
    obtain ⟨s, x⟩ := p
    unfold regInsert
    split <;> simp [ih]

theorem regGet_some_mem {n : Name} {r : Reg} {l : List (Name × Reg)} (h : regGet n l = some r) : (n, r) ∈ l := by
  induction l with
  | nil => cases h
  | cons p rest ih =>
    obtain ⟨s, x⟩ := p
    rw [regGet_cons] at h
    split at h
    · rename_i e; cases h; subst e; exact List.mem_cons_self
    · exact List.mem_cons_of_mem _ (ih h)

/-! ## The built-in registers -/

/-- The register file of `Scope::new()`, in the (name-sorted) order in which it is stored: the
libccp index of a primitive / implicit register is its position in `primitiveNames` /
`implicitNames`. -/
def builtinTable : List (String × Reg) :=
  [ ("Ack.bytes_acked", .primitive 0 (.num none)),
    ("Ack.bytes_misordered", .primitive 1 (.num none)),
    ("Ack.ecn_bytes", .primitive 2 (.num none)),
    ("Ack.ecn_packets", .primitive 3 (.num none)),
    ("Ack.lost_pkts_sample", .primitive 4 (.num none)),
    ("Ack.now", .primitive 5 (.num none)),
    ("Ack.packets_acked", .primitive 6 (.num none)),
    ("Ack.packets_misordered", .primitive 7 (.num none)),
    ("Cwnd", .implicit 4 (.num none)),
    ("Flow.bytes_in_flight", .primitive 8 (.num none)),
    ("Flow.bytes_pending", .primitive 9 (.num none)),
    ("Flow.packets_in_flight", .primitive 10 (.num none)),
    ("Flow.rate_incoming", .primitive 11 (.num none)),
    ("Flow.rate_outgoing", .primitive 12 (.num none)),
    ("Flow.rtt_sample_us", .primitive 13 (.num none)),
    ("Flow.was_timeout", .primitive 14 (.bool none)),
    ("Micros", .implicit 3 (.num none)),
    ("Rate", .implicit 5 (.num none)),
    ("__eventFlag", .implicit 0 (.bool none)),
    ("__shouldContinue", .implicit 1 (.bool none)),
    ("__shouldReport", .implicit 2 (.bool none)) ]

def builtinNamed : List (Name × Reg) := builtinTable.map fun p => (p.1.toList, p.2)

theorem Scope.new_named (uid : Nat) : (Scope.new uid).named = builtinNamed := by rfl

theorem Scope.new_get (uid : Nat) (n : Name) : (Scope.new uid).get n = regGet n builtinNamed := by
  rw [Scope.get, Scope.new_named]

/-- a built-in register is a primitive or an implicit one whose recorded type has no value -/
def isBuiltinReg : Reg → Bool
  | .primitive _ (.num none) => true
  | .primitive _ (.bool none) => true
  | .implicit _ (.num none) => true
  | .implicit _ (.bool none) => true
  | _ => false

theorem builtinNamed_all : ∀ p ∈ builtinNamed, isBuiltinReg p.2 = true := by decide

theorem Scope.new_get_builtin {uid : Nat} {n : Name} {r : Reg} (h : (Scope.new uid).get n = some r) :
    isBuiltinReg r = true := by
  rw [Scope.new_get] at h
  exact builtinNamed_all _ (regGet_some_mem h)

/-! ## Register classes, slots and recorded types -/

/-- the register with its recorded type replaced, for the three classes `update_type` accepts -/
def Reg.setTy (r : Reg) (t : Ty) : Option Reg :=
  match r with
  | .report i _ v => some (.report i t v)
  | .local i _ => some (.local i t)
  | .control i _ v => some (.control i t v)
  | _ => Option.none

/-- class, index and volatility of a register: the recorded type of a report / control / local
register is erased, everything else is kept as it is -/
def Reg.slot : Reg → Reg
  | .report i _ v => .report i .none v
  | .control i _ v => .control i .none v
  | .local i _ => .local i .none
  | r => r

def Reg.isLocal : Reg → Bool
  | .local .. => true
  | _ => false

theorem Reg.setTy_slot {r r' : Reg} {t : Ty} (h : r.setTy t = some r') : r'.slot = r.slot := by
  cases r <;> simp only [Reg.setTy, Option.some.injEq, reduceCtorEq] at h <;> subst h <;> rfl

theorem Reg.setTy_getType {r r' : Reg} {t : Ty} (h : r.setTy t = some r') : r'.getType = t := by
  cases r <;> simp only [Reg.setTy, Option.some.injEq, reduceCtorEq] at h <;> subst h <;> rfl

theorem Reg.setTy_isLocal {r r' : Reg} {t : Ty} (h : r.setTy t = some r') : r'.isLocal = r.isLocal := by
  cases r <;> simp only [Reg.setTy, Option.some.injEq, reduceCtorEq] at h <;> subst h <;> rfl

theorem Reg.slot_builtin {r r' : Reg} (hb : isBuiltinReg r = true) (h : r'.slot = r.slot) : r' = r := by
  cases r <;> simp [isBuiltinReg] at hb <;> cases r' <;> simp [Reg.slot] at h ⊢ <;> exact h

theorem Reg.slot_report {r' : Reg} {i : Nat} {t : Ty} {v : Bool} (h : r'.slot = (Reg.report i t v).slot) :
    ∃ t', r' = .report i t' v := by
  cases r' <;> simp [Reg.slot] at h
  obtain ⟨rfl, rfl⟩ := h; exact ⟨_, rfl⟩

theorem Reg.slot_control {r' : Reg} {i : Nat} {t : Ty} {v : Bool} (h : r'.slot = (Reg.control i t v).slot) :
    ∃ t', r' = .control i t' v := by
  cases r' <;> simp [Reg.slot] at h
  obtain ⟨rfl, rfl⟩ := h; exact ⟨_, rfl⟩

theorem Reg.slot_local {r' : Reg} {i : Nat} {t : Ty} (h : r'.slot = (Reg.local i t).slot) :
    ∃ t', r' = .local i t' := by
  cases r' <;> simp [Reg.slot] at h
  subst h; exact ⟨_, rfl⟩

theorem Reg.isLocal_iff {r : Reg} : r.isLocal = true ↔ ∃ i t, r = .local i t := by
  cases r <;> simp [Reg.isLocal]

theorem Reg.isLocal_of_slot {r r' : Reg} (h : r'.slot = r.slot) : r'.isLocal = r.isLocal := by
  cases r <;> cases r' <;> simp [Reg.slot] at h <;> rfl

/-! ## The scope operations as functions on `get` -/

theorem Scope.newReport_eq (sc : Scope) (vol : Bool) (n : Name) (t : Ty) :
    sc.newReport vol n t =
      if sc.numPerm + 1 < 256 then
        .ok { sc with numPerm := sc.numPerm + 1, named := regInsert n (.report sc.numPerm t vol) sc.named }
      else .panic := by
  unfold Scope.newReport incU8P
  split <;> rfl

theorem Scope.newControl_eq (sc : Scope) (vol : Bool) (n : Name) (t : Ty) :
    sc.newControl vol n t =
      if sc.numControl + 1 < 256 then
        .ok { sc with numControl := sc.numControl + 1, named := regInsert n (.control sc.numControl t vol) sc.named }
      else .panic := by
  unfold Scope.newControl incU8P
  split <;> rfl

theorem Scope.newLocal_eq (sc : Scope) (n : Name) (t : Ty) :
    sc.newLocal n t =
      if sc.numLocal + 1 < 256 then
        .ok (.local sc.numLocal t,
             { sc with numLocal := sc.numLocal + 1, named := regInsert n (.local sc.numLocal t) sc.named })
      else .panic := by
  unfold Scope.newLocal incU8P
  split <;> rfl

/-- `update_type` succeeds exactly on a bound report / control / local register, and then replaces
the recorded type of the entry `get` finds -/
theorem Scope.updateType_eq (sc : Scope) (n : Name) (t : Ty) :
    sc.updateType n t =
      match (sc.get n).bind (·.setTy t) with
      | some r' => .ok (r', { sc with named := regSet n r' sc.named })
      | none => .err := by
  unfold Scope.updateType Scope.get
  cases regGet n sc.named with
  | none => rfl
  | some r => cases r <;> simp [Reg.setTy]

theorem Scope.updateType_ok {sc sc' : Scope} {n : Name} {t : Ty} {r' : Reg}
    (h : sc.updateType n t = .ok (r', sc')) :
    ∃ r, sc.get n = some r ∧ r.setTy t = some r' ∧ sc' = { sc with named := regSet n r' sc.named } := by
  rw [Scope.updateType_eq] at h
  cases hg : sc.get n with
  | none => simp [hg] at h
  | some r =>
    cases hs : r.setTy t with
    | none => simp [hg, hs] at h
    | some r'' =>
      simp only [hg, hs, Option.bind_some, Out.ok.injEq, Prod.mk.injEq] at h
      obtain ⟨rfl, rfl⟩ := h
      exact ⟨r, rfl, hs, rfl⟩

/-- `get` after replacing the entry of a bound name -/
theorem get_regSet_bound {sc : Scope} {n : Name} {r : Reg} (hb : sc.get n = some r) (r' : Reg) (m : Name) :
    regGet m (regSet n r' sc.named) = if m = n then some r' else sc.get m := by
  rw [regGet_regSet]
  split
  · have : regGet n sc.named = some r := hb
    simp [this]
  · rfl

/-! ## The two folds of `declareAll` -/

theorem foldl_newReport {rs : List Decl} {sc sc' : Scope}
    (h : rs.foldlM (fun sc d => sc.newReport d.vol d.var d.init) sc = .ok sc')
    (hnd : (rs.map (·.var)).Nodup) :
    sc'.numPerm = sc.numPerm + rs.length ∧ sc'.numControl = sc.numControl ∧
    sc'.numLocal = sc.numLocal ∧ sc'.uid = sc.uid ∧ sc'.tmp = sc.tmp ∧
    (∀ k (hk : k < rs.length), sc'.get rs[k].var = some (.report (sc.numPerm + k) rs[k].init rs[k].vol)) ∧
    (∀ n, (∀ d ∈ rs, d.var ≠ n) → sc'.get n = sc.get n) := by
  induction rs generalizing sc with
  | nil =>
    simp only [List.foldlM_nil, Out.pure_eq, Out.ok.injEq] at h
    subst h
    simp
  | cons d rs ih =>
    rw [List.foldlM_cons, Scope.newReport_eq] at h
    split at h
    · simp only [Out.bind_ok] at h
      simp only [List.map_cons, List.nodup_cons] at hnd
      obtain ⟨e1, e2, e3, e4, e5, e6, e7⟩ := ih h hnd.2
      simp only at e1 e2 e3 e4 e5 e6 e7
      refine ⟨by simp only [List.length_cons]; omega, e2, e3, e4, e5, ?_, ?_⟩
      · intro k hk
        cases k with
        | zero =>
          simp only [List.getElem_cons_zero, Nat.add_zero]
          rw [e7 d.var ?_]
          · exact regGet_regInsert_self _ _ _
          · intro d' hd' e
            exact hnd.1 (List.mem_map.mpr ⟨d', hd', e⟩)
        | succ k =>
          simp only [List.getElem_cons_succ]
          rw [e6 k (by simpa using hk)]
          congr 2; omega
      · intro n hn
        rw [e7 n (fun d' hd' => hn d' (List.mem_cons_of_mem _ hd'))]
        exact regGet_regInsert_ne (Ne.symm (hn d List.mem_cons_self)) _ _
    · simp at h

theorem foldl_newControl {cs : List Decl} {sc sc' : Scope}
    (h : cs.foldlM (fun sc d => sc.newControl d.vol d.var d.init) sc = .ok sc')
    (hnd : (cs.map (·.var)).Nodup) :
    sc'.numControl = sc.numControl + cs.length ∧ sc'.numPerm = sc.numPerm ∧
    sc'.numLocal = sc.numLocal ∧ sc'.uid = sc.uid ∧ sc'.tmp = sc.tmp ∧
    (∀ k (hk : k < cs.length), sc'.get cs[k].var = some (.control (sc.numControl + k) cs[k].init cs[k].vol)) ∧
    (∀ n, (∀ d ∈ cs, d.var ≠ n) → sc'.get n = sc.get n) := by
  induction cs generalizing sc with
  | nil =>
    simp only [List.foldlM_nil, Out.pure_eq, Out.ok.injEq] at h
    subst h
    simp
  | cons d cs ih =>
    rw [List.foldlM_cons, Scope.newControl_eq] at h
    split at h
    · simp only [Out.bind_ok] at h
      simp only [List.map_cons, List.nodup_cons] at hnd
      obtain ⟨e1, e2, e3, e4, e5, e6, e7⟩ := ih h hnd.2
      simp only at e1 e2 e3 e4 e5 e6 e7
      refine ⟨by simp only [List.length_cons]; omega, e2, e3, e4, e5, ?_, ?_⟩
      · intro k hk
        cases k with
        | zero =>
          simp only [List.getElem_cons_zero, Nat.add_zero]
          rw [e7 d.var ?_]
          · exact regGet_regInsert_self _ _ _
          · intro d' hd' e
            exact hnd.1 (List.mem_map.mpr ⟨d', hd', e⟩)
        | succ k =>
          simp only [List.getElem_cons_succ]
          rw [e6 k (by simpa using hk)]
          congr 2; omega
      · intro n hn
        rw [e7 n (fun d' hd' => hn d' (List.mem_cons_of_mem _ hd'))]
        exact regGet_regInsert_ne (Ne.symm (hn d List.mem_cons_self)) _ _
    · simp at h

/-- the report fold cannot overflow the `u8` counter when the guard of `declareAll` holds -/
theorem foldl_newReport_ok (rs : List Decl) (sc : Scope) (hb : sc.numPerm + rs.length ≤ 255) :
    ∃ sc', rs.foldlM (fun sc d => sc.newReport d.vol d.var d.init) sc = .ok sc' ∧
      sc'.numControl = sc.numControl := by
  induction rs generalizing sc with
  | nil => exact ⟨sc, rfl, rfl⟩
  | cons d rs ih =>
    simp only [List.length_cons] at hb
    rw [List.foldlM_cons, Scope.newReport_eq, if_pos (by omega)]
    simp only [Out.bind_ok]
    obtain ⟨sc', h1, h2⟩ := ih { sc with numPerm := sc.numPerm + 1, named := regInsert d.var (.report sc.numPerm d.init d.vol) sc.named } (by show sc.numPerm + 1 + rs.length ≤ 255; omega)
    exact ⟨sc', h1, h2⟩

theorem foldl_newControl_ok (cs : List Decl) (sc : Scope) (hb : sc.numControl + cs.length ≤ 255) :
    ∃ sc', cs.foldlM (fun sc d => sc.newControl d.vol d.var d.init) sc = .ok sc' := by
  induction cs generalizing sc with
  | nil => exact ⟨sc, rfl⟩
  | cons d cs ih =>
    simp only [List.length_cons] at hb
    rw [List.foldlM_cons, Scope.newControl_eq, if_pos (by omega)]
    simp only [Out.bind_ok]
    exact ih { sc with numControl := sc.numControl + 1, named := regInsert d.var (.control sc.numControl d.init d.vol) sc.named } (by show sc.numControl + 1 + cs.length ≤ 255; omega)

/-- a property of registers that holds for every binding and for the new registers holds for every
binding afterwards (no distinctness assumption) -/
theorem foldl_newReport_all {P : Reg → Prop} {rs : List Decl} {sc sc' : Scope}
    (h : rs.foldlM (fun sc d => sc.newReport d.vol d.var d.init) sc = .ok sc')
    (hP : ∀ d ∈ rs, ∀ i, P (.report i d.init d.vol))
    (h0 : ∀ n r, sc.get n = some r → P r) : ∀ n r, sc'.get n = some r → P r := by
  induction rs generalizing sc with
  | nil =>
    simp only [List.foldlM_nil, Out.pure_eq, Out.ok.injEq] at h
    subst h; exact h0
  | cons d rs ih =>
    rw [List.foldlM_cons, Scope.newReport_eq] at h
    split at h
    · simp only [Out.bind_ok] at h
      refine ih h (fun d' hd' => hP d' (List.mem_cons_of_mem _ hd')) ?_
      intro n r hg
      have hg' : regGet n (regInsert d.var (.report sc.numPerm d.init d.vol) sc.named) = some r := hg
      rw [regGet_regInsert] at hg'
      split at hg'
      · cases hg'; exact hP d List.mem_cons_self _
      · exact h0 n r hg'
    · simp at h

theorem foldl_newControl_all {P : Reg → Prop} {cs : List Decl} {sc sc' : Scope}
    (h : cs.foldlM (fun sc d => sc.newControl d.vol d.var d.init) sc = .ok sc')
    (hP : ∀ d ∈ cs, ∀ i, P (.control i d.init d.vol))
    (h0 : ∀ n r, sc.get n = some r → P r) : ∀ n r, sc'.get n = some r → P r := by
  induction cs generalizing sc with
  | nil =>
    simp only [List.foldlM_nil, Out.pure_eq, Out.ok.injEq] at h
    subst h; exact h0
  | cons d cs ih =>
    rw [List.foldlM_cons, Scope.newControl_eq] at h
    split at h
    · simp only [Out.bind_ok] at h
      refine ih h (fun d' hd' => hP d' (List.mem_cons_of_mem _ hd')) ?_
      intro n r hg
      have hg' : regGet n (regInsert d.var (.control sc.numControl d.init d.vol) sc.named) = some r := hg
      rw [regGet_regInsert] at hg'
      split at hg'
      · cases hg'; exact hP d List.mem_cons_self _
      · exact h0 n r hg'
    · simp at h

/-- counters after the folds, without any distinctness assumption -/
theorem foldl_newReport_counters {rs : List Decl} {sc sc' : Scope}
    (h : rs.foldlM (fun sc d => sc.newReport d.vol d.var d.init) sc = .ok sc') :
    sc'.numPerm = sc.numPerm + rs.length ∧ sc'.numControl = sc.numControl ∧
    sc'.numLocal = sc.numLocal ∧ sc'.uid = sc.uid ∧ sc'.tmp = sc.tmp := by
  induction rs generalizing sc with
  | nil =>
    simp only [List.foldlM_nil, Out.pure_eq, Out.ok.injEq] at h
    subst h; simp
  | cons d rs ih =>
    rw [List.foldlM_cons, Scope.newReport_eq] at h
    split at h
    · simp only [Out.bind_ok] at h
      obtain ⟨e1, e2, e3, e4, e5⟩ := ih h
      simp only at e1 e2 e3 e4 e5
      exact ⟨by simp only [List.length_cons]; omega, e2, e3, e4, e5⟩
    · simp at h

theorem foldl_newControl_counters {cs : List Decl} {sc sc' : Scope}
    (h : cs.foldlM (fun sc d => sc.newControl d.vol d.var d.init) sc = .ok sc') :
    sc'.numControl = sc.numControl + cs.length ∧ sc'.numPerm = sc.numPerm ∧
    sc'.numLocal = sc.numLocal ∧ sc'.uid = sc.uid ∧ sc'.tmp = sc.tmp := by
  induction cs generalizing sc with
  | nil =>
    simp only [List.foldlM_nil, Out.pure_eq, Out.ok.injEq] at h
    subst h; simp
  | cons d cs ih =>
    rw [List.foldlM_cons, Scope.newControl_eq] at h
    split at h
    · simp only [Out.bind_ok] at h
      obtain ⟨e1, e2, e3, e4, e5⟩ := ih h
      simp only at e1 e2 e3 e4 e5
      exact ⟨by simp only [List.length_cons]; omega, e2, e3, e4, e5⟩
    · simp at h

/-- the `Report`-block declarations (their names were prefixed with `Report.` by `defs`) … -/
abbrev reportsOf (ds : List Decl) : List Decl := ds.filter fun d => "Report.".toList.isPrefixOf d.var
/-- … and the others, each in declaration order -/
abbrev controlsOf (ds : List Decl) : List Decl := ds.filter fun d => !("Report.".toList.isPrefixOf d.var)

theorem declareAll_ok {sc sc' : Scope} {ds : List Decl} (h : declareAll sc ds = .ok sc') :
    (reportsOf ds).length ≤ 255 ∧ (controlsOf ds).length ≤ 255 ∧
    ∃ sc1, (reportsOf ds).foldlM (fun sc d => sc.newReport d.vol d.var d.init) sc = .ok sc1 ∧
      (controlsOf ds).foldlM (fun sc d => sc.newControl d.vol d.var d.init) sc1 = .ok sc' := by
  unfold declareAll at h
  simp only at h
  split at h
  · cases h
  · rename_i hg
    obtain ⟨sc1, h1, h2⟩ := Out.bind_eq_ok.mp h
    exact ⟨by unfold reportsOf; omega, by unfold controlsOf; omega, sc1, h1, h2⟩

/-! ## `applyUpdates` -/

/-- value of the last occurrence of `n` in the override list -/
def lastVal (n : Name) : List (Name × Nat) → Option Nat
  | [] => Option.none
  | (m, v) :: rest =>
    match lastVal n rest with
    | some w => some w
    | Option.none => if m = n then some v else Option.none

/-- what an override does to a register: report / control / local registers get the literal type,
the others are left alone -/
def Reg.override (r : Reg) (v : Nat) : Reg :=
  match r with
  | .report i _ vol => .report i (.num (some v)) vol
  | .control i _ vol => .control i (.num (some v)) vol
  | .local i _ => .local i (.num (some v))
  | r => r

/-- the binding of `n` after the overrides `upd`, given its binding before -/
def overrideSpec (upd : List (Name × Nat)) (n : Name) (r : Option Reg) : Option Reg :=
  match lastVal n upd with
  | Option.none => r
  | some v => r.map (·.override v)

theorem Reg.setTy_override {r r' : Reg} {v : Nat} (h : r.setTy (.num (some v)) = some r') :
    r' = r.override v := by
  cases r <;> simp only [Reg.setTy, Option.some.injEq, reduceCtorEq] at h <;> subst h <;> rfl

theorem Reg.setTy_none_override {r : Reg} {t : Ty} (h : r.setTy t = Option.none) (v : Nat) :
    r.override v = r := by
  cases r <;> simp only [Reg.setTy, reduceCtorEq] at h <;> rfl

theorem Reg.override_override (r : Reg) (v w : Nat) : (r.override v).override w = r.override w := by
  cases r <;> rfl

theorem Reg.override_slot (r : Reg) (v : Nat) : (r.override v).slot = r.slot := by
  cases r <;> rfl

theorem applyUpdates_counters (sc : Scope) (upd : List (Name × Nat)) :
    (applyUpdates sc upd).uid = sc.uid ∧ (applyUpdates sc upd).numPerm = sc.numPerm ∧
    (applyUpdates sc upd).numControl = sc.numControl ∧ (applyUpdates sc upd).numLocal = sc.numLocal ∧
    (applyUpdates sc upd).tmp = sc.tmp := by
  induction upd generalizing sc with
  | nil => simp [applyUpdates]
  | cons p rest ih =>
    obtain ⟨m, v⟩ := p
    unfold applyUpdates
    cases hu : sc.updateType m (.num (some v)) with
    | ok q =>
      obtain ⟨r', sc'⟩ := q
      obtain ⟨r, _, _, rfl⟩ := Scope.updateType_ok hu
      exact ih _
    | err => exact ih sc
    | panic => exact ih sc

theorem applyUpdates_get (sc : Scope) (upd : List (Name × Nat)) (n : Name) :
    (applyUpdates sc upd).get n = overrideSpec upd n (sc.get n) := by
  induction upd generalizing sc with
  | nil => rfl
  | cons p rest ih =>
    obtain ⟨m, v⟩ := p
    unfold applyUpdates
    rw [Scope.updateType_eq]
    have key : ∀ (x : Option Reg), (m = n → x.map (·.override v) = x) →
        overrideSpec rest n x = overrideSpec ((m, v) :: rest) n x := by
      intro x hx
      unfold overrideSpec
      simp only [lastVal]
      cases lastVal n rest with
      | some w => rfl
      | none =>
        by_cases e : m = n
        · simp only [if_pos e]; exact (hx e).symm
        · simp only [if_neg e]
    cases hg : sc.get m with
    | none =>
      simp only [Option.bind_none]
      rw [ih]
      apply key
      intro e; subst e; rw [hg]; rfl
    | some r =>
      cases hs : r.setTy (.num (some v)) with
      | none =>
        simp only [Option.bind_some, hs]
        rw [ih]
        apply key
        intro e; subst e; rw [hg]; simp only [Option.map_some, Reg.setTy_none_override hs]
      | some r' =>
        simp only [Option.bind_some, hs]
        rw [ih]
        have hget : Scope.get { sc with named := regSet m r' sc.named } n
            = if n = m then some r' else sc.get n := get_regSet_bound hg r' n
        rw [hget]
        have hr' := Reg.setTy_override hs
        by_cases e : n = m
        · subst e
          simp only [if_true, hg]
          unfold overrideSpec
          simp only [lastVal]
          cases lastVal n rest with
          | some w => simp only [Option.map_some, hr', Reg.override_override]
          | none => simp only [if_true, Option.map_some, hr']
        · simp only [if_neg e]
          exact key _ (fun e' => absurd e'.symm e)

theorem lastVal_none_of_not_mem {n : Name} {upd : List (Name × Nat)} (h : ∀ p ∈ upd, p.1 ≠ n) :
    lastVal n upd = Option.none := by
  induction upd with
  | nil => rfl
  | cons p rest ih =>
    obtain ⟨m, v⟩ := p
    simp only [lastVal, ih (fun p hp => h p (List.mem_cons_of_mem _ hp))]
    exact if_neg (h (m, v) List.mem_cons_self)

theorem lastVal_some_mem {n : Name} {upd : List (Name × Nat)} {v : Nat} (h : lastVal n upd = some v) :
    (n, v) ∈ upd := by
  induction upd with
  | nil => cases h
  | cons p rest ih =>
    obtain ⟨m, w⟩ := p
    simp only [lastVal] at h
    cases hl : lastVal n rest with
    | some x => rw [hl] at h; cases h; exact List.mem_cons_of_mem _ (ih hl)
    | none =>
      rw [hl] at h
      simp only at h
      split at h
      · rename_i e; cases h; subst e; exact List.mem_cons_self
      · cases h

/-- `lastVal` really is the last occurrence: the list splits around it -/
theorem lastVal_eq_some_iff {n : Name} {upd : List (Name × Nat)} {v : Nat} :
    lastVal n upd = some v ↔ ∃ pre post, upd = pre ++ (n, v) :: post ∧ ∀ p ∈ post, p.1 ≠ n := by
  induction upd with
  | nil => simp [lastVal]
  | cons p rest ih =>
    obtain ⟨m, w⟩ := p
    constructor
    · intro h
      simp only [lastVal] at h
      cases hl : lastVal n rest with
      | some x =>
        rw [hl] at h; cases h
        obtain ⟨pre, post, e, hp⟩ := ih.mp hl
        exact ⟨(m, w) :: pre, post, by rw [e]; rfl, hp⟩
      | none =>
        rw [hl] at h
        simp only at h
        split at h
        · rename_i e; cases h; subst e
          refine ⟨[], rest, rfl, ?_⟩
          intro p hp e
          have : lastVal m rest ≠ Option.none := by
            obtain ⟨p1, p2⟩ := p
            simp only at e; subst e
            clear ih hl
            induction rest with
            | nil => cases hp
            | cons q rest ih2 =>
              obtain ⟨q1, q2⟩ := q
              simp only [lastVal]
              cases hl2 : lastVal p1 rest with
              | some x => simp
              | none =>
                rcases List.mem_cons.mp hp with hq | hq
                · cases hq; simp
                · exact absurd hl2 (ih2 hq)
          exact this hl
        · cases h
    · rintro ⟨pre, post, e, hp⟩
      cases pre with
      | nil =>
        simp only [List.nil_append, List.cons.injEq, Prod.mk.injEq] at e
        obtain ⟨⟨rfl, rfl⟩, rfl⟩ := e
        simp only [lastVal, lastVal_none_of_not_mem hp, if_true]
      | cons q pre =>
        simp only [List.cons_append, List.cons.injEq] at e
        obtain ⟨rfl, rfl⟩ := e
        have := ih.mpr ⟨pre, post, rfl, hp⟩
        simp only [lastVal, this]

/-! ## The scope transitions of the compiler

`Step F` is one of the three things the compiler does to a scope: change the temporaries, bind a
fresh local (`compileAtom` on an unbound name), replace a recorded type (`update_type` in the
`Bind` arm). `Reach F` is its reflexive-transitive closure. The parameter `F` switches on the finer
side condition "only locals are re-typed", which needs the invariant `NameInv` on the start scope;
with `F := False` the relation describes every run of the compiler from every scope. -/

def IsLocalAt (sc : Scope) (s : Name) : Prop := ∃ j u, sc.get s = some (.local j u)

/-- a register whose recorded type is still a name points at a name bound to a local -/
def RegOk (r : Reg) (sc : Scope) : Prop := ∀ s, r.getType = .name s → IsLocalAt sc s

def NameInv (sc : Scope) : Prop := ∀ n r, sc.get n = some r → RegOk r sc

inductive Step (F : Prop) : Scope → Scope → Prop
  | tmp (sc : Scope) (t : List Reg) : Step F sc { sc with tmp := t }
  | newLocal (sc : Scope) (n : Name) : sc.get n = Option.none → sc.numLocal + 1 < 256 →
      Step F sc { sc with numLocal := sc.numLocal + 1, named := regInsert n (.local sc.numLocal (.name n)) sc.named }
  | upd (sc : Scope) (n : Name) (t : Ty) (r r' : Reg) : sc.get n = some r → r.setTy t = some r' →
      (F → r.isLocal = true ∧ ∀ s, t = .name s → IsLocalAt sc s) →
      Step F sc { sc with named := regSet n r' sc.named }

inductive Reach (F : Prop) : Scope → Scope → Prop
  | refl (sc : Scope) : Reach F sc sc
  | step {sc sc1 sc2 : Scope} : Reach F sc sc1 → Step F sc1 sc2 → Reach F sc sc2

theorem Reach.trans {F : Prop} {a b c : Scope} (h1 : Reach F a b) (h2 : Reach F b c) : Reach F a c := by
  induction h2 with
  | refl => exact h1
  | step _ s ih => exact Reach.step ih s

theorem Reach.single {F : Prop} {a b : Scope} (s : Step F a b) : Reach F a b := Reach.step (Reach.refl _) s

/-- the index of a binding if it is a local -/
def localIdx : Option Reg → Option Nat
  | some (.local i _) => some i
  | _ => Option.none

theorem localIdx_eq_some {x : Option Reg} {i : Nat} : localIdx x = some i ↔ ∃ t, x = some (.local i t) := by
  cases x with
  | none => simp [localIdx]
  | some r => cases r <;> simp [localIdx]

theorem localIdx_of_slot {r r' : Reg} (h : r'.slot = r.slot) : localIdx (some r') = localIdx (some r) := by
  cases r <;> cases r' <;> simp [Reg.slot] at h <;> simp [localIdx, h]

/-- every step keeps `get`, or binds an unbound name to the next local, or replaces the binding of
a bound name by a register in the same slot -/
theorem Step.get_cases {F : Prop} {sc1 sc2 : Scope} (h : Step F sc1 sc2) :
    sc2.uid = sc1.uid ∧ sc2.numPerm = sc1.numPerm ∧ sc2.numControl = sc1.numControl ∧
    (((∀ m, sc2.get m = sc1.get m) ∧ sc2.numLocal = sc1.numLocal) ∨
     (∃ n, (∀ m, sc2.get m = if m = n then some (.local sc1.numLocal (.name n)) else sc1.get m) ∧
        sc1.get n = Option.none ∧ sc2.numLocal = sc1.numLocal + 1 ∧ sc1.numLocal + 1 < 256) ∨
     (∃ n r r', (∀ m, sc2.get m = if m = n then some r' else sc1.get m) ∧
        sc1.get n = some r ∧ r'.slot = r.slot ∧ sc2.numLocal = sc1.numLocal ∧
        (F → r.isLocal = true ∧ RegOk r' sc1))) := by
  cases h with
  | tmp t => exact ⟨rfl, rfl, rfl, Or.inl ⟨fun _ => rfl, rfl⟩⟩
  | newLocal n h1 h2 =>
    exact ⟨rfl, rfl, rfl, Or.inr (Or.inl ⟨n, fun m => regGet_regInsert m n _ _, h1, rfl, h2⟩)⟩
  | upd n t r r' h1 h2 h3 =>
    refine ⟨rfl, rfl, rfl, Or.inr (Or.inr ⟨n, r, r', fun m => get_regSet_bound h1 r' m, h1,
      Reg.setTy_slot h2, rfl, fun hF => ⟨(h3 hF).1, ?_⟩⟩)⟩
    intro s hs
    rw [Reg.setTy_getType h2] at hs
    exact (h3 hF).2 s hs

/-! ### What a step preserves -/

theorem Step.fwd {F : Prop} {sc1 sc2 : Scope} (h : Step F sc1 sc2) {n : Name} {r : Reg}
    (hg : sc1.get n = some r) : ∃ r', sc2.get n = some r' ∧ r'.slot = r.slot := by
  obtain ⟨_, _, _, h | ⟨k, h, hk, _⟩ | ⟨k, x, x', h, hk, hs, _⟩⟩ := h.get_cases
  · exact ⟨r, by rw [h.1, hg], rfl⟩
  · refine ⟨r, ?_, rfl⟩
    rw [h, if_neg, hg]
    intro e; subst e; rw [hk] at hg; cases hg
  · by_cases e : n = k
    · subst e; rw [hk] at hg; cases hg
      exact ⟨x', by rw [h, if_pos rfl], hs⟩
    · exact ⟨r, by rw [h, if_neg e, hg], rfl⟩

theorem Step.bwd {F : Prop} {sc1 sc2 : Scope} (h : Step F sc1 sc2) {n : Name} {r' : Reg}
    (hg : sc2.get n = some r') :
    (∃ r, sc1.get n = some r ∧ r'.slot = r.slot) ∨ (sc1.get n = Option.none ∧ r'.isLocal = true) := by
  obtain ⟨_, _, _, h | ⟨k, h, hk, _⟩ | ⟨k, x, x', h, hk, hs, _⟩⟩ := h.get_cases
  · exact Or.inl ⟨r', by rw [← h.1, hg], rfl⟩
  · rw [h] at hg
    split at hg
    · rename_i e; subst e; cases hg; exact Or.inr ⟨hk, rfl⟩
    · exact Or.inl ⟨r', hg, rfl⟩
  · rw [h] at hg
    split at hg
    · rename_i e; subst e; cases hg; exact Or.inl ⟨x, hk, hs⟩
    · exact Or.inl ⟨r', hg, rfl⟩

theorem Step.numLocal {F : Prop} {sc1 sc2 : Scope} (h : Step F sc1 sc2) :
    sc1.numLocal ≤ sc2.numLocal ∧ (sc1.numLocal ≤ 255 → sc2.numLocal ≤ 255) := by
  obtain ⟨_, _, _, h | ⟨k, h, hk, e, _⟩ | ⟨k, x, x', h, hk, hs, e, _⟩⟩ := h.get_cases
  · omega
  · omega
  · omega

/-- distinct local names have distinct indices below the counter, which fits a `u8` -/
structure LocalsInv (sc : Scope) : Prop where
  bound : ∀ n i t, sc.get n = some (.local i t) → i < sc.numLocal
  inj : ∀ n m i t u, sc.get n = some (.local i t) → sc.get m = some (.local i u) → n = m
  le : sc.numLocal ≤ 255

theorem localsInv_iff (sc : Scope) :
    LocalsInv sc ↔ (∀ n i, localIdx (sc.get n) = some i → i < sc.numLocal) ∧
      (∀ n m i, localIdx (sc.get n) = some i → localIdx (sc.get m) = some i → n = m) ∧
      sc.numLocal ≤ 255 := by
  constructor
  · intro h
    refine ⟨fun n i hi => ?_, fun n m i h1 h2 => ?_, h.le⟩
    · obtain ⟨t, ht⟩ := localIdx_eq_some.mp hi; exact h.bound n i t ht
    · obtain ⟨t, ht⟩ := localIdx_eq_some.mp h1
      obtain ⟨u, hu⟩ := localIdx_eq_some.mp h2
      exact h.inj n m i t u ht hu
  · rintro ⟨h1, h2, h3⟩
    exact ⟨fun n i t h => h1 n i (localIdx_eq_some.mpr ⟨t, h⟩),
      fun n m i t u ha hb => h2 n m i (localIdx_eq_some.mpr ⟨t, ha⟩) (localIdx_eq_some.mpr ⟨u, hb⟩), h3⟩

theorem Step.localsInv {F : Prop} {sc1 sc2 : Scope} (h : Step F sc1 sc2) (hi : LocalsInv sc1) :
    LocalsInv sc2 := by
  rw [localsInv_iff] at hi ⊢
  obtain ⟨b, inj, le⟩ := hi
  obtain ⟨_, _, _, h | ⟨k, h, hk, e, lt⟩ | ⟨k, x, x', h, hk, hs, e, _⟩⟩ := h.get_cases
  · simp only [h.1, h.2]; exact ⟨b, inj, le⟩
  · have hl : ∀ m, localIdx (sc2.get m) = if m = k then some sc1.numLocal else localIdx (sc1.get m) := by
      intro m; rw [h]; split <;> rfl
    simp only [hl, e]
    refine ⟨?_, ?_, by omega⟩
    · intro n i hn
      split at hn
      · cases hn; omega
      · have := b n i hn; omega
    · intro n m i hn hm
      split at hn <;> split at hm
      · rename_i e1 e2; rw [e1, e2]
      · cases hn; have := b m _ hm; omega
      · cases hm; have := b n _ hn; omega
      · exact inj n m i hn hm
  · have hl : ∀ m, localIdx (sc2.get m) = localIdx (sc1.get m) := by
      intro m; rw [h]
      split
      · rename_i e1; subst e1; rw [hk]; exact localIdx_of_slot hs
      · rfl
    simp only [hl, e]; exact ⟨b, inj, le⟩

theorem IsLocalAt.step {F : Prop} {sc1 sc2 : Scope} (h : Step F sc1 sc2) {s : Name} (hl : IsLocalAt sc1 s) :
    IsLocalAt sc2 s := by
  obtain ⟨j, u, hj⟩ := hl
  obtain ⟨r', h1, h2⟩ := h.fwd hj
  obtain ⟨t', rfl⟩ := Reg.slot_local h2
  exact ⟨j, t', h1⟩

theorem RegOk.step {F : Prop} {sc1 sc2 : Scope} (h : Step F sc1 sc2) {r : Reg} (hr : RegOk r sc1) :
    RegOk r sc2 := fun s hs => (hr s hs).step h

/-- with the fine side condition, a step leaves every non-local binding exactly as it is -/
theorem Step.fine {F : Prop} (hF : F) {sc1 sc2 : Scope} (h : Step F sc1 sc2) {n : Name} {r : Reg}
    (hg : sc1.get n = some r) (hnl : r.isLocal = false) : sc2.get n = some r := by
  obtain ⟨_, _, _, h' | ⟨k, h', hk, _⟩ | ⟨k, x, x', h', hk, hs, _, hf⟩⟩ := h.get_cases
  · rw [h'.1, hg]
  · rw [h', if_neg, hg]
    intro e; subst e; rw [hk] at hg; cases hg
  · rw [h', if_neg, hg]
    intro e; subst e; rw [hk] at hg; cases hg
    rw [(hf hF).1] at hnl; cases hnl

theorem Step.nameInv {F : Prop} (hF : F) {sc1 sc2 : Scope} (h : Step F sc1 sc2) (hi : NameInv sc1) :
    NameInv sc2 := by
  intro n r hg
  obtain ⟨_, _, _, h' | ⟨k, h', hk, _⟩ | ⟨k, x, x', h', hk, hs, _, hf⟩⟩ := h.get_cases
  · rw [h'.1] at hg; exact (hi n r hg).step h
  · rw [h'] at hg
    split at hg
    · rename_i e; subst e; cases hg
      intro s hs
      cases hs
      exact ⟨_, _, by rw [h', if_pos rfl]⟩
    · exact (hi n r hg).step h
  · rw [h'] at hg
    split at hg
    · cases hg; exact (hf hF).2.step h
    · exact (hi n r hg).step h

/-! ### … and what a run preserves -/

theorem Reach.counters {F : Prop} {sc sc' : Scope} (h : Reach F sc sc') :
    sc'.uid = sc.uid ∧ sc'.numPerm = sc.numPerm ∧ sc'.numControl = sc.numControl ∧
    sc.numLocal ≤ sc'.numLocal := by
  induction h with
  | refl => exact ⟨rfl, rfl, rfl, Nat.le_refl _⟩
  | step _ s ih =>
    obtain ⟨a, b, c, _⟩ := s.get_cases
    have := s.numLocal.1
    exact ⟨a.trans ih.1, b.trans ih.2.1, c.trans ih.2.2.1, by omega⟩

/-- bindings are never removed, and keep class, index and volatility -/
theorem Reach.fwd {F : Prop} {sc sc' : Scope} (h : Reach F sc sc') {n : Name} {r : Reg}
    (hg : sc.get n = some r) : ∃ r', sc'.get n = some r' ∧ r'.slot = r.slot := by
  induction h with
  | refl => exact ⟨r, hg, rfl⟩
  | step _ s ih =>
    obtain ⟨r1, h1, h2⟩ := ih
    obtain ⟨r2, h3, h4⟩ := s.fwd h1
    exact ⟨r2, h3, h4.trans h2⟩

/-- every binding of the final scope is an old one in the same slot, or a local at a name that was
unbound -/
theorem Reach.bwd {F : Prop} {sc sc' : Scope} (h : Reach F sc sc') {n : Name} {r' : Reg}
    (hg : sc'.get n = some r') :
    (∃ r, sc.get n = some r ∧ r'.slot = r.slot) ∨ (sc.get n = Option.none ∧ r'.isLocal = true) := by
  induction h generalizing r' with
  | refl => exact Or.inl ⟨r', hg, rfl⟩
  | step hr s ih =>
    rcases s.bwd hg with ⟨r1, h1, h2⟩ | ⟨h1, h2⟩
    · rcases ih h1 with ⟨r0, h3, h4⟩ | ⟨h3, h4⟩
      · exact Or.inl ⟨r0, h3, h2.trans h4⟩
      · exact Or.inr ⟨h3, by rw [Reg.isLocal_of_slot h2, h4]⟩
    · refine Or.inr ⟨?_, h2⟩
      cases h0 : sc.get n with
      | none => rfl
      | some r0 =>
        obtain ⟨r1, h3, _⟩ := hr.fwd h0
        rw [h3] at h1; cases h1

theorem Reach.localsInv {F : Prop} {sc sc' : Scope} (h : Reach F sc sc') (hi : LocalsInv sc) :
    LocalsInv sc' := by
  induction h with
  | refl => exact hi
  | step _ s ih => exact s.localsInv ih

theorem IsLocalAt.reach {F : Prop} {sc sc' : Scope} (h : Reach F sc sc') {s : Name} (hl : IsLocalAt sc s) :
    IsLocalAt sc' s := by
  induction h with
  | refl => exact hl
  | step _ st ih => exact ih.step st

theorem RegOk.reach {F : Prop} {sc sc' : Scope} (h : Reach F sc sc') {r : Reg} (hr : RegOk r sc) :
    RegOk r sc' := fun s hs => (hr s hs).reach h

theorem Reach.fine {F : Prop} (hF : F) {sc sc' : Scope} (h : Reach F sc sc') {n : Name} {r : Reg}
    (hg : sc.get n = some r) (hnl : r.isLocal = false) : sc'.get n = some r := by
  induction h with
  | refl => exact hg
  | step _ s ih => exact s.fine hF ih hnl

theorem Reach.nameInv {F : Prop} (hF : F) {sc sc' : Scope} (h : Reach F sc sc') (hi : NameInv sc) :
    NameInv sc' := by
  induction h with
  | refl => exact hi
  | step _ s ih => exact s.nameInv hF ih

/-! ## The compiler only makes such transitions -/

theorem RegOk.of_not_name {r : Reg} {sc : Scope} (h : ∀ s, r.getType ≠ .name s) : RegOk r sc :=
  fun s hs => absurd hs (h s)

theorem compileAtom_reach {F : Prop} {p : Prim} {sc : Scope} {c : CE} (hF : F → NameInv sc)
    (h : compileAtom p sc = .ok c) : Reach F sc c.sc ∧ (F → RegOk c.reg c.sc) := by
  unfold compileAtom at h
  split at h
  · cases h; exact ⟨Reach.refl _, fun _ s hs => by cases hs⟩
  · split at h
    · rename_i n _ r hg
      cases h
      exact ⟨Reach.refl _, fun f => hF f n r hg⟩
    · rename_i n _ hg
      split at h
      · cases h
      · rw [Scope.newLocal_eq] at h
        split at h
        · rename_i hlt
          simp only [Out.bind_ok, Out.pure_eq, Out.ok.injEq] at h
          subst h
          refine ⟨Reach.single (Step.newLocal sc n hg hlt), fun _ s hs => ?_⟩
          cases hs
          exact ⟨_, _, regGet_regInsert_self _ _ _⟩
        · simp at h
  · cases h; exact ⟨Reach.refl _, fun _ s hs => by cases hs⟩

theorem combineBind_ok_split {is : List Instr} {left right : Reg} {sc : Scope} {c : CE}
    (h : combineBind is left right sc = .ok c) :
    ∃ left' sc', bindTarget left right sc = .ok (left', sc') ∧ bindEmit is left' right sc' = .ok c := by
  unfold combineBind at h
  cases hq : bindTarget left right sc with
  | panic => rw [hq] at h; cases h
  | err => rw [hq] at h; cases h
  | ok q =>
    obtain ⟨left', sc'⟩ := q
    rw [hq] at h
    exact ⟨left', sc', rfl, h⟩

theorem combineBind_reach {F : Prop} {is : List Instr} {left right : Reg} {sc : Scope} {c : CE}
    (hF : F → RegOk left sc ∧ RegOk right sc)
    (h : combineBind is left right sc = .ok c) : Reach F sc c.sc ∧ (F → RegOk c.reg c.sc) := by
  obtain ⟨left', sc', hq, h⟩ := combineBind_ok_split h
  unfold bindTarget at hq
  unfold bindEmit at h
  -- the re-typing step
  have key : Reach F sc sc' ∧ (F → RegOk left' sc' ∧ RegOk right sc') := by
    split at hq
    · rename_i s hs
      split at hq
      · cases hq
        exact ⟨Reach.refl _, hF⟩
      obtain ⟨r, h1, h2, rfl⟩ := Scope.updateType_ok hq
      have st : Step F sc { sc with named := regSet s left' sc.named } := by
        refine Step.upd sc s right.getType r left' h1 h2 (fun f => ?_)
        obtain ⟨j, u, hj⟩ := (hF f).1 s hs
        rw [hj] at h1; cases h1
        exact ⟨rfl, fun s' hs' => (hF f).2 s' hs'⟩
      refine ⟨Reach.single st, fun f => ⟨?_, (hF f).2.step st⟩⟩
      intro s' hs'
      rw [Reg.setTy_getType h2] at hs'
      exact ((hF f).2 s' hs').step st
    · rename_i hn
      cases hq
      exact ⟨Reach.refl _, fun f => ⟨fun s hs => absurd hs (hn s), (hF f).2⟩⟩
  skip
  have fin : c.sc = sc' ∧ c.reg = left' := by
    split at h
    · split at h
      · split at h
        · cases h
        · split at h
          · simp only [Out.pure_eq, Out.ok.injEq] at h; subst h; exact ⟨rfl, rfl⟩
          · cases h
      · cases h
    · split at h
      · simp only [Out.pure_eq, Out.ok.injEq] at h; subst h; exact ⟨rfl, rfl⟩
      · cases h
  rw [fin.1, fin.2]
  exact ⟨key.1, fun f => (key.2 f).1⟩

theorem combine_reach {F : Prop} {o : Op} {is : List Instr} {left right : Reg} {sc : Scope} {c : CE}
    (hF : F → RegOk left sc ∧ RegOk right sc)
    (h : combine o is left right sc = .ok c) : Reach F sc c.sc ∧ (F → RegOk c.reg c.sc) := by
  cases o <;> simp only [combine] at h <;>
  first
    | exact combineBind_reach hF h
    | (unfold unreachableP at h; cases h; done)
    | (split at h
       · cases h
       · split at h
         · cases h
         · simp only [Scope.newTmp, Out.ok.injEq] at h
           subst h
           exact ⟨Reach.single (Step.tmp _ _), fun _ s hs => by cases hs⟩)
    | (split at h
       · cases h
       · cases h
         exact ⟨Reach.refl _, fun _ s hs => by cases hs⟩)

theorem compileExpr_reach {F : Prop} {e : Expr} {sc : Scope} {c : CE} (hF : F → NameInv sc)
    (h : compileExpr e sc = .ok c) : Reach F sc c.sc ∧ (F → RegOk c.reg c.sc) := by
  induction e generalizing sc c with
  | atom p => exact compileAtom_reach hF h
  | cmd _ => cases h
  | none => cases h
  | sexp o le re ihl ihr =>
    unfold compileExpr at h
    obtain ⟨l, hl, h⟩ := Out.bind_eq_ok.mp h
    obtain ⟨r, hr, h⟩ := Out.bind_eq_ok.mp h
    obtain ⟨rl, okl⟩ := ihl hF hl
    obtain ⟨rr, okr⟩ := ihr (fun f => rl.nameInv f (hF f)) hr
    obtain ⟨rc, okc⟩ := combine_reach (fun f => ⟨(okl f).reach rr, okr f⟩) h
    exact ⟨(rl.trans rr).trans rc, okc⟩

theorem compileFlag_reach {F : Prop} {flag : Expr} {sc sc' : Scope} {is : List Instr} (hF : F → NameInv sc)
    (h : compileFlag flag sc = .ok (is, sc')) : Reach F sc sc' := by
  unfold compileFlag at h
  obtain ⟨c, hc, h⟩ := Out.bind_eq_ok.mp h
  obtain ⟨fr, _, h⟩ := Out.bind_eq_ok.mp h
  have r0 : Reach F sc sc.clearTmps := Reach.single (Step.tmp _ _)
  have r1 := (compileExpr_reach (fun f => r0.nameInv f (hF f)) hc).1
  have : sc' = c.sc := by
    split at h
    · split at h
      · cases h
      · simp only [Out.pure_eq, Out.ok.injEq, Prod.mk.injEq] at h; exact h.2.symm
    · simp only [Out.pure_eq, Out.ok.injEq, Prod.mk.injEq] at h; exact h.2.symm
    · cases h
  rw [this]; exact r0.trans r1

theorem compileBody_reach {F : Prop} {body : List Expr} {sc sc' : Scope} {is : List Instr} (hF : F → NameInv sc)
    (h : compileBody body sc = .ok (is, sc')) : Reach F sc sc' := by
  induction body generalizing sc is with
  | nil => cases h; exact Reach.refl _
  | cons e rest ih =>
    unfold compileBody at h
    split at h
    · exact ih hF h
    · obtain ⟨c, hc, h⟩ := Out.bind_eq_ok.mp h
      split at h
      · cases h
      · obtain ⟨q, hq, h⟩ := Out.bind_eq_ok.mp h
        obtain ⟨is', sc''⟩ := q
        simp only [Out.pure_eq, Out.ok.injEq, Prod.mk.injEq] at h
        obtain ⟨_, rfl⟩ := h
        have r0 : Reach F sc sc.clearTmps := Reach.single (Step.tmp _ _)
        have r1 := (compileExpr_reach (fun f => r0.nameInv f (hF f)) hc).1
        have r01 := r0.trans r1
        exact r01.trans (ih (fun f => r01.nameInv f (hF f)) hq)

theorem compileEvents_reach {F : Prop} {evs : List Event} {idx : Nat} {sc : Scope} {cp : CP} (hF : F → NameInv sc)
    (h : compileEvents evs idx sc = .ok cp) : Reach F sc cp.sc := by
  induction evs generalizing idx sc cp with
  | nil => cases h; exact Reach.refl _
  | cons ev rest ih =>
    unfold compileEvents at h
    obtain ⟨q1, h1, h⟩ := Out.bind_eq_ok.mp h
    obtain ⟨fi, sc1⟩ := q1
    obtain ⟨q2, h2, h⟩ := Out.bind_eq_ok.mp h
    obtain ⟨bi, sc2⟩ := q2
    obtain ⟨tail, h3, h⟩ := Out.bind_eq_ok.mp h
    simp only [Out.pure_eq, Out.ok.injEq] at h
    subst h
    have r1 := compileFlag_reach hF h1
    have r2 := r1.trans (compileBody_reach (fun f => r1.nameInv f (hF f)) h2)
    show Reach F sc tail.sc
    exact r2.trans (ih (fun f => r2.nameInv f (hF f)) h3)

theorem compileProg_reach {F : Prop} {evs : List Event} {sc sc' : Scope} {bin : Bin} (hF : F → NameInv sc)
    (h : compileProg evs sc = .ok (bin, sc')) : Reach F sc sc' := by
  unfold compileProg at h
  obtain ⟨cp, hcp, h⟩ := Out.bind_eq_ok.mp h
  simp only [Out.pure_eq, Out.ok.injEq, Prod.mk.injEq] at h
  rw [← h.2]
  exact compileEvents_reach hF hcp

/-- the overrides are re-typing steps -/
theorem applyUpdates_reach (sc : Scope) (upd : List (Name × Nat)) : Reach False sc (applyUpdates sc upd) := by
  induction upd generalizing sc with
  | nil => exact Reach.refl _
  | cons p rest ih =>
    obtain ⟨m, v⟩ := p
    unfold applyUpdates
    cases hu : sc.updateType m (.num (some v)) with
    | ok q =>
      obtain ⟨r', sc'⟩ := q
      obtain ⟨r, h1, h2, rfl⟩ := Scope.updateType_ok hu
      exact (Reach.single (Step.upd sc m _ r r' h1 h2 (fun f => f.elim))).trans (ih _)
    | err => exact ih sc
    | panic => exact ih sc

/-! ## `declareAll` without distinctness assumptions -/

theorem declareAll_all {P : Reg → Prop} {sc sc' : Scope} {ds : List Decl} (h : declareAll sc ds = .ok sc')
    (hP : ∀ d ∈ ds, ∀ i, P (.report i d.init d.vol) ∧ P (.control i d.init d.vol))
    (h0 : ∀ n r, sc.get n = some r → P r) : ∀ n r, sc'.get n = some r → P r := by
  obtain ⟨_, _, sc1, h1, h2⟩ := declareAll_ok h
  exact foldl_newControl_all h2 (fun d hd i => (hP d (List.mem_filter.mp hd).1 i).2)
    (foldl_newReport_all h1 (fun d hd i => (hP d (List.mem_filter.mp hd).1 i).1) h0)

theorem declareAll_counters {sc sc' : Scope} {ds : List Decl} (h : declareAll sc ds = .ok sc') :
    sc'.numPerm = sc.numPerm + (reportsOf ds).length ∧ sc'.numControl = sc.numControl + (controlsOf ds).length ∧
    sc'.numLocal = sc.numLocal ∧ sc'.uid = sc.uid ∧ sc'.tmp = sc.tmp := by
  obtain ⟨_, _, sc1, h1, h2⟩ := declareAll_ok h
  obtain ⟨a1, a2, a3, a4, a5⟩ := foldl_newReport_counters h1
  obtain ⟨b1, b2, b3, b4, b5⟩ := foldl_newControl_counters h2
  exact ⟨by omega, by omega, by omega, b4.trans a4, b5.trans a5⟩

/-! ## The parser never delivers a declaration whose initial type is a name -/

theorem initTy_ne_name (e : Expr) (s : Name) : initTy e ≠ .name s := by
  unfold initTy; split <;> simp

theorem manyLoop_forall {α : Type} {P : α → Prop} {p : Parser α} (hp : ∀ i a r, p i = some (a, r) → P a) :
    ∀ (fuel : Nat) (inp : List Char) (acc l : List α) (r : List Char), (∀ a ∈ acc, P a) →
      manyLoop p fuel inp acc = some (l, r) → ∀ a ∈ l, P a := by
  intro fuel
  induction fuel with
  | zero =>
    intro inp acc l r hacc h
    simp only [manyLoop, Option.some.injEq, Prod.mk.injEq] at h
    obtain ⟨rfl, _⟩ := h
    intro a ha; exact hacc a (List.mem_reverse.mp ha)
  | succ k ih =>
    intro inp acc l r hacc h
    unfold manyLoop at h
    cases hpi : p inp with
    | none =>
      simp only [hpi, Option.some.injEq, Prod.mk.injEq] at h
      obtain ⟨rfl, _⟩ := h
      intro a ha; exact hacc a (List.mem_reverse.mp ha)
    | some q =>
      obtain ⟨a, r'⟩ := q
      simp only [hpi] at h
      split at h
      · cases h
      · refine ih r' (a :: acc) l r ?_ h
        intro b hb
        rcases List.mem_cons.mp hb with rfl | hb
        · exact hp _ _ _ hpi
        · exact hacc b hb

theorem many0_forall {α : Type} {P : α → Prop} {p : Parser α} (hp : ∀ i a r, p i = some (a, r) → P a)
    {inp : List Char} {l : List α} {r : List Char} (h : many0 p inp = some (l, r)) : ∀ a ∈ l, P a :=
  manyLoop_forall hp _ _ _ _ _ (fun _ h => by cases h) h

theorem many1_forall {α : Type} {P : α → Prop} {p : Parser α} (hp : ∀ i a r, p i = some (a, r) → P a)
    {inp : List Char} {l : List α} {r : List Char} (h : many1 p inp = some (l, r)) : ∀ a ∈ l, P a := by
  unfold many1 at h
  cases hpi : p inp with
  | none => simp [hpi] at h
  | some q =>
    obtain ⟨a, r'⟩ := q
    simp only [hpi] at h
    refine manyLoop_forall hp _ _ _ _ _ ?_ h
    intro b hb
    rcases List.mem_cons.mp hb with rfl | hb
    · exact hp _ _ _ hpi
    · cases hb

theorem decl_init {inp : List Char} {d : Decl} {r : List Char} (h : decl inp = some (d, r)) :
    ∀ s, d.init ≠ .name s := by
  unfold decl at h
  simp only [Option.bind_eq_bind, Option.bind_eq_some_iff] at h
  obtain ⟨_, _, _, _, _, _, _, _, _, _, a4, _, _, _, _, _, _, _, h⟩ := h
  simp only [Option.pure_def, Option.some.injEq, Prod.mk.injEq] at h
  obtain ⟨rfl, _⟩ := h
  exact initTy_ne_name _

theorem reportStruct_init {inp : List Char} {ds : List Decl} {r : List Char}
    (h : reportStruct inp = some (ds, r)) : ∀ d ∈ ds, ∀ s, d.init ≠ .name s := by
  unfold reportStruct at h
  simp only [Option.bind_eq_bind, Option.bind_eq_some_iff] at h
  obtain ⟨_, _, _, _, _, _, _, _, q, hq, _, _, _, _, _, _, h⟩ := h
  simp only [Option.pure_def, Option.some.injEq, Prod.mk.injEq] at h
  obtain ⟨rfl, _⟩ := h
  exact many1_forall (P := fun d => ∀ s, d.init ≠ .name s) (fun _ _ _ => decl_init) hq

theorem defs_init {inp : List Char} {ds : List Decl} {r : List Char}
    (h : defs inp = some (ds, r)) : ∀ d ∈ ds, ∀ s, d.init ≠ .name s := by
  unfold defs at h
  simp only [Option.bind_eq_bind, Option.bind_eq_some_iff] at h
  obtain ⟨_, _, _, _, _, _, d1, hd1, d2, hd2, _, _, _, _, h⟩ := h
  simp only [Option.pure_def, Option.some.injEq, Prod.mk.injEq] at h
  obtain ⟨rfl, _⟩ := h
  have hdecl : ∀ (i : List Char) (a : Decl) (r : List Char), decl i = some (a, r) → ∀ s, a.init ≠ .name s :=
    fun _ _ _ => decl_init
  intro d hd
  simp only [List.mem_append, List.mem_map] at hd
  rcases hd with (⟨d', hd', rfl⟩ | hd) | hd
  · cases hrs : reportStruct d1.2 with
    | none => rw [hrs] at hd'; cases hd'
    | some q =>
      obtain ⟨x, q⟩ := q
      rw [hrs] at hd'
      exact reportStruct_init hrs d' hd'
  · exact many0_forall (P := fun d => ∀ s, d.init ≠ .name s) hdecl hd1 d hd
  · exact many0_forall (P := fun d => ∀ s, d.init ≠ .name s) hdecl hd2 d hd

/-- the parser never delivers a declaration whose initial type is a name -/
theorem parseSource_init {src : List Char} {ds : List Decl} {evs : List Event}
    (h : parseSource src = some (ds, evs)) : ∀ d ∈ ds, ∀ s, d.init ≠ .name s := by
  unfold parseSource at h
  simp only [Option.bind_eq_bind, Option.bind_eq_some_iff] at h
  obtain ⟨q, hq, _, _, h⟩ := h
  split at h
  · simp at h
  · simp only [Option.pure_def, Option.some.injEq, Prod.mk.injEq] at h
    obtain ⟨rfl, _⟩ := h
    exact defs_init hq


/-! ## Distinct names in the register file

`get` finds the first entry of a name; `defInstrs` walks all entries. They agree when no name
occurs twice, which holds for an accepted program with distinct, non-built-in declared names. -/

def regNames (l : List (Name × Reg)) : List Name := l.map (·.1)

theorem regGet_eq_none_iff {n : Name} {l : List (Name × Reg)} : regGet n l = Option.none ↔ n ∉ regNames l := by
  induction l with
  | nil => simp [regNames]
  | cons p rest ih =>
    obtain ⟨s, x⟩ := p
    rw [regGet_cons]
    simp only [regNames, List.map_cons, List.mem_cons, not_or] at ih ⊢
    split
    · rename_i e; simp [e]
    · rename_i e; rw [ih]; exact ⟨fun h => ⟨fun e' => e e'.symm, h⟩, fun h => h.2⟩

theorem regGet_of_mem_nodup {n : Name} {r : Reg} {l : List (Name × Reg)} (hnd : (regNames l).Nodup)
    (hm : (n, r) ∈ l) : regGet n l = some r := by
  induction l with
  | nil => cases hm
  | cons p rest ih =>
    obtain ⟨s, x⟩ := p
    simp only [regNames, List.map_cons, List.nodup_cons] at hnd
    rw [regGet_cons]
    rcases List.mem_cons.mp hm with e | hm'
    · cases e; rw [if_pos rfl]
    · rw [if_neg, ih hnd.2 hm']
      intro e; subst e
      exact hnd.1 (List.mem_map.mpr ⟨(s, r), hm', rfl⟩)

theorem regNames_regSet (n : Name) (r : Reg) (l : List (Name × Reg)) : regNames (regSet n r l) = regNames l := by
  induction l with
  | nil => rfl
  | cons p rest ih =>
    obtain ⟨s, x⟩ := p
    unfold regSet
    split
    · rfl
    · simp only [regNames, List.map_cons] at ih ⊢; rw [ih]

theorem mem_regNames_regInsert {m n : Name} {r : Reg} {l : List (Name × Reg)} :
    m ∈ regNames (regInsert n r l) ↔ m = n ∨ m ∈ regNames l := by
  induction l with
  | nil => simp [regInsert, regNames]
  | cons p rest ih =>
    obtain ⟨s, x⟩ := p
    unfold regInsert
    split
    · simp only [regNames, List.map_cons, List.mem_cons] at ih ⊢
      rw [ih]
      constructor
      · rintro (h | h | h)
        · exact Or.inr (Or.inl h)
        · exact Or.inl h
        · exact Or.inr (Or.inr h)
      · rintro (h | h | h)
        · exact Or.inr (Or.inl h)
        · exact Or.inl h
        · exact Or.inr (Or.inr h)
    · simp [regNames]

theorem nodup_regInsert {n : Name} {r : Reg} {l : List (Name × Reg)} (hnd : (regNames l).Nodup)
    (hn : n ∉ regNames l) : (regNames (regInsert n r l)).Nodup := by
  induction l with
  | nil => simp [regInsert, regNames]
  | cons p rest ih =>
    obtain ⟨s, x⟩ := p
    have hnd' : s ∉ regNames rest ∧ (regNames rest).Nodup := by
      simpa only [regNames, List.map_cons, List.nodup_cons] using hnd
    have hn' : n ≠ s ∧ n ∉ regNames rest := by
      simpa only [regNames, List.map_cons, List.mem_cons, not_or] using hn
    unfold regInsert
    split
    · show (s :: regNames (regInsert n r rest)).Nodup
      rw [List.nodup_cons]
      refine ⟨?_, ih hnd'.2 hn'.2⟩
      rw [mem_regNames_regInsert]
      rintro (e | e)
      · exact hn'.1 e.symm
      · exact hnd'.1 e
    · show (n :: s :: regNames rest).Nodup
      rw [List.nodup_cons]
      refine ⟨?_, ?_⟩
      · simp only [List.mem_cons, not_or]; exact hn'
      · rw [List.nodup_cons]; exact hnd'

theorem builtinNamed_nodup : (regNames builtinNamed).Nodup := by decide +kernel

/-- the names of the register file of a scope are pairwise distinct -/
def NamesNodup (sc : Scope) : Prop := (regNames sc.named).Nodup

theorem NamesNodup.get_of_mem {sc : Scope} (h : NamesNodup sc) {n : Name} {r : Reg} (hm : (n, r) ∈ sc.named) :
    sc.get n = some r := regGet_of_mem_nodup h hm

theorem Scope.new_namesNodup (uid : Nat) : NamesNodup (Scope.new uid) := by
  unfold NamesNodup; rw [Scope.new_named]; exact builtinNamed_nodup

theorem foldl_newReport_namesNodup {rs : List Decl} {sc sc' : Scope}
    (h : rs.foldlM (fun sc d => sc.newReport d.vol d.var d.init) sc = .ok sc')
    (hnd : (rs.map (·.var)).Nodup) (hfresh : ∀ d ∈ rs, sc.get d.var = Option.none)
    (h0 : NamesNodup sc) : NamesNodup sc' := by
  induction rs generalizing sc with
  | nil =>
    simp only [List.foldlM_nil, Out.pure_eq, Out.ok.injEq] at h
    subst h; exact h0
  | cons d rs ih =>
    rw [List.foldlM_cons, Scope.newReport_eq] at h
    split at h
    · simp only [Out.bind_ok] at h
      simp only [List.map_cons, List.nodup_cons] at hnd
      refine ih h hnd.2 ?_ ?_
      · intro d' hd'
        have hne : d'.var ≠ d.var := fun e => hnd.1 (List.mem_map.mpr ⟨d', hd', e⟩)
        show regGet d'.var (regInsert d.var _ sc.named) = Option.none
        rw [regGet_regInsert_ne hne]
        exact hfresh d' (List.mem_cons_of_mem _ hd')
      · exact nodup_regInsert h0 (regGet_eq_none_iff.mp (hfresh d List.mem_cons_self))
    · simp at h

theorem foldl_newControl_namesNodup {cs : List Decl} {sc sc' : Scope}
    (h : cs.foldlM (fun sc d => sc.newControl d.vol d.var d.init) sc = .ok sc')
    (hnd : (cs.map (·.var)).Nodup) (hfresh : ∀ d ∈ cs, sc.get d.var = Option.none)
    (h0 : NamesNodup sc) : NamesNodup sc' := by
  induction cs generalizing sc with
  | nil =>
    simp only [List.foldlM_nil, Out.pure_eq, Out.ok.injEq] at h
    subst h; exact h0
  | cons d cs ih =>
    rw [List.foldlM_cons, Scope.newControl_eq] at h
    split at h
    · simp only [Out.bind_ok] at h
      simp only [List.map_cons, List.nodup_cons] at hnd
      refine ih h hnd.2 ?_ ?_
      · intro d' hd'
        have hne : d'.var ≠ d.var := fun e => hnd.1 (List.mem_map.mpr ⟨d', hd', e⟩)
        show regGet d'.var (regInsert d.var _ sc.named) = Option.none
        rw [regGet_regInsert_ne hne]
        exact hfresh d' (List.mem_cons_of_mem _ hd')
      · exact nodup_regInsert h0 (regGet_eq_none_iff.mp (hfresh d List.mem_cons_self))
    · simp at h

theorem declareAll_namesNodup {uid : Nat} {ds : List Decl} {sc : Scope}
    (hnd : (ds.map (·.var)).Nodup) (hfresh : ∀ d ∈ ds, (Scope.new uid).get d.var = Option.none)
    (h : declareAll (Scope.new uid) ds = .ok sc) : NamesNodup sc := by
  obtain ⟨_, _, sc1, h1, h2⟩ := declareAll_ok h
  have ndr : ((reportsOf ds).map (·.var)).Nodup := hnd.sublist (List.Sublist.map _ List.filter_sublist)
  have ndc : ((controlsOf ds).map (·.var)).Nodup := hnd.sublist (List.Sublist.map _ List.filter_sublist)
  have n1 := foldl_newReport_namesNodup h1 ndr (fun d hd => hfresh d (List.mem_filter.mp hd).1)
    (Scope.new_namesNodup uid)
  refine foldl_newControl_namesNodup h2 ndc ?_ n1
  intro c hc
  rw [(foldl_newReport h1 ndr).2.2.2.2.2.2 c.var ?_]
  · exact hfresh c (List.mem_filter.mp hc).1
  · intro r hr e
    have h1 := (List.mem_filter.mp hr).2
    have h2 := (List.mem_filter.mp hc).2
    rw [← e, h1] at h2
    cases h2

theorem Step.namesNodup {F : Prop} {sc1 sc2 : Scope} (h : Step F sc1 sc2) (hi : NamesNodup sc1) :
    NamesNodup sc2 := by
  cases h with
  | tmp t => exact hi
  | newLocal n h1 h2 => exact nodup_regInsert hi (regGet_eq_none_iff.mp h1)
  | upd n t r r' h1 h2 h3 =>
    show (regNames (regSet n r' sc1.named)).Nodup
    rw [regNames_regSet]; exact hi

theorem Reach.namesNodup {F : Prop} {sc sc' : Scope} (h : Reach F sc sc') (hi : NamesNodup sc) :
    NamesNodup sc' := by
  induction h with
  | refl => exact hi
  | step _ s ih => exact s.namesNodup ih


/-! ## The emitted instructions use the scope's mapping -/

/-- the classes of registers that are bound to names -/
def Reg.isNamed : Reg → Bool
  | .report .. => true
  | .control .. => true
  | .local .. => true
  | .primitive .. => true
  | .implicit .. => true
  | _ => false

/-- `r` agrees with the scope: immediates, temporaries and the placeholder carry no name; any other
register is, up to its recorded type, the binding of some name -/
def Known (sc : Scope) (r : Reg) : Prop :=
  r.isNamed = true → ∃ n r', sc.get n = some r' ∧ r'.slot = r.slot

def KnownInstr (sc : Scope) (ins : Instr) : Prop :=
  Known sc ins.res ∧ Known sc ins.left ∧ Known sc ins.right

theorem Known.of_get {sc : Scope} {n : Name} {r : Reg} (h : sc.get n = some r) : Known sc r :=
  fun _ => ⟨n, r, h, rfl⟩

theorem Known.of_not_named {sc : Scope} {r : Reg} (h : r.isNamed = false) : Known sc r :=
  fun h' => by rw [h] at h'; cases h'

theorem Known.reach {F : Prop} {sc sc' : Scope} (h : Reach F sc sc') {r : Reg} (hk : Known sc r) :
    Known sc' r := by
  intro hn
  obtain ⟨n, r1, h1, h2⟩ := hk hn
  obtain ⟨r2, h3, h4⟩ := h.fwd h1
  exact ⟨n, r2, h3, h4.trans h2⟩

theorem KnownInstr.reach {F : Prop} {sc sc' : Scope} (h : Reach F sc sc') {ins : Instr}
    (hk : KnownInstr sc ins) : KnownInstr sc' ins :=
  ⟨hk.1.reach h, hk.2.1.reach h, hk.2.2.reach h⟩

theorem mem_setLastRes {is : List Instr} {r : Reg} {ins : Instr} (h : ins ∈ setLastRes is r) :
    ∃ ins0 ∈ is, ins = ins0 ∨ ins = { ins0 with res := r } := by
  unfold setLastRes at h
  split at h
  · cases h
  · rename_i l rest hrev
    have hmem : ∀ x, x ∈ is ↔ x = l ∨ x ∈ rest := by
      intro x
      rw [← List.mem_reverse, hrev, List.mem_cons]
    rw [List.mem_reverse, List.mem_cons] at h
    rcases h with h | h
    · exact ⟨l, (hmem l).mpr (Or.inl rfl), Or.inr h⟩
    · exact ⟨ins, (hmem ins).mpr (Or.inr h), Or.inl rfl⟩

theorem knownInstr_setLastRes {sc : Scope} {is : List Instr} {r : Reg}
    (hk : ∀ ins ∈ is, KnownInstr sc ins) (hr : Known sc r) : ∀ ins ∈ setLastRes is r, KnownInstr sc ins := by
  intro ins h
  obtain ⟨ins0, h0, e | e⟩ := mem_setLastRes h
  · rw [e]; exact hk ins0 h0
  · rw [e]; exact ⟨hr, (hk ins0 h0).2.1, (hk ins0 h0).2.2⟩

theorem knownInstr_append_one {sc : Scope} {is : List Instr} {ins : Instr}
    (hk : ∀ i ∈ is, KnownInstr sc i) (h1 : KnownInstr sc ins) : ∀ i ∈ is ++ [ins], KnownInstr sc i := by
  intro i hi
  rcases List.mem_append.mp hi with h | h
  · exact hk i h
  · rw [List.mem_singleton.mp h]; exact h1

theorem compileAtom_known {p : Prim} {sc : Scope} {c : CE} (h : compileAtom p sc = .ok c) :
    Known c.sc c.reg ∧ ∀ ins ∈ c.instrs, KnownInstr c.sc ins := by
  unfold compileAtom at h
  split at h
  · cases h; exact ⟨Known.of_not_named rfl, fun _ h => by cases h⟩
  · split at h
    · rename_i n _ r hg
      cases h
      exact ⟨Known.of_get hg, fun _ h => by cases h⟩
    · rename_i n _ hg
      split at h
      · cases h
      · rw [Scope.newLocal_eq] at h
        split at h
        · simp only [Out.bind_ok, Out.pure_eq, Out.ok.injEq] at h
          subst h
          exact ⟨Known.of_get (n := n) (regGet_regInsert_self _ _ _), fun _ h => by cases h⟩
        · simp at h
  · cases h; exact ⟨Known.of_not_named rfl, fun _ h => by cases h⟩

theorem combineBind_known {is : List Instr} {left right : Reg} {sc : Scope} {c : CE}
    (hl : Known sc left) (hr : Known sc right) (hk : ∀ ins ∈ is, KnownInstr sc ins)
    (h : combineBind is left right sc = .ok c) :
    Known c.sc c.reg ∧ ∀ ins ∈ c.instrs, KnownInstr c.sc ins := by
  have hreach := (combineBind_reach (F := False) (fun f => f.elim) h).1
  obtain ⟨left', sc', hq, h⟩ := combineBind_ok_split h
  unfold bindTarget at hq
  unfold bindEmit at h
  skip
  have fin : c.sc = sc' ∧ c.reg = left' ∧
      (c.instrs = setLastRes is left' ∨
       c.instrs = is ++ [{ res := left', op := .bind, left := left', right := right }]) := by
    split at h
    · split at h
      · split at h
        · cases h
        · split at h
          · simp only [Out.pure_eq, Out.ok.injEq] at h; subst h; exact ⟨rfl, rfl, Or.inl rfl⟩
          · cases h
      · cases h
    · split at h
      · simp only [Out.pure_eq, Out.ok.injEq] at h; subst h; exact ⟨rfl, rfl, Or.inr rfl⟩
      · cases h
  obtain ⟨e1, e2, e3⟩ := fin
  have kl' : Known sc' left' := by
    split at hq
    · rename_i s hs
      split at hq
      · cases hq; exact hl
      obtain ⟨r, h1, h2, rfl⟩ := Scope.updateType_ok hq
      refine Known.of_get (n := s) ?_
      show regGet s (regSet s left' sc.named) = some left'
      rw [get_regSet_bound h1, if_pos rfl]
    · cases hq; exact hl
  rw [e1] at hreach ⊢
  rw [e2]
  have hk' : ∀ ins ∈ is, KnownInstr sc' ins := fun i hi => (hk i hi).reach hreach
  refine ⟨kl', ?_⟩
  rcases e3 with e3 | e3 <;> rw [e3]
  · exact knownInstr_setLastRes hk' kl'
  · exact knownInstr_append_one hk' ⟨kl', kl', hr.reach hreach⟩

theorem combine_known {o : Op} {is : List Instr} {left right : Reg} {sc : Scope} {c : CE}
    (hl : Known sc left) (hr : Known sc right) (hk : ∀ ins ∈ is, KnownInstr sc ins)
    (h : combine o is left right sc = .ok c) :
    Known c.sc c.reg ∧ ∀ ins ∈ c.instrs, KnownInstr c.sc ins := by
  have tmpReach : ∀ t, Reach False sc (sc.newTmp t).2 := fun t => Reach.single (Step.tmp _ _)
  cases o <;> simp only [combine] at h <;>
  first
    | exact combineBind_known hl hr hk h
    | (unfold unreachableP at h; cases h; done)
    | (split at h
       · cases h
       · split at h
         · cases h
         · simp only [Out.ok.injEq] at h
           subst h
           exact ⟨Known.of_not_named rfl,
             knownInstr_append_one (fun i hi => (hk i hi).reach (tmpReach _))
               ⟨Known.of_not_named rfl, hl.reach (tmpReach _), hr.reach (tmpReach _)⟩⟩)
    | (split at h
       · cases h
       · cases h
         exact ⟨Known.of_not_named rfl,
           knownInstr_append_one hk ⟨Known.of_not_named rfl, hl, hr⟩⟩)

theorem compileExpr_known {e : Expr} {sc : Scope} {c : CE} (h : compileExpr e sc = .ok c) :
    Known c.sc c.reg ∧ ∀ ins ∈ c.instrs, KnownInstr c.sc ins := by
  induction e generalizing sc c with
  | atom p => exact compileAtom_known h
  | cmd _ => cases h
  | none => cases h
  | sexp o le re ihl ihr =>
    unfold compileExpr at h
    obtain ⟨l, hl, h⟩ := Out.bind_eq_ok.mp h
    obtain ⟨r, hr, h⟩ := Out.bind_eq_ok.mp h
    obtain ⟨kl, kli⟩ := ihl hl
    obtain ⟨kr, kri⟩ := ihr hr
    have rr := (compileExpr_reach (F := False) (fun f => f.elim) hr).1
    refine combine_known (kl.reach rr) kr ?_ h
    intro i hi
    rcases List.mem_append.mp hi with hi | hi
    · exact (kli i hi).reach rr
    · exact kri i hi

theorem compileFlag_known {flag : Expr} {sc sc' : Scope} {is : List Instr}
    (h : compileFlag flag sc = .ok (is, sc')) : ∀ ins ∈ is, KnownInstr sc' ins := by
  unfold compileFlag at h
  obtain ⟨c, hc, h⟩ := Out.bind_eq_ok.mp h
  obtain ⟨fr, hfr, h⟩ := Out.bind_eq_ok.mp h
  obtain ⟨kc, kci⟩ := compileExpr_known hc
  have kf : Known c.sc fr := by
    cases hg : c.sc.get "__eventFlag".toList with
    | none => rw [hg] at hfr; cases hfr
    | some x => rw [hg] at hfr; cases hfr; exact Known.of_get hg
  split at h
  · split at h
    · cases h
    · simp only [Out.pure_eq, Out.ok.injEq, Prod.mk.injEq] at h
      obtain ⟨rfl, rfl⟩ := h
      exact knownInstr_setLastRes kci kf
  · simp only [Out.pure_eq, Out.ok.injEq, Prod.mk.injEq] at h
    obtain ⟨rfl, rfl⟩ := h
    exact knownInstr_append_one kci ⟨kf, kf, kc⟩
  · cases h

theorem compileBody_known {body : List Expr} {sc sc' : Scope} {is : List Instr}
    (h : compileBody body sc = .ok (is, sc')) : ∀ ins ∈ is, KnownInstr sc' ins := by
  induction body generalizing sc is with
  | nil => cases h; intro _ h; cases h
  | cons e rest ih =>
    unfold compileBody at h
    split at h
    · exact ih h
    · obtain ⟨c, hc, h⟩ := Out.bind_eq_ok.mp h
      split at h
      · cases h
      · obtain ⟨q, hq, h⟩ := Out.bind_eq_ok.mp h
        obtain ⟨is', sc''⟩ := q
        simp only [Out.pure_eq, Out.ok.injEq, Prod.mk.injEq] at h
        obtain ⟨rfl, rfl⟩ := h
        have rr := compileBody_reach (F := False) (fun f => f.elim) hq
        intro i hi
        rcases List.mem_append.mp hi with hi | hi
        · exact ((compileExpr_known hc).2 i hi).reach rr
        · exact ih hq i hi

theorem compileEvents_known {evs : List Event} {idx : Nat} {sc : Scope} {cp : CP}
    (h : compileEvents evs idx sc = .ok cp) : ∀ ins ∈ cp.instrs, KnownInstr cp.sc ins := by
  induction evs generalizing idx sc cp with
  | nil => cases h; intro _ h; cases h
  | cons ev rest ih =>
    unfold compileEvents at h
    obtain ⟨q1, h1, h⟩ := Out.bind_eq_ok.mp h
    obtain ⟨fi, sc1⟩ := q1
    obtain ⟨q2, h2, h⟩ := Out.bind_eq_ok.mp h
    obtain ⟨bi, sc2⟩ := q2
    obtain ⟨tail, h3, h⟩ := Out.bind_eq_ok.mp h
    simp only [Out.pure_eq, Out.ok.injEq] at h
    subst h
    have r2 := compileBody_reach (F := False) (fun f => f.elim) h2
    have r3 := compileEvents_reach (F := False) (fun f => f.elim) h3
    show ∀ ins ∈ fi ++ bi ++ tail.instrs, KnownInstr tail.sc ins
    intro i hi
    rcases List.mem_append.mp hi with hi | hi
    · rcases List.mem_append.mp hi with hi | hi
      · exact (compileFlag_known h1 i hi).reach (r2.trans r3)
      · exact (compileBody_known h2 i hi).reach r3
    · exact ih h3 i hi

theorem defInstrs_known {sc : Scope} {l : List (Name × Reg)} (hl : ∀ p ∈ l, sc.get p.1 = some p.2) :
    ∀ ins ∈ defInstrs l, KnownInstr sc ins := by
  induction l with
  | nil => intro _ h; cases h
  | cons p rest ih =>
    obtain ⟨n, reg⟩ := p
    have hreg : Known sc reg := Known.of_get (hl (n, reg) List.mem_cons_self)
    have ih' := ih (fun p hp => hl p (List.mem_cons_of_mem _ hp))
    unfold defInstrs
    split
    all_goals first
      | exact ih'
      | (intro i hi
         rcases List.mem_cons.mp hi with e | hi
         · rw [e]; exact ⟨hreg, hreg, Known.of_not_named rfl⟩
         · exact ih' i hi)

theorem compileProg_known {evs : List Event} {sc sc' : Scope} {bin : Bin} (hn : NamesNodup sc)
    (h : compileProg evs sc = .ok (bin, sc')) : ∀ ins ∈ bin.instrs, KnownInstr sc' ins := by
  have hr := compileProg_reach (F := False) (fun f => f.elim) h
  unfold compileProg at h
  obtain ⟨cp, hcp, h⟩ := Out.bind_eq_ok.mp h
  simp only [Out.pure_eq, Out.ok.injEq, Prod.mk.injEq] at h
  obtain ⟨rfl, rfl⟩ := h
  intro i hi
  rcases List.mem_append.mp hi with hi | hi
  · exact (defInstrs_known (sc := sc) (fun p hp => hn.get_of_mem hp) i hi).reach hr
  · exact compileEvents_known hcp i hi

end Portus.Lang
