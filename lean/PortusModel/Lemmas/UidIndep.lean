import PortusModel.Lang.Compile
/-! The compiler never reads the program uid: it is carried along untouched (C20 determinism, C17). -/
namespace Portus.Lang
open Portus

def Scope.withUid (sc : Scope) (u : Nat) : Scope := { sc with uid := u }

@[simp] theorem withUid_named (sc : Scope) (u : Nat) : (sc.withUid u).named = sc.named := rfl
@[simp] theorem withUid_tmp (sc : Scope) (u : Nat) : (sc.withUid u).tmp = sc.tmp := rfl
@[simp] theorem withUid_numLocal (sc : Scope) (u : Nat) : (sc.withUid u).numLocal = sc.numLocal := rfl
@[simp] theorem withUid_get (sc : Scope) (u : Nat) (n : Name) : (sc.withUid u).get n = sc.get n := rfl
@[simp] theorem withUid_uid (sc : Scope) (u : Nat) : (sc.withUid u).uid = u := rfl
@[simp] theorem withUid_withUid (sc : Scope) (u v : Nat) : (sc.withUid u).withUid v = sc.withUid v := rfl

def CE.withUid (c : CE) (u : Nat) : CE := { c with sc := c.sc.withUid u }

def mapOut {α β : Type} (f : α → β) : Out α → Out β
  | .ok a => .ok (f a)
  | .err => .err
  | .panic => .panic

theorem newLocal_withUid (sc : Scope) (u : Nat) (n : Name) (t : Ty) :
    (sc.withUid u).newLocal n t = mapOut (fun p => (p.1, p.2.withUid u)) (sc.newLocal n t) := by
  unfold Scope.newLocal
  simp only [withUid_numLocal]
  cases incU8P sc.numLocal <;> rfl

theorem updateType_withUid (sc : Scope) (u : Nat) (n : Name) (t : Ty) :
    (sc.withUid u).updateType n t = mapOut (fun p => (p.1, p.2.withUid u)) (sc.updateType n t) := by
  unfold Scope.updateType
  simp only [withUid_named]
  split <;> rfl

theorem compileAtom_withUid (p : Prim) (sc : Scope) (u : Nat) :
    compileAtom p (sc.withUid u) = mapOut (fun c => c.withUid u) (compileAtom p sc) := by
  unfold compileAtom
  cases p with
  | bool b => rfl
  | num n => rfl
  | name n =>
    simp only [withUid_get, withUid_numLocal]
    cases sc.get n with
    | some r => rfl
    | none =>
      simp only
      by_cases h : sc.numLocal = 255
      · simp only [h, if_true]; rfl
      · simp only [h, if_false]
        rw [newLocal_withUid]
        cases sc.newLocal n (.name n) <;> rfl

theorem bindTarget_withUid (l r : Reg) (sc : Scope) (u : Nat) :
    bindTarget l r (sc.withUid u) = mapOut (fun p => (p.1, p.2.withUid u)) (bindTarget l r sc) := by
  unfold bindTarget
  split
  · split
    · rfl
    · exact updateType_withUid sc u _ _
  · rfl

theorem bindEmit_withUid (is : List Instr) (l r : Reg) (sc : Scope) (u : Nat) :
    bindEmit is l r (sc.withUid u) = mapOut (fun c => c.withUid u) (bindEmit is l r sc) := by
  unfold bindEmit
  split
  · split
    · split
      · rfl
      · split <;> rfl
    · rfl
  · split <;> rfl

theorem combineBind_withUid (is : List Instr) (l r : Reg) (sc : Scope) (u : Nat) :
    combineBind is l r (sc.withUid u) = mapOut (fun c => c.withUid u) (combineBind is l r sc) := by
  unfold combineBind
  rw [bindTarget_withUid]
  cases bindTarget l r sc with
  | ok p => obtain ⟨l', sc'⟩ := p; exact bindEmit_withUid is l' r sc' u
  | err => rfl
  | panic => rfl

theorem combine_withUid (o : Op) (is : List Instr) (l r : Reg) (sc : Scope) (u : Nat) :
    combine o is l r (sc.withUid u) = mapOut (fun c => c.withUid u) (combine o is l r sc) := by
  cases o <;> simp only [combine] <;>
    first
    | exact combineBind_withUid is l r sc u
    | rfl
    | (split
       · rfl
       · split <;> rfl)
    | (split <;> rfl)

theorem compileExpr_withUid (e : Expr) (sc : Scope) (u : Nat) :
    compileExpr e (sc.withUid u) = mapOut (fun c => c.withUid u) (compileExpr e sc) := by
  induction e generalizing sc with
  | atom p => simp only [compileExpr]; exact compileAtom_withUid p sc u
  | cmd c => rfl
  | none => rfl
  | sexp o le re ihl ihr =>
    simp only [compileExpr]
    rw [ihl]
    cases hl : compileExpr le sc with
    | err => rfl
    | panic => rfl
    | ok l =>
      simp only [mapOut, Out.bind_ok, CE.withUid]
      rw [ihr]
      cases hr : compileExpr re l.sc with
      | err => rfl
      | panic => rfl
      | ok r =>
        simp only [mapOut, Out.bind_ok, CE.withUid]
        exact combine_withUid o _ _ _ _ u

theorem compileFlag_withUid (flag : Expr) (sc : Scope) (u : Nat) :
    compileFlag flag (sc.withUid u) = mapOut (fun p => (p.1, p.2.withUid u)) (compileFlag flag sc) := by
  unfold compileFlag
  have : (sc.withUid u).clearTmps = sc.clearTmps.withUid u := rfl
  rw [this, compileExpr_withUid]
  cases compileExpr flag sc.clearTmps with
  | err => rfl
  | panic => rfl
  | ok c =>
    simp only [mapOut, Out.bind_ok, CE.withUid, withUid_get]
    cases c.sc.get "__eventFlag".toList with
    | none => rfl
    | some fr =>
      simp only [unwrapP, Out.bind_ok]
      split
      · split <;> rfl
      · rfl
      · rfl

theorem compileBody_withUid (body : List Expr) (sc : Scope) (u : Nat) :
    compileBody body (sc.withUid u) = mapOut (fun p => (p.1, p.2.withUid u)) (compileBody body sc) := by
  induction body generalizing sc with
  | nil => rfl
  | cons e rest ih =>
    simp only [compileBody]
    split
    · exact ih sc
    · have : (sc.withUid u).clearTmps = sc.clearTmps.withUid u := rfl
      rw [this, compileExpr_withUid]
      cases compileExpr e sc.clearTmps with
      | err => rfl
      | panic => rfl
      | ok c =>
        simp only [mapOut, Out.bind_ok, CE.withUid]
        split
        · rfl
        · rw [ih]
          cases compileBody rest c.sc <;> rfl

def CP.withUid (c : CP) (u : Nat) : CP := { c with sc := c.sc.withUid u }

theorem compileEvents_withUid (evs : List Event) (idx : Nat) (sc : Scope) (u : Nat) :
    compileEvents evs idx (sc.withUid u) = mapOut (fun c => c.withUid u) (compileEvents evs idx sc) := by
  induction evs generalizing idx sc with
  | nil => rfl
  | cons ev rest ih =>
    simp only [compileEvents]
    rw [compileFlag_withUid]
    cases compileFlag ev.flag sc with
    | err => rfl
    | panic => rfl
    | ok p =>
      obtain ⟨fi, sc1⟩ := p
      simp only [mapOut, Out.bind_ok]
      rw [compileBody_withUid]
      cases compileBody ev.body sc1 with
      | err => rfl
      | panic => rfl
      | ok q =>
        obtain ⟨bi, sc2⟩ := q
        simp only [mapOut, Out.bind_ok]
        rw [ih]
        cases compileEvents rest (idx + fi.length + bi.length) sc2 <;> rfl

theorem compileProg_withUid (evs : List Event) (sc : Scope) (u : Nat) :
    compileProg evs (sc.withUid u) = mapOut (fun p => (p.1, p.2.withUid u)) (compileProg evs sc) := by
  unfold compileProg
  simp only [withUid_named]
  rw [compileEvents_withUid]
  cases compileEvents evs (defInstrs sc.named).length sc <;> rfl

theorem applyUpdates_withUid (sc : Scope) (u : Nat) (upd : List (Name × Nat)) :
    applyUpdates (sc.withUid u) upd = (applyUpdates sc upd).withUid u := by
  induction upd generalizing sc with
  | nil => rfl
  | cons p rest ih =>
    obtain ⟨n, v⟩ := p
    simp only [applyUpdates]
    rw [updateType_withUid]
    cases sc.updateType n (.num (some v)) with
    | ok q => obtain ⟨r, sc'⟩ := q; exact ih sc'
    | err => exact ih sc
    | panic => exact ih sc

theorem newReport_withUid (sc : Scope) (u : Nat) (v : Bool) (n : Name) (t : Ty) :
    (sc.withUid u).newReport v n t = mapOut (fun s => s.withUid u) (sc.newReport v n t) := by
  unfold Scope.newReport
  show (do let np ← incU8P sc.numPerm; _) = _
  cases incU8P sc.numPerm <;> rfl

theorem newControl_withUid (sc : Scope) (u : Nat) (v : Bool) (n : Name) (t : Ty) :
    (sc.withUid u).newControl v n t = mapOut (fun s => s.withUid u) (sc.newControl v n t) := by
  unfold Scope.newControl
  show (do let np ← incU8P sc.numControl; _) = _
  cases incU8P sc.numControl <;> rfl

theorem foldlM_newReport_withUid (ds : List Decl) (sc : Scope) (u : Nat) :
    ds.foldlM (fun sc d => sc.newReport d.vol d.var d.init) (sc.withUid u) =
      mapOut (fun s => s.withUid u) (ds.foldlM (fun sc d => sc.newReport d.vol d.var d.init) sc) := by
  induction ds generalizing sc with
  | nil => rfl
  | cons d rest ih =>
    simp only [List.foldlM_cons]
    rw [newReport_withUid]
    cases sc.newReport d.vol d.var d.init with
    | ok s => exact ih s
    | err => rfl
    | panic => rfl

theorem foldlM_newControl_withUid (ds : List Decl) (sc : Scope) (u : Nat) :
    ds.foldlM (fun sc d => sc.newControl d.vol d.var d.init) (sc.withUid u) =
      mapOut (fun s => s.withUid u) (ds.foldlM (fun sc d => sc.newControl d.vol d.var d.init) sc) := by
  induction ds generalizing sc with
  | nil => rfl
  | cons d rest ih =>
    simp only [List.foldlM_cons]
    rw [newControl_withUid]
    cases sc.newControl d.vol d.var d.init with
    | ok s => exact ih s
    | err => rfl
    | panic => rfl

theorem declareAll_withUid (sc : Scope) (u : Nat) (ds : List Decl) :
    declareAll (sc.withUid u) ds = mapOut (fun s => s.withUid u) (declareAll sc ds) := by
  unfold declareAll
  simp only
  split
  · rfl
  · rw [foldlM_newReport_withUid]
    cases (ds.filter fun d => "Report.".toList.isPrefixOf d.var).foldlM
        (fun sc d => sc.newReport d.vol d.var d.init) sc with
    | ok s => exact foldlM_newControl_withUid _ s u
    | err => rfl
    | panic => rfl

theorem Scope_new_withUid (u v : Nat) : (Scope.new u).withUid v = Scope.new v := rfl

/-- **The uid is only carried along.** Compiling the same source under two uids gives the same
instructions and event table, and scopes that differ in nothing but the uid. -/
theorem compile_uid_indep (u v : Nat) (src : List Char) (upd : List (Name × Nat)) :
    compile v src upd = mapOut (fun p => (p.1, p.2.withUid v)) (compile u src upd) := by
  unfold compile newWithScope
  cases parseSource src with
  | none => rfl
  | some p =>
    obtain ⟨ds, evs⟩ := p
    simp only
    rw [← Scope_new_withUid u v, declareAll_withUid]
    cases declareAll (Scope.new u) ds with
    | err => rfl
    | panic => rfl
    | ok sc =>
      simp only [mapOut, Out.bind_ok, Out.pure_eq]
      rw [applyUpdates_withUid, compileProg_withUid]
      cases compileProg evs (applyUpdates sc upd) <;> rfl

end Portus.Lang
