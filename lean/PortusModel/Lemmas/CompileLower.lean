import PortusModel.Lang.Fragment
import PortusModel.Lemmas.CompileInv
import PortusModel.Lemmas.ParseInv
import PortusModel.Lemmas.ScopeLemmas
import PortusModel.Lemmas.ImageInv
import PortusModel.Lemmas.Literals
import PortusModel.Lemmas.Ctl
import PortusModel.Props.C13
import PortusModel.Props.C14
/-!
# `compile ⊑ lower`: on the fragment of C01 the real compiler emits the reference lowering

See the end of the file for the final statement (`compile_refines_lower`): it holds for **every**
stratified program the compiler and the encoder accept — no hypothesis about the order of reads and
assignments.

History. Before the repair F11 the statement was false: `Stratified` alone lets through
`(def (Report (acked 0)) (c 0)) (when true (:= x y) (:= x 3))` with `y` never assigned; reading the
unbound `y` makes it a local of recorded type `Name("y")`, the first bind *copied that type to `x`*,
and the second bind's `update_type(&s, …)` (with `s = "y"`, the name stored in the type of `x`)
re-typed and returned the register of `y`: the compiler emitted `bind y y 3` where the source (and
`lowerStmt`) say `bind x x 3`. The proof then carried the hypothesis `DefBeforeUse` (every name read
is built-in, declared, or the target of an earlier statement) and the invariant "no recorded type is
a name". With the repaired `bindTarget` (an untyped right-hand side gives no type to the target) the
invariant that holds between statements is weaker and needs no hypothesis:

    every binding whose recorded type is `Name s` is the binding of the name `s` itself

(`Inv.selfName`): reading a never-assigned name creates such a local (`compileAtom`), `(:= x y)` with
an untyped `y` leaves `x` untyped, a later `(:= x 3)` re-types `x` through its own name
(`bindTarget_self`). Operators reject untyped operands (`combine`), so an untyped register reaches an
instruction only as an operand of a plain bind, `if`, `!if` or `ewma`; the reference lowering finds the
same register in the *final* scope because bindings never move (`Reach.fwd`, `rhoOf_of_reach`).
`DefBeforeUse` is kept below as a definition only (no theorem uses it): the non-vacuity examples in
`CompileLower2.lean` and `Props/C01Sim.lean` show a program outside it that the theorems now cover.
-/
namespace Portus.Lang.Frag
open Portus Portus.Lang Portus.Vm

/-! ## the former hypothesis `DefBeforeUse` (a definition only; no theorem needs it any more) -/

/-- names read by an expression -/
def readsE : Expr → List Name
  | .atom (.name x) => [x]
  | .sexp _ l r => readsE l ++ readsE r
  | _ => []

/-- names read by a statement `(:= x rhs)`: those of `rhs` -/
def stmtReads : Expr → List Name
  | .sexp .bind (.atom (.name _)) r => readsE r
  | _ => []

/-- the name a statement assigns -/
def stmtWrites : Expr → List Name
  | .sexp .bind (.atom (.name x)) _ => [x]
  | _ => []

/-- every statement reads only names in `B` or assigned by an earlier statement -/
def bodyBound (B : List Name) : List Expr → Bool
  | [] => true
  | e :: rest => (stmtReads e).all (fun x => B.contains x) && bodyBound (stmtWrites e ++ B) rest

/-- `B` plus the names the statements assign -/
def bodyOut (B : List Name) : List Expr → List Name
  | [] => B
  | e :: rest => bodyOut (stmtWrites e ++ B) rest

def eventsBound (B : List Name) : List Event → Bool
  | [] => true
  | ev :: rest =>
    (readsE ev.flag).all (fun x => B.contains x) && bodyBound B ev.body && eventsBound (bodyOut B ev.body) rest

/-- **no use before definition**: in program order (events in source order, the condition of an event
before its statements), every name read by a condition or by the right-hand side of a statement is a
built-in name, a declared variable, or the target of an earlier statement. (Hypothesis of T-A before
the repair F11; not a hypothesis of anything now.) -/
def DefBeforeUse (ds : List Decl) (evs : List Event) : Bool :=
  eventsBound ((primNames ++ implNames).map (·.toList) ++ ds.map (·.var)) evs

/-! ## registers the encoder accepts -/

/-- the encoder accepts the register -/
def SerR (r : Reg) : Prop := ∃ c x, r.classIdx = .ok (c, x)

def SerI (i : Instr) : Prop := SerR i.res ∧ SerR i.left ∧ SerR i.right

theorem SerR_tmp {i : Nat} {t : Ty} (h : SerR (.tmp i t)) : i ≤ 7 := by
  obtain ⟨c, x, h⟩ := h
  simp only [Reg.classIdx] at h
  split at h
  · cases h
  · omega

theorem toVReg_immNum {n : Nat} (h : SerR (.immNum n)) : toVReg (.immNum n) = vImmNum n := by
  obtain ⟨c, x, h⟩ := h
  simp only [Reg.classIdx] at h
  split at h
  · rename_i hc
    simp only [toVReg, Reg.classIdx, if_pos hc, vImmNum]
  · cases h

theorem toVReg_immBool (b : Bool) : toVReg (.immBool b) = vImmBool b := rfl

theorem SerR_immBool (b : Bool) : SerR (.immBool b) := ⟨_, _, rfl⟩

theorem toVReg_tmp {i : Nat} {t : Ty} (h : i ≤ 7) : toVReg (.tmp i t) = vTmp i := by
  simp only [toVReg, Reg.classIdx, if_neg (show ¬ i > 7 by omega), vTmp]

theorem classIdx_slot (r : Reg) : r.slot.classIdx = r.classIdx := by
  cases r <;> rfl

theorem toVReg_of_slot {r r' : Reg} (h : r'.slot = r.slot) : toVReg r' = toVReg r := by
  have h1 : toVReg r' = toVReg r'.slot := by unfold toVReg; rw [classIdx_slot]
  have h2 : toVReg r = toVReg r.slot := by unfold toVReg; rw [classIdx_slot]
  rw [h1, h2, h]

theorem serI_of_serialize {bin : Bin} {img : Bytes} (h : bin.serialize = .ok img) :
    ∀ i ∈ bin.instrs, SerI i := by
  obtain ⟨ib, hs, -⟩ := Bin.serialize_ok h
  intro i hi
  obtain ⟨b, hb⟩ := serializeInstrs_ok_mem hs i hi
  obtain ⟨o, c1, i1, c2, i2, c3, i3, -, e1, e2, e3, -⟩ := Wire.Instr.serialize_ok hb
  exact ⟨⟨_, _, e1⟩, ⟨_, _, e2⟩, ⟨_, _, e3⟩⟩

/-- the environment of the reference lowering: the final scope, types forgotten -/
def rhoOf (scF : Scope) : Rho := fun n => (scF.get n).map toVReg

theorem rhoOf_of_reach {sc scF : Scope} (hr : Reach False sc scF) {x : Name} {r : Reg}
    (hg : sc.get x = some r) : rhoOf scF x = some (toVReg r) := by
  obtain ⟨r', h1, h2⟩ := hr.fwd hg
  simp only [rhoOf, h1, Option.map_some, toVReg_of_slot h2]

/-! ## `combine` on a pure operator -/

theorem combine_pure {o : Op} {code : Nat} (ho : pureOpcode o = some code) {is : List Instr} {l r : Reg}
    {sc : Scope} {c : CE} (h : combine o is l r sc = .ok c) :
    ∃ t o', c = ⟨is ++ [{ res := .tmp (sc.tmp.length % 256) t, op := o', left := l, right := r }],
                 .tmp (sc.tmp.length % 256) t,
                 { sc with tmp := sc.tmp ++ [.tmp (sc.tmp.length % 256) t] }⟩ ∧
      opNat o' = code ∧ (t = .num none ∨ t = .bool none) := by
  cases o <;> simp only [pureOpcode, Option.some.injEq, reduceCtorEq] at ho <;> subst ho <;>
    simp only [combine] at h <;>
    (split at h
     · cases h
     · split at h
       · cases h
       · simp only [Scope.newTmp, Out.ok.injEq] at h
         subst h
         first
          | exact ⟨_, _, rfl, rfl, Or.inl rfl⟩
          | exact ⟨_, _, rfl, rfl, Or.inr rfl⟩)

/-! ## atoms -/

theorem compileAtom_name {x : Name} {sc : Scope} {c : CE} (h : compileAtom (.name x) sc = .ok c) :
    c.instrs = [] ∧ c.sc.tmp = sc.tmp ∧ c.sc.get x = some c.reg ∧
    ((sc.get x = some c.reg ∧ c.sc = sc) ∨
     (sc.get x = none ∧ c.reg = .local sc.numLocal (.name x) ∧
      c.sc = { sc with numLocal := sc.numLocal + 1, named := regInsert x (.local sc.numLocal (.name x)) sc.named })) := by
  unfold compileAtom at h
  simp only at h
  split at h
  · rename_i r hg
    cases h
    exact ⟨rfl, rfl, hg, Or.inl ⟨hg, rfl⟩⟩
  · rename_i hg
    split at h
    · cases h
    · rw [Scope.newLocal_eq] at h
      split at h
      · simp only [Out.bind_ok, Out.pure_eq, Out.ok.injEq] at h
        subst h
        exact ⟨rfl, rfl, regGet_regInsert_self _ _ _, Or.inr ⟨hg, rfl, rfl⟩⟩
      · simp at h

theorem compileAtom_basic {p : Prim} {sc : Scope} {c : CE} (h : compileAtom p sc = .ok c) :
    c.instrs = [] ∧ c.sc.tmp = sc.tmp := by
  cases p with
  | bool b => cases h; exact ⟨rfl, rfl⟩
  | num n => cases h; exact ⟨rfl, rfl⟩
  | name x => exact ⟨(compileAtom_name h).1, (compileAtom_name h).2.1⟩

theorem compileAtom_lower {scF : Scope} {p : Prim} {sc : Scope} {c : CE} (h : compileAtom p sc = .ok c)
    (hr : Reach False c.sc scF) (hreg : SerR c.reg) (k : Nat) :
    lowerE (rhoOf scF) (.atom p) k = some ⟨[], toVReg c.reg, k⟩ := by
  cases p with
  | bool b => cases h; rfl
  | num n =>
    cases h
    simp only [lowerE, toVReg_immNum hreg]
  | name x =>
    obtain ⟨-, -, hg, -⟩ := compileAtom_name h
    simp only [lowerE, rhoOf_of_reach hr hg, Option.map_some]

/-! ## pure expressions -/

theorem pureE_sexp {o : Op} {l r : Expr} (h : pureE (.sexp o l r) = true) :
    (∃ code, pureOpcode o = some code) ∧ pureE l = true ∧ pureE r = true := by
  simp only [pureE, Bool.and_eq_true] at h
  obtain ⟨⟨h1, h2⟩, h3⟩ := h
  refine ⟨?_, h2, h3⟩
  cases o <;> first | exact ⟨_, rfl⟩ | cases h1

/-- **stage 1.** A pure expression compiles to its reference lowering: same instructions, same result
register, same number of temporaries. `hk`/the second conclusion: at most 8 temporaries are live, so
`new_tmp`'s `as u8` is the identity. -/
theorem compileExpr_lower {scF : Scope} {e : Expr} (hp : pureE e = true) {sc : Scope} {c : CE}
    (h : compileExpr e sc = .ok c) (hr : Reach False c.sc scF)
    (hser : ∀ i ∈ c.instrs, SerI i) (hreg : SerR c.reg) (hk : sc.tmp.length ≤ 8) :
    lowerE (rhoOf scF) e sc.tmp.length = some ⟨c.instrs.map toVInstr, toVReg c.reg, c.sc.tmp.length⟩ ∧
    c.sc.tmp.length ≤ 8 := by
  induction e generalizing sc c with
  | cmd _ => cases hp
  | none => cases hp
  | atom p =>
    simp only [compileExpr] at h
    obtain ⟨h1, h2⟩ := compileAtom_basic h
    rw [compileAtom_lower h hr hreg, h1, h2]
    exact ⟨rfl, hk⟩
  | sexp o le re ihl ihr =>
    obtain ⟨⟨code, ho⟩, hpl, hpr⟩ := pureE_sexp hp
    unfold compileExpr at h
    obtain ⟨l, hl, h⟩ := Out.bind_eq_ok.mp h
    obtain ⟨r, hr', h⟩ := Out.bind_eq_ok.mp h
    obtain ⟨t, o', rfl, hop, -⟩ := combine_pure ho h
    have rr : Reach False r.sc scF := (Reach.single (Step.tmp _ _)).trans hr
    have rl : Reach False l.sc scF := (compileExpr_reach (F := False) (fun f => f.elim) hr').1.trans rr
    simp only at hser hreg
    have hlast := hser _ (List.mem_append_right _ (List.mem_singleton.mpr rfl))
    have hsl : ∀ i ∈ l.instrs, SerI i := fun i hi =>
      hser i (List.mem_append_left _ (List.mem_append_left _ hi))
    have hsr : ∀ i ∈ r.instrs, SerI i := fun i hi =>
      hser i (List.mem_append_left _ (List.mem_append_right _ hi))
    obtain ⟨el, kl⟩ := ihl hpl hl rl hsl hlast.2.1 hk
    obtain ⟨er, kr⟩ := ihr hpr hr' rr hsr hlast.2.2 kl
    have hmod : r.sc.tmp.length % 256 = r.sc.tmp.length := Nat.mod_eq_of_lt (by omega)
    have h7 : r.sc.tmp.length ≤ 7 := by have := SerR_tmp hreg; omega
    simp only [lowerE, ho, el, er, hmod, toVReg_tmp h7, List.length_append, List.length_singleton,
      List.map_append, List.map_cons, List.map_nil, toVInstr, hop]
    exact ⟨trivial, by omega⟩

/-! ## the invariant between statements -/

/-- between statements: a binding whose recorded type is still a name is the binding of that very
name (an untyped local carries its own name), and the event flag is the implicit register 0 -/
structure Inv (sc : Scope) : Prop where
  selfName : ∀ n r s, sc.get n = some r → r.getType = .name s → s = n
  flag : sc.get flagName = some (.implicit 0 (.bool none))

theorem get_of_named {a b : Scope} (h : b.named = a.named) (n : Name) : b.get n = a.get n := by
  unfold Scope.get; rw [h]

theorem Inv.of_named {a b : Scope} (h : b.named = a.named) (hi : Inv a) : Inv b := by
  refine ⟨?_, ?_⟩
  · intro n r s hg; rw [get_of_named h] at hg; exact hi.selfName n r s hg
  · rw [get_of_named h]; exact hi.flag

theorem Inv.flag_reach {sc sc' : Scope} (hi : Inv sc) (hr : Reach False sc sc') :
    sc'.get flagName = some (.implicit 0 (.bool none)) := by
  obtain ⟨r', h1, h2⟩ := hr.fwd hi.flag
  rw [h1, Reg.slot_builtin (r := .implicit 0 (.bool none)) rfl h2]

/-- `b` extends `a` by untyped locals: every name keeps its binding, or was unbound and is now a
local whose recorded type is its own name. This is all that reading names does to a scope. -/
def Ext (a b : Scope) : Prop :=
  ∀ m, b.get m = a.get m ∨ (a.get m = none ∧ ∃ i, b.get m = some (.local i (.name m)))

theorem Ext.refl (a : Scope) : Ext a a := fun _ => Or.inl rfl

theorem Ext.of_named {a b : Scope} (h : b.named = a.named) : Ext a b :=
  fun m => Or.inl (get_of_named h m)

theorem Ext.trans {a b c : Scope} (h1 : Ext a b) (h2 : Ext b c) : Ext a c := by
  intro m
  rcases h2 m with e2 | ⟨n2, i, e2⟩
  · rcases h1 m with e1 | ⟨n1, i, e1⟩
    · exact Or.inl (e2.trans e1)
    · exact Or.inr ⟨n1, i, e2.trans e1⟩
  · rcases h1 m with e1 | ⟨n1, j, e1⟩
    · exact Or.inr ⟨by rw [← e1]; exact n2, i, e2⟩
    · rw [e1] at n2; cases n2

theorem Ext.get_bound {a b : Scope} (h : Ext a b) {m : Name} {r : Reg} (hg : a.get m = some r) :
    b.get m = some r := by
  rcases h m with e | ⟨n, -⟩
  · rw [e, hg]
  · rw [hg] at n; cases n

theorem Ext.inv {a b : Scope} (h : Ext a b) (hi : Inv a) : Inv b := by
  refine ⟨?_, h.get_bound hi.flag⟩
  intro n r s hg hs
  rcases h n with e | ⟨-, i, e⟩
  · rw [e] at hg; exact hi.selfName n r s hg hs
  · rw [e] at hg; cases hg; cases hs; rfl

/-- the right-hand side of a statement of the fragment -/
def RhsOk (rhs : Expr) : Prop :=
  pureE rhs = true ∨
  ∃ o a b, rhs = .sexp o a b ∧ (o = .if ∨ o = .notIf ∨ o = .ewma) ∧ pureE a = true ∧ pureE b = true

theorem rhsOk_of_stmtOk {x : Name} {rhs : Expr} (h : stmtOk (.sexp .bind (.atom (.name x)) rhs) = true) :
    RhsOk rhs := by
  cases rhs with
  | atom p => exact Or.inl rfl
  | cmd c => simp [stmtOk, pureE] at h
  | none => simp [stmtOk, pureE] at h
  | sexp o a b =>
    cases o <;> simp only [stmtOk, Bool.and_eq_true] at h <;>
      first
        | exact Or.inl h
        | exact Or.inr ⟨_, _, _, rfl, Or.inl rfl, h.1, h.2⟩
        | exact Or.inr ⟨_, _, _, rfl, Or.inr (Or.inl rfl), h.1, h.2⟩
        | exact Or.inr ⟨_, _, _, rfl, Or.inr (Or.inr rfl), h.1, h.2⟩

theorem combine_cond {o : Op} (ho : o = .if ∨ o = .notIf ∨ o = .ewma) {is : List Instr} {l r : Reg}
    {sc : Scope} {c : CE} (h : combine o is l r sc = .ok c) :
    c = ⟨is ++ [{ res := .none, op := o, left := l, right := r }], .none, sc⟩ := by
  rcases ho with rfl | rfl | rfl <;> simp only [combine] at h <;>
    (split at h
     · cases h
     · cases h; rfl)

theorem compileAtom_ext {p : Prim} {sc : Scope} {c : CE} (h : compileAtom p sc = .ok c) : Ext sc c.sc := by
  cases p with
  | bool b => cases h; exact Ext.refl _
  | num n => cases h; exact Ext.refl _
  | name x =>
    obtain ⟨-, -, -, ⟨-, e⟩ | ⟨h0, -, e⟩⟩ := compileAtom_name h
    · rw [e]; exact Ext.refl _
    · rw [e]
      intro m
      by_cases hm : m = x
      · subst hm
        exact Or.inr ⟨h0, sc.numLocal, regGet_regInsert_self _ _ _⟩
      · left
        show regGet m (regInsert x _ sc.named) = sc.get m
        rw [regGet_regInsert_ne hm]; rfl

/-- compiling a pure expression only *adds* bindings, and only of untyped locals under their own name
(a never-assigned name read as an atom) -/
theorem compileExpr_ext {e : Expr} (hp : pureE e = true) {sc : Scope} {c : CE}
    (h : compileExpr e sc = .ok c) : Ext sc c.sc := by
  induction e generalizing sc c with
  | cmd _ => cases hp
  | none => cases hp
  | atom p =>
    simp only [compileExpr] at h
    exact compileAtom_ext h
  | sexp o le re ihl ihr =>
    obtain ⟨⟨code, ho⟩, hpl, hpr⟩ := pureE_sexp hp
    unfold compileExpr at h
    obtain ⟨l, hl, h⟩ := Out.bind_eq_ok.mp h
    obtain ⟨r, hr', h⟩ := Out.bind_eq_ok.mp h
    obtain ⟨t, o', rfl, -, -⟩ := combine_pure ho h
    exact ((ihl hpl hl).trans (ihr hpr hr')).trans (Ext.of_named rfl)

theorem rhs_ext {rhs : Expr} (hp : RhsOk rhs) {sc : Scope} {c : CE}
    (h : compileExpr rhs sc = .ok c) : Ext sc c.sc := by
  rcases hp with hp | ⟨o, a, b, rfl, ho, hpa, hpb⟩
  · exact compileExpr_ext hp h
  · unfold compileExpr at h
    obtain ⟨l, hl, h⟩ := Out.bind_eq_ok.mp h
    obtain ⟨r, hr', h⟩ := Out.bind_eq_ok.mp h
    have := combine_cond ho h
    subst this
    show Ext sc r.sc
    exact (compileExpr_ext hpa hl).trans (compileExpr_ext hpb hr')

/-! ## the `Bind` arm -/

theorem bindEmit_sc {is : List Instr} {left right : Reg} {sc : Scope} {c : CE}
    (h : bindEmit is left right sc = .ok c) : c.sc = sc ∧ c.reg = left := by
  unfold bindEmit at h
  split at h
  · split at h
    · split at h
      · cases h
      · split at h
        · cases h; exact ⟨rfl, rfl⟩
        · cases h
    · cases h
  · split at h
    · cases h; exact ⟨rfl, rfl⟩
    · cases h

/-- when the left operand is the binding of `x` and its recorded type, if a name, is `x` itself,
the re-typing step returns the binding of `x`, touches no other binding, and the recorded type of the
result, if still a name (untyped right-hand side), is again `x` -/
theorem bindTarget_self {x : Name} {left right : Reg} {sc : Scope} {left' : Reg} {sc' : Scope}
    (hg : sc.get x = some left) (hself : ∀ s, left.getType = .name s → s = x)
    (h : bindTarget left right sc = .ok (left', sc')) :
    sc'.get x = some left' ∧ (∀ m, m ≠ x → sc'.get m = sc.get m) ∧
    (∀ s, left'.getType = .name s → s = x) := by
  unfold bindTarget at h
  split at h
  · rename_i s hs
    have := hself s hs
    subst this
    split at h
    · cases h
      exact ⟨hg, fun _ _ => rfl, hself⟩
    rename_i hnn
    obtain ⟨r1, h1, h2, rfl⟩ := Scope.updateType_ok h
    refine ⟨?_, ?_, ?_⟩
    · show regGet s (regSet s left' sc.named) = some left'
      rw [get_regSet_bound h1, if_pos rfl]
    · intro m hm
      show regGet m (regSet s left' sc.named) = sc.get m
      rw [get_regSet_bound h1, if_neg hm]
    · intro s' hs'
      rw [Reg.setTy_getType h2] at hs'
      exact absurd hs' (hnn s')
  · cases h
    exact ⟨hg, fun _ _ => rfl, hself⟩

/-- the common part of every statement `(:= x rhs)` -/
theorem bind_decomp {x : Name} {rhs : Expr} {sc : Scope} {c : CE}
    (hrhs : RhsOk rhs) (hinv : Inv sc)
    (h : compileExpr (.sexp .bind (.atom (.name x)) rhs) sc.clearTmps = .ok c) :
    ∃ (l r : CE) (left' : Reg), compileExpr rhs l.sc = .ok r ∧ l.sc.tmp = [] ∧ Reach False r.sc c.sc ∧
      bindEmit r.instrs left' r.reg c.sc = .ok c ∧ c.sc.get x = some left' ∧ Inv c.sc := by
  have hreach : Reach False sc c.sc :=
    (Reach.single (Step.tmp _ _)).trans (compileExpr_reach (F := False) (fun f => f.elim) h).1
  unfold compileExpr at h
  obtain ⟨l, hl, h⟩ := Out.bind_eq_ok.mp h
  obtain ⟨r, hr', h⟩ := Out.bind_eq_ok.mp h
  simp only [compileExpr] at hl
  obtain ⟨li, lt, lg, -⟩ := compileAtom_name hl
  have hrc := (combine_reach (F := False) (fun f => f.elim) h).1
  simp only [combine] at h
  obtain ⟨left', sc'', hbt, hbe⟩ := combineBind_ok_split h
  rw [li, List.nil_append] at hbe
  obtain ⟨e1, -⟩ := bindEmit_sc hbe
  subst e1
  -- the invariant after the left operand, and after the right-hand side
  have hinv0 : Inv sc.clearTmps := Inv.of_named (a := sc) (b := sc.clearTmps) rfl hinv
  have hinvl : Inv l.sc := (compileAtom_ext hl).inv hinv0
  have hextr : Ext l.sc r.sc := rhs_ext hrhs hr'
  have hinvr : Inv r.sc := hextr.inv hinvl
  have hself : ∀ s, l.reg.getType = .name s → s = x := fun s hs => hinvl.selfName x l.reg s lg hs
  have hgx : r.sc.get x = some l.reg := hextr.get_bound lg
  obtain ⟨g1, g2, g3⟩ := bindTarget_self hgx hself hbt
  refine ⟨l, r, left', hr', ?_, hrc, hbe, g1, ?_, ?_⟩
  · rw [lt]; rfl
  · intro n r0 s hg hs
    by_cases e : n = x
    · subst e; rw [g1] at hg; cases hg; exact g3 s hs
    · rw [g2 n e] at hg
      exact hinvr.selfName n r0 s hg hs
  · exact hinv.flag_reach hreach

/-! ## statements -/

theorem pure_none_instrs {e : Expr} (hp : pureE e = true) {sc : Scope} {c : CE}
    (h : compileExpr e sc = .ok c) (hn : c.reg = .none) : c.instrs = [] := by
  cases e with
  | cmd _ => cases hp
  | none => cases hp
  | atom p => exact (compileAtom_basic h).1
  | sexp o le re =>
    obtain ⟨⟨code, ho⟩, -, -⟩ := pureE_sexp hp
    unfold compileExpr at h
    obtain ⟨l, hl, h⟩ := Out.bind_eq_ok.mp h
    obtain ⟨r, hr', h⟩ := Out.bind_eq_ok.mp h
    obtain ⟨t, o', rfl, -, -⟩ := combine_pure ho h
    cases hn

theorem setLastRet_append (pre : List VInstr) (last : VInstr) (r : VReg) :
    setLastRet (pre ++ [last]) r = pre ++ [{ last with ret := r }] := by
  simp [setLastRet]

theorem lowerStmt_plain {ρ : Rho} {x : Name} {rhs : Expr} (hp : pureE rhs = true) :
    lowerStmt ρ (.sexp .bind (.atom (.name x)) rhs) =
      match ρ x, lowerE ρ rhs 0 with
      | some tx, some ce => some (ce.instrs ++ [⟨1, tx, tx, ce.reg⟩])
      | _, _ => none := by
  cases rhs with
  | atom p => rfl
  | cmd c => cases hp
  | none => cases hp
  | sexp o a b =>
    cases o <;> first | rfl | (simp [pureE] at hp)

theorem lowerStmt_cond {ρ : Rho} {x : Name} {o : Op} {a b : Expr} (ho : o = .if ∨ o = .notIf ∨ o = .ewma) :
    lowerStmt ρ (.sexp .bind (.atom (.name x)) (.sexp o a b)) = lowerCond ρ (opNat o) x a b := by
  rcases ho with rfl | rfl | rfl <;> rfl

/-- **stage 2.** A statement of the fragment compiles to its reference lowering. -/
theorem compileStmt_lower {scF : Scope} {x : Name} {rhs : Expr} {sc : Scope} {c : CE}
    (hrhs : RhsOk rhs) (hinv : Inv sc)
    (h : compileExpr (.sexp .bind (.atom (.name x)) rhs) sc.clearTmps = .ok c)
    (hr : Reach False c.sc scF) (hser : ∀ i ∈ c.instrs, SerI i) :
    lowerStmt (rhoOf scF) (.sexp .bind (.atom (.name x)) rhs) = some (c.instrs.map toVInstr) ∧
    Inv c.sc := by
  obtain ⟨l, r, left', hr', lt, hrc, hbe, hgx, hinv'⟩ := bind_decomp hrhs hinv h
  refine ⟨?_, hinv'⟩
  have hρ : rhoOf scF x = some (toVReg left') := rhoOf_of_reach hr hgx
  have rr : Reach False r.sc scF := hrc.trans hr
  rcases hrhs with hp | ⟨o, a, b, rfl, ho, hpa, hpb⟩
  · -- plain bind
    have hnn : r.reg ≠ .none := by
      intro e
      have hi := pure_none_instrs hp hr' e
      unfold bindEmit at hbe
      rw [if_pos e, hi] at hbe
      split at hbe
      · simp only [List.getLast?_nil] at hbe
        cases hbe
      · cases hbe
    generalize c.sc = scc at hbe
    unfold bindEmit at hbe
    rw [if_neg hnn] at hbe
    split at hbe
    · cases hbe
      simp only at hser
      have hlast := hser _ (List.mem_append_right _ (List.mem_singleton.mpr rfl))
      obtain ⟨el, -⟩ := compileExpr_lower (scF := scF) hp hr' rr
        (fun i hi => hser i (List.mem_append_left _ hi)) hlast.2.2 (by rw [lt]; simp)
      rw [lt] at el
      simp only [List.length_nil] at el
      rw [lowerStmt_plain hp, hρ, el]
      simp only [List.map_append, List.map_cons, List.map_nil, toVInstr]
      rfl
    · cases hbe
  · -- conditional / ewma
    unfold compileExpr at hr'
    obtain ⟨ca, hca, hr'⟩ := Out.bind_eq_ok.mp hr'
    obtain ⟨cb, hcb, hr'⟩ := Out.bind_eq_ok.mp hr'
    have := combine_cond ho hr'
    subst this
    simp only at hbe rr
    generalize c.sc = scc at hbe
    unfold bindEmit at hbe
    rw [if_pos rfl] at hbe
    split at hbe
    · rw [List.getLast?_concat] at hbe
      simp only [if_true] at hbe
      cases hbe
      rw [setLastRes_append] at hser
      simp only at hser
      have hlast := hser _ (List.mem_append_right _ (List.mem_singleton.mpr rfl))
      have ra : Reach False ca.sc scF := (compileExpr_reach (F := False) (fun f => f.elim) hcb).1.trans rr
      obtain ⟨ea, ka⟩ := compileExpr_lower (scF := scF) hpa hca ra
        (fun i hi => hser i (List.mem_append_left _ (List.mem_append_left _ hi))) hlast.2.1 (by rw [lt]; simp)
      obtain ⟨eb, -⟩ := compileExpr_lower (scF := scF) hpb hcb rr
        (fun i hi => hser i (List.mem_append_left _ (List.mem_append_right _ hi))) hlast.2.2 ka
      rw [lt] at ea
      simp only [List.length_nil] at ea
      rw [lowerStmt_cond ho, setLastRes_append]
      simp only [lowerCond, hρ, ea, eb, List.map_append, List.map_cons, List.map_nil, toVInstr]
    · cases hbe

/-! ## the condition block -/

theorem toVReg_flag : toVReg (.implicit 0 (.bool none)) = vFlag := rfl

theorem isEmpty_snoc {α : Type} (xs : List α) (y : α) : (xs ++ [y]).isEmpty = false := by
  cases xs <;> rfl

/-- **stage 3a.** -/
theorem compileFlag_lower {scF : Scope} {flag : Expr} {sc : Scope} {is : List Instr}
    {sc1 : Scope} (hp : pureE flag = true) (hinv : Inv sc)
    (h : compileFlag flag sc = .ok (is, sc1)) (hr : Reach False sc1 scF) (hser : ∀ i ∈ is, SerI i) :
    lowerFlag (rhoOf scF) flag = some (is.map toVInstr) ∧ Inv sc1 := by
  unfold compileFlag at h
  obtain ⟨c, hc, h1⟩ := Out.bind_eq_ok.mp h
  obtain ⟨fr, hfr, h2⟩ := Out.bind_eq_ok.mp h1
  clear h h1
  have h := h2
  clear h2
  have hinv0 : Inv sc.clearTmps := Inv.of_named (a := sc) (b := sc.clearTmps) rfl hinv
  have hinvc : Inv c.sc := (compileExpr_ext hp hc).inv hinv0
  have hfr' : fr = .implicit 0 (.bool none) := by
    have := hinvc.flag
    rw [show flagName = "__eventFlag".toList from rfl] at this
    rw [this] at hfr
    cases hfr; rfl
  subst hfr'
  have hsc1 : sc1 = c.sc := by
    split at h
    · split at h
      · cases h
      · simp only [Out.pure_eq, Out.ok.injEq, Prod.mk.injEq] at h; exact h.2.symm
    · simp only [Out.pure_eq, Out.ok.injEq, Prod.mk.injEq] at h; exact h.2.symm
    · cases h
  subst hsc1
  refine ⟨?_, hinvc⟩
  cases flag with
  | cmd _ => cases hp
  | none => cases hp
  | atom p =>
    simp only [compileExpr] at hc
    obtain ⟨hi, ht⟩ := compileAtom_basic hc
    split at h
    · rw [hi] at h; cases h
    · rename_i b hreg
      simp only [Out.pure_eq, Out.ok.injEq, Prod.mk.injEq] at h
      obtain ⟨rfl, -⟩ := h
      have hl := compileAtom_lower hc hr (by rw [hreg]; exact SerR_immBool b) 0
      rw [hreg] at hl
      simp only [lowerFlag, hl, hi, hreg, toVReg_immBool, vImmBool, List.map_cons, List.map_nil,
        toVInstr, List.nil_append, List.map_nil]
      rfl
    · cases h
  | sexp o a b =>
    obtain ⟨⟨code, ho⟩, hpa, hpb⟩ := pureE_sexp hp
    unfold compileExpr at hc
    obtain ⟨l, hl, hc⟩ := Out.bind_eq_ok.mp hc
    obtain ⟨r, hr', hc⟩ := Out.bind_eq_ok.mp hc
    obtain ⟨t, o', rfl, hop, ht⟩ := combine_pure ho hc
    simp only at h hr
    have rr : Reach False r.sc scF := (Reach.single (Step.tmp _ _)).trans hr
    have rl : Reach False l.sc scF := (compileExpr_reach (F := False) (fun f => f.elim) hr').1.trans rr
    rcases ht with rfl | rfl
    · cases h
    · simp only [isEmpty_snoc, Bool.false_eq_true, if_false,
        Out.pure_eq, Out.ok.injEq, Prod.mk.injEq, setLastRes_append] at h
      obtain ⟨rfl, -⟩ := h
      have hlast := hser _ (List.mem_append_right _ (List.mem_singleton.mpr rfl))
      obtain ⟨el, kl⟩ := compileExpr_lower (scF := scF) hpa hl rl
        (fun i hi => hser i (List.mem_append_left _ (List.mem_append_left _ hi))) hlast.2.1
        (by show ([] : List Reg).length ≤ 8; simp)
      obtain ⟨er, -⟩ := compileExpr_lower (scF := scF) hpb hr' rr
        (fun i hi => hser i (List.mem_append_left _ (List.mem_append_right _ hi))) hlast.2.2 kl
      have e0 : sc.clearTmps.tmp.length = 0 := rfl
      rw [e0] at el
      simp only [lowerFlag, lowerE, ho, el, er, vTmp, if_true, isEmpty_snoc,
        Bool.false_eq_true, if_false, setLastRet_append, List.map_append, List.map_cons,
        List.map_nil, toVInstr, hop, toVReg_flag]

/-! ## bodies, events, programs -/

theorem stmtOk_inv {e : Expr} (h : stmtOk e = true) :
    e = .none ∨ ∃ x rhs, e = .sexp .bind (.atom (.name x)) rhs := by
  unfold stmtOk at h
  split at h <;> first | exact Or.inl rfl | exact Or.inr ⟨_, _, rfl⟩ | cases h

/-- **stage 3b.** -/
theorem compileBody_lower {scF : Scope} {body : List Expr} {sc : Scope} {is : List Instr}
    {sc' : Scope} (hst : ∀ e ∈ body, stmtOk e = true) (hinv : Inv sc)
    (h : compileBody body sc = .ok (is, sc')) (hr : Reach False sc' scF) (hser : ∀ i ∈ is, SerI i) :
    lowerBody (rhoOf scF) body = some (is.map toVInstr) ∧ Inv sc' := by
  induction body generalizing sc is with
  | nil =>
    simp only [compileBody, Out.ok.injEq, Prod.mk.injEq] at h
    obtain ⟨rfl, rfl⟩ := h
    exact ⟨rfl, hinv⟩
  | cons e rest ih =>
    have hrest : ∀ e ∈ rest, stmtOk e = true := fun e he => hst e (List.mem_cons_of_mem _ he)
    unfold compileBody at h
    rcases stmtOk_inv (hst e List.mem_cons_self) with rfl | ⟨x, rhs, rfl⟩
    · rw [if_pos rfl] at h
      obtain ⟨e1, e2⟩ := ih hrest hinv h hser
      refine ⟨?_, e2⟩
      simp only [lowerBody, lowerStmt, e1, List.nil_append]
    · rw [if_neg (by simp)] at h
      obtain ⟨c, hc, h⟩ := Out.bind_eq_ok.mp h
      split at h
      · cases h
      · obtain ⟨q, hq, h⟩ := Out.bind_eq_ok.mp h
        obtain ⟨is', sc''⟩ := q
        simp only [Out.pure_eq, Out.ok.injEq, Prod.mk.injEq] at h
        obtain ⟨rfl, rfl⟩ := h
        have hrc : Reach False c.sc scF := (compileBody_reach (F := False) (fun f => f.elim) hq).trans hr
        obtain ⟨s1, s2⟩ := compileStmt_lower (scF := scF) (rhsOk_of_stmtOk (hst _ List.mem_cons_self))
          hinv hc hrc (fun i hi => hser i (List.mem_append_left _ hi))
        obtain ⟨e1, e2⟩ := ih hrest s2 hq (fun i hi => hser i (List.mem_append_right _ hi))
        refine ⟨?_, e2⟩
        simp only [lowerBody, s1, e1, List.map_append]

def evToExpr (e : EvRec) : Libccp.Expr :=
  { condStart := e.flagIdx, numCond := e.numFlag, eventStart := e.bodyIdx, numEvent := e.numBody }

/-- **stage 3c.** -/
theorem compileEvents_lower {scF : Scope} {evs : List Event} {idx : Nat} {sc : Scope} {cp : CP}
    (hst : Stratified evs = true) (hinv : Inv sc)
    (h : compileEvents evs idx sc = .ok cp) (hr : Reach False cp.sc scF) (hser : ∀ i ∈ cp.instrs, SerI i) :
    lowerEvents (rhoOf scF) evs idx = some ⟨cp.events.map evToExpr, cp.instrs.map toVInstr⟩ := by
  induction evs generalizing idx sc cp with
  | nil =>
    simp only [compileEvents, Out.ok.injEq] at h
    subst h
    rfl
  | cons ev rest ih =>
    simp only [Stratified, List.all_cons, Bool.and_eq_true] at hst
    obtain ⟨⟨hpf, hsb⟩, hsr⟩ := hst
    unfold compileEvents at h
    obtain ⟨q1, h1, h⟩ := Out.bind_eq_ok.mp h
    obtain ⟨fi, sc1⟩ := q1
    obtain ⟨q2, h2, h⟩ := Out.bind_eq_ok.mp h
    obtain ⟨bi, sc2⟩ := q2
    obtain ⟨tail, h3, h⟩ := Out.bind_eq_ok.mp h
    simp only [Out.pure_eq, Out.ok.injEq] at h
    subst h
    simp only at hr hser
    have r2 : Reach False sc2 scF := (compileEvents_reach (F := False) (fun f => f.elim) h3).trans hr
    have r1 : Reach False sc1 scF := (compileBody_reach (F := False) (fun f => f.elim) h2).trans r2
    obtain ⟨f1, f2⟩ := compileFlag_lower (scF := scF) hpf hinv h1 r1
      (fun i hi => hser i (List.mem_append_left _ (List.mem_append_left _ hi)))
    obtain ⟨b1, b2⟩ := compileBody_lower (scF := scF) (List.all_eq_true.mp hsb) f2 h2 r2
      (fun i hi => hser i (List.mem_append_left _ (List.mem_append_right _ hi)))
    have t1 := ih (by simpa [Stratified] using hsr) b2 h3 hr
      (fun i hi => hser i (List.mem_append_right _ hi))
    simp only [lowerEvents, f1, b1, List.length_map, t1, List.map_cons, List.map_append, evToExpr]

/-! ## the scope compilation starts from -/

/-- no recorded type is a name when compilation starts -/
theorem start_noName {uid : Nat} {src : List Char} {ds : List Decl} {evs : List Event} {sc0 : Scope}
    (hp : parseSource src = some (ds, evs)) (h0 : declareAll (Scope.new uid) ds = .ok sc0)
    (upd : List (Name × Nat)) :
    ∀ n r, (applyUpdates sc0 upd).get n = some r → ∀ s, r.getType ≠ .name s := by
  have noName0 : ∀ n r, sc0.get n = some r → ∀ s, r.getType ≠ .name s := by
    refine declareAll_all (P := fun r => ∀ s, r.getType ≠ .name s) h0 ?_ ?_
    · intro d hd' i
      exact ⟨parseSource_init hp d hd', parseSource_init hp d hd'⟩
    · intro n r hg s
      have := Scope.new_get_builtin hg
      cases r <;> first
        | (cases this; done)
        | (rename_i i t; cases t <;> first | (cases this; done) | (intro e; cases e))
  refine C13.applyUpdates_all (P := fun r => ∀ s, r.getType ≠ .name s) ?_ upd noName0
  intro r v hr s
  cases r <;> first | exact hr s | (intro e; cases e)

theorem start_inv {uid : Nat} {src : List Char} {ds : List Decl} {evs : List Event} {sc0 : Scope}
    (hp : parseSource src = some (ds, evs)) (h0 : declareAll (Scope.new uid) ds = .ok sc0)
    (upd : List (Name × Nat)) :
    Inv (applyUpdates sc0 upd) := by
  refine ⟨?_, ?_⟩
  · intro n r s hg hs
    exact absurd hs (start_noName hp h0 upd n r hg s)
  · have i0 := C03.declareAll_inv2 uid ds (C03.parseSource_decl_names src ds evs hp) sc0 h0
    exact (C03.applyUpdates_inv2 i0 upd).flag

/-! ## T-A

The statement as first proposed. It was FALSE for the compiler before the repair F11 (counter-example
`cexSrc` in `CompileLower2.lean`) and was then proved under the added hypothesis
`DefBeforeUse ds evs = true`. For the repaired compiler it holds as proposed, with no such hypothesis. -/

/-- **T-A (`compile ⊑ lower`).** On a stratified program that the compiler and the encoder accept, the
compiler emits exactly the reference lowering under the final scope — whether or not names are read
before they are assigned. -/
theorem compile_refines_lower (uid : Nat) (src : List Char) (upd : List (Name × Nat)) (ds : List Decl)
    (evs : List Event) (sc0 : Scope) (bin : Bin) (scF : Scope) (img : Bytes)
    (hp : parseSource src = some (ds, evs))
    (h0 : declareAll (Scope.new uid) ds = .ok sc0)
    (hc : compileProg evs (applyUpdates sc0 upd) = .ok (bin, scF))
    (hst : Stratified evs = true)
    (hser : bin.serialize = .ok img) :
    lowerProg (fun n => (scF.get n).map toVReg) ((defInstrs (applyUpdates sc0 upd).named).map toVInstr) evs =
      some ⟨bin.events.map (fun e => ({ condStart := e.flagIdx, numCond := e.numFlag, eventStart := e.bodyIdx,
                                         numEvent := e.numBody } : Libccp.Expr)),
            bin.instrs.map toVInstr⟩ := by
  have hsi := serI_of_serialize hser
  unfold compileProg at hc
  obtain ⟨cp, hcp, hc⟩ := Out.bind_eq_ok.mp hc
  simp only [Out.pure_eq, Out.ok.injEq, Prod.mk.injEq] at hc
  obtain ⟨rfl, rfl⟩ := hc
  simp only at hsi
  have key := compileEvents_lower (scF := cp.sc) hst (start_inv hp h0 upd) hcp (Reach.refl _)
    (fun i hi => hsi i (List.mem_append_right _ hi))
  unfold lowerProg
  rw [List.length_map]
  show Option.map _ (lowerEvents (rhoOf cp.sc) evs _) = _
  rw [key]
  simp only [Option.map_some, List.map_append]
  rfl

end Portus.Lang.Frag
