import PortusModel.Lang.Fragment
import PortusModel.Lemmas.CompileInv
import PortusModel.Lemmas.ParseInv
import PortusModel.Lemmas.ScopeLemmas
import PortusModel.Lemmas.ImageInv
import PortusModel.Lemmas.Literals
import PortusModel.Lemmas.Ctl
import PortusModel.Props.C13
import PortusModel.Props.C14
/-!
# `compile ⊑ lower`: on the fragment of C01 the real compiler emits the reference lowering

See the end of the file for the final statement (`compile_refines_lower`): it holds for **every**
program of the fragment `InOracle` (stratified programs, plus plain binds used as values inside
expressions) that the compiler and the encoder accept — no hypothesis about the order of reads and
assignments.

Nested binds. Inside an expression the scope is no longer only *extended* (`Ext`: reading a name may
create an untyped local): a nested `(:= x r)` may also re-type an untyped binding (`bindTarget`). What
the proof needs survives: bindings never move (`Reach.fwd`: same slot, hence the same machine register
under the final scope), and the invariant `SelfNamed` is kept by `compile_expr` on *every* expression
(`compileExpr_selfNamed`): the re-typing step only ever records a type that is not a name. The bind arm
is analysed once (`bind_decomp`), for statements and nested binds alike.

History. Before the repair F11 the statement was false: `Stratified` alone lets through
`(def (Report (acked 0)) (c 0)) (when true (:= x y) (:= x 3))` with `y` never assigned; reading the
unbound `y` makes it a local of recorded type `Name("y")`, the first bind *copied that type to `x`*,
and the second bind's `update_type(&s, …)` (with `s = "y"`, the name stored in the type of `x`)
re-typed and returned the register of `y`: the compiler emitted `bind y y 3` where the source (and
`lowerStmt`) say `bind x x 3`. The proof then carried the hypothesis `DefBeforeUse` (every name read
is built-in, declared, or the target of an earlier statement) and the invariant "no recorded type is
a name". With the repaired `bindTarget` (an untyped right-hand side gives no type to the target) the
invariant that holds between statements is weaker and needs no hypothesis:

    every binding whose recorded type is `Name s` is the binding of the name `s` itself

(`Inv.selfName`): reading a never-assigned name creates such a local (`compileAtom`), `(:= x y)` with
an untyped `y` leaves `x` untyped, a later `(:= x 3)` re-types `x` through its own name
(`bindTarget_self`). Operators reject untyped operands (`combine`), so an untyped register reaches an
instruction only as an operand of a plain bind, `if`, `!if` or `ewma`; the reference lowering finds the
same register in the *final* scope because bindings never move (`Reach.fwd`, `rhoOf_of_reach`).
`DefBeforeUse` is kept below as a definition only (no theorem uses it): the non-vacuity examples in
`CompileLower2.lean` and `Props/C01Sim.lean` show a program outside it that the theorems now cover.
-/
namespace Portus.Lang.Frag
open Portus Portus.Lang Portus.Vm

/-! ## the former hypothesis `DefBeforeUse` (a definition only; no theorem needs it any more) -/

/-- names read by an expression -/
def readsE : Expr → List Name
  | .atom (.name x) => [x]
  | .sexp _ l r => readsE l ++ readsE r
  | _ => []

/-- names read by a statement `(:= x rhs)`: those of `rhs` -/
def stmtReads : Expr → List Name
  | .sexp .bind (.atom (.name _)) r => readsE r
  | _ => []

/-- the name a statement assigns -/
def stmtWrites : Expr → List Name
  | .sexp .bind (.atom (.name x)) _ => [x]
  | _ => []

/-- every statement reads only names in `B` or assigned by an earlier statement -/
def bodyBound (B : List Name) : List Expr → Bool
  | [] => true
  | e :: rest => (stmtReads e).all (fun x => B.contains x) && bodyBound (stmtWrites e ++ B) rest

/-- `B` plus the names the statements assign -/
def bodyOut (B : List Name) : List Expr → List Name
  | [] => B
  | e :: rest => bodyOut (stmtWrites e ++ B) rest

def eventsBound (B : List Name) : List Event → Bool
  | [] => true
  | ev :: rest =>
    (readsE ev.flag).all (fun x => B.contains x) && bodyBound B ev.body && eventsBound (bodyOut B ev.body) rest

/-- **no use before definition**: in program order (events in source order, the condition of an event
before its statements), every name read by a condition or by the right-hand side of a statement is a
built-in name, a declared variable, or the target of an earlier statement. (Hypothesis of T-A before
the repair F11; not a hypothesis of anything now.) -/
def DefBeforeUse (ds : List Decl) (evs : List Event) : Bool :=
  eventsBound ((primNames ++ implNames).map (·.toList) ++ ds.map (·.var)) evs

/-! ## registers the encoder accepts -/

/-- the encoder accepts the register -/
def SerR (r : Reg) : Prop := ∃ c x, r.classIdx = .ok (c, x)

def SerI (i : Instr) : Prop := SerR i.res ∧ SerR i.left ∧ SerR i.right

theorem SerR_tmp {i : Nat} {t : Ty} (h : SerR (.tmp i t)) : i ≤ 7 := by
  obtain ⟨c, x, h⟩ := h
  simp only [Reg.classIdx] at h
  split at h
  · cases h
  · omega

theorem toVReg_immNum {n : Nat} (h : SerR (.immNum n)) : toVReg (.immNum n) = vImmNum n := by
  obtain ⟨c, x, h⟩ := h
  simp only [Reg.classIdx] at h
  split at h
  · rename_i hc
    simp only [toVReg, Reg.classIdx, if_pos hc, vImmNum]
  · cases h

theorem toVReg_immBool (b : Bool) : toVReg (.immBool b) = vImmBool b := rfl

theorem SerR_immBool (b : Bool) : SerR (.immBool b) := ⟨_, _, rfl⟩

theorem toVReg_tmp {i : Nat} {t : Ty} (h : i ≤ 7) : toVReg (.tmp i t) = vTmp i := by
  simp only [toVReg, Reg.classIdx, if_neg (show ¬ i > 7 by omega), vTmp]

theorem classIdx_slot (r : Reg) : r.slot.classIdx = r.classIdx := by
  cases r <;> rfl

theorem toVReg_of_slot {r r' : Reg} (h : r'.slot = r.slot) : toVReg r' = toVReg r := by
  have h1 : toVReg r' = toVReg r'.slot := by unfold toVReg; rw [classIdx_slot]
  have h2 : toVReg r = toVReg r.slot := by unfold toVReg; rw [classIdx_slot]
  rw [h1, h2, h]

theorem serI_of_serialize {bin : Bin} {img : Bytes} (h : bin.serialize = .ok img) :
    ∀ i ∈ bin.instrs, SerI i := by
  obtain ⟨ib, hs, -⟩ := Bin.serialize_ok h
  intro i hi
  obtain ⟨b, hb⟩ := serializeInstrs_ok_mem hs i hi
  obtain ⟨o, c1, i1, c2, i2, c3, i3, -, e1, e2, e3, -⟩ := Wire.Instr.serialize_ok hb
  exact ⟨⟨_, _, e1⟩, ⟨_, _, e2⟩, ⟨_, _, e3⟩⟩

/-- the environment of the reference lowering: the final scope, types forgotten -/
def rhoOf (scF : Scope) : Rho := fun n => (scF.get n).map toVReg

theorem rhoOf_of_reach {sc scF : Scope} (hr : Reach False sc scF) {x : Name} {r : Reg}
    (hg : sc.get x = some r) : rhoOf scF x = some (toVReg r) := by
  obtain ⟨r', h1, h2⟩ := hr.fwd hg
  simp only [rhoOf, h1, Option.map_some, toVReg_of_slot h2]

/-! ## `combine` on a pure operator -/

theorem combine_pure {o : Op} {code : Nat} (ho : pureOpcode o = some code) {is : List Instr} {l r : Reg}
    {sc : Scope} {c : CE} (h : combine o is l r sc = .ok c) :
    ∃ t o', c = ⟨is ++ [{ res := .tmp (sc.tmp.length % 256) t, op := o', left := l, right := r }],
                 .tmp (sc.tmp.length % 256) t,
                 { sc with tmp := sc.tmp ++ [.tmp (sc.tmp.length % 256) t] }⟩ ∧
      opNat o' = code ∧ (t = .num none ∨ t = .bool none) := by
  cases o <;> simp only [pureOpcode, Option.some.injEq, reduceCtorEq] at ho <;> subst ho <;>
    simp only [combine] at h <;>
    (split at h
     · cases h
     · split at h
       · cases h
       · simp only [Scope.newTmp, Out.ok.injEq] at h
         subst h
         first
          | exact ⟨_, _, rfl, rfl, Or.inl rfl⟩
          | exact ⟨_, _, rfl, rfl, Or.inr rfl⟩)

/-! ## atoms -/

theorem compileAtom_name {x : Name} {sc : Scope} {c : CE} (h : compileAtom (.name x) sc = .ok c) :
    c.instrs = [] ∧ c.sc.tmp = sc.tmp ∧ c.sc.get x = some c.reg ∧
    ((sc.get x = some c.reg ∧ c.sc = sc) ∨
     (sc.get x = none ∧ c.reg = .local sc.numLocal (.name x) ∧
      c.sc = { sc with numLocal := sc.numLocal + 1, named := regInsert x (.local sc.numLocal (.name x)) sc.named })) := by
  unfold compileAtom at h
  simp only at h
  split at h
  · rename_i r hg
    cases h
    exact ⟨rfl, rfl, hg, Or.inl ⟨hg, rfl⟩⟩
  · rename_i hg
    split at h
    · cases h
    · rw [Scope.newLocal_eq] at h
      split at h
      · simp only [Out.bind_ok, Out.pure_eq, Out.ok.injEq] at h
        subst h
        exact ⟨rfl, rfl, regGet_regInsert_self _ _ _, Or.inr ⟨hg, rfl, rfl⟩⟩
      · simp at h

theorem compileAtom_basic {p : Prim} {sc : Scope} {c : CE} (h : compileAtom p sc = .ok c) :
    c.instrs = [] ∧ c.sc.tmp = sc.tmp := by
  cases p with
  | bool b => cases h; exact ⟨rfl, rfl⟩
  | num n => cases h; exact ⟨rfl, rfl⟩
  | name x => exact ⟨(compileAtom_name h).1, (compileAtom_name h).2.1⟩

theorem compileAtom_lower {scF : Scope} {p : Prim} {sc : Scope} {c : CE} (h : compileAtom p sc = .ok c)
    (hr : Reach False c.sc scF) (hreg : SerR c.reg) (k : Nat) :
    lowerE (rhoOf scF) (.atom p) k = some ⟨[], toVReg c.reg, k⟩ := by
  cases p with
  | bool b => cases h; rfl
  | num n =>
    cases h
    simp only [lowerE, toVReg_immNum hreg]
  | name x =>
    obtain ⟨-, -, hg, -⟩ := compileAtom_name h
    simp only [lowerE, rhoOf_of_reach hr hg, Option.map_some]

/-! ## the invariant between (and inside) statements -/

theorem pureE_sexp {o : Op} {l r : Expr} (h : pureE (.sexp o l r) = true) :
    (∃ code, pureOpcode o = some code) ∧ pureE l = true ∧ pureE r = true := by
  simp only [pureE, Bool.and_eq_true] at h
  obtain ⟨⟨h1, h2⟩, h3⟩ := h
  refine ⟨?_, h2, h3⟩
  cases o <;> first | exact ⟨_, rfl⟩ | cases h1

/-- a binding whose recorded type is still a name is the binding of that very name (an untyped local
carries its own name) -/
def SelfNamed (sc : Scope) : Prop := ∀ n r s, sc.get n = some r → r.getType = .name s → s = n

/-- between statements: `SelfNamed`, and the event flag is the implicit register 0 -/
structure Inv (sc : Scope) : Prop where
  selfName : SelfNamed sc
  flag : sc.get flagName = some (.implicit 0 (.bool none))

theorem get_of_named {a b : Scope} (h : b.named = a.named) (n : Name) : b.get n = a.get n := by
  unfold Scope.get; rw [h]

theorem SelfNamed.of_named {a b : Scope} (h : b.named = a.named) (hi : SelfNamed a) : SelfNamed b := by
  intro n r s hg; rw [get_of_named h] at hg; exact hi n r s hg

theorem Inv.of_named {a b : Scope} (h : b.named = a.named) (hi : Inv a) : Inv b := by
  refine ⟨hi.selfName.of_named h, ?_⟩
  rw [get_of_named h]; exact hi.flag

theorem Inv.flag_reach {sc sc' : Scope} (hi : Inv sc) (hr : Reach False sc sc') :
    sc'.get flagName = some (.implicit 0 (.bool none)) := by
  obtain ⟨r', h1, h2⟩ := hr.fwd hi.flag
  rw [h1, Reg.slot_builtin (r := .implicit 0 (.bool none)) rfl h2]

/-- `b` extends `a` by untyped locals: every name keeps its binding, or was unbound and is now a
local whose recorded type is its own name. This is all that reading names does to a scope (all that
compiling a *pure* expression does: `compileExpr_ext`; a nested bind may also re-type a binding). -/
def Ext (a b : Scope) : Prop :=
  ∀ m, b.get m = a.get m ∨ (a.get m = none ∧ ∃ i, b.get m = some (.local i (.name m)))

theorem Ext.refl (a : Scope) : Ext a a := fun _ => Or.inl rfl

theorem Ext.of_named {a b : Scope} (h : b.named = a.named) : Ext a b :=
  fun m => Or.inl (get_of_named h m)

theorem Ext.trans {a b c : Scope} (h1 : Ext a b) (h2 : Ext b c) : Ext a c := by
  intro m
  rcases h2 m with e2 | ⟨n2, i, e2⟩
  · rcases h1 m with e1 | ⟨n1, i, e1⟩
    · exact Or.inl (e2.trans e1)
    · exact Or.inr ⟨n1, i, e2.trans e1⟩
  · rcases h1 m with e1 | ⟨n1, j, e1⟩
    · exact Or.inr ⟨by rw [← e1]; exact n2, i, e2⟩
    · rw [e1] at n2; cases n2

theorem Ext.get_bound {a b : Scope} (h : Ext a b) {m : Name} {r : Reg} (hg : a.get m = some r) :
    b.get m = some r := by
  rcases h m with e | ⟨n, -⟩
  · rw [e, hg]
  · rw [hg] at n; cases n

theorem Ext.selfNamed {a b : Scope} (h : Ext a b) (hi : SelfNamed a) : SelfNamed b := by
  intro n r s hg hs
  rcases h n with e | ⟨-, i, e⟩
  · rw [e] at hg; exact hi n r s hg hs
  · rw [e] at hg; cases hg; cases hs; rfl

theorem Ext.inv {a b : Scope} (h : Ext a b) (hi : Inv a) : Inv b :=
  ⟨h.selfNamed hi.selfName, h.get_bound hi.flag⟩

theorem combine_cond {o : Op} (ho : o = .if ∨ o = .notIf ∨ o = .ewma) {is : List Instr} {l r : Reg}
    {sc : Scope} {c : CE} (h : combine o is l r sc = .ok c) :
    c = ⟨is ++ [{ res := .none, op := o, left := l, right := r }], .none, sc⟩ := by
  rcases ho with rfl | rfl | rfl <;> simp only [combine] at h <;>
    (split at h
     · cases h
     · cases h; rfl)

theorem compileAtom_ext {p : Prim} {sc : Scope} {c : CE} (h : compileAtom p sc = .ok c) : Ext sc c.sc := by
  cases p with
  | bool b => cases h; exact Ext.refl _
  | num n => cases h; exact Ext.refl _
  | name x =>
    obtain ⟨-, -, -, ⟨-, e⟩ | ⟨h0, -, e⟩⟩ := compileAtom_name h
    · rw [e]; exact Ext.refl _
    · rw [e]
      intro m
      by_cases hm : m = x
      · subst hm
        exact Or.inr ⟨h0, sc.numLocal, regGet_regInsert_self _ _ _⟩
      · left
        show regGet m (regInsert x _ sc.named) = sc.get m
        rw [regGet_regInsert_ne hm]; rfl

/-- compiling a pure expression only *adds* bindings, and only of untyped locals under their own name
(a never-assigned name read as an atom) -/
theorem compileExpr_ext {e : Expr} (hp : pureE e = true) {sc : Scope} {c : CE}
    (h : compileExpr e sc = .ok c) : Ext sc c.sc := by
  induction e generalizing sc c with
  | cmd _ => cases hp
  | none => cases hp
  | atom p =>
    simp only [compileExpr] at h
    exact compileAtom_ext h
  | sexp o le re ihl ihr =>
    obtain ⟨⟨code, ho⟩, hpl, hpr⟩ := pureE_sexp hp
    unfold compileExpr at h
    obtain ⟨l, hl, h⟩ := Out.bind_eq_ok.mp h
    obtain ⟨r, hr', h⟩ := Out.bind_eq_ok.mp h
    obtain ⟨t, o', rfl, -, -⟩ := combine_pure ho h
    exact ((ihl hpl hl).trans (ihr hpr hr')).trans (Ext.of_named rfl)

/-! ## the `Bind` arm -/

theorem bindEmit_sc {is : List Instr} {left right : Reg} {sc : Scope} {c : CE}
    (h : bindEmit is left right sc = .ok c) : c.sc = sc ∧ c.reg = left := by
  unfold bindEmit at h
  split at h
  · split at h
    · split at h
      · cases h
      · split at h
        · cases h; exact ⟨rfl, rfl⟩
        · cases h
    · cases h
  · split at h
    · cases h; exact ⟨rfl, rfl⟩
    · cases h

/-- a bind that compiles never has the placeholder as its result register -/
theorem bindEmit_reg_ne_none {is : List Instr} {left right : Reg} {sc : Scope} {c : CE}
    (h : bindEmit is left right sc = .ok c) : c.reg ≠ .none := by
  rw [(bindEmit_sc h).2]
  unfold bindEmit at h
  split at h
  · split at h
    · rename_i hrc; exact isRC_ne_none hrc
    · cases h
  · split at h
    · rename_i hrt
      rw [Bool.or_eq_true] at hrt
      rcases hrt with hrt | hrt
      · exact isRC_ne_none hrt
      · exact isTIL_ne_none hrt
    · cases h

/-- a bind whose right-hand side has a result register (is not a conditional / ewma placeholder) appends the
`bind` instruction -/
theorem bindEmit_plain {is : List Instr} {left right : Reg} {sc : Scope} {c : CE} (hnn : right ≠ .none)
    (h : bindEmit is left right sc = .ok c) :
    c = ⟨is ++ [{ res := left, op := .bind, left := left, right := right }], left, sc⟩ := by
  unfold bindEmit at h
  rw [if_neg hnn] at h
  split at h
  · cases h; rfl
  · cases h

/-- a bind whose right-hand side is empty code with the placeholder register does not compile -/
theorem bindEmit_nil_none {left : Reg} {sc : Scope} {c : CE} (h : bindEmit [] left .none sc = .ok c) : False := by
  unfold bindEmit at h
  rw [if_pos rfl] at h
  split at h
  · simp only [List.getLast?_nil] at h
    cases h
  · cases h

/-- the re-typing step keeps `SelfNamed` — whatever the operands: it either leaves the scope alone or gives a
binding a recorded type that is not a name -/
theorem bindTarget_selfNamed {left right : Reg} {sc : Scope} {left' : Reg} {sc' : Scope}
    (hs : SelfNamed sc) (h : bindTarget left right sc = .ok (left', sc')) : SelfNamed sc' := by
  unfold bindTarget at h
  split at h
  · rename_i s hsn
    split at h
    · cases h; exact hs
    rename_i hnn
    obtain ⟨r1, h1, h2, rfl⟩ := Scope.updateType_ok h
    intro n r0 s0 hg hs0
    have hg' : regGet n (regSet s left' sc.named) = some r0 := hg
    rw [get_regSet_bound h1] at hg'
    split at hg'
    · cases hg'
      rw [Reg.setTy_getType h2] at hs0
      exact absurd hs0 (hnn s0)
    · exact hs n r0 s0 hg' hs0
  · cases h; exact hs

/-- the re-typing step keeps the temporaries and returns a register in the slot of the left operand, provided the
left operand is the binding of `x` (up to its recorded type) and its recorded type, if a name, is `x` itself -/
theorem bindTarget_slot {x : Name} {left right : Reg} {sc : Scope} {left' : Reg} {sc' : Scope} {r0 : Reg}
    (hg : sc.get x = some r0) (hslot : r0.slot = left.slot) (hself : ∀ s, left.getType = .name s → s = x)
    (h : bindTarget left right sc = .ok (left', sc')) : left'.slot = left.slot ∧ sc'.tmp = sc.tmp := by
  unfold bindTarget at h
  split at h
  · rename_i s hs
    have := hself s hs
    subst this
    split at h
    · cases h; exact ⟨rfl, rfl⟩
    obtain ⟨r1, h1, h2, rfl⟩ := Scope.updateType_ok h
    rw [hg] at h1
    cases h1
    exact ⟨(Reg.setTy_slot h2).trans hslot, rfl⟩
  · cases h; exact ⟨rfl, rfl⟩

theorem compileAtom_selfNamed {p : Prim} {sc : Scope} {c : CE} (hs : SelfNamed sc)
    (h : compileAtom p sc = .ok c) : SelfNamed c.sc :=
  (compileAtom_ext h).selfNamed hs

theorem combineBind_selfNamed {is : List Instr} {left right : Reg} {sc : Scope} {c : CE}
    (hs : SelfNamed sc) (h : combineBind is left right sc = .ok c) : SelfNamed c.sc := by
  obtain ⟨left', sc', hq, he⟩ := combineBind_ok_split h
  rw [(bindEmit_sc he).1]
  exact bindTarget_selfNamed hs hq

theorem combine_selfNamed {o : Op} {is : List Instr} {left right : Reg} {sc : Scope} {c : CE}
    (hs : SelfNamed sc) (h : combine o is left right sc = .ok c) : SelfNamed c.sc := by
  cases o <;> simp only [combine] at h <;>
  first
    | exact combineBind_selfNamed hs h
    | (unfold unreachableP at h; cases h; done)
    | (split at h
       · cases h
       · split at h
         · cases h
         · simp only [Scope.newTmp, Out.ok.injEq] at h
           subst h
           exact hs.of_named rfl)
    | (split at h
       · cases h
       · cases h
         exact hs)

/-- **`SelfNamed` is an invariant of `compile_expr`** — for every expression, in the fragment or not -/
theorem compileExpr_selfNamed {e : Expr} {sc : Scope} {c : CE} (hs : SelfNamed sc)
    (h : compileExpr e sc = .ok c) : SelfNamed c.sc := by
  induction e generalizing sc c with
  | atom p => exact compileAtom_selfNamed hs h
  | cmd _ => cases h
  | none => cases h
  | sexp o le re ihl ihr =>
    unfold compileExpr at h
    obtain ⟨l, hl, h⟩ := Out.bind_eq_ok.mp h
    obtain ⟨r, hr, h⟩ := Out.bind_eq_ok.mp h
    exact combine_selfNamed (ihr (ihl hs hl) hr) h

/-- the common part of every bind `(:= x rhs)` — a statement or a nested one, from any scope: the left operand is
the binding of `x`; after the right-hand side the re-typing step returns a register in the same slot and leaves
the temporaries alone -/
theorem bind_decomp {x : Name} {rhs : Expr} {sc : Scope} {c : CE} (hsn : SelfNamed sc)
    (h : compileExpr (.sexp .bind (.atom (.name x)) rhs) sc = .ok c) :
    ∃ (l r : CE) (left' : Reg), compileAtom (.name x) sc = .ok l ∧ compileExpr rhs l.sc = .ok r ∧
      l.sc.tmp = sc.tmp ∧ l.sc.get x = some l.reg ∧ SelfNamed l.sc ∧ Reach False l.sc r.sc ∧
      Reach False r.sc c.sc ∧ c.sc.tmp = r.sc.tmp ∧ bindEmit r.instrs left' r.reg c.sc = .ok c ∧
      left'.slot = l.reg.slot := by
  unfold compileExpr at h
  obtain ⟨l, hl, h⟩ := Out.bind_eq_ok.mp h
  obtain ⟨r, hr', h⟩ := Out.bind_eq_ok.mp h
  simp only [compileExpr] at hl
  obtain ⟨li, lt, lg, -⟩ := compileAtom_name hl
  have hsl : SelfNamed l.sc := compileAtom_selfNamed hsn hl
  have hlr : Reach False l.sc r.sc := (compileExpr_reach (F := False) (fun f => f.elim) hr').1
  have hrc := (combine_reach (F := False) (fun f => f.elim) h).1
  simp only [combine] at h
  obtain ⟨left', sc'', hbt, hbe⟩ := combineBind_ok_split h
  rw [li, List.nil_append] at hbe
  obtain ⟨e1, -⟩ := bindEmit_sc hbe
  subst e1
  obtain ⟨r0, hr0, hslot⟩ := hlr.fwd lg
  obtain ⟨g1, g2⟩ := bindTarget_slot hr0 hslot (fun s hs => hsl x l.reg s lg hs) hbt
  exact ⟨l, r, left', hl, hr', lt, lg, hsl, hlr, hrc, g2, hbe, g1⟩

/-! ## value expressions -/

theorem lowerE_op {ρ : Rho} {o : Op} {code : Nat} {l r : Expr} {k : Nat} {cl cr : LE}
    (ho : pureOpcode o = some code) (hl : lowerE ρ l k = some cl) (hr : lowerE ρ r cl.k = some cr) :
    lowerE ρ (.sexp o l r) k =
      some ⟨cl.instrs ++ cr.instrs ++ [⟨code, vTmp cr.k, cl.reg, cr.reg⟩], vTmp cr.k, cr.k + 1⟩ := by
  rw [lowerE.eq_8 _ _ _ _ _ (fun x _ _ hb _ _ => by subst hb; cases ho) (fun x _ _ hb _ _ => by subst hb; cases ho)
    (fun x _ _ hb _ _ => by subst hb; cases ho) (fun x hb _ => by subst hb; cases ho), ho, hl]
  simp only [hr]

/-- a value expression whose result register is the placeholder has no code (it is then an atom bound to it:
impossible for a consistent scope, but not needed here) -/
theorem value_none_instrs {e : Expr} (hp : valueE e = true) {sc : Scope} {c : CE}
    (h : compileExpr e sc = .ok c) (hn : c.reg = .none) : c.instrs = [] := by
  cases e with
  | cmd _ => cases hp
  | none => cases hp
  | atom p => exact (compileAtom_basic h).1
  | sexp o le re =>
    rcases valueE_sexp_cases hp with ⟨x, rfl, rfl, -, -⟩ | ⟨x, op, a, b, gcode, rfl, rfl, rfl, -⟩ | ⟨code, ho, -, -, -⟩
    · exfalso
      unfold compileExpr at h
      obtain ⟨l, hl, h⟩ := Out.bind_eq_ok.mp h
      obtain ⟨r, hr', h⟩ := Out.bind_eq_ok.mp h
      simp only [combine] at h
      obtain ⟨left', sc'', -, hbe⟩ := combineBind_ok_split h
      exact bindEmit_reg_ne_none hbe hn
    · exfalso
      unfold compileExpr at h
      obtain ⟨l, hl, h⟩ := Out.bind_eq_ok.mp h
      obtain ⟨r, hr', h⟩ := Out.bind_eq_ok.mp h
      simp only [combine] at h
      obtain ⟨left', sc'', -, hbe⟩ := combineBind_ok_split h
      exact bindEmit_reg_ne_none hbe hn
    · unfold compileExpr at h
      obtain ⟨l, hl, h⟩ := Out.bind_eq_ok.mp h
      obtain ⟨r, hr', h⟩ := Out.bind_eq_ok.mp h
      obtain ⟨t, o', rfl, -, -⟩ := combine_pure ho h
      cases hn

/-- the `bind` of a value expression appends the `bind` instruction -/
theorem bind_value_emit {rhs : Expr} (hp : valueE rhs = true) {sc : Scope} {r : CE}
    (hr : compileExpr rhs sc = .ok r) {left' : Reg} {scc : Scope} {c : CE}
    (hbe : bindEmit r.instrs left' r.reg scc = .ok c) :
    c = ⟨r.instrs ++ [{ res := left', op := .bind, left := left', right := r.reg }], left', scc⟩ := by
  have hnn : r.reg ≠ .none := by
    intro e
    have hi := value_none_instrs hp hr e
    rw [e, hi] at hbe
    exact bindEmit_nil_none hbe
  exact bindEmit_plain hnn hbe

/-- **stage 1.** A value expression (pure, or with hazard-free nested binds) compiles to its reference lowering
under the *final* scope: same instructions, same result register, same number of temporaries. Inside the
expression the scope changes (a nested bind may create a local or re-type an untyped one), but bindings never
move (`Reach.fwd`), so the final scope assigns the same cells. `hk`/the second conclusion: at most 8 temporaries
are live, so `new_tmp`'s `as u8` is the identity. -/
theorem compileExpr_lower {scF : Scope} {e : Expr} (hp : valueE e = true) {sc : Scope} {c : CE}
    (hsn : SelfNamed sc)
    (h : compileExpr e sc = .ok c) (hr : Reach False c.sc scF)
    (hser : ∀ i ∈ c.instrs, SerI i) (hreg : SerR c.reg) (hk : sc.tmp.length ≤ 8) :
    lowerE (rhoOf scF) e sc.tmp.length = some ⟨c.instrs.map toVInstr, toVReg c.reg, c.sc.tmp.length⟩ ∧
    c.sc.tmp.length ≤ 8 := by
  induction e using Expr.ind2 generalizing sc c with
  | cmd _ => cases hp
  | none => cases hp
  | atom p =>
    simp only [compileExpr] at h
    obtain ⟨h1, h2⟩ := compileAtom_basic h
    rw [compileAtom_lower h hr hreg, h1, h2]
    exact ⟨rfl, hk⟩
  | sexp o le re ihl ihr ihsub =>
    rcases valueE_sexp_cases hp with ⟨x, rfl, rfl, -, hvr⟩ |
      ⟨x, op, a, b, gcode, rfl, rfl, rfl, hgc, -, hva, hvb, -⟩ | ⟨code, ho, hpl, hpr, -⟩
    · -- a nested bind
      obtain ⟨l, r, left', hl, hr', lt, lg, hsl, hlr, hrc, htmp, hbe, hslot⟩ := bind_decomp hsn h
      have rr : Reach False r.sc scF := hrc.trans hr
      have rl : Reach False l.sc scF := hlr.trans rr
      have hρ : rhoOf scF x = some (toVReg l.reg) := rhoOf_of_reach rl lg
      have hc := bind_value_emit hvr hr' hbe
      rw [hc] at hser hreg ⊢
      simp only at hser hreg ⊢
      have hlast := hser _ (List.mem_append_right _ (List.mem_singleton.mpr rfl))
      obtain ⟨er, kr⟩ := ihr hvr hsl hr' rr (fun i hi => hser i (List.mem_append_left _ hi)) hlast.2.2
        (by rw [lt]; exact hk)
      rw [lt] at er
      refine ⟨?_, by rw [htmp]; exact kr⟩
      obtain ⟨n1, n2, n3⟩ := valueE_not_cond hvr
      rw [lowerE.eq_7 _ _ _ _ n1 n2 n3, hρ, er]
      simp only [List.map_append, List.map_cons, List.map_nil, toVInstr, toVReg_of_slot hslot, htmp]
      rfl
    · -- a nested guarded bind: the operands, then the conditional / ewma instruction, whose placeholder result the
      -- bind replaces by the register of `x`
      obtain ⟨iha, ihb⟩ := ihsub op a b rfl
      have ho : op = .if ∨ op = .notIf ∨ op = .ewma := by
        rcases condCode_cases hgc with ⟨h, _⟩ | ⟨h, _⟩ | ⟨h, _⟩ <;> simp [h]
      have hopn : opNat op = gcode := by
        rcases condCode_cases hgc with ⟨rfl, rfl⟩ | ⟨rfl, rfl⟩ | ⟨rfl, rfl⟩ <;> rfl
      obtain ⟨l, r, left', hl, hr', lt, lg, hsl, hlr, hrc, htmp, hbe, hslot⟩ := bind_decomp hsn h
      have rr : Reach False r.sc scF := hrc.trans hr
      have rl : Reach False l.sc scF := hlr.trans rr
      have hρ : rhoOf scF x = some (toVReg left') := by
        rw [toVReg_of_slot hslot]; exact rhoOf_of_reach rl lg
      unfold compileExpr at hr'
      obtain ⟨ca, hca, hr'⟩ := Out.bind_eq_ok.mp hr'
      obtain ⟨cb, hcb, hr'⟩ := Out.bind_eq_ok.mp hr'
      have := combine_cond ho hr'
      subst this
      simp only at hbe rr htmp
      generalize c.sc = scc at hbe htmp
      unfold bindEmit at hbe
      rw [if_pos rfl] at hbe
      split at hbe
      · rw [List.getLast?_concat] at hbe
        simp only [if_true] at hbe
        cases hbe
        rw [setLastRes_append] at hser
        simp only at hser hreg
        have hlast := hser _ (List.mem_append_right _ (List.mem_singleton.mpr rfl))
        have ra : Reach False ca.sc scF := (compileExpr_reach (F := False) (fun f => f.elim) hcb).1.trans rr
        obtain ⟨ea, ka⟩ := iha hva hsl hca ra
          (fun i hi => hser i (List.mem_append_left _ (List.mem_append_left _ hi))) hlast.2.1 (by rw [lt]; exact hk)
        obtain ⟨eb, kb⟩ := ihb hvb (compileExpr_selfNamed hsl hca) hcb rr
          (fun i hi => hser i (List.mem_append_left _ (List.mem_append_right _ hi))) hlast.2.2 ka
        rw [lt] at ea
        refine ⟨?_, by simp only [htmp]; exact kb⟩
        rw [lowerE_guard hgc, setLastRes_append]
        simp only [hρ, ea, eb, htmp, hopn, List.map_append, List.map_cons, List.map_nil, toVInstr]
      · cases hbe
    · -- an operator node
      unfold compileExpr at h
      obtain ⟨l, hl, h⟩ := Out.bind_eq_ok.mp h
      obtain ⟨r, hr', h⟩ := Out.bind_eq_ok.mp h
      obtain ⟨t, o', rfl, hop, -⟩ := combine_pure ho h
      have rr : Reach False r.sc scF := (Reach.single (Step.tmp _ _)).trans hr
      have rl : Reach False l.sc scF := (compileExpr_reach (F := False) (fun f => f.elim) hr').1.trans rr
      simp only at hser hreg
      have hlast := hser _ (List.mem_append_right _ (List.mem_singleton.mpr rfl))
      have hsl : ∀ i ∈ l.instrs, SerI i := fun i hi =>
        hser i (List.mem_append_left _ (List.mem_append_left _ hi))
      have hsr : ∀ i ∈ r.instrs, SerI i := fun i hi =>
        hser i (List.mem_append_left _ (List.mem_append_right _ hi))
      obtain ⟨el, kl⟩ := ihl hpl hsn hl rl hsl hlast.2.1 hk
      obtain ⟨er, kr⟩ := ihr hpr (compileExpr_selfNamed hsn hl) hr' rr hsr hlast.2.2 kl
      have hmod : r.sc.tmp.length % 256 = r.sc.tmp.length := Nat.mod_eq_of_lt (by omega)
      have h7 : r.sc.tmp.length ≤ 7 := by have := SerR_tmp hreg; omega
      refine ⟨?_, by simp only [List.length_append, List.length_singleton]; omega⟩
      rw [lowerE_op ho el er]
      simp only [hmod, toVReg_tmp h7, List.length_append, List.length_singleton,
        List.map_append, List.map_cons, List.map_nil, toVInstr, hop]

/-- the right-hand side of a statement of the fragment -/
def RhsOk (rhs : Expr) : Prop :=
  valueE rhs = true ∨
  ∃ o a b, rhs = .sexp o a b ∧ (o = .if ∨ o = .notIf ∨ o = .ewma) ∧ valueE a = true ∧ valueE b = true

theorem rhsOk_of_stmtOk2 {x : Name} {rhs : Expr} (h : stmtOk2 (.sexp .bind (.atom (.name x)) rhs) = true) :
    RhsOk rhs := by
  cases rhs with
  | atom p => exact Or.inl rfl
  | cmd c => simp [stmtOk2, valueE] at h
  | none => simp [stmtOk2, valueE] at h
  | sexp o a b =>
    cases o <;> simp only [stmtOk2, Bool.and_eq_true] at h <;>
      first
        | exact Or.inl h
        | exact Or.inr ⟨_, _, _, rfl, Or.inl rfl, h.1.1, h.1.2⟩
        | exact Or.inr ⟨_, _, _, rfl, Or.inr (Or.inl rfl), h.1.1, h.1.2⟩
        | exact Or.inr ⟨_, _, _, rfl, Or.inr (Or.inr rfl), h.1.1, h.1.2⟩

theorem rhs_selfNamed {rhs : Expr} {sc : Scope} {c : CE} (hs : SelfNamed sc)
    (h : compileExpr rhs sc = .ok c) : SelfNamed c.sc := compileExpr_selfNamed hs h

/-! ## statements -/

theorem setLastRet_append (pre : List VInstr) (last : VInstr) (r : VReg) :
    setLastRet (pre ++ [last]) r = pre ++ [{ last with ret := r }] := by
  simp [setLastRet]

theorem lowerStmt_plain {ρ : Rho} {x : Name} {rhs : Expr} (hp : valueE rhs = true) :
    lowerStmt ρ (.sexp .bind (.atom (.name x)) rhs) =
      match ρ x, lowerE ρ rhs 0 with
      | some tx, some ce => some (ce.instrs ++ [⟨1, tx, tx, ce.reg⟩])
      | _, _ => none := by
  obtain ⟨h1, h2, h3⟩ := valueE_not_cond hp
  exact lowerStmt.eq_5 ρ x rhs h1 h2 h3

theorem lowerStmt_cond {ρ : Rho} {x : Name} {o : Op} {a b : Expr} (ho : o = .if ∨ o = .notIf ∨ o = .ewma) :
    lowerStmt ρ (.sexp .bind (.atom (.name x)) (.sexp o a b)) = lowerCond ρ (opNat o) x a b := by
  rcases ho with rfl | rfl | rfl <;> rfl

/-- **stage 2.** A statement of the fragment compiles to its reference lowering. -/
theorem compileStmt_lower {scF : Scope} {x : Name} {rhs : Expr} {sc : Scope} {c : CE}
    (hrhs : RhsOk rhs) (hinv : Inv sc)
    (h : compileExpr (.sexp .bind (.atom (.name x)) rhs) sc.clearTmps = .ok c)
    (hr : Reach False c.sc scF) (hser : ∀ i ∈ c.instrs, SerI i) :
    lowerStmt (rhoOf scF) (.sexp .bind (.atom (.name x)) rhs) = some (c.instrs.map toVInstr) ∧
    Inv c.sc := by
  have hreach : Reach False sc c.sc :=
    (Reach.single (Step.tmp _ _)).trans (compileExpr_reach (F := False) (fun f => f.elim) h).1
  have hsn0 : SelfNamed sc.clearTmps := hinv.selfName.of_named (a := sc) (b := sc.clearTmps) rfl
  have hinv' : Inv c.sc := ⟨compileExpr_selfNamed hsn0 h, hinv.flag_reach hreach⟩
  obtain ⟨l, r, left', hl, hr', lt, lg, hsl, hlr, hrc, htmp, hbe, hslot⟩ := bind_decomp hsn0 h
  refine ⟨?_, hinv'⟩
  have rr : Reach False r.sc scF := hrc.trans hr
  have rl : Reach False l.sc scF := hlr.trans rr
  have hρ : rhoOf scF x = some (toVReg left') := by
    rw [toVReg_of_slot hslot]; exact rhoOf_of_reach rl lg
  have lt0 : l.sc.tmp = [] := lt
  rcases hrhs with hp | ⟨o, a, b, rfl, ho, hpa, hpb⟩
  · -- plain bind
    have hc := bind_value_emit hp hr' hbe
    rw [hc] at hser ⊢
    simp only at hser ⊢
    have hlast := hser _ (List.mem_append_right _ (List.mem_singleton.mpr rfl))
    obtain ⟨el, -⟩ := compileExpr_lower (scF := scF) hp hsl hr' rr
      (fun i hi => hser i (List.mem_append_left _ hi)) hlast.2.2 (by rw [lt0]; simp)
    rw [lt0] at el
    simp only [List.length_nil] at el
    rw [lowerStmt_plain hp, hρ, el]
    simp only [List.map_append, List.map_cons, List.map_nil, toVInstr]
    rfl
  · -- conditional / ewma
    unfold compileExpr at hr'
    obtain ⟨ca, hca, hr'⟩ := Out.bind_eq_ok.mp hr'
    obtain ⟨cb, hcb, hr'⟩ := Out.bind_eq_ok.mp hr'
    have := combine_cond ho hr'
    subst this
    simp only at hbe rr
    generalize c.sc = scc at hbe
    unfold bindEmit at hbe
    rw [if_pos rfl] at hbe
    split at hbe
    · rw [List.getLast?_concat] at hbe
      simp only [if_true] at hbe
      cases hbe
      rw [setLastRes_append] at hser
      simp only at hser
      have hlast := hser _ (List.mem_append_right _ (List.mem_singleton.mpr rfl))
      have ra : Reach False ca.sc scF := (compileExpr_reach (F := False) (fun f => f.elim) hcb).1.trans rr
      obtain ⟨ea, ka⟩ := compileExpr_lower (scF := scF) hpa hsl hca ra
        (fun i hi => hser i (List.mem_append_left _ (List.mem_append_left _ hi))) hlast.2.1 (by rw [lt0]; simp)
      obtain ⟨eb, -⟩ := compileExpr_lower (scF := scF) hpb (compileExpr_selfNamed hsl hca) hcb rr
        (fun i hi => hser i (List.mem_append_left _ (List.mem_append_right _ hi))) hlast.2.2 ka
      rw [lt0] at ea
      simp only [List.length_nil] at ea
      rw [lowerStmt_cond ho, setLastRes_append]
      simp only [lowerCond, hρ, ea, eb, List.map_append, List.map_cons, List.map_nil, toVInstr]
    · cases hbe

/-- **stage 2, bare statements.** An operator expression used as a statement (its value is dropped) compiles to
its reference lowering: the code of the expression from temporary 0. -/
theorem compileBare_lower {scF : Scope} {o : Op} {code : Nat} {a b : Expr} {sc : Scope} {c : CE}
    (ho : pureOpcode o = some code) (hv : valueE (.sexp o a b) = true) (hinv : Inv sc)
    (h : compileExpr (.sexp o a b) sc.clearTmps = .ok c)
    (hr : Reach False c.sc scF) (hser : ∀ i ∈ c.instrs, SerI i) :
    lowerStmt (rhoOf scF) (.sexp o a b) = some (c.instrs.map toVInstr) ∧ Inv c.sc := by
  have hreach : Reach False sc c.sc :=
    (Reach.single (Step.tmp _ _)).trans (compileExpr_reach (F := False) (fun f => f.elim) h).1
  have hsn0 : SelfNamed sc.clearTmps := hinv.selfName.of_named (a := sc) (b := sc.clearTmps) rfl
  have hinv' : Inv c.sc := ⟨compileExpr_selfNamed hsn0 h, hinv.flag_reach hreach⟩
  refine ⟨?_, hinv'⟩
  have hreg : SerR c.reg := by
    have h' := h
    unfold compileExpr at h'
    obtain ⟨l, hl, h'⟩ := Out.bind_eq_ok.mp h'
    obtain ⟨r, hr', h'⟩ := Out.bind_eq_ok.mp h'
    obtain ⟨t, o', rfl, -, -⟩ := combine_pure ho h'
    exact (hser _ (List.mem_append_right _ (List.mem_singleton.mpr rfl))).1
  obtain ⟨el, -⟩ := compileExpr_lower (scF := scF) hv hsn0 h hr hser hreg
    (by show ([] : List Reg).length ≤ 8; simp)
  have e0 : sc.clearTmps.tmp.length = 0 := rfl
  rw [e0] at el
  rw [lowerStmt_bare ho, el]
  rfl

/-! ## the condition block -/

theorem toVReg_flag : toVReg (.implicit 0 (.bool none)) = vFlag := rfl

theorem isEmpty_snoc {α : Type} (xs : List α) (y : α) : (xs ++ [y]).isEmpty = false := by
  cases xs <;> rfl

/-- **stage 3a.** -/
theorem compileFlag_lower {scF : Scope} {flag : Expr} {sc : Scope} {is : List Instr}
    {sc1 : Scope} (hp : pureE flag = true) (hinv : Inv sc)
    (h : compileFlag flag sc = .ok (is, sc1)) (hr : Reach False sc1 scF) (hser : ∀ i ∈ is, SerI i) :
    lowerFlag (rhoOf scF) flag = some (is.map toVInstr) ∧ Inv sc1 := by
  unfold compileFlag at h
  obtain ⟨c, hc, h1⟩ := Out.bind_eq_ok.mp h
  obtain ⟨fr, hfr, h2⟩ := Out.bind_eq_ok.mp h1
  clear h h1
  have h := h2
  clear h2
  have hinv0 : Inv sc.clearTmps := Inv.of_named (a := sc) (b := sc.clearTmps) rfl hinv
  have hinvc : Inv c.sc := (compileExpr_ext hp hc).inv hinv0
  have hfr' : fr = .implicit 0 (.bool none) := by
    have := hinvc.flag
    rw [show flagName = "__eventFlag".toList from rfl] at this
    rw [this] at hfr
    cases hfr; rfl
  subst hfr'
  have hsc1 : sc1 = c.sc := by
    split at h
    · split at h
      · cases h
      · simp only [Out.pure_eq, Out.ok.injEq, Prod.mk.injEq] at h; exact h.2.symm
    · simp only [Out.pure_eq, Out.ok.injEq, Prod.mk.injEq] at h; exact h.2.symm
    · cases h
  subst hsc1
  refine ⟨?_, hinvc⟩
  cases flag with
  | cmd _ => cases hp
  | none => cases hp
  | atom p =>
    simp only [compileExpr] at hc
    obtain ⟨hi, ht⟩ := compileAtom_basic hc
    split at h
    · rw [hi] at h; cases h
    · rename_i b hreg
      simp only [Out.pure_eq, Out.ok.injEq, Prod.mk.injEq] at h
      obtain ⟨rfl, -⟩ := h
      have hl := compileAtom_lower hc hr (by rw [hreg]; exact SerR_immBool b) 0
      rw [hreg] at hl
      simp only [lowerFlag, hl, hi, hreg, toVReg_immBool, vImmBool, List.map_cons, List.map_nil,
        toVInstr, List.nil_append, List.map_nil]
      rfl
    · cases h
  | sexp o a b =>
    obtain ⟨⟨code, ho⟩, hpa, hpb⟩ := pureE_sexp hp
    unfold compileExpr at hc
    obtain ⟨l, hl, hc⟩ := Out.bind_eq_ok.mp hc
    obtain ⟨r, hr', hc⟩ := Out.bind_eq_ok.mp hc
    obtain ⟨t, o', rfl, hop, ht⟩ := combine_pure ho hc
    simp only at h hr
    have rr : Reach False r.sc scF := (Reach.single (Step.tmp _ _)).trans hr
    have rl : Reach False l.sc scF := (compileExpr_reach (F := False) (fun f => f.elim) hr').1.trans rr
    rcases ht with rfl | rfl
    · cases h
    · simp only [isEmpty_snoc, Bool.false_eq_true, if_false,
        Out.pure_eq, Out.ok.injEq, Prod.mk.injEq, setLastRes_append] at h
      obtain ⟨rfl, -⟩ := h
      have hlast := hser _ (List.mem_append_right _ (List.mem_singleton.mpr rfl))
      obtain ⟨el, kl⟩ := compileExpr_lower (scF := scF) (valueE_of_pure hpa) hinv0.selfName hl rl
        (fun i hi => hser i (List.mem_append_left _ (List.mem_append_left _ hi))) hlast.2.1
        (by show ([] : List Reg).length ≤ 8; simp)
      obtain ⟨er, -⟩ := compileExpr_lower (scF := scF) (valueE_of_pure hpb)
        (compileExpr_selfNamed hinv0.selfName hl) hr' rr
        (fun i hi => hser i (List.mem_append_left _ (List.mem_append_right _ hi))) hlast.2.2 kl
      have e0 : sc.clearTmps.tmp.length = 0 := rfl
      rw [e0] at el
      simp only [lowerFlag, lowerE_op ho el er, vTmp, if_true, isEmpty_snoc,
        Bool.false_eq_true, if_false, setLastRet_append, List.map_append, List.map_cons,
        List.map_nil, toVInstr, hop, toVReg_flag]

/-! ## bodies, events, programs -/

theorem stmtOk2_inv {e : Expr} (h : stmtOk2 e = true) :
    e = .none ∨ (∃ o l r code, e = .sexp o l r ∧ pureOpcode o = some code ∧ valueE (.sexp o l r) = true) ∨
    ∃ x rhs, e = .sexp .bind (.atom (.name x)) rhs := stmtOk2_forms h

/-- **stage 3b.** -/
theorem compileBody_lower {scF : Scope} {body : List Expr} {sc : Scope} {is : List Instr}
    {sc' : Scope} (hst : ∀ e ∈ body, stmtOk2 e = true) (hinv : Inv sc)
    (h : compileBody body sc = .ok (is, sc')) (hr : Reach False sc' scF) (hser : ∀ i ∈ is, SerI i) :
    lowerBody (rhoOf scF) body = some (is.map toVInstr) ∧ Inv sc' := by
  induction body generalizing sc is with
  | nil =>
    simp only [compileBody, Out.ok.injEq, Prod.mk.injEq] at h
    obtain ⟨rfl, rfl⟩ := h
    exact ⟨rfl, hinv⟩
  | cons e rest ih =>
    have hrest : ∀ e ∈ rest, stmtOk2 e = true := fun e he => hst e (List.mem_cons_of_mem _ he)
    unfold compileBody at h
    rcases stmtOk2_inv (hst e List.mem_cons_self) with rfl | ⟨o, a, b, code, rfl, ho, hv⟩ | ⟨x, rhs, rfl⟩
    · rw [if_pos rfl] at h
      obtain ⟨e1, e2⟩ := ih hrest hinv h hser
      refine ⟨?_, e2⟩
      simp only [lowerBody, lowerStmt, e1, List.nil_append]
    · rw [if_neg (by simp)] at h
      obtain ⟨c, hc, h⟩ := Out.bind_eq_ok.mp h
      split at h
      · cases h
      · obtain ⟨q, hq, h⟩ := Out.bind_eq_ok.mp h
        obtain ⟨is', sc''⟩ := q
        simp only [Out.pure_eq, Out.ok.injEq, Prod.mk.injEq] at h
        obtain ⟨rfl, rfl⟩ := h
        have hrc : Reach False c.sc scF := (compileBody_reach (F := False) (fun f => f.elim) hq).trans hr
        obtain ⟨s1, s2⟩ := compileBare_lower (scF := scF) ho hv
          hinv hc hrc (fun i hi => hser i (List.mem_append_left _ hi))
        obtain ⟨e1, e2⟩ := ih hrest s2 hq (fun i hi => hser i (List.mem_append_right _ hi))
        refine ⟨?_, e2⟩
        simp only [lowerBody, s1, e1, List.map_append]
    · rw [if_neg (by simp)] at h
      obtain ⟨c, hc, h⟩ := Out.bind_eq_ok.mp h
      split at h
      · cases h
      · obtain ⟨q, hq, h⟩ := Out.bind_eq_ok.mp h
        obtain ⟨is', sc''⟩ := q
        simp only [Out.pure_eq, Out.ok.injEq, Prod.mk.injEq] at h
        obtain ⟨rfl, rfl⟩ := h
        have hrc : Reach False c.sc scF := (compileBody_reach (F := False) (fun f => f.elim) hq).trans hr
        obtain ⟨s1, s2⟩ := compileStmt_lower (scF := scF) (rhsOk_of_stmtOk2 (hst _ List.mem_cons_self))
          hinv hc hrc (fun i hi => hser i (List.mem_append_left _ hi))
        obtain ⟨e1, e2⟩ := ih hrest s2 hq (fun i hi => hser i (List.mem_append_right _ hi))
        refine ⟨?_, e2⟩
        simp only [lowerBody, s1, e1, List.map_append]

def evToExpr (e : EvRec) : Libccp.Expr :=
  { condStart := e.flagIdx, numCond := e.numFlag, eventStart := e.bodyIdx, numEvent := e.numBody }

/-- **stage 3c.** -/
theorem compileEvents_lower {scF : Scope} {evs : List Event} {idx : Nat} {sc : Scope} {cp : CP}
    (hst : InOracle evs = true) (hinv : Inv sc)
    (h : compileEvents evs idx sc = .ok cp) (hr : Reach False cp.sc scF) (hser : ∀ i ∈ cp.instrs, SerI i) :
    lowerEvents (rhoOf scF) evs idx = some ⟨cp.events.map evToExpr, cp.instrs.map toVInstr⟩ := by
  induction evs generalizing idx sc cp with
  | nil =>
    simp only [compileEvents, Out.ok.injEq] at h
    subst h
    rfl
  | cons ev rest ih =>
    simp only [InOracle, List.all_cons, Bool.and_eq_true] at hst
    obtain ⟨⟨hpf, hsb⟩, hsr⟩ := hst
    unfold compileEvents at h
    obtain ⟨q1, h1, h⟩ := Out.bind_eq_ok.mp h
    obtain ⟨fi, sc1⟩ := q1
    obtain ⟨q2, h2, h⟩ := Out.bind_eq_ok.mp h
    obtain ⟨bi, sc2⟩ := q2
    obtain ⟨tail, h3, h⟩ := Out.bind_eq_ok.mp h
    simp only [Out.pure_eq, Out.ok.injEq] at h
    subst h
    simp only at hr hser
    have r2 : Reach False sc2 scF := (compileEvents_reach (F := False) (fun f => f.elim) h3).trans hr
    have r1 : Reach False sc1 scF := (compileBody_reach (F := False) (fun f => f.elim) h2).trans r2
    obtain ⟨f1, f2⟩ := compileFlag_lower (scF := scF) hpf hinv h1 r1
      (fun i hi => hser i (List.mem_append_left _ (List.mem_append_left _ hi)))
    obtain ⟨b1, b2⟩ := compileBody_lower (scF := scF) (List.all_eq_true.mp hsb) f2 h2 r2
      (fun i hi => hser i (List.mem_append_left _ (List.mem_append_right _ hi)))
    have t1 := ih (by simpa [InOracle] using hsr) b2 h3 hr
      (fun i hi => hser i (List.mem_append_right _ hi))
    simp only [lowerEvents, f1, b1, List.length_map, t1, List.map_cons, List.map_append, evToExpr]

/-! ## the scope compilation starts from -/

/-- no recorded type is a name when compilation starts -/
theorem start_noName {uid : Nat} {src : List Char} {ds : List Decl} {evs : List Event} {sc0 : Scope}
    (hp : parseSource src = some (ds, evs)) (h0 : declareAll (Scope.new uid) ds = .ok sc0)
    (upd : List (Name × Nat)) :
    ∀ n r, (applyUpdates sc0 upd).get n = some r → ∀ s, r.getType ≠ .name s := by
  have noName0 : ∀ n r, sc0.get n = some r → ∀ s, r.getType ≠ .name s := by
    refine declareAll_all (P := fun r => ∀ s, r.getType ≠ .name s) h0 ?_ ?_
    · intro d hd' i
      exact ⟨parseSource_init hp d hd', parseSource_init hp d hd'⟩
    · intro n r hg s
      have := Scope.new_get_builtin hg
      cases r <;> first
        | (cases this; done)
        | (rename_i i t; cases t <;> first | (cases this; done) | (intro e; cases e))
  refine C13.applyUpdates_all (P := fun r => ∀ s, r.getType ≠ .name s) ?_ upd noName0
  intro r v hr s
  cases r <;> first | exact hr s | (intro e; cases e)

theorem start_inv {uid : Nat} {src : List Char} {ds : List Decl} {evs : List Event} {sc0 : Scope}
    (hp : parseSource src = some (ds, evs)) (h0 : declareAll (Scope.new uid) ds = .ok sc0)
    (upd : List (Name × Nat)) :
    Inv (applyUpdates sc0 upd) := by
  refine ⟨?_, ?_⟩
  · intro n r s hg hs
    exact absurd hs (start_noName hp h0 upd n r hg s)
  · have i0 := C03.declareAll_inv2 uid ds (C03.parseSource_decl_names src ds evs hp) sc0 h0
    exact (C03.applyUpdates_inv2 i0 upd).flag

/-! ## T-A

The statement as first proposed. It was FALSE for the compiler before the repair F11 (counter-example
`cexSrc` in `CompileLower2.lean`) and was then proved under the added hypothesis
`DefBeforeUse ds evs = true`. For the repaired compiler it holds as proposed, with no such hypothesis. -/

/-- **T-A (`compile ⊑ lower`).** On a program of the fragment `InOracle` (pure conditions; statements that bind
value expressions — pure, or with hazard-free nested binds — or conditionals / ewma over such operands) that
the compiler and the encoder accept, the compiler emits exactly the reference lowering under the final scope —
whether or not names are read before they are assigned. (`noHazard` is not used by this half: the compiler
agrees with the lowering on every program whose expressions have these *shapes*; hazard freedom is what makes
the lowering compute the source semantics.) -/
theorem compile_refines_lower (uid : Nat) (src : List Char) (upd : List (Name × Nat)) (ds : List Decl)
    (evs : List Event) (sc0 : Scope) (bin : Bin) (scF : Scope) (img : Bytes)
    (hp : parseSource src = some (ds, evs))
    (h0 : declareAll (Scope.new uid) ds = .ok sc0)
    (hc : compileProg evs (applyUpdates sc0 upd) = .ok (bin, scF))
    (hst : InOracle evs = true)
    (hser : bin.serialize = .ok img) :
    lowerProg (fun n => (scF.get n).map toVReg) ((defInstrs (applyUpdates sc0 upd).named).map toVInstr) evs =
      some ⟨bin.events.map (fun e => ({ condStart := e.flagIdx, numCond := e.numFlag, eventStart := e.bodyIdx,
                                         numEvent := e.numBody } : Libccp.Expr)),
            bin.instrs.map toVInstr⟩ := by
  have hsi := serI_of_serialize hser
  unfold compileProg at hc
  obtain ⟨cp, hcp, hc⟩ := Out.bind_eq_ok.mp hc
  simp only [Out.pure_eq, Out.ok.injEq, Prod.mk.injEq] at hc
  obtain ⟨rfl, rfl⟩ := hc
  simp only at hsi
  have key := compileEvents_lower (scF := cp.sc) hst (start_inv hp h0 upd) hcp (Reach.refl _)
    (fun i hi => hsi i (List.mem_append_right _ hi))
  unfold lowerProg
  rw [List.length_map]
  show Option.map _ (lowerEvents (rhoOf cp.sc) evs _) = _
  rw [key]
  simp only [Option.map_some, List.map_append]
  rfl

end Portus.Lang.Frag
