import PortusModel.Lang.Typing
import PortusModel.Lemmas.ScopeLemmas
import PortusModel.Lemmas.CompileInv
import PortusModel.Props.C13
/-!
# C20, acceptance: every well-typed program is compiled and serialized

`well_typed_accepted` (`Accept2.lean`): a parsed program that passes `Typing.WellTyped` is accepted by
`compile` and its image by `Bin.serialize`.

This file: what serializes, the relation between a typing environment and a register file, the stage
lemma for *pure* expressions (`compile_pure`) and pure conditions (`compile_flag`; both for the former
check, `checkCond`), the arms of `Op::Bind`, the invariant between statements. Expressions with
assignments used as values, statements, conditions with assignments (`compile_flagV`), bodies and
events are in `AcceptValue.lean`.
-/
namespace Portus.Lang.Typing
open Portus Portus.Lang

/-! ## What serializes -/

def regOk (r : Reg) : Bool :=
  match r.classIdx with
  | .ok _ => true
  | _ => false

def opOk (o : Op) : Bool :=
  match serializeOp o with
  | .ok _ => true
  | _ => false

def instrOk (i : Instr) : Bool := opOk i.op && regOk i.res && regOk i.left && regOk i.right

theorem regOk_ser {r : Reg} (h : regOk r = true) : ∃ b, r.serialize = .ok b := by
  unfold regOk at h
  unfold Reg.serialize
  cases hc : r.classIdx with
  | ok p => exact ⟨_, rfl⟩
  | err => rw [hc] at h; cases h
  | panic => rw [hc] at h; cases h

theorem instrOk_ser {i : Instr} (h : instrOk i = true) : ∃ b, i.serialize = .ok b := by
  unfold instrOk at h
  simp only [Bool.and_eq_true] at h
  obtain ⟨⟨⟨h1, h2⟩, h3⟩, h4⟩ := h
  obtain ⟨b2, e2⟩ := regOk_ser h2
  obtain ⟨b3, e3⟩ := regOk_ser h3
  obtain ⟨b4, e4⟩ := regOk_ser h4
  unfold opOk at h1
  unfold Instr.serialize
  cases e1 : serializeOp i.op with
  | ok o => rw [e2, e3, e4]; exact ⟨_, rfl⟩
  | err => rw [e1] at h1; cases h1
  | panic => rw [e1] at h1; cases h1

theorem instrs_ser {is : List Instr} (h : ∀ i ∈ is, instrOk i = true) : ∃ b, serializeInstrs is = .ok b := by
  induction is with
  | nil => exact ⟨[], rfl⟩
  | cons i rest ih =>
    obtain ⟨b, e⟩ := instrOk_ser (h i List.mem_cons_self)
    obtain ⟨b', e'⟩ := ih (fun j hj => h j (List.mem_cons_of_mem _ hj))
    unfold serializeInstrs
    rw [e, e']
    exact ⟨_, rfl⟩

theorem regOk_ne_none {r : Reg} (h : regOk r = true) : r ≠ .none := by
  intro e; subst e; cases h

theorem regOk_immNum {n : Nat} (h : litOk n = true) : regOk (.immNum n) = true := by
  unfold litOk at h
  simp only [Bool.or_eq_true, decide_eq_true_eq] at h
  simp only [regOk, Reg.classIdx]
  rw [if_pos (by omega)]

theorem regOk_immBool (b : Bool) : regOk (.immBool b) = true := rfl

theorem regOk_tmp {i : Nat} (t : Lang.Ty) (h : i ≤ 7) : regOk (.tmp i t) = true := by
  simp only [regOk, Reg.classIdx]
  rw [if_neg (by omega)]

/-! ## The relation between a typing environment and a register file -/

def tyMatch : Ty → Lang.Ty → Bool
  | .num, .num _ => true
  | .bool, .bool _ => true
  | _, _ => false

def kindOk : Kind → Reg → Bool
  | .prim, .primitive i _ => decide (i ≤ 15)
  | .impl, .implicit i _ => decide (i ≤ 5)
  | .var, .report i _ _ => decide (i ≤ 15)
  | .var, .control i _ _ => decide (i ≤ 15)
  | .loc, .local i _ => decide (i ≤ 5)
  | _, _ => false

theorem kindOk_regOk {k : Kind} {r : Reg} (h : kindOk k r = true) : regOk r = true := by
  cases k <;> cases r <;> simp only [kindOk, decide_eq_true_eq, Bool.false_eq_true] at h <;>
    (simp only [regOk, Reg.classIdx]; rw [if_neg (by omega)])

theorem tyMatch_num {t : Lang.Ty} (h : tyMatch .num t = true) : isNumTy t = true := by
  cases t <;> simp_all [tyMatch, isNumTy]

theorem tyMatch_bool {t : Lang.Ty} (h : tyMatch .bool t = true) : isBoolTy t = true := by
  cases t <;> simp_all [tyMatch, isBoolTy]

theorem tyMatch_not_name {τ : Ty} {t : Lang.Ty} (h : tyMatch τ t = true) (s : Name) : t ≠ .name s := by
  intro e; subst e; cases τ <;> cases h

/-- every name of `Γ` is bound to a register of its kind, inside the encoder's index range, whose
recorded type is the type `Γ` gives -/
def Fwd (Γ : Env) (named : List (Name × Reg)) : Prop :=
  ∀ x k τ, lookup x Γ = some (k, τ) →
    ∃ r, regGet x named = some r ∧ kindOk k r = true ∧ tyMatch τ r.getType = true

/-! ## Pure expressions -/

/-- the operator actually emitted (`&&`, `||` are lowered to `*`, `+`) -/
def lowerOp (o : Op) : Op := if o = .and then .mul else if o = .or then .add else o

def resTy : Ty → Lang.Ty
  | .num => .num none
  | .bool => .bool none

set_option linter.unusedSimpArgs false in
theorem combine_sig {o : Op} {a res : Ty} (hs : opSig o = some (a, res)) (is : List Instr) {left right : Reg}
    (hl : tyMatch a left.getType = true) (hr : tyMatch a right.getType = true) (sc : Scope) :
    combine o is left right sc =
      .ok ⟨is ++ [{ res := .tmp (sc.tmp.length % 256) (resTy res), op := lowerOp o, left := left, right := right }],
           .tmp (sc.tmp.length % 256) (resTy res),
           { sc with tmp := sc.tmp ++ [.tmp (sc.tmp.length % 256) (resTy res)] }⟩ := by
  cases o <;> simp only [opSig, Option.some.injEq, Prod.mk.injEq, reduceCtorEq] at hs <;>
    obtain ⟨rfl, rfl⟩ := hs
  all_goals first
    | (have h1 := tyMatch_num hl; have h2 := tyMatch_num hr
       simp only [combine, h1, h2, Bool.not_true, Bool.false_eq_true, if_false, Scope.newTmp, resTy, lowerOp,
         reduceCtorEq, if_true])
    | (have h1 := tyMatch_bool hl; have h2 := tyMatch_bool hr
       simp only [combine, h1, h2, Bool.not_true, Bool.false_eq_true, if_false, Scope.newTmp, resTy, lowerOp,
         reduceCtorEq, if_true])

theorem opOk_lowerOp {o : Op} {a res : Ty} (hs : opSig o = some (a, res)) : opOk (lowerOp o) = true := by
  cases o <;> simp only [opSig, reduceCtorEq] at hs <;> rfl

theorem compileExpr_atom (p : Prim) (sc : Scope) : compileExpr (.atom p) sc = compileAtom p sc := by
  rw [compileExpr]

theorem compileExpr_sexp (o : Op) (l r : Expr) (sc : Scope) :
    compileExpr (.sexp o l r) sc =
      (compileExpr l sc >>= fun cl => compileExpr r cl.sc >>= fun cr =>
        combine o (cl.instrs ++ cr.instrs) cl.reg cr.reg cr.sc) := by
  rw [compileExpr]

/-- **Stage lemma, pure expressions.** A pure expression of type `τ` compiles in every scope whose
register file agrees with `Γ`; only temporaries are allocated (`tmps e` of them), the value
register has type `τ` and every emitted instruction serializes. -/
theorem compile_pure {Γ : Env} {named : List (Name × Reg)} (hf : Fwd Γ named) :
    ∀ (e : Expr) (τ : Ty), typeOf Γ e = some τ → Frag.litsOkE e = true →
    ∀ sc : Scope, sc.named = named → sc.tmp.length + tmps e ≤ 8 →
    ∃ c, compileExpr e sc = .ok c ∧ c.sc.named = named ∧ c.sc.numLocal = sc.numLocal ∧
      c.sc.tmp.length = sc.tmp.length + tmps e ∧
      tyMatch τ c.reg.getType = true ∧ regOk c.reg = true ∧ (∀ i ∈ c.instrs, instrOk i = true) ∧
      (∀ o l r, e = .sexp o l r → c.instrs ≠ [] ∧ ∃ i t, c.reg = .tmp i t) ∧
      (∀ b, e = .atom (.bool b) → c.reg = .immBool b ∧ c.instrs = []) := by
  intro e
  induction e with
  | atom p =>
    intro τ hty hlit sc hn htmp
    rw [compileExpr_atom]
    cases p with
    | bool b =>
      simp only [typeOf, Option.some.injEq] at hty
      subst hty
      refine ⟨⟨[], .immBool b, sc⟩, rfl, hn, rfl, by simp [tmps], rfl, rfl, by simp, by simp, ?_⟩
      intro b' hb'
      simp only [Expr.atom.injEq, Prim.bool.injEq] at hb'
      subst hb'
      exact ⟨rfl, rfl⟩
    | num n =>
      simp only [typeOf, Option.some.injEq] at hty
      subst hty
      have hl : litOk n = true := hlit
      exact ⟨⟨[], .immNum n, sc⟩, rfl, hn, rfl, by simp [tmps], rfl, regOk_immNum hl, by simp, by simp, by simp⟩
    | name x =>
      simp only [typeOf] at hty
      cases hlk : lookup x Γ with
      | none => rw [hlk] at hty; cases hty
      | some kt =>
        obtain ⟨k, τ'⟩ := kt
        rw [hlk] at hty
        simp only [Option.map_some, Option.some.injEq] at hty
        subst hty
        obtain ⟨r, hg, hk, ht⟩ := hf x k τ' hlk
        have hg' : sc.get x = some r := by unfold Scope.get; rw [hn]; exact hg
        refine ⟨⟨[], r, sc⟩, ?_, hn, rfl, by simp [tmps], ht, kindOk_regOk hk, by simp, by simp, by simp⟩
        simp only [compileAtom, hg']
  | cmd c => intro τ hty; simp [typeOf] at hty
  | none => intro τ hty; simp [typeOf] at hty
  | sexp o l r ihl ihr =>
    intro τ hty hlit sc hn htmp
    simp only [typeOf] at hty
    cases hs : opSig o with
    | none => rw [hs] at hty; simp at hty
    | some ar =>
      obtain ⟨a, res⟩ := ar
      cases hl : typeOf Γ l with
      | none => rw [hs, hl] at hty; simp at hty
      | some tl =>
        cases hr : typeOf Γ r with
        | none => rw [hs, hl, hr] at hty; simp at hty
        | some tr =>
          rw [hs, hl, hr] at hty
          simp only at hty
          split at hty
          · rename_i hand
            obtain ⟨rfl, rfl⟩ := hand
            simp only [Option.some.injEq] at hty
            subst hty
            simp only [Frag.litsOkE, Bool.and_eq_true] at hlit
            have htm : tmps (.sexp o l r) = 1 + tmps l + tmps r := by simp [tmps, hs]
            rw [htm] at htmp
            obtain ⟨cl, e1, n1, l1, t1, m1, k1, i1, _, _⟩ := ihl _ hl hlit.1 sc hn (by omega)
            obtain ⟨cr, e2, n2, l2, t2, m2, k2, i2, _, _⟩ := ihr _ hr hlit.2 cl.sc n1 (by omega)
            rw [compileExpr_sexp, e1, Out.bind_ok, e2, Out.bind_ok, combine_sig hs _ m1 m2]
            have hlen : cr.sc.tmp.length % 256 = sc.tmp.length + tmps l + tmps r := by
              rw [t2, t1]; omega
            refine ⟨_, rfl, n2, by rw [← l1, ← l2], ?_, ?_, ?_, ?_, ?_, by simp⟩
            · simp only [List.length_append, List.length_cons, List.length_nil]
              rw [htm, t2, t1]; omega
            · cases res <;> rfl
            · exact regOk_tmp _ (by rw [hlen]; omega)
            · intro i hi
              simp only [List.mem_append, List.mem_singleton] at hi
              rcases hi with (hi | hi) | rfl
              · exact i1 i hi
              · exact i2 i hi
              · simp only [instrOk, Bool.and_eq_true]
                exact ⟨⟨⟨opOk_lowerOp hs, regOk_tmp _ (by rw [hlen]; omega)⟩, k1⟩, k2⟩
            · intro o' l' r' _
              exact ⟨by simp, _, _, rfl⟩
          · cases hty

/-! ## The `Op::Bind` arm on a typed target (the untyped target is in `AcceptValue.lean`) -/

theorem compileAtom_known {sc : Scope} {x : Name} {r : Reg} (hg : sc.get x = some r) :
    compileAtom (.name x) sc = .ok ⟨[], r, sc⟩ := by
  simp only [compileAtom, hg]

theorem compileAtom_new {sc : Scope} {x : Name} (hg : sc.get x = none) (hn : sc.numLocal < 255) :
    compileAtom (.name x) sc =
      .ok ⟨[], .local sc.numLocal (.name x),
           { sc with numLocal := sc.numLocal + 1,
                     named := regInsert x (.local sc.numLocal (.name x)) sc.named }⟩ := by
  simp only [compileAtom, hg]
  rw [if_neg (by omega), Scope.newLocal_eq, if_pos (by omega)]
  rfl

theorem combineBind_typed {left right : Reg} (sc : Scope) (is : List Instr)
    (hnn : ∀ s, left.getType ≠ .name s) (hr : right ≠ .none) (hl : (isRC left || isTIL left) = true) :
    combineBind is left right sc =
      .ok ⟨is ++ [{ res := left, op := .bind, left := left, right := right }], left, sc⟩ := by
  have hbt : bindTarget left right sc = .ok (left, sc) := by
    unfold bindTarget
    cases h : left.getType with
    | name s => exact absurd h (hnn s)
    | _ => rfl
  unfold combineBind
  rw [hbt]
  simp only [bindEmit]
  rw [if_neg hr, if_pos hl]

theorem combineBind_guarded {left : Reg} (sc : Scope) (pre : List Instr) (last : Instr)
    (hnn : ∀ s, left.getType ≠ .name s) (hl : isRC left = true) (hlast : last.res = .none) :
    combineBind (pre ++ [last]) left .none sc = .ok ⟨pre ++ [{ last with res := left }], left, sc⟩ := by
  have hbt : bindTarget left .none sc = .ok (left, sc) := by
    unfold bindTarget
    cases h : left.getType with
    | name s => exact absurd h (hnn s)
    | _ => rfl
  unfold combineBind
  rw [hbt]
  simp only [bindEmit]
  rw [if_pos True.intro, if_pos hl]
  simp only [List.getLast?_append, List.getLast?_singleton, Option.some_or]
  rw [if_pos hlast, setLastRes_append]

theorem kindOk_assignable {k : Kind} {r : Reg} (h : kindOk k r = true) (hk : notReadOnly k = true) :
    (isRC r || isTIL r) = true := by
  cases k <;> cases r <;> simp_all [kindOk, notReadOnly, isRC, isTIL]

theorem kindOk_var {r : Reg} (h : kindOk .var r = true) : isRC r = true := by
  cases r <;> simp_all [kindOk, isRC]

theorem combine_bind (is : List Instr) (l r : Reg) (sc : Scope) :
    combine .bind is l r sc = combineBind is l r sc := rfl

theorem combine_guard {o : Op} (ho : o = .if ∨ o = .notIf ∨ o = .ewma) (is : List Instr) {left right : Reg}
    (sc : Scope) (hl : left ≠ .none) (hr : right ≠ .none) :
    combine o is left right sc =
      .ok ⟨is ++ [{ res := .none, op := o, left := left, right := right }], .none, sc⟩ := by
  rcases ho with rfl | rfl | rfl <;> simp only [combine, hl, hr, or_self, if_false]

/-! ## The invariant between statements -/

structure Inv (Γ : Env) (sc : Scope) : Prop where
  fwd : Fwd Γ sc.named
  /-- nothing else is bound: an unknown name gets a new local -/
  bwd : ∀ x, lookup x Γ = none → regGet x sc.named = none
  nloc : sc.numLocal = numLocals Γ
  flag : (lookup flagName Γ).isSome = true

theorem Inv.congr {Γ : Env} {sc sc' : Scope} (hi : Inv Γ sc) (hn : sc'.named = sc.named)
    (hl : sc'.numLocal = sc.numLocal) : Inv Γ sc' :=
  ⟨by rw [hn]; exact hi.fwd, by rw [hn]; exact hi.bwd, by rw [hl]; exact hi.nloc, hi.flag⟩

theorem lookup_cons (y : Name) (x : Name) (kt : Kind × Ty) (Γ : Env) :
    lookup y ((x, kt) :: Γ) = if x = y then some kt else lookup y Γ := rfl

theorem lookup_ne_of_none_some {Γ : Env} {x y : Name} {kt : Kind × Ty} (hx : lookup x Γ = none)
    (hy : lookup y Γ = some kt) : y ≠ x := by
  intro e; subst e; rw [hx] at hy; cases hy

theorem checkPlain_some {Γ Γ' : Env} {x : Name} {e : Expr} (h : checkPlain Γ x e = some Γ') :
    ∃ τ, typeOf Γ e = some τ ∧
      ((∃ k τx, lookup x Γ = some (k, τx) ∧ notReadOnly k = true ∧ Γ' = Γ) ∨
       (lookup x Γ = none ∧ numLocals Γ < 6 ∧ Γ' = (x, Kind.loc, τ) :: Γ)) := by
  unfold checkPlain at h
  cases hty : typeOf Γ e with
  | none => rw [hty] at h; cases h
  | some τ =>
    rw [hty] at h
    simp only at h
    refine ⟨τ, rfl, ?_⟩
    cases hlk : lookup x Γ with
    | none =>
      rw [hlk] at h
      simp only at h
      split at h
      · rename_i hlt
        simp only [Option.some.injEq] at h
        exact Or.inr ⟨rfl, hlt, h.symm⟩
      · cases h
    | some kt =>
      obtain ⟨k, τx⟩ := kt
      rw [hlk] at h
      simp only at h
      split at h
      · rename_i hk
        simp only [Option.some.injEq] at h
        exact Or.inl ⟨k, τx, rfl, hk, h.symm⟩
      · cases h

theorem checkGuarded_some {Γ Γ' : Env} {x : Name} {c v : Expr} (h : checkGuarded Γ x c v = some Γ') :
    Γ' = Γ ∧ guardedTargetDeclared Γ x = true ∧ typeOf Γ c = some .bool ∧ ∃ τv, typeOf Γ v = some τv := by
  unfold checkGuarded at h
  split at h
  · rename_i hc
    simp only [Bool.and_eq_true, decide_eq_true_eq] at hc
    simp only [Option.some.injEq] at h
    exact ⟨h.symm, hc.1.1, hc.1.2, Option.isSome_iff_exists.mp hc.2⟩
  · cases h

theorem checkEwma_some {Γ Γ' : Env} {x : Name} {a v : Expr} (h : checkEwma Γ x a v = some Γ') :
    Γ' = Γ ∧ guardedTargetDeclared Γ x = true ∧ typeOf Γ a = some .num ∧ typeOf Γ v = some .num := by
  unfold checkEwma at h
  split at h
  · rename_i hc
    simp only [Bool.and_eq_true, decide_eq_true_eq] at hc
    simp only [Option.some.injEq] at h
    exact ⟨h.symm, hc.1.1, hc.1.2, hc.2⟩
  · cases h

theorem tmps_guard {o : Op} (ho : o = .if ∨ o = .notIf ∨ o = .ewma) (c v : Expr) :
    tmps (.sexp o c v) = tmps c + tmps v := by
  rcases ho with rfl | rfl | rfl <;> simp [tmps, opSig]

/-! ## Conditions -/

theorem Inv.clearTmps {Γ : Env} {sc : Scope} (hi : Inv Γ sc) : Inv Γ sc.clearTmps := hi.congr rfl rfl

theorem instrOk_setLastRes {is : List Instr} {r : Reg} (h : ∀ i ∈ is, instrOk i = true) (hr : regOk r = true) :
    ∀ i ∈ setLastRes is r, instrOk i = true := by
  intro i hi
  obtain ⟨i0, h0, e | e⟩ := mem_setLastRes hi
  · rw [e]; exact h i0 h0
  · have := h i0 h0
    simp only [instrOk, Bool.and_eq_true] at this ⊢
    rw [e]
    exact ⟨⟨⟨this.1.1.1, hr⟩, this.1.2⟩, this.2⟩

/-- **Stage lemma, conditions.** -/
theorem compile_flag {Γ : Env} {sc : Scope} {f : Expr} (hi : Inv Γ sc) (hc : checkCond Γ f = true)
    (hlit : Frag.litsOkE f = true) :
    ∃ is sc', compileFlag f sc = .ok (is, sc') ∧ Inv Γ sc' ∧ ∀ i ∈ is, instrOk i = true := by
  simp only [checkCond, maxTmps, Bool.and_eq_true, decide_eq_true_eq] at hc
  obtain ⟨⟨hty, hshape⟩, htmp⟩ := hc
  obtain ⟨c, e1, n1, l1, _, m1, k1, i1, hsexp, hbool⟩ :=
    compile_pure hi.clearTmps.fwd f .bool hty hlit sc.clearTmps rfl
      (by show ([] : List Reg).length + tmps f ≤ 8
          have := of_decide_eq_true htmp
          simpa using this)
  obtain ⟨kt, hfl⟩ := Option.isSome_iff_exists.mp hi.flag
  obtain ⟨fr, hg, hk, _⟩ := hi.fwd flagName kt.1 kt.2 hfl
  have hfr : regOk fr = true := kindOk_regOk hk
  have hg' : c.sc.get "__eventFlag".toList = some fr := by
    show regGet flagName c.sc.named = some fr
    rw [n1]; exact hg
  have hinv : Inv Γ c.sc := hi.congr n1 l1
  unfold compileFlag
  rw [e1, Out.bind_ok, hg']
  simp only [unwrapP, Out.bind_ok]
  cases f with
  | atom p =>
    cases p with
    | bool b =>
      obtain ⟨hr, his⟩ := hbool b rfl
      rw [hr, his]
      refine ⟨_, _, rfl, hinv, ?_⟩
      intro i hi'
      simp only [List.nil_append, List.mem_singleton] at hi'
      subst hi'
      simp only [instrOk, Bool.and_eq_true]
      exact ⟨⟨⟨rfl, hfr⟩, hfr⟩, rfl⟩
    | name x => cases hshape
    | num n => cases hshape
  | sexp o l r =>
    obtain ⟨hne, i, t, hr⟩ := hsexp o l r rfl
    rw [hr] at m1
    have : ∃ v, t = .bool v := by
      cases t <;> simp only [tyMatch, Reg.getType, Bool.false_eq_true] at m1
      exact ⟨_, rfl⟩
    obtain ⟨v, rfl⟩ := this
    rw [hr]
    simp only
    rw [if_neg (by simpa using hne)]
    exact ⟨_, _, rfl, hinv, instrOk_setLastRes i1 hfr⟩
  | cmd c => cases hshape
  | none => cases hshape

/-! ## The `Stratified` conjunct of `WellTypedStratified` (the former check) is implied by its typing conjunct

(it excludes nothing that `checkEvents` lets through: `Accept2.wellTypedStratified_eq`) -/

theorem typeOf_pure {Γ : Env} : ∀ (e : Expr) (τ : Ty), typeOf Γ e = some τ → Frag.pureE e = true := by
  intro e
  induction e with
  | atom p => intro τ _; rfl
  | cmd c => intro τ h; simp [typeOf] at h
  | none => intro τ h; simp [typeOf] at h
  | sexp o l r ihl ihr =>
    intro τ h
    simp only [typeOf] at h
    cases hs : opSig o with
    | none => rw [hs] at h; simp at h
    | some ar =>
      cases hl : typeOf Γ l with
      | none => rw [hs, hl] at h; simp at h
      | some tl =>
        cases hr : typeOf Γ r with
        | none => rw [hs, hl, hr] at h; simp at h
        | some tr =>
          have h1 := ihl tl hl
          have h2 := ihr tr hr
          cases o <;> simp only [opSig, reduceCtorEq] at hs <;> simp only [Frag.pureE, h1, h2, Bool.and_self]

theorem checkStmt_stmtOk {Γ Γ' : Env} {e : Expr} (hs : checkStmt Γ e = some Γ') : Frag.stmtOk e = true := by
  unfold checkStmt at hs
  split at hs
  · rfl
  · rename_i x rhs
    split at hs
    · rename_i htmp
      unfold checkRhs at hs
      split at hs
      · rename_i o l r
        split at hs
        · obtain ⟨_, _, hc, τv, hv⟩ := checkGuarded_some hs
          simp only [Frag.stmtOk, typeOf_pure _ _ hc, typeOf_pure _ _ hv, Bool.and_self]
        · obtain ⟨_, _, hc, τv, hv⟩ := checkGuarded_some hs
          simp only [Frag.stmtOk, typeOf_pure _ _ hc, typeOf_pure _ _ hv, Bool.and_self]
        · obtain ⟨_, _, hc, hv⟩ := checkEwma_some hs
          simp only [Frag.stmtOk, typeOf_pure _ _ hc, typeOf_pure _ _ hv, Bool.and_self]
        · obtain ⟨τ, hty, _⟩ := checkPlain_some hs
          have hp := typeOf_pure _ _ hty
          cases o <;> first | (simp only [Frag.stmtOk]; exact hp) | (simp [Frag.pureE] at hp)
      · rename_i hns
        obtain ⟨τ, hty, _⟩ := checkPlain_some hs
        have hp := typeOf_pure _ _ hty
        cases rhs with
        | sexp o l r => exact absurd rfl (hns o l r)
        | atom p => simp only [Frag.stmtOk]; exact hp
        | cmd c => simp [Frag.pureE] at hp
        | none => simp [Frag.pureE] at hp
    · cases hs
  · cases hs

theorem checkBody_stmtOk {Γ' : Env} : ∀ (body : List Expr) (Γ : Env), checkBody Γ body = some Γ' →
    body.all Frag.stmtOk = true := by
  intro body
  induction body with
  | nil => intro Γ _; rfl
  | cons e rest ih =>
    intro Γ h
    simp only [checkBody] at h
    cases hs : checkStmt Γ e with
    | none => rw [hs] at h; cases h
    | some Γ1 =>
      rw [hs] at h
      simp only [List.all_cons, Bool.and_eq_true]
      exact ⟨checkStmt_stmtOk hs, ih Γ1 h⟩

theorem checkEvents_stratified {Γ' : Env} : ∀ (evs : List Event) (Γ : Env), checkEvents Γ evs = some Γ' →
    Frag.Stratified evs = true := by
  intro evs
  induction evs with
  | nil => intro Γ _; rfl
  | cons ev rest ih =>
    intro Γ h
    simp only [checkEvents] at h
    split at h
    · rename_i hc
      cases hb : checkBody Γ ev.body with
      | none => rw [hb] at h; cases h
      | some Γ1 =>
        rw [hb] at h
        simp only [checkCond, Bool.and_eq_true, decide_eq_true_eq] at hc
        have := ih Γ1 h
        simp only [Frag.Stratified, List.all_cons, Bool.and_eq_true] at this ⊢
        exact ⟨⟨typeOf_pure _ _ hc.1.1, checkBody_stmtOk _ _ hb⟩, this⟩
    · cases h

end Portus.Lang.Typing
