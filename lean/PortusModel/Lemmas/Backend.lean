import PortusModel.Ipc.Backend
import PortusModel.Lemmas.WireDec
/-! The receive path yields a function of the datagram script alone (used by Props/C08, C16). -/
namespace Portus.Ipc
open Portus Portus.Wire

/-- The messages one datagram `s` from sender `a` denotes: decode from the front until the bytes
are used up (`clean = true`) or a message fails to decode (`clean = false`: reception stops). -/
def decodeSeq : Nat → Addr → Bytes → List (Msg × Addr) × Bool
  | 0, _, _ => ([], true)
  | f + 1, a, s =>
    if s.isEmpty then ([], true)
    else match fromBuf s with
      | .ok (m, n) => let r := decodeSeq f a (s.drop n); ((m, a) :: r.1, r.2)
      | _ => ([], false)

/-- **Specification of reception**: a function of the script only — no buffer, no cursors. -/
def specRun : List Rx → List (Msg × Addr)
  | [] => []
  | .stop :: _ => []
  | .recvErr :: r => specRun r
  | .sf _ :: r => specRun r
  | .dgram a d :: r =>
    let d' := d.take 1024
    if d'.length = 0 then specRun r
    else
      let q := decodeSeq (d'.length + 1) a d'
      if q.2 then q.1 ++ specRun r else q.1

structure Inv (b : Backend) : Prop where
  len : b.buf.length = 1024
  ru : b.readUntil ≤ b.totRead
  tr : b.totRead ≤ 1024

def window (b : Backend) : Bytes := (b.buf.drop b.readUntil).take (b.totRead - b.readUntil)

def pendingSpec (b : Backend) (rx : List Rx) : List (Msg × Addr) :=
  let q := decodeSeq ((window b).length + 1) b.lastAddr (window b)
  if q.2 then q.1 ++ specRun rx else q.1

def measure (b : Backend) (rx : List Rx) : Nat := (b.totRead - b.readUntil) + rxFuel rx

theorem rxFuel_pos (rx : List Rx) : 0 < rxFuel rx := by
  cases rx with
  | nil => simp [rxFuel]
  | cons x r => cases x <;> simp [rxFuel] <;> omega

theorem fromBuf_consumed {s : Bytes} {m : Msg} {n : Nat} (h : fromBuf s = .ok (m, n)) (hs : s ≠ []) :
    1 ≤ n ∧ n ≤ s.length := by
  rw [fromBuf_eq] at h
  split at h
  · cases h
  · simp at h
    have : 0 < s.length := List.length_pos_iff.mpr hs
    omega
  · rename_i r hr
    have := deserialize_ok hr
    cases hm : fromRaw r <;> simp [hm] at h
    omega

theorem decodeSeq_fuel' (f f' : Nat) (a : Addr) (s : Bytes) (h : s.length < f) (h' : s.length < f') :
    decodeSeq f a s = decodeSeq f' a s := by
  induction f generalizing f' s with
  | zero => omega
  | succ k ih =>
    cases f' with
    | zero => omega
    | succ k' =>
      unfold decodeSeq
      by_cases he : s.isEmpty
      · simp [he]
      · simp only [he]
        have hs : s ≠ [] := by simpa using he
        cases hfb : fromBuf s with
        | panic => rfl
        | err => rfl
        | ok p =>
          obtain ⟨m, n⟩ := p
          have ⟨h1, h2⟩ := fromBuf_consumed hfb hs
          have hl : (s.drop n).length < k := by simp; omega
          have hl' : (s.drop n).length < k' := by simp; omega
          simp only
          rw [ih k' _ hl hl']

theorem decodeSeq_fuel (f : Nat) (a : Addr) (s : Bytes) (h : s.length < f) :
    decodeSeq f a s = decodeSeq (s.length + 1) a s :=
  decodeSeq_fuel' f (s.length + 1) a s h (by omega)

theorem window_length (b : Backend) (h : Inv b) : (window b).length = b.totRead - b.readUntil := by
  have := h.len; have := h.ru; have := h.tr
  simp [window]; omega

/-- one `next` step while bytes of the current datagram are pending -/
theorem step_pending (fuel : Nat) (b : Backend) (rx : List Rx)
    (IH : ∀ b rx, Inv b → measure b rx ≤ fuel → run fuel b rx = .ok (pendingSpec b rx))
    (hinv : Inv b) (hlt : b.readUntil < b.totRead) (hm : measure b rx ≤ fuel + 1) :
    run (fuel + 1) b rx = .ok (pendingSpec b rx) := by
  have hl := hinv.len; have htr := hinv.tr
  have hwl := window_length b hinv
  have hsl : sliceP b.buf b.readUntil b.totRead = .ok (window b) :=
    sliceP_ok _ _ _ ⟨by omega, by omega⟩
  have hne : window b ≠ [] := by
    intro h; rw [h] at hwl; simp at hwl; omega
  have hemp : (window b).isEmpty = false := by simpa using hne
  unfold run next
  simp only [hlt, if_true, parseAt, hsl, Out.bind_ok]
  unfold pendingSpec
  cases hfb : fromBuf (window b) with
  | panic => exact absurd hfb (fromBuf_no_panic _)
  | err =>
    simp only [Out.bind_ok, Out.pure_eq]
    rw [decodeSeq]; simp [hemp, hfb]
  | ok p =>
    obtain ⟨m, n⟩ := p
    have ⟨h1, h2⟩ := fromBuf_consumed hfb hne
    simp only [Out.bind_ok]
    let b' : Backend := { b with readUntil := b.readUntil + n }
    have hinv' : Inv b' := ⟨hl, by show b.readUntil + n ≤ b.totRead; omega, htr⟩
    have hm' : measure b' rx ≤ fuel := by
      unfold measure at hm ⊢
      show b.totRead - (b.readUntil + n) + rxFuel rx ≤ fuel
      omega
    have hw' : window b' = (window b).drop n := by
      show (b.buf.drop (b.readUntil + n)).take (b.totRead - (b.readUntil + n)) = _
      unfold window
      rw [List.drop_take, List.drop_drop]
      congr 1; omega
    rw [IH b' rx hinv' hm']
    simp only [Out.bind_ok, Out.pure_eq]
    unfold pendingSpec
    rw [hw']
    conv => rhs; rw [decodeSeq]
    simp only [hemp, hfb, Bool.false_eq_true, if_false]
    have hfu : decodeSeq (window b).length b.lastAddr ((window b).drop n)
        = decodeSeq (((window b).drop n).length + 1) b.lastAddr ((window b).drop n) :=
      decodeSeq_fuel _ _ _ (by simp; omega)
    rw [hfu]
    have hla : b'.lastAddr = b.lastAddr := rfl
    rw [hla]
    show _ = Out.ok (if _ then _ else _)
    split <;> simp_all

end Portus.Ipc

namespace Portus.Ipc
open Portus Portus.Wire

/-- What `get_next_read` establishes, against the specification. -/
theorem getNextRead_spec (b : Backend) (rx : List Rx) (hl : b.buf.length = 1024) :
    match getNextRead b rx with
    | (none, _, _) => specRun rx = []
    | (some r, b', rx') =>
      0 < r ∧ r ≤ 1024 ∧ b'.buf.length = 1024 ∧ r + rxFuel rx' < rxFuel rx ∧
      specRun rx = (let q := decodeSeq (r + 1) b'.lastAddr (b'.buf.take r)
                    if q.2 then q.1 ++ specRun rx' else q.1) := by
  induction rx generalizing b with
  | nil => simp [getNextRead, specRun]
  | cons x rest ih =>
    cases x with
    | stop => simp [getNextRead, specRun]
    | recvErr =>
      simp only [getNextRead, specRun]
      have := ih b hl
      generalize getNextRead b rest = g at this ⊢
      obtain ⟨o, b', rx'⟩ := g
      cases o with
      | none => simpa using this
      | some r =>
        simp only at this ⊢
        obtain ⟨h1, h2, h3, h4, h5⟩ := this
        exact ⟨h1, h2, h3, by simp [rxFuel]; omega, h5⟩
    | sf k =>
      simp only [getNextRead, specRun]
      have := ih b hl
      generalize getNextRead b rest = g at this ⊢
      obtain ⟨o, b', rx'⟩ := g
      cases o with
      | none => simpa using this
      | some r =>
        simp only at this ⊢
        obtain ⟨h1, h2, h3, h4, h5⟩ := this
        exact ⟨h1, h2, h3, by simp [rxFuel]; omega, h5⟩
    | dgram a d =>
      simp only [getNextRead, recvInto, hl]
      by_cases h0 : (d.take 1024).length = 0
      · simp only [h0, if_true]
        have hd : d.take 1024 = [] := List.eq_nil_of_length_eq_zero h0
        have := ih { b with buf := d.take 1024 ++ b.buf.drop 0, lastAddr := a } (by simp [hd, hl])
        simp only [hd] at this ⊢
        simp only [specRun, hd, List.length_nil, if_true]
        generalize getNextRead _ rest = g at this ⊢
        obtain ⟨o, b', rx'⟩ := g
        cases o with
        | none => simpa using this
        | some r =>
          simp only at this ⊢
          obtain ⟨h1, h2, h3, h4, h5⟩ := this
          exact ⟨h1, h2, h3, by simp [rxFuel]; omega, h5⟩
      · simp only [h0, if_false]
        have hle : (d.take 1024).length ≤ 1024 := by simp; omega
        refine ⟨by omega, hle, ?_, ?_, ?_⟩
        · simp [hl]; omega
        · simp [rxFuel]; omega
        · simp only [specRun, h0, if_false]
          rw [List.take_left' rfl]

/-- **Reception is a function of the script.** From any state satisfying the cursor invariant,
with enough fuel, `run` yields exactly what the buffer-free specification says. -/
theorem run_eq_pending (fuel : Nat) (b : Backend) (rx : List Rx) (hinv : Inv b)
    (hm : measure b rx ≤ fuel) : run fuel b rx = .ok (pendingSpec b rx) := by
  induction fuel generalizing b rx with
  | zero =>
    have := rxFuel_pos rx
    unfold measure at hm; omega
  | succ k ih =>
    by_cases hlt : b.readUntil < b.totRead
    · exact step_pending k b rx ih hinv hlt hm
    · have hru := hinv.ru
      have heq : b.readUntil = b.totRead := by omega
      have hw : window b = [] := by simp [window, heq]
      have hps : pendingSpec b rx = specRun rx := by
        simp [pendingSpec, hw, decodeSeq]
      rw [hps]
      have hg := getNextRead_spec b rx hinv.len
      cases hgn : getNextRead b rx with
      | mk o p =>
        obtain ⟨b', rx'⟩ := p
        rw [hgn] at hg
        cases o with
        | none =>
          simp only at hg
          unfold run next
          simp [hlt, hgn, hg]
        | some r =>
          simp only at hg
          obtain ⟨h1, h2, h3, h4, h5⟩ := hg
          let b'' : Backend := { b' with totRead := r, readUntil := 0 }
          have hinv'' : Inv b'' := ⟨h3, by show 0 ≤ r; omega, h2⟩
          have hlt'' : b''.readUntil < b''.totRead := h1
          have hm'' : measure b'' rx' ≤ k + 1 := by
            unfold measure at hm ⊢
            show r - 0 + rxFuel rx' ≤ k + 1
            omega
          have hstep := step_pending k b'' rx' ih hinv'' hlt'' hm''
          have hrun : run (k + 1) b rx = run (k + 1) b'' rx' := by
            conv => lhs; unfold run next
            conv => rhs; unfold run next
            simp only [hlt, hgn, if_false, hlt'', if_true]
            rfl
          rw [hrun, hstep, h5]
          have hw'' : window b'' = b'.buf.take r := by
            show (b'.buf.drop 0).take (r - 0) = _
            simp
          have hwl : (b'.buf.take r).length = r := by simp; omega
          unfold pendingSpec
          rw [hw'', hwl]

/-- The top-level form: a fresh `Backend` over *any* 1024-byte buffer. -/
theorem run_eq_spec (buf0 : Bytes) (h : buf0.length = 1024) (rx : List Rx) (fuel : Nat)
    (hf : rxFuel rx ≤ fuel) : run fuel (Backend.new buf0) rx = .ok (specRun rx) := by
  have hinv : Inv (Backend.new buf0) := ⟨h, by simp [Backend.new], by simp [Backend.new]⟩
  have := run_eq_pending fuel (Backend.new buf0) rx hinv (by simp [measure, Backend.new]; exact hf)
  rw [this]
  simp [pendingSpec, window, Backend.new, decodeSeq]

end Portus.Ipc
