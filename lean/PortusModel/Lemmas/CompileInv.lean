import PortusModel.Lang.Compile
/-!
# Invariants of the compiler model that make every retained `panic` unreachable (C10), and the
shape of its output (used by C03 too).
-/
namespace Portus.Lang
open Portus

def flagName : Name := "__eventFlag".toList

/-! ## register-file algebra -/

theorem regGet_mem {n : Name} {r : Reg} {l : List (Name × Reg)} (h : regGet n l = some r) : (n, r) ∈ l := by
  induction l with
  | nil => simp [regGet] at h
  | cons p rest ih =>
    obtain ⟨s, x⟩ := p
    simp only [regGet] at h
    split at h
    · rename_i hs; injection h with h; subst h; subst hs; simp
    · simp [ih h]

theorem regGet_isSome_regInsert (m n : Name) (r : Reg) (l : List (Name × Reg))
    (h : (regGet m l).isSome) : (regGet m (regInsert n r l)).isSome := by
  induction l with
  | nil => simp [regGet] at h
  | cons p rest ih =>
    obtain ⟨s, x⟩ := p
    simp only [regInsert]
    split
    · simp only [regGet] at h ⊢
      split
      · simp
      · rename_i hne; simp only [hne, if_false] at h; exact ih h
    · simp only [regGet]
      split
      · simp
      · exact h

theorem regGet_isSome_regSet (m n : Name) (r : Reg) (l : List (Name × Reg))
    (h : (regGet m l).isSome) : (regGet m (regSet n r l)).isSome := by
  induction l with
  | nil => simp [regGet] at h
  | cons p rest ih =>
    obtain ⟨s, x⟩ := p
    simp only [regSet]
    split
    · rename_i hs
      simp only [regGet] at h ⊢
      split
      · simp
      · rename_i hne; simp only [hne, if_false] at h; exact h
    · simp only [regGet] at h ⊢
      split
      · simp
      · rename_i hne; simp only [hne, if_false] at h; exact ih h

theorem mem_regInsert {q : Name × Reg} {n : Name} {r : Reg} {l : List (Name × Reg)}
    (h : q ∈ regInsert n r l) : q = (n, r) ∨ q ∈ l := by
  induction l with
  | nil => simp [regInsert] at h; exact Or.inl h
  | cons p rest ih =>
    obtain ⟨s, x⟩ := p
    simp only [regInsert] at h
    split at h
    · simp only [List.mem_cons] at h ⊢
      rcases h with h | h
      · exact Or.inr (Or.inl h)
      · rcases ih h with h | h
        · exact Or.inl h
        · exact Or.inr (Or.inr h)
    · simp only [List.mem_cons] at h ⊢
      rcases h with h | h | h
      · exact Or.inl h
      · exact Or.inr (Or.inl h)
      · exact Or.inr (Or.inr h)

theorem mem_regSet {q : Name × Reg} {n : Name} {r : Reg} {l : List (Name × Reg)}
    (h : q ∈ regSet n r l) : q = (n, r) ∨ q ∈ l := by
  induction l with
  | nil => simp [regSet] at h
  | cons p rest ih =>
    obtain ⟨s, x⟩ := p
    simp only [regSet] at h
    split at h
    · rename_i hs
      simp only [List.mem_cons] at h ⊢
      rcases h with h | h
      · exact Or.inl (by rw [h, hs])
      · exact Or.inr (Or.inr h)
    · simp only [List.mem_cons] at h ⊢
      rcases h with h | h
      · exact Or.inr (Or.inl h)
      · rcases ih h with h | h
        · exact Or.inl h
        · exact Or.inr (Or.inr h)

/-! ## scope invariant -/

structure ScInv (sc : Scope) : Prop where
  flag : (sc.get flagName).isSome
  nl : sc.numLocal ≤ 255
  nonone : ∀ q ∈ sc.named, q.2 ≠ Reg.none

theorem ScInv.get_ne_none {sc : Scope} (h : ScInv sc) {n : Name} {r : Reg} (hg : sc.get n = some r) :
    r ≠ .none := h.nonone (n, r) (regGet_mem hg)

theorem ScInv_insert {sc : Scope} (h : ScInv sc) (n : Name) (r : Reg) (hr : r ≠ .none) (named' : List (Name × Reg))
    (hn : named' = regInsert n r sc.named) (nl' : Nat) (hnl : nl' ≤ 255) (a b c : Nat) (t : List Reg) :
    ScInv { uid := a, named := named', numControl := b, numLocal := nl', numPerm := c, tmp := t } := by
  subst hn
  refine ⟨?_, hnl, ?_⟩
  · exact regGet_isSome_regInsert _ _ _ _ h.flag
  · intro q hq
    rcases mem_regInsert hq with rfl | hq
    · exact hr
    · exact h.nonone q hq

theorem ScInv_new (uid : Nat) : ScInv (Scope.new uid) := by
  have e : (Scope.new uid).named = (Scope.new 0).named := rfl
  refine ⟨?_, ?_, ?_⟩
  · show (regGet flagName (Scope.new uid).named).isSome = true
    rw [e]; decide
  · show (0:Nat) ≤ 255; omega
  · rw [e]; decide

theorem ScInv_newTmp {sc : Scope} (h : ScInv sc) (t : Ty) : ScInv (sc.newTmp t).2 :=
  ⟨h.flag, h.nl, h.nonone⟩

theorem ScInv_clearTmps {sc : Scope} (h : ScInv sc) : ScInv sc.clearTmps := ⟨h.flag, h.nl, h.nonone⟩

theorem updateType_spec {sc : Scope} (h : ScInv sc) (n : Name) (t : Ty) :
    sc.updateType n t ≠ .panic ∧
    ∀ r sc', sc.updateType n t = .ok (r, sc') → ScInv sc' ∧ (isRC r = true ∨ ∃ i u, r = .local i u) := by
  unfold Scope.updateType
  have key : ∀ r, r ≠ Reg.none → ScInv { sc with named := regSet n r sc.named } := by
    intro r hr
    refine ⟨regGet_isSome_regSet _ _ _ _ h.flag, h.nl, ?_⟩
    intro q hq
    rcases mem_regSet hq with rfl | hq
    · exact hr
    · exact h.nonone q hq
  split
  · simp
  · refine ⟨by simp, ?_⟩
    intro r sc' he; simp at he; obtain ⟨rfl, rfl⟩ := he
    exact ⟨key _ (by simp), Or.inl rfl⟩
  · refine ⟨by simp, ?_⟩
    intro r sc' he; simp at he; obtain ⟨rfl, rfl⟩ := he
    exact ⟨key _ (by simp), Or.inr ⟨_, _, rfl⟩⟩
  · refine ⟨by simp, ?_⟩
    intro r sc' he; simp at he; obtain ⟨rfl, rfl⟩ := he
    exact ⟨key _ (by simp), Or.inl rfl⟩
  · simp

theorem applyUpdates_inv {sc : Scope} (h : ScInv sc) (upd : List (Name × Nat)) : ScInv (applyUpdates sc upd) := by
  induction upd generalizing sc with
  | nil => exact h
  | cons p rest ih =>
    obtain ⟨n, v⟩ := p
    simp only [applyUpdates]
    split
    · rename_i r sc' he
      exact ih ((updateType_spec h n _).2 _ _ he).1
    · exact ih h

/-! ## declarations -/

theorem incU8P_ok (a : Nat) (h : a < 255) : incU8P a = .ok (a + 1) := by
  simp [incU8P]; omega

theorem foldlM_newReport (ds : List Decl) (sc : Scope) (h : ScInv sc) (hn : sc.numPerm + ds.length ≤ 255) :
    ∃ sc', ds.foldlM (fun sc d => sc.newReport d.vol d.var d.init) sc = .ok sc' ∧ ScInv sc' ∧
      sc'.numControl = sc.numControl ∧ sc'.numLocal = sc.numLocal := by
  induction ds generalizing sc with
  | nil => exact ⟨sc, rfl, h, rfl, rfl⟩
  | cons d rest ih =>
    simp only [List.length_cons] at hn
    simp only [List.foldlM_cons, Scope.newReport]
    rw [incU8P_ok _ (by omega)]
    simp only [Out.bind_ok, Out.pure_eq]
    have hinv := ScInv_insert h d.var (.report sc.numPerm d.init d.vol) (by simp) _ rfl sc.numLocal h.nl
      sc.uid sc.numControl (sc.numPerm + 1) sc.tmp
    obtain ⟨sc', e, i, c1, c2⟩ := ih _ hinv (by simp; omega)
    exact ⟨sc', e, i, c1, c2⟩

theorem foldlM_newControl (ds : List Decl) (sc : Scope) (h : ScInv sc) (hn : sc.numControl + ds.length ≤ 255) :
    ∃ sc', ds.foldlM (fun sc d => sc.newControl d.vol d.var d.init) sc = .ok sc' ∧ ScInv sc' ∧
      sc'.numLocal = sc.numLocal := by
  induction ds generalizing sc with
  | nil => exact ⟨sc, rfl, h, rfl⟩
  | cons d rest ih =>
    simp only [List.length_cons] at hn
    simp only [List.foldlM_cons, Scope.newControl]
    rw [incU8P_ok _ (by omega)]
    simp only [Out.bind_ok, Out.pure_eq]
    have hinv := ScInv_insert h d.var (.control sc.numControl d.init d.vol) (by simp) _ rfl sc.numLocal h.nl
      sc.uid (sc.numControl + 1) sc.numPerm sc.tmp
    obtain ⟨sc', e, i, c2⟩ := ih _ hinv (by simp; omega)
    exact ⟨sc', e, i, c2⟩

/-- `declareAll` on a fresh scope: never a panic; on success the invariant holds -/
theorem declareAll_spec (uid : Nat) (ds : List Decl) :
    declareAll (Scope.new uid) ds ≠ .panic ∧
    ∀ sc, declareAll (Scope.new uid) ds = .ok sc → ScInv sc := by
  unfold declareAll
  simp only
  split
  · simp
  · rename_i hlen
    obtain ⟨sc1, e1, i1, c1, _⟩ := foldlM_newReport (ds.filter fun d => "Report.".toList.isPrefixOf d.var)
      (Scope.new uid) (ScInv_new uid) (by show 0 + _ ≤ 255; omega)
    rw [e1]
    simp only [Out.bind_ok]
    have hc : sc1.numControl = 0 := by rw [c1]; rfl
    obtain ⟨sc2, e2, i2, _⟩ := foldlM_newControl (ds.filter fun d => !("Report.".toList.isPrefixOf d.var))
      sc1 i1 (by rw [hc]; omega)
    rw [e2]
    refine ⟨by simp, ?_⟩
    intro sc he; injection he with he; subst he; exact i2

end Portus.Lang

namespace Portus.Lang
open Portus

/-! ## shape of emitted instructions -/

def okOp (o : Op) : Prop := o ≠ .and ∧ o ≠ .or

/-- an instruction the encoder accepts without panicking -/
def CleanI (i : Instr) : Prop := i.res ≠ .none ∧ i.left ≠ .none ∧ i.right ≠ .none ∧ okOp i.op

/-- a conditional/ewma placeholder still waiting for its target register -/
def HalfI (i : Instr) : Prop := i.res = .none ∧ i.left ≠ .none ∧ i.right ≠ .none ∧ okOp i.op

/-- the invariant of `compile_expr`'s result (I3/I7 of DESIGN Appendix C) -/
def Good (c : CE) : Prop :=
  (c.reg ≠ .none → ∀ i ∈ c.instrs, CleanI i) ∧
  (c.reg = .none → ∃ pre last, c.instrs = pre ++ [last] ∧ (∀ i ∈ pre, CleanI i) ∧ HalfI last)

def NoDefE : Expr → Prop
  | .sexp o l r => o ≠ .def ∧ NoDefE l ∧ NoDefE r
  | _ => True

theorem getType_none_of_num {r : Reg} (h : isNumTy r.getType = true) : r ≠ .none := by
  intro e; subst e; simp [Reg.getType, isNumTy] at h

theorem getType_none_of_bool {r : Reg} (h : isBoolTy r.getType = true) : r ≠ .none := by
  intro e; subst e; simp [Reg.getType, isBoolTy] at h

theorem isRC_ne_none {r : Reg} (h : isRC r = true) : r ≠ .none := by
  intro e; subst e; simp [isRC] at h

theorem isTIL_ne_none {r : Reg} (h : isTIL r = true) : r ≠ .none := by
  intro e; subst e; simp [isTIL] at h

theorem clean_append_one {pre : List Instr} {x : Instr} (hp : ∀ i ∈ pre, CleanI i) (hx : CleanI x) :
    ∀ i ∈ pre ++ [x], CleanI i := by
  intro i hi
  simp only [List.mem_append, List.mem_singleton] at hi
  rcases hi with hi | rfl
  · exact hp i hi
  · exact hx

theorem clean_append {a b : List Instr} (ha : ∀ i ∈ a, CleanI i) (hb : ∀ i ∈ b, CleanI i) :
    ∀ i ∈ a ++ b, CleanI i := by
  intro i hi
  simp only [List.mem_append] at hi
  rcases hi with hi | hi
  · exact ha i hi
  · exact hb i hi

theorem setLastRes_append (pre : List Instr) (last : Instr) (r : Reg) :
    setLastRes (pre ++ [last]) r = pre ++ [{ last with res := r }] := by
  simp [setLastRes]

/-- the three "result in a fresh temporary" arms share this shape -/
theorem tmpArm_good (l r : CE) (hl : Good l) (hr : Good r) (o : Op) (ho : okOp o) (t : Ty)
    (hln : l.reg ≠ .none) (hrn : r.reg ≠ .none) (hs : ScInv r.sc) :
    Good ⟨l.instrs ++ r.instrs ++ [{ res := (r.sc.newTmp t).1, op := o, left := l.reg, right := r.reg }],
          (r.sc.newTmp t).1, (r.sc.newTmp t).2⟩ ∧ ScInv (r.sc.newTmp t).2 := by
  have hres : (r.sc.newTmp t).1 ≠ Reg.none := by simp [Scope.newTmp]
  refine ⟨⟨?_, ?_⟩, ScInv_newTmp hs t⟩
  · intro _
    exact clean_append_one (clean_append (hl.1 hln) (hr.1 hrn)) ⟨hres, hln, hrn, ho⟩
  · intro h; exact absurd h hres

theorem bindTarget_spec (l r : CE) (hs : ScInv r.sc) :
    bindTarget l.reg r.reg r.sc ≠ .panic ∧
    ∀ left sc, bindTarget l.reg r.reg r.sc = .ok (left, sc) →
      ScInv sc ∧ (left ≠ .none → l.reg ≠ .none) := by
  unfold bindTarget
  split
  · rename_i s hty
    have hln : l.reg ≠ .none := by
      intro e; rw [e] at hty; simp [Reg.getType] at hty
    split
    · refine ⟨by simp, ?_⟩
      intro left sc he
      simp only [Out.ok.injEq, Prod.mk.injEq] at he
      obtain ⟨rfl, rfl⟩ := he
      exact ⟨hs, fun _ => hln⟩
    · have hu := updateType_spec hs s r.reg.getType
      refine ⟨hu.1, ?_⟩
      intro left sc he
      obtain ⟨hi, _⟩ := hu.2 _ _ he
      exact ⟨hi, fun _ => hln⟩
  · refine ⟨by simp, ?_⟩
    intro left sc he
    simp at he
    obtain ⟨rfl, rfl⟩ := he
    exact ⟨hs, fun e => e⟩

theorem bindEmit_spec (l r : CE) (hl : Good l) (hr : Good r) (left : Reg) (sc : Scope) (hsc : ScInv sc)
    (hl1 : left ≠ .none → l.reg ≠ .none) :
    bindEmit (l.instrs ++ r.instrs) left r.reg sc ≠ .panic ∧
    ∀ c, bindEmit (l.instrs ++ r.instrs) left r.reg sc = .ok c → Good c ∧ ScInv c.sc := by
  unfold bindEmit
  by_cases hrn : r.reg = .none
  · simp only [hrn, if_true]
    by_cases hrc : isRC left = true
    · simp only [hrc, if_true]
      have hleft := isRC_ne_none hrc
      obtain ⟨pre, last, hpl, hpre, hlast⟩ := hr.2 hrn
      have hgl : (l.instrs ++ r.instrs).getLast? = some last := by
        rw [hpl, ← List.append_assoc]; simp
      rw [hgl]
      simp only [hlast.1, if_true]
      refine ⟨by simp, ?_⟩
      intro c hc
      injection hc with hc
      subst hc
      refine ⟨⟨?_, fun h => absurd h hleft⟩, hsc⟩
      intro _
      rw [hpl, ← List.append_assoc, setLastRes_append]
      exact clean_append_one (clean_append (hl.1 (hl1 hleft)) hpre) ⟨hleft, hlast.2.1, hlast.2.2.1, hlast.2.2.2⟩
    · have : isRC left = false := by simpa using hrc
      simp [this]
  · simp only [hrn, if_false]
    by_cases hm : (isRC left || isTIL left) = true
    · simp only [hm, if_true]
      have hleft : left ≠ .none := by
        simp only [Bool.or_eq_true] at hm
        rcases hm with hm | hm
        · exact isRC_ne_none hm
        · exact isTIL_ne_none hm
      refine ⟨by simp, ?_⟩
      intro c hc
      injection hc with hc
      subst hc
      refine ⟨⟨?_, fun h => absurd h hleft⟩, hsc⟩
      intro _
      exact clean_append_one (clean_append (hl.1 (hl1 hleft)) (hr.1 hrn)) ⟨hleft, hleft, hrn, by simp [okOp]⟩
    · have : (isRC left || isTIL left) = false := by simpa using hm
      simp [this]

theorem combineBind_spec (l r : CE) (hl : Good l) (hr : Good r) (hs : ScInv r.sc) :
    combineBind (l.instrs ++ r.instrs) l.reg r.reg r.sc ≠ .panic ∧
    ∀ c, combineBind (l.instrs ++ r.instrs) l.reg r.reg r.sc = .ok c → Good c ∧ ScInv c.sc := by
  unfold combineBind
  obtain ⟨hnp, hok⟩ := bindTarget_spec l r hs
  cases hx : bindTarget l.reg r.reg r.sc with
  | panic => exact absurd hx hnp
  | err => simp
  | ok p =>
    obtain ⟨left, sc⟩ := p
    obtain ⟨hsc, hl1⟩ := hok left sc hx
    exact bindEmit_spec l r hl hr left sc hsc hl1

theorem combine_spec (o : Op) (ho : o ≠ .def) (l r : CE) (hl : Good l) (hr : Good r) (hs : ScInv r.sc) :
    combine o (l.instrs ++ r.instrs) l.reg r.reg r.sc ≠ .panic ∧
    ∀ c, combine o (l.instrs ++ r.instrs) l.reg r.reg r.sc = .ok c → Good c ∧ ScInv c.sc := by
  have arith : ∀ o', okOp o' →
      (if (!isNumTy l.reg.getType) = true then (Out.err : Out CE)
       else if (!isNumTy r.reg.getType) = true then .err
       else .ok ⟨l.instrs ++ r.instrs ++ [{ res := (r.sc.newTmp (.num none)).1, op := o', left := l.reg, right := r.reg }],
                 (r.sc.newTmp (.num none)).1, (r.sc.newTmp (.num none)).2⟩) ≠ .panic ∧
      ∀ c, (if (!isNumTy l.reg.getType) = true then (Out.err : Out CE)
       else if (!isNumTy r.reg.getType) = true then .err
       else .ok ⟨l.instrs ++ r.instrs ++ [{ res := (r.sc.newTmp (.num none)).1, op := o', left := l.reg, right := r.reg }],
                 (r.sc.newTmp (.num none)).1, (r.sc.newTmp (.num none)).2⟩) = .ok c → Good c ∧ ScInv c.sc := by
    intro o' ho'
    by_cases h1 : isNumTy l.reg.getType = true
    · by_cases h2 : isNumTy r.reg.getType = true
      · simp only [h1, h2, Bool.not_true, Bool.false_eq_true, if_false]
        refine ⟨by simp, ?_⟩
        intro c hc; injection hc with hc; subst hc
        exact tmpArm_good l r hl hr o' ho' _ (getType_none_of_num h1) (getType_none_of_num h2) hs
      · simp [h1, h2]
    · simp [h1]
  have cmpb : ∀ o', okOp o' →
      (if (!isNumTy l.reg.getType) = true then (Out.err : Out CE)
       else if (!isNumTy r.reg.getType) = true then .err
       else .ok ⟨l.instrs ++ r.instrs ++ [{ res := (r.sc.newTmp (.bool none)).1, op := o', left := l.reg, right := r.reg }],
                 (r.sc.newTmp (.bool none)).1, (r.sc.newTmp (.bool none)).2⟩) ≠ .panic ∧
      ∀ c, (if (!isNumTy l.reg.getType) = true then (Out.err : Out CE)
       else if (!isNumTy r.reg.getType) = true then .err
       else .ok ⟨l.instrs ++ r.instrs ++ [{ res := (r.sc.newTmp (.bool none)).1, op := o', left := l.reg, right := r.reg }],
                 (r.sc.newTmp (.bool none)).1, (r.sc.newTmp (.bool none)).2⟩) = .ok c → Good c ∧ ScInv c.sc := by
    intro o' ho'
    by_cases h1 : isNumTy l.reg.getType = true
    · by_cases h2 : isNumTy r.reg.getType = true
      · simp only [h1, h2, Bool.not_true, Bool.false_eq_true, if_false]
        refine ⟨by simp, ?_⟩
        intro c hc; injection hc with hc; subst hc
        exact tmpArm_good l r hl hr o' ho' _ (getType_none_of_num h1) (getType_none_of_num h2) hs
      · simp [h1, h2]
    · simp [h1]
  have logic : ∀ o', okOp o' →
      (if (!isBoolTy l.reg.getType) = true then (Out.err : Out CE)
       else if (!isBoolTy r.reg.getType) = true then .err
       else .ok ⟨l.instrs ++ r.instrs ++ [{ res := (r.sc.newTmp (.bool none)).1, op := o', left := l.reg, right := r.reg }],
                 (r.sc.newTmp (.bool none)).1, (r.sc.newTmp (.bool none)).2⟩) ≠ .panic ∧
      ∀ c, (if (!isBoolTy l.reg.getType) = true then (Out.err : Out CE)
       else if (!isBoolTy r.reg.getType) = true then .err
       else .ok ⟨l.instrs ++ r.instrs ++ [{ res := (r.sc.newTmp (.bool none)).1, op := o', left := l.reg, right := r.reg }],
                 (r.sc.newTmp (.bool none)).1, (r.sc.newTmp (.bool none)).2⟩) = .ok c → Good c ∧ ScInv c.sc := by
    intro o' ho'
    by_cases h1 : isBoolTy l.reg.getType = true
    · by_cases h2 : isBoolTy r.reg.getType = true
      · simp only [h1, h2, Bool.not_true, Bool.false_eq_true, if_false]
        refine ⟨by simp, ?_⟩
        intro c hc; injection hc with hc; subst hc
        exact tmpArm_good l r hl hr o' ho' _ (getType_none_of_bool h1) (getType_none_of_bool h2) hs
      · simp [h1, h2]
    · simp [h1]
  have cond : ∀ o', okOp o' →
      (if l.reg = .none ∨ r.reg = .none then (Out.err : Out CE)
       else .ok ⟨l.instrs ++ r.instrs ++ [{ res := .none, op := o', left := l.reg, right := r.reg }], .none, r.sc⟩) ≠ .panic ∧
      ∀ c, (if l.reg = .none ∨ r.reg = .none then (Out.err : Out CE)
       else .ok ⟨l.instrs ++ r.instrs ++ [{ res := .none, op := o', left := l.reg, right := r.reg }], .none, r.sc⟩) = .ok c →
        Good c ∧ ScInv c.sc := by
    intro o' ho'
    by_cases h : l.reg = .none ∨ r.reg = .none
    · simp [h]
    · simp only [h, if_false]
      have h1 : l.reg ≠ .none := fun e => h (Or.inl e)
      have h2 : r.reg ≠ .none := fun e => h (Or.inr e)
      refine ⟨by simp, ?_⟩
      intro c hc; injection hc with hc; subst hc
      refine ⟨⟨fun hh => absurd rfl hh, fun _ => ⟨l.instrs ++ r.instrs, _, rfl, clean_append (hl.1 h1) (hr.1 h2), rfl, h1, h2, ho'⟩⟩, hs⟩
  cases o with
  | add => exact arith .add (by simp [okOp])
  | div => exact arith .div (by simp [okOp])
  | max => exact arith .max (by simp [okOp])
  | maxWrap => exact arith .maxWrap (by simp [okOp])
  | min => exact arith .min (by simp [okOp])
  | mul => exact arith .mul (by simp [okOp])
  | sub => exact arith .sub (by simp [okOp])
  | and => exact logic .mul (by simp [okOp])
  | or => exact logic .add (by simp [okOp])
  | equiv => exact cmpb .equiv (by simp [okOp])
  | gt => exact cmpb .gt (by simp [okOp])
  | lt => exact cmpb .lt (by simp [okOp])
  | bind => exact combineBind_spec l r hl hr hs
  | ewma => exact cond .ewma (by simp [okOp])
  | «if» => exact cond .if (by simp [okOp])
  | notIf => exact cond .notIf (by simp [okOp])
  | «def» => exact absurd rfl ho

end Portus.Lang

namespace Portus.Lang
open Portus

theorem compileAtom_spec (p : Prim) (sc : Scope) (hs : ScInv sc) :
    compileAtom p sc ≠ .panic ∧ ∀ c, compileAtom p sc = .ok c → Good c ∧ ScInv c.sc ∧ c.instrs = [] := by
  unfold compileAtom
  cases p with
  | bool b =>
    refine ⟨by simp, ?_⟩
    intro c hc; injection hc with hc; subst hc
    exact ⟨⟨fun _ i hi => by simp at hi, fun h => by simp at h⟩, hs, rfl⟩
  | num n =>
    refine ⟨by simp, ?_⟩
    intro c hc; injection hc with hc; subst hc
    exact ⟨⟨fun _ i hi => by simp at hi, fun h => by simp at h⟩, hs, rfl⟩
  | name n =>
    simp only
    cases hg : sc.get n with
    | some r =>
      refine ⟨by simp, ?_⟩
      intro c hc; injection hc with hc; subst hc
      have hr := hs.get_ne_none hg
      exact ⟨⟨fun _ i hi => by simp at hi, fun h => absurd h hr⟩, hs, rfl⟩
    | none =>
      simp only
      by_cases h255 : sc.numLocal = 255
      · simp [h255]
      · simp only [h255, if_false, Scope.newLocal]
        have := hs.nl
        rw [incU8P_ok _ (by omega)]
        simp only [Out.bind_ok, Out.pure_eq]
        refine ⟨by simp, ?_⟩
        intro c hc; injection hc with hc; subst hc
        refine ⟨⟨fun _ i hi => by simp at hi, fun h => by simp at h⟩, ?_, rfl⟩
        exact ScInv_insert hs n (.local sc.numLocal (.name n)) (by simp) _ rfl (sc.numLocal + 1) (by omega)
          sc.uid sc.numControl sc.numPerm sc.tmp

/-- **`compile_expr` never panics** on an expression the parser can produce, and its result has the
placeholder discipline (`Good`); by structural induction over the expression. -/
theorem compileExpr_spec (e : Expr) (hd : NoDefE e) (sc : Scope) (hs : ScInv sc) :
    compileExpr e sc ≠ .panic ∧ ∀ c, compileExpr e sc = .ok c → Good c ∧ ScInv c.sc := by
  induction e generalizing sc with
  | atom p =>
    simp only [compileExpr]
    obtain ⟨h1, h2⟩ := compileAtom_spec p sc hs
    exact ⟨h1, fun c hc => ⟨(h2 c hc).1, (h2 c hc).2.1⟩⟩
  | cmd c => simp [compileExpr]
  | none => simp [compileExpr]
  | sexp o le re ihl ihr =>
    obtain ⟨ho, hdl, hdr⟩ := hd
    simp only [compileExpr]
    obtain ⟨l1, l2⟩ := ihl hdl sc hs
    cases hl : compileExpr le sc with
    | panic => exact absurd hl l1
    | err => simp
    | ok l =>
      obtain ⟨gl, sl⟩ := l2 l hl
      simp only [Out.bind_ok]
      obtain ⟨r1, r2⟩ := ihr hdr l.sc sl
      cases hr : compileExpr re l.sc with
      | panic => exact absurd hr r1
      | err => simp
      | ok r =>
        obtain ⟨gr, sr⟩ := r2 r hr
        simp only [Out.bind_ok]
        exact combine_spec o ho l r gl gr sr

theorem clean_setLastRes {is : List Instr} (h : ∀ i ∈ is, CleanI i) (r : Reg) (hr : r ≠ .none) :
    ∀ i ∈ setLastRes is r, CleanI i := by
  rcases List.eq_nil_or_concat is with rfl | ⟨pre, last, rfl⟩
  · simp [setLastRes]
  · rw [List.concat_eq_append, setLastRes_append]
    have hl := h last (by simp)
    exact clean_append_one (fun i hi => h i (by simp [hi])) ⟨hr, hl.2.1, hl.2.2.1, hl.2.2.2⟩

theorem compileFlag_spec (flag : Expr) (hd : NoDefE flag) (sc : Scope) (hs : ScInv sc) :
    compileFlag flag sc ≠ .panic ∧
    ∀ is sc', compileFlag flag sc = .ok (is, sc') → (∀ i ∈ is, CleanI i) ∧ ScInv sc' := by
  unfold compileFlag
  obtain ⟨h1, h2⟩ := compileExpr_spec flag hd sc.clearTmps (ScInv_clearTmps hs)
  cases hc : compileExpr flag sc.clearTmps with
  | panic => exact absurd hc h1
  | err => simp
  | ok c =>
    obtain ⟨gc, sc2⟩ := h2 c hc
    simp only [Out.bind_ok]
    have hf := sc2.flag
    cases hg : c.sc.get "__eventFlag".toList with
    | none =>
      have : (c.sc.get flagName).isSome = true := hf
      rw [show flagName = "__eventFlag".toList from rfl, hg] at this
      simp at this
    | some fr =>
      have hfr : fr ≠ .none := sc2.get_ne_none hg
      simp only [unwrapP, Out.bind_ok]
      split
      · rename_i i b hreg
        have hcl := gc.1 (by rw [hreg]; simp)
        split
        · simp
        · refine ⟨by simp, ?_⟩
          intro is sc' he
          simp at he
          obtain ⟨rfl, rfl⟩ := he
          exact ⟨clean_setLastRes hcl fr hfr, sc2⟩
      · rename_i b hreg
        have hcl := gc.1 (by rw [hreg]; simp)
        refine ⟨by simp, ?_⟩
        intro is sc' he
        simp at he
        obtain ⟨rfl, rfl⟩ := he
        exact ⟨clean_append_one hcl ⟨hfr, hfr, by rw [hreg]; simp, by simp [okOp]⟩, sc2⟩
      · simp

theorem compileBody_spec (body : List Expr) (hd : ∀ e ∈ body, NoDefE e) (sc : Scope) (hs : ScInv sc) :
    compileBody body sc ≠ .panic ∧
    ∀ is sc', compileBody body sc = .ok (is, sc') → (∀ i ∈ is, CleanI i) ∧ ScInv sc' := by
  induction body generalizing sc with
  | nil =>
    refine ⟨by simp [compileBody], ?_⟩
    intro is sc' he
    simp [compileBody] at he
    obtain ⟨rfl, rfl⟩ := he
    exact ⟨by simp, hs⟩
  | cons e rest ih =>
    have hrest : ∀ x ∈ rest, NoDefE x := fun x hx => hd x (by simp [hx])
    simp only [compileBody]
    split
    · exact ih hrest sc hs
    · obtain ⟨h1, h2⟩ := compileExpr_spec e (hd e (by simp)) sc.clearTmps (ScInv_clearTmps hs)
      cases hc : compileExpr e sc.clearTmps with
      | panic => exact absurd hc h1
      | err => simp
      | ok c =>
        obtain ⟨gc, sc2⟩ := h2 c hc
        simp only [Out.bind_ok]
        split
        · simp
        · rename_i hreg
          obtain ⟨t1, t2⟩ := ih hrest c.sc sc2
          cases ht : compileBody rest c.sc with
          | panic => exact absurd ht t1
          | err => simp
          | ok p =>
            obtain ⟨is, sc'⟩ := p
            obtain ⟨ci, si⟩ := t2 is sc' ht
            simp only [Out.bind_ok, Out.pure_eq]
            refine ⟨by simp, ?_⟩
            intro is2 sc3 he
            simp at he
            obtain ⟨rfl, rfl⟩ := he
            exact ⟨clean_append (gc.1 hreg) ci, si⟩

def NoDefEv (ev : Event) : Prop := NoDefE ev.flag ∧ ∀ e ∈ ev.body, NoDefE e

theorem compileEvents_spec (evs : List Event) (hd : ∀ ev ∈ evs, NoDefEv ev) (idx : Nat) (sc : Scope)
    (hs : ScInv sc) :
    compileEvents evs idx sc ≠ .panic ∧
    ∀ cp, compileEvents evs idx sc = .ok cp → (∀ i ∈ cp.instrs, CleanI i) ∧ ScInv cp.sc := by
  induction evs generalizing idx sc with
  | nil =>
    refine ⟨by simp [compileEvents], ?_⟩
    intro cp he
    simp [compileEvents] at he
    subst he
    exact ⟨by simp, hs⟩
  | cons ev rest ih =>
    have hrest : ∀ x ∈ rest, NoDefEv x := fun x hx => hd x (by simp [hx])
    obtain ⟨hdf, hdb⟩ := hd ev (by simp)
    simp only [compileEvents]
    obtain ⟨f1, f2⟩ := compileFlag_spec ev.flag hdf sc hs
    cases hf : compileFlag ev.flag sc with
    | panic => exact absurd hf f1
    | err => simp
    | ok p =>
      obtain ⟨fi, sc1⟩ := p
      obtain ⟨cf, s1⟩ := f2 fi sc1 hf
      simp only [Out.bind_ok]
      obtain ⟨b1, b2⟩ := compileBody_spec ev.body hdb sc1 s1
      cases hb : compileBody ev.body sc1 with
      | panic => exact absurd hb b1
      | err => simp
      | ok q =>
        obtain ⟨bi, sc2⟩ := q
        obtain ⟨cb, s2⟩ := b2 bi sc2 hb
        simp only [Out.bind_ok]
        obtain ⟨t1, t2⟩ := ih hrest (idx + fi.length + bi.length) sc2 s2
        cases ht : compileEvents rest (idx + fi.length + bi.length) sc2 with
        | panic => exact absurd ht t1
        | err => simp
        | ok tail =>
          obtain ⟨ct, st⟩ := t2 tail ht
          simp only [Out.bind_ok, Out.pure_eq]
          refine ⟨by simp, ?_⟩
          intro cp he
          injection he with he
          subst he
          exact ⟨clean_append (clean_append cf cb) ct, st⟩

theorem defInstrs_clean (l : List (Name × Reg)) : ∀ i ∈ defInstrs l, CleanI i := by
  induction l with
  | nil => simp [defInstrs]
  | cons p rest ih =>
    obtain ⟨n, reg⟩ := p
    simp only [defInstrs]
    split <;> (try exact ih)
    all_goals
      intro i hi
      simp only [List.mem_cons] at hi
      rcases hi with rfl | hi
      · exact ⟨by simp, by simp, by simp, by simp [okOp]⟩
      · exact ih i hi

theorem compileProg_spec (evs : List Event) (hd : ∀ ev ∈ evs, NoDefEv ev) (sc : Scope) (hs : ScInv sc) :
    compileProg evs sc ≠ .panic ∧
    ∀ bin sc', compileProg evs sc = .ok (bin, sc') → (∀ i ∈ bin.instrs, CleanI i) ∧ ScInv sc' := by
  unfold compileProg
  dsimp only
  obtain ⟨h1, h2⟩ := compileEvents_spec evs hd (defInstrs sc.named).length sc hs
  cases hc : compileEvents evs (defInstrs sc.named).length sc with
  | panic => exact absurd hc h1
  | err => simp
  | ok cp =>
    obtain ⟨c, s⟩ := h2 cp hc
    simp only [Out.bind_ok, Out.pure_eq]
    refine ⟨by simp, ?_⟩
    intro bin sc' he
    simp at he
    obtain ⟨rfl, rfl⟩ := he
    exact ⟨clean_append (defInstrs_clean _) c, s⟩

/-! ## the encoder never panics on clean instructions -/

theorem Reg.serialize_no_panic {r : Reg} (h : r ≠ .none) : r.serialize ≠ .panic := by
  unfold Reg.serialize
  cases r <;> simp [Reg.classIdx] at * <;> (try split) <;> simp

theorem Instr.serialize_no_panic {i : Instr} (h : CleanI i) : i.serialize ≠ .panic := by
  obtain ⟨h1, h2, h3, h4, h5⟩ := h
  have ho : serializeOp i.op ≠ .panic := by
    cases ho : i.op <;> simp [serializeOp, unreachableP] <;> simp_all
  have r1 := Reg.serialize_no_panic h1
  have r2 := Reg.serialize_no_panic h2
  have r3 := Reg.serialize_no_panic h3
  unfold Instr.serialize
  cases e0 : serializeOp i.op <;> cases e1 : i.res.serialize <;> cases e2 : i.left.serialize <;>
    cases e3 : i.right.serialize <;> simp_all

theorem serializeInstrs_no_panic (is : List Instr) (h : ∀ i ∈ is, CleanI i) : serializeInstrs is ≠ .panic := by
  induction is with
  | nil => simp [serializeInstrs]
  | cons i rest ih =>
    simp only [serializeInstrs]
    have h1 := Instr.serialize_no_panic (h i (by simp))
    have h2 := ih (fun x hx => h x (by simp [hx]))
    cases e1 : i.serialize <;> cases e2 : serializeInstrs rest <;> simp_all

theorem Bin.serialize_no_panic (b : Bin) (h : ∀ i ∈ b.instrs, CleanI i) : b.serialize ≠ .panic := by
  unfold Bin.serialize
  have := serializeInstrs_no_panic b.instrs h
  cases e : serializeInstrs b.instrs <;> simp_all

end Portus.Lang
